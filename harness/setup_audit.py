"""Run by MANIFEST.setup_cmd after `lake build`: pre-compute the audit cache of every property."""
import json
import sys
from pathlib import Path

sys.path.insert(0, str(Path(__file__).resolve().parent))
import audit  # noqa: E402
from common import LEAN  # noqa: E402

ob = json.loads((LEAN / "obligations.json").read_text())
bad = 0
for prop in sorted(ob):
    r = audit.audit(prop, force=True)
    print(prop, f"{r['discharged']}/{r['obligations']}", "forbidden:", r.get("forbidden_hits"))
    for t in r["theorems"]:
        if not t["ok"]:
            print("  NOT OK:", t)
            bad += 1
sys.exit(1 if bad else 0)
