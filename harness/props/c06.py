"""C06 — KSWIN and STEPD apply their documented window tests."""
from __future__ import annotations

import itertools
import math

import corr
import dets
import gen
from common import Outcome, np, rng_for

RULE_ADDENDA = ('windows of 100-140 with test samples > 50 and threshold-adjacent alphas; KSWIN seeds in fresh interpreters; STEPD with uint8/int8 indicators and 33 500+ predictions')
LEVEL = "proof"
SHRINK_KEYS = ("stream",)
EXPLANATION = ("Theorems (Lean): KSWIN window = last min(t,W) values, drift iff ksP(sample, newest) <= alpha for the drawn tape, all-/none-reject corollaries, "
               "determinism in (stream, tape); STEPD counts and the continuity-corrected two-proportion rule. This run reproduces NumPy's draws, "
               "enumerates every possible sub-sample for small windows, re-runs equal seeds, and evaluates STEPD's rule with scipy's normal sf.")
ASSUMPTIONS = ["p-values within relative 1e-9 of the significance level are excluded", "ks_2samp itself is covered by C11's model (exact p for r <= 10000)"]

from scipy.stats import ks_2samp, norm  # noqa: E402
import frouros.detectors.concept_drift as cd  # noqa: E402


def near(a, b):
    return abs(a - b) <= 1e-9 * max(1.0, abs(a), abs(b))


def spied_sample(run, newest: list):
    """the sample the detector handed to `ks_2samp` in its last update (observed at the library boundary, `dets.KS_CALLS`), or None when it made no single KS test
    with the newest values as one of the two arguments"""
    c = getattr(run, "ks_call", None)
    if not c:
        return None
    a, b = c
    nw = [float(v) for v in newest]
    if b == nw:
        return a
    if a == nw:
        return b
    return None


def kswin_sensitive(out: Outcome, rng, p: dict, xs: list, runners: list) -> None:
    """threshold-adjacent configurations: KSWIN's p-values do not depend on alpha (the window is never cut), so a first run yields the exact
    p-value of every step; alpha is then set 3% above and 3% below the p-value of one step and the run repeated with the same generator
    state - the verdict at that step must flip accordingly, i.e. any change of the p-value by a few percent becomes visible"""
    fp = dets.full_params("KSWIN", p)
    W, r = fp["min_num_instances"], fp["num_test_instances"]
    np_seed = rng.randint(0, 2**31 - 1)
    probe = dets.Runner("a", "KSWIN", p)
    if probe.det is None:
        return
    np.random.seed(np_seed)
    pvals = {}
    for t, x in enumerate(xs, 1):
        probe.update(x)
        if t >= W and "t=" in probe.lines[-1]:
            win = xs[t - W: t]
            tape = [int(i) for i in probe.lines[-1].split("t=")[1].split(",")]
            smp = spied_sample(probe, win[W - r:])
            if smp is None:
                smp = [win[: W - r][i] for i in tape]
            pvals[t] = float(ks_2samp(np.array(smp), np.array(win[W - r:]), alternative="two-sided", method="auto").pvalue)
    cand = [t for t, q in pvals.items() if 1e-6 < q < 0.9]
    if not cand:
        return
    t_star = rng.choice(cand)
    for factor in (1.03, 0.97):
        q = dict(p, alpha=pvals[t_star] * factor)
        run = dets.Runner("a", "KSWIN", q)      # (constructing the configuration re-seeds NumPy's generator: seed afterwards)
        np.random.seed(np_seed)
        for t, x in enumerate(xs[:t_star], 1):
            run.update(x)
        rep = {"class": "KSWIN", "params": q, "stream": xs[:t_star], "step": t_star, "numpy_seed": np_seed, "kind": "sensitive"}
        want = factor > 1
        smp = spied_sample(run, xs[t_star - r: t_star]) if run.err is None else None
        if smp is not None:
            # judged on the sample the detector actually tested, whatever generator it came from
            p2 = float(ks_2samp(np.array(smp), np.array(xs[t_star - r: t_star]), alternative="two-sided", method="auto").pvalue)
            if p2 != pvals[t_star]:
                out.count("kswin_sensitive_sample_not_reproduced")
                want = None if near(p2, q["alpha"]) else (p2 <= q["alpha"])
            if want is not None and bool(run.det.drift) != want:
                out.violation(f"KSWIN: the KS p-value of the sample the detector tested at step {t_star} is {p2!r}, alpha={q['alpha']!r} "
                              f"({'3% above' if factor > 1 else '3% below'} the p-value of the first run), drift={bool(run.det.drift)}", rep)
        elif run.err is None and bool(run.det.drift) != want:
            (out.violation if run.tape_ok else out.mismatch)(f"KSWIN: with alpha set {'above' if want else 'below'} the exact KS p-value {pvals[t_star]!r} of step {t_star} (alpha={q['alpha']!r}) "
                          f"drift={bool(run.det.drift)}", rep)
        runners.append(run)
        out.case({"class": "KSWIN", "sensitive": factor, "W": W, "r": r, "t": t_star}, nontrivial=True)


def kswin_case(out: Outcome, rng, p: dict, xs: list, runners: list) -> None:
    fp = dets.full_params("KSWIN", p)
    W, r, alpha = fp["min_num_instances"], fp["num_test_instances"], fp["alpha"]
    run = dets.Runner("a", "KSWIN", p)
    if run.det is None:
        return
    d = run.det
    np.random.seed(rng.randint(0, 2**31 - 1))
    fired = False
    cur: list = []          # the values since the last reset() ("r" in the stream): the window rule restarts there
    for step, x in enumerate(xs, 1):
        rep = {"class": "KSWIN", "params": p, "stream": xs[:step], "step": step}
        if x == "r":
            run.reset()
            cur = []
            out.count("kswin_resets_inside_streams")
            if len(d.window) != 0 or d.drift:
                out.violation(f"KSWIN: after reset() the window holds {len(d.window)} values, drift={bool(d.drift)}", rep)
                break
            continue
        run.update(x)
        cur.append(x)
        t = len(cur)
        if run.err is not None:
            out.violation(f"KSWIN: update raised {type(run.err).__name__}: {run.err}", rep)
            break
        want_win = cur[max(0, t - W): t]
        if [float(v) for v in d.window] != [float(v) for v in want_win]:
            out.violation(f"KSWIN: window does not hold exactly the last min(t, {W}) values at step {t}", rep)
            break
        if t < W:
            if d.drift:
                out.violation(f"KSWIN: drift before the window is full (step {t})", rep)
                break
            continue
        older, newest = want_win[: W - r], want_win[W - r:]
        tape = [int(i) for i in run.lines[-1].split("t=")[1].split(",")]
        # the sample the detector ACTUALLY tested (seen at the call of `ks_2samp`): the clauses of the property are decided on it, whatever generator drew it -
        # "an equally sized sample drawn WITHOUT REPLACEMENT from the OLDER ones", and "drift iff its KS p-value against the newest values is <= alpha"
        smp = spied_sample(run, newest)
        if smp is not None:
            from collections import Counter
            have, pool = Counter(smp), Counter(float(v) for v in older)
            if len(smp) != r:
                out.violation(f"KSWIN: the sample tested at step {t} has {len(smp)} values, num_test_instances={r}", rep)
                break
            if any(have[v] > pool.get(v, 0) for v in have):
                out.violation(f"KSWIN: the sample tested at step {t} is not drawn without replacement from the {len(older)} older values of the window "
                              f"(a value occurs more often in the sample than among them)", rep)
                break
            ps = float(ks_2samp(np.array(smp), np.array(newest), alternative="two-sided", method="auto").pvalue)
            if not near(ps, alpha) and bool(d.drift) != (ps <= alpha):
                out.violation(f"KSWIN: drift={bool(d.drift)} at step {t} but the two-sided KS p-value of (the sample the detector tested, newest {r}) is {ps!r} vs alpha={alpha}", rep)
                break
            out.count("kswin_steps_judged_on_the_tested_sample")
            if sorted(smp) != sorted(float(older[i]) for i in tape):
                # the tape (NumPy's global generator replayed as the current code uses it) is the MODEL's tie to this code, not a clause of the property
                if not getattr(run, "_tape_note", False):
                    run._tape_note = True
                    out.mismatch(f"KSWIN: the sample tested at step {t} is not the one `np.random.choice(n_old, r, replace=False)` gives at the state of NumPy's global "
                                 "generator (the model's tape): the code draws its sample in another way", rep)
        pval = float(ks_2samp(np.array([older[i] for i in tape]), np.array(newest), alternative="two-sided", method="auto").pvalue)
        if smp is None and not near(pval, alpha) and bool(d.drift) != (pval <= alpha):
            # WHICH sample is drawn is not part of the property (it is decided "independently of which random sample is drawn"): this expectation replays NumPy's
            # global generator as the current code uses it - a disagreement is a break of that correspondence, the sample-independent clauses are judged below
            (out.violation if run.tape_ok else out.mismatch)(
                f"KSWIN: drift={bool(d.drift)} at step {t} but the KS p-value of (the sample drawn from NumPy's global generator, newest {r}) is {pval!r} vs alpha={alpha}"
                + ("" if run.tape_ok else " - the global generator did not advance as `choice(n_old, r, replace=False)` advances it: the code draws its sample in another way, and makes no single KS test that could be observed"), rep)
            break
        fired = fired or bool(d.drift)
        if math.comb(len(older), r) <= 200:
            ps = [float(ks_2samp(np.array(c), np.array(newest), alternative="two-sided", method="auto").pvalue) for c in itertools.combinations(older, r)]
            if not any(near(q, alpha) for q in ps):
                if all(q <= alpha for q in ps) and not d.drift:
                    out.violation(f"KSWIN: every possible sample is rejected at step {t} but no drift is reported", rep)
                    break
                if all(q > alpha for q in ps) and d.drift:
                    out.violation(f"KSWIN: no possible sample is rejected at step {t} but drift is reported", rep)
                    break
                out.count("kswin_steps_decided_independently_of_sample" if (all(q <= alpha for q in ps) or all(q > alpha for q in ps)) else "kswin_steps_sample_dependent")
    runners.append(run)
    out.case({"class": "KSWIN", "params": p, "n": len(xs), "h": hash(tuple(xs)) & 0xFFFFFF}, nontrivial=fired)


def with_resets(rng, xs: list, W: int) -> list:
    """update ... reset() ... update: a reset somewhere, then more than W further values so that the window must fill, stay at W values and slide again"""
    k = rng.randint(1, len(xs))
    tail = [rng.gauss(rng.choice([0.0, 2.0]), 1.0) for _ in range(W + rng.randint(2, W + 5))]
    ys = xs[:k] + ["r"] + tail
    if rng.random() < 0.4:
        ys.insert(rng.randint(k + 1, len(ys)), "r")
        ys += [rng.gauss(0.0, 1.0) for _ in range(W + 3)]
    return ys


def kswin_seed_case(out: Outcome, rng, seed, xs: list) -> None:
    outs = []
    for _ in range(2):
        d = cd.KSWIN(config=cd.KSWINConfig(alpha=0.2, seed=seed, min_num_instances=12, num_test_instances=4))
        o = []
        for x in xs:
            d.update(value=x)
            o.append(bool(d.drift))
        outs.append(o)
        np.random.random(rng.randint(1, 5))   # other use of the generator between the two runs
    if outs[0] != outs[1]:
        t = next(i for i, (a, b) in enumerate(zip(*outs)) if a != b)
        out.violation(f"KSWIN: two runs constructed with seed={seed} disagree at step {t + 1}", {"class": "KSWIN", "seed": seed, "stream": xs})
    out.case({"class": "KSWIN", "seed": seed, "n": len(xs)}, nontrivial=any(outs[0]))


def kswin_seed_across_processes(out: Outcome, seed, xs: list) -> None:
    """`seed` makes a run repeatable - also from one interpreter to the next (each fresh interpreter has its own string-hash salt, object addresses, ...)"""
    import json
    import subprocess
    import sys
    from common import REPO
    code = ("import sys, json; sys.path.insert(0, %r); \n"
            "import frouros.detectors.concept_drift as cd\n"
            "req = json.loads(sys.stdin.read())\n"
            "d = cd.KSWIN(config=cd.KSWINConfig(alpha=0.2, seed=req['seed'], min_num_instances=12, num_test_instances=4))\n"
            "o = []\n"
            "for x in req['stream']:\n"
            "    d.update(value=x); o.append(bool(d.drift))\n"
            "print(json.dumps(o))\n") % str(REPO)
    outs = []
    for _ in range(2):
        r = subprocess.run([sys.executable, "-c", code], input=json.dumps({"seed": seed, "stream": xs}), capture_output=True, text=True, timeout=300)
        if r.returncode != 0:
            out.notes.append("fresh-interpreter KSWIN run failed: " + r.stderr[-200:])
            return
        outs.append(json.loads(r.stdout))
    d = cd.KSWIN(config=cd.KSWINConfig(alpha=0.2, seed=seed, min_num_instances=12, num_test_instances=4))
    here = []
    for x in xs:
        d.update(value=x)
        here.append(bool(d.drift))
    if not (outs[0] == outs[1] == here):
        out.violation(f"KSWIN: runs constructed with seed={seed} in different interpreter processes disagree", {"class": "KSWIN", "seed": seed, "stream": xs, "kind": "processes"})
    out.case({"class": "KSWIN", "seed": seed, "processes": 3}, nontrivial=any(here))


def stepd_case(out: Outcome, p: dict, xs: list, runners: list, cast=None) -> None:
    fp = dets.full_params("STEPD", p)
    W, ad, aw = fp["min_num_instances"], fp["alpha_d"], fp["alpha_w"]
    run = dets.Runner("a", "STEPD", p)
    if run.det is None:
        return
    if cast is not None:
        run.cast = cast
    fired = False
    full, xs = xs, []
    for k, x in enumerate(full):
        if x == "r":          # a reset: the rule restarts on the values that follow
            run.reset()
            xs = []
            continue
        xs.append(x)
        t = len(xs)
        run.update(x)
        rep = {"class": "STEPD", "params": p, "stream": full[: k + 1], "step": t}
        if run.err is not None:
            out.violation(f"STEPD: update raised {type(run.err).__name__}: {run.err}", rep)
            break
        got = dets.flags("STEPD", run.det)
        if t < 2 * W:
            want = (False, False)
        else:
            nw, no = W, t - W
            cw, co = sum(xs[t - W: t]), sum(xs[: t - W])
            ph = (cw + co) / t
            inv = 1 / no + 1 / nw
            den = math.sqrt(ph * (1 - ph) * inv)
            pv = 1.0 if den == 0 else float(norm.sf((abs(co / no - cw / nw) - 0.5 * inv) / den))
            if near(pv, ad) or near(pv, aw):
                out.count("stepd_near_threshold_steps_skipped")
                break
            want = (True, False) if pv < ad else (False, pv < aw)
        fired = fired or any(got)
        if got != want:
            out.violation(f"STEPD: (drift,warning)={got} at step {t}, the one-sided two-proportion test gives {want}", rep)
            break
    runners.append(run)
    out.case({"class": "STEPD", "params": p, "n": len(full), "h": hash(tuple(full)) & 0xFFFFFF}, nontrivial=fired)


def run(out: Outcome) -> None:
    rng = rng_for(out.seed, "C06")
    thorough = out.tier == "thorough"
    out.rule = ("KSWIN: random accepted (alpha, W, r) x real streams with shifts/ties, draws reproduced from the generator state, all sub-samples enumerated when "
                "C(W-r, r) <= 200, equal-seed re-runs (seeds incl. 0); STEPD: random configs x 0/1 accuracy streams; non-trivial = a flag raised")
    runners: list = []
    n = 80 if thorough else 20
    for _ in range(n):
        p = gen.rand_params(rng, "KSWIN")
        if not p:
            p = {"alpha": 0.01, "min_num_instances": 20, "num_test_instances": 5}
        xs = gen.real_stream(rng, rng.randint(p["min_num_instances"], 4 * p["min_num_instances"] + 20))
        if _ % 3 == 0:
            xs = with_resets(rng, xs, p["min_num_instances"])
        kswin_case(out, rng, p, xs, runners)
    for i in range(16 if thorough else 6):
        p = gen.rand_params(rng, "KSWIN") or {"alpha": 0.01, "min_num_instances": 20, "num_test_instances": 5}
        if i % 2 == 0:
            n_w = rng.choice([104, 120, 140])
            p = {"alpha": 0.01, "min_num_instances": n_w, "num_test_instances": rng.randint(51, n_w // 2)}
        kswin_sensitive(out, rng, p, gen.real_stream(rng, p["min_num_instances"] + rng.randint(5, 40)), runners)
    # test samples of hundreds of values (binomial coefficients C(2r, r) beyond the range of a double from r = 515 on): a stationary stretch, then a shift that
    # the KS test of the drawn sample rejects with p ~ 1e-20 .. 1e-100; judged by the property's oracle on the replayed draws
    for r in ([200, 600, 1200] if thorough else [rng.choice([200, 600]), rng.choice([600, 1200])]):
        W = rng.randint(2 * r, 3 * r)
        xs = [rng.gauss(0.0, 1.0) for _ in range(W + rng.randint(3, 12))] + [rng.gauss(rng.choice([1.2, 1.5]), 1.0) for _ in range(r // (2 if thorough else 3))]
        big: list = []
        kswin_case(out, rng, {"alpha": rng.choice([0.001, 0.01]), "min_num_instances": W, "num_test_instances": r}, xs, big)
        out.count("kswin_large_test_samples")
    for seed in [0, 1, 31, 2**31 - 5] + ([7, 12345] if thorough else []):
        kswin_seed_case(out, rng, seed, [rng.gauss(0.9 * math.sin(t / 6.0), 1.0) for t in range(220)])     # (a wandering level: most verdicts depend on which older values are drawn)
    # (a slowly wandering level: at most steps the verdict depends on WHICH older values were drawn, so two runs that draw differently cannot agree by luck)
    for seed_x in (0, rng.choice([5, 12345])):       # (the falsy seed in every run)
        kswin_seed_across_processes(out, seed_x, [rng.gauss(0.9 * math.sin(t / 6.0), 1.0) for t in range(400)])
    for _ in range(3 * n):
        p = gen.rand_params(rng, "STEPD")
        xs = [1 - v for v in gen.bernoulli_stream(rng, rng.randint(10, 300))]
        if rng.random() < 0.4:     # histories with resets at arbitrary points (after the window wrapped, mid-window, ...)
            for _ in range(rng.randint(1, 3)):
                xs.insert(rng.randint(1, len(xs)), "r")
        stepd_case(out, p, xs, runners)
    # constant and near-perfect accuracy streams (the repaired abs() defect lives here)
    for c in (0, 1):
        stepd_case(out, {"min_num_instances": 5}, [c] * 40, runners)
    stepd_case(out, {"min_num_instances": 10}, [1] * 35 + [0] + [1] * 30, runners)
    # compact NumPy dtypes for the 0/1 accuracy indicators, beyond the range of the dtype (more than 127 / 255 correct predictions)
    for cast in ("uint8", "int8", "int64"):
        xs = [1 if rng.random() < 0.93 else 0 for _ in range(rng.randint(420, 600))] + [1 if rng.random() < 0.5 else 0 for _ in range(120)]
        stepd_case(out, {"min_num_instances": rng.choice([20, 30])}, xs, runners, cast=cast)
    # tens of thousands of correct predictions before the change (counters beyond 2^15)
    for _ in range(2 if thorough else 1):
        n_long = rng.randint(33500, 36000)
        xs = [1 if rng.random() < 0.985 else 0 for _ in range(n_long)] + [1 if rng.random() < 0.6 else 0 for _ in range(200)]
        stepd_case(out, {"min_num_instances": 30}, xs, runners)
    corr.compare_batch(out, runners)


def replay(out: Outcome, payload: dict) -> None:
    runners: list = []
    rng = rng_for(out.seed, "C06r")
    if payload.get("class") == "STEPD":
        stepd_case(out, payload["params"], payload["stream"], runners)
    elif "seed" in payload:
        kswin_seed_case(out, rng, payload["seed"], payload["stream"])
    else:
        kswin_case(out, rng, payload["params"], payload["stream"], runners)
    corr.compare_batch(out, runners)
