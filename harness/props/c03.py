"""C03 — DDM, EDDM, ECDD-WT and RDDM follow their published error-rate decision rules."""
from __future__ import annotations

import itertools
import math

import corr
import dets
import gen
from common import Outcome, rng_for

RULE_ADDENDA = ('streams of 4 300-5 200 updates; RDDM with its default sizes (min_concept_size 7000); a theorem witness replayed on the implementation')
LEVEL = "proof"
SHRINK_KEYS = ("stream",)
EXPLANATION = ("Theorems relate the incremental model to the non-incremental published rules; this run evaluates those rules "
               "(written independently in Python, non-incrementally) on the real detectors and ties the model to /repo.")
ASSUMPTIONS = ["comparisons within relative margin 1e-9 of a tie end the trace (the property excludes numerically tied comparisons)"]
EPS = 1e-9


def near(a: float, b: float) -> bool:
    return abs(a - b) <= EPS * max(1.0, abs(a), abs(b))


def ddm_spec(xs: list, m: int, lw: float, ld: float):
    """yields (drift, warning) per step, or None when a comparison is tied"""
    best = None  # (p+s, p, s)
    tot = 0.0
    for t, x in enumerate(xs, 1):
        tot += x
        if t < m:
            yield (False, False)
            continue
        p = tot / t
        s = math.sqrt(max(0.0, p * (1 - p)) / t)
        e = p + s
        if best is not None and near(e, best[0]) and (p != best[1] or s != best[2]):
            yield None
            return
        if best is None or e < best[0]:
            best = (e, p, s)
        rd, rw = best[1] + ld * best[2], best[1] + lw * best[2]
        if near(e, rd) or near(e, rw):
            if not (e == rd == rw):   # exact degenerate equality (s_min = 0, e = p_min) is a definite "not greater"
                yield None
                return
        drift = e > rd
        yield (drift, (not drift) and e > rw)


def eddm_spec(xs: list, alpha: float, beta: float, level: float, mm: int, gate_max: bool = True):
    """`gate_max`: the running maximum is tracked only once `min_num_misclassified_instances` INSTANCES have been seen (the current code); False: from the first error on
    (Baena-Garcia et al. as published) - the property does not say when the running maximum starts"""
    last = 0
    dists = []
    mx = None
    flags = (False, False)
    for t, x in enumerate(xs, 1):
        if x == 1:
            dists.append(t - last)
            last = t
            k = len(dists)
            mu = sum(dists) / k
            sd = math.sqrt(max(0.0, sum((d - mu) ** 2 for d in dists) / k))
            thr = mu + level * sd
            if t >= mm or not gate_max:
                if mx is not None and near(thr, mx) and thr != mx:
                    yield None
                    return
                if mx is None or thr > mx:
                    mx = thr
                    flags = (False, False)
                elif k >= mm:
                    p = thr / mx
                    if near(p, beta) or near(p, alpha):
                        yield None
                        return
                    flags = (True, False) if p < beta else (False, p < alpha)
        else:
            flags = (False, False)
        yield flags


ARL = {100: (2.76, -6.23, 18.12, -312.45, 1002.18), 400: (3.97, -6.56, 48.73, -330.13, 848.18),
       1000: (1.17, 7.56, -21.24, 112.12, -987.23)}


def ecdd_spec(xs: list, lam: float, arl: int, wl: float, m: int):
    c = ARL[arl]
    for t in range(1, len(xs) + 1):
        if t < m:
            yield (False, False)
            continue
        p = sum(xs[:t]) / t
        z = sum(lam * (1 - lam) ** (t - i) * xs[i - 1] for i in range(1, t + 1))
        sz = math.sqrt(max(0.0, lam / (2 - lam) * (1 - (1 - lam) ** (2 * t)) * p * (1 - p)))
        L = c[0] + c[1] * p + c[2] * p**3 + c[3] * p**5 + c[4] * p**7
        rd, rw = p + L * sz, p + wl * L * sz
        if near(z, rd) or near(z, rw):
            yield None
            return
        drift = z > rd
        yield (drift, (not drift) and z > rw)


def check_spec(out: Outcome, cls: str, p: dict, xs: list, runners: list, label: str = "") -> None:
    fp = dets.full_params(cls, p)
    r = dets.Runner("a", cls, p)
    if r.det is None:
        return
    def spec_of(seg):
        if cls == "DDM":
            return ddm_spec(seg, fp["min_num_instances"], fp["warning_level"], fp["drift_level"])
        if cls == "EDDM":
            return eddm_spec(seg, fp["alpha"], fp["beta"], fp["level"], fp["min_num_misclassified_instances"])
        return ecdd_spec(seg, fp["lambda_"], fp["average_run_length"], fp["warning_level"], fp["min_num_instances"])
    # "r" in a stream is a reset(): the published rule starts again on the values that follow (a history, as the property's quantifier says)
    spec, seg = [], []
    for x in xs + ["r"]:
        if x == "r":
            sp = list(spec_of(seg))
            spec += sp
            if len(sp) < len(seg) or (sp and sp[-1] is None):
                break               # the rule ended at a tied comparison: the trace is compared up to there
            spec.append("r")
            seg = []
        else:
            seg.append(x)
    if spec and spec[-1] == "r" and len(spec) > len(xs):
        spec.pop()
    flagged = False
    for t, (x, want) in enumerate(zip(xs, spec), 1):
        if x == "r":
            r.reset()
            out.count("resets_inside_streams")
            if any(dets.flags(cls, r.det)):
                out.violation(f"{label}{cls}: a flag is set right after reset()", {"class": cls, "params": p, "stream": xs[:t], "step": t})
                break
            continue
        r.update(x)
        if want is None:
            out.count("spec_traces_ended_at_tie")
            break
        got = dets.flags(cls, r.det)
        flagged = flagged or any(got)
        if got != want and cls == "EDDM" and "r" not in xs:
            # is the whole trace the published rule with the running maximum started at the FIRST error (an admissible reading the model does not take)?
            alt = list(eddm_spec(xs, fp["alpha"], fp["beta"], fp["level"], fp["min_num_misclassified_instances"], gate_max=False))
            d2 = dets.make(cls, p)
            ok_alt = True
            for x2, w2 in zip(xs, alt):
                d2.update(value=x2)
                if w2 is None:
                    break
                if dets.flags(cls, d2) != w2:
                    ok_alt = False
                    break
            if ok_alt:
                out.mismatch(f"{label}{cls}: verdicts follow the published rule with the running maximum tracked from the first error; the model (and the current code) start "
                             f"it after min_num_misclassified_instances instances (first difference at step {t})", {"class": cls, "params": p, "stream": xs[:t], "step": t})
                break
        if got != want:
            out.violation(f"{label}{cls}: verdict at step {t} is (drift,warning)={got}, the published rule gives {want}",
                          {"class": cls, "params": p, "stream": xs[:t], "step": t, "got": got, "want": want})
            break
    runners.append(r)
    out.case({"class": cls, "params": p, "n": len(xs), "stream": "".join("r" if v == "r" else str(int(v)) for v in xs[:64])}, nontrivial=flagged)


def check_rddm(out: Outcome, p: dict, xs: list, runners: list) -> None:
    """RDDM = DDM until the first event; error rate = mean of a suffix that grows by one and is cut only after an event."""
    fp = dets.full_params("RDDM", p)
    r = dets.Runner("a", "RDDM", p)
    d = dets.Runner("b", "DDM", {k: fp[k] for k in ("warning_level", "drift_level", "min_num_instances")})
    if r.det is None or d.det is None:
        return
    event_seen = False
    consec = 0          # consecutive DDM warnings so far (RDDM's warning counter before its first event)
    prev_n = 0
    pending_event = False
    nontrivial = False
    for t, x in enumerate(xs, 1):
        pre_rddm_drift = r.det.rddm_drift
        r.update(x)
        d.update(x)
        if r.err is not None:
            break
        rep = {"class": "RDDM", "params": p, "stream": xs[:t], "step": t}
        # suffix clause
        n_er = r.det.error_rate.num_values
        if not (1 <= n_er <= t):
            out.violation(f"RDDM: error-rate sample size {n_er} is not a suffix length at step {t}", rep)
            break
        suffix = xs[t - n_er: t]
        if abs(r.det.error_rate.mean - sum(suffix) / n_er) > 1e-9:
            out.violation(f"RDDM: error rate {r.det.error_rate.mean} is not the mean of the last {n_er} values at step {t}", rep)
            break
        if pre_rddm_drift:      # update right after an event: cut back to at most min_concept_size + 1
            nontrivial = True
            if n_er > fp["min_concept_size"] + 1:
                out.violation(f"RDDM: after an event the error-rate sample has {n_er} > min_concept_size+1 values", rep)
                break
        elif n_er != prev_n + 1:
            out.violation(f"RDDM: error-rate sample size went {prev_n} -> {n_er} without a preceding event", rep)
            break
        prev_n = n_er
        # equality with DDM until the first event
        if not event_seen:
            got, want = dets.flags("RDDM", r.det), dets.flags("DDM", d.det)
            if r.det.rddm_drift:
                event_seen = True
                warning_limit = got[0] and not want[0]
                if warning_limit and want[1] and consec < fp["max_num_instances_warning"]:
                    out.violation(f"RDDM: warning-limit event at step {t} after only {consec} consecutive warnings (limit {fp['max_num_instances_warning']})", rep)
                    break
                if got != want and not (warning_limit and want[1]):
                    out.violation(f"RDDM: verdict {got} differs from DDM's {want} at its first event (step {t})", rep)
                    break
            elif got != want:
                out.violation(f"RDDM: verdict {got} differs from DDM's {want} before any RDDM event (step {t})", rep)
                break
            consec = consec + 1 if want[1] else 0
    runners.extend([r, d])
    out.case({"class": "RDDM", "params": p, "n": len(xs), "stream": "".join(str(int(v)) for v in xs[:64])}, nontrivial=nontrivial)


def run(out: Outcome) -> None:
    rng = rng_for(out.seed, "C03")
    thorough = out.tier == "thorough"
    out.rule = ("exhaustive 0/1 streams up to a length bound x grid of levels / min_num_instances, plus random long piecewise "
                "stationary streams; verdicts compared at every step with the non-incremental published rule; non-trivial = a flag raised")
    runners: list = []
    L = 12 if thorough else 9
    grids = {
        "DDM": [{"warning_level": w, "drift_level": d, "min_num_instances": m} for (w, d) in [(0.5, 1.0), (2.0, 3.0), (0.3, 0.37)] for m in (1, 3)],
        "EDDM": [{"alpha": a, "beta": b, "level": lv, "min_num_misclassified_instances": m} for (a, b) in [(0.95, 0.9), (0.99, 0.6)] for lv in (0.7, 2.0) for m in (0, 2)],
        "ECDDWT": [{"lambda_": lam, "average_run_length": arl, "warning_level": 0.5, "min_num_instances": m} for lam in (0.2, 0.55) for arl in (100, 400, 1000) for m in (1, 3)],
    }
    for cls, grid in grids.items():
        for p in grid:
            lim = L if thorough else L - (0 if cls == "DDM" else 1)
            for bits in itertools.product([0, 1], repeat=lim):
                check_spec(out, cls, p, list(bits), runners)
            if len(runners) > 3000:
                corr.compare_batch(out, runners)
                runners = []
    n_rand = 120 if thorough else 25
    for cls in ("DDM", "EDDM", "ECDDWT"):
        for _ in range(n_rand):
            p = gen.rand_params(rng, cls, small=rng.random() < 0.7)
            xs = gen.bernoulli_stream(rng, rng.randint(20, 600 if thorough else 250))
            if _ % 3 == 1:      # update ... reset() ... update: after a flag, in control, twice
                for _k in range(rng.randint(1, 3)):
                    xs.insert(rng.randint(1, len(xs)), "r")
                xs += gen.bernoulli_stream(rng, rng.randint(20, 120))
            check_spec(out, cls, p, xs, runners)
    # ECDD-WT with SLOW forgetting (lambda_ 0.005 .. 0.05: the factor 1 - (1 - lambda_)^(2t) of the EWMA's variance is far from 1 for hundreds of updates) on runs of
    # several hundred values
    for _ in range(60 if thorough else 30):
        p = {"lambda_": rng.choice([0.005, 0.005, 0.01, 0.01, 0.02, 0.05]), "average_run_length": rng.choice([100, 400, 1000]), "warning_level": rng.choice([0.3, 0.5, 0.8]),
             "min_num_instances": rng.choice([5, 30])}
        # the error rate changes while that factor is still well below 1 (t between 30 and ~2/lambda_), so that the chart's limits at the crossing are the transient ones
        p0 = rng.choice([0.02, 0.1, 0.2])
        xs = [1 if rng.random() < p0 else 0 for _ in range(rng.choice([35, 60, 101, 104, 110, 120, 130, 150, 180]))]
        # (then a RAMP: the error rate climbs over a few dozen values, so the slow EWMA crosses the warning and the drift limit at steps that depend on where exactly they lie)
        p1, ramp = rng.choice([0.3, 0.45, 0.6, 0.9]), rng.choice([1, 30, 80])
        xs += [1 if rng.random() < p0 + (p1 - p0) * min(1.0, k / ramp) else 0 for k in range(rng.randint(150, 300))]
        check_spec(out, "ECDDWT", p, xs, runners)
        out.count("ecdd_slow_forgetting_long_runs")
    for _ in range(3 * n_rand):
        p = gen.rand_params(rng, "RDDM")
        check_rddm(out, p, gen.bernoulli_stream(rng, rng.randint(20, 600 if thorough else 250)), runners)
    # RDDM with a queue of more than 64 predictions that has wrapped around before the events (rebuild replays the stored predictions in arrival order)
    for _ in range(40 if thorough else 16):
        mc = rng.choice([70, 100, 129])
        p = {"warning_level": rng.uniform(0.8, 1.8), "drift_level": rng.uniform(2.0, 2.6), "min_num_instances": rng.choice([5, 30]), "min_concept_size": mc,
             "max_concept_size": rng.choice([200, 400, 40000]), "max_num_instances_warning": rng.choice([5, 30, 1400])}
        xs = []
        for seg in range(rng.randint(3, 5)):
            pr = [0.05, 0.5, 0.1, 0.6, 0.2][seg % 5] if rng.random() < 0.7 else rng.choice([0.02, 0.3, 0.7])
            L = rng.randint(mc + 10, 2 * mc + 40)
            if rng.random() < 0.5 and xs:      # gradual change: a run of warnings before the drift (the queue is then kept whole, not cut to its last element)
                pr0 = sum(xs[-30:]) / 30
                xs += [1 if rng.random() < pr0 + (pr - pr0) * min(1.0, t / (L * 0.7)) else 0 for t in range(L)]
            else:
                xs += [1 if rng.random() < pr else 0 for _ in range(L)]
        check_rddm(out, p, xs, runners)
    # long streams (thousands of updates): running error rates with step sizes 1/t far below any fixed floor, counters beyond 2^12,
    # and RDDM with its DEFAULT concept sizes (min_concept_size=7000: the prediction queue wraps and an event rebuilds from 7000 stored values)
    for cls in ("DDM", "EDDM", "ECDDWT"):
        for _ in range(3 if thorough else 1):
            p = gen.rand_params(rng, cls, small=False)
            n_long = rng.randint(4300, 5200)
            cut = rng.randint(n_long // 2, n_long - 300)
            p0, p1 = rng.choice([0.03, 0.1, 0.25]), rng.choice([0.3, 0.5, 0.8])
            check_spec(out, cls, p, [1 if rng.random() < p0 else 0 for _ in range(cut)] + [1 if rng.random() < p1 else 0 for _ in range(n_long - cut)], runners)
    for _ in range(2 if thorough else 1):
        n_long = rng.randint(7300, 8200)
        xs = [1 if rng.random() < 0.08 else 0 for _ in range(n_long)] + [1 if rng.random() < 0.45 else 0 for _ in range(rng.randint(300, 700))]
        xs += [1 if rng.random() < 0.1 else 0 for _ in range(rng.randint(200, 500))]
        check_rddm(out, {}, xs, runners)
    # C03c.rddm_numWarnings_stale_witness replayed: RDDM(warning 0.5, drift 100, min_num_instances 1, max_concept 1000, min_concept 3, max warnings 1) on 1,0,1:
    # warning at update 2, the warning-limit event (drift) at update 3 where DDM only warns
    import frouros.detectors.concept_drift as cd
    rd = cd.RDDM(config=cd.RDDMConfig(warning_level=0.5, drift_level=100.0, min_num_instances=1, max_concept_size=1000, min_concept_size=3, max_num_instances_warning=1))
    dd = cd.DDM(config=cd.DDMConfig(warning_level=0.5, drift_level=100.0, min_num_instances=1))
    tr = []
    for x in (1, 0, 1):
        rd.update(value=x)
        dd.update(value=x)
        tr.append((bool(rd.drift), bool(rd.warning), bool(dd.drift), bool(dd.warning)))
    if tr[1][:2] != (False, True) or tr[2] != (True, False, False, True):
        out.violation(f"RDDM/DDM on the stream of theorem C03c.rddm_numWarnings_stale_witness: (rddm drift, rddm warning, ddm drift, ddm warning) per update = {tr}; proved for the "
                      "model: warning at update 2, then RDDM drift (warning-limit event) where DDM warns", {"class": "RDDM", "kind": "theorem witness"})
    out.case({"theorem_witnesses": 1})
    corr.compare_batch(out, runners)


def replay(out: Outcome, payload: dict) -> None:
    runners: list = []
    if payload["class"] == "RDDM":
        check_rddm(out, payload["params"], payload["stream"], runners)
    else:
        check_spec(out, payload["class"], payload["params"], payload["stream"], runners)
    corr.compare_batch(out, runners)
