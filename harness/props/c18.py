"""C18 — incremental statistics, circular queues, prequential error match their definitions."""
from __future__ import annotations

import math

import copy
from collections import deque

from common import Outcome, close, f2h, h2f, np, rng_for, run_driver

RULE_ADDENDA = ('NumPy-typed and bool values; sequences of 4 300-6 000 values; scale factors 1e-13 ... 1e9 with scale-following tolerances')
LEVEL = "proof"
EXPLANATION = ("Theorems (Lean): queue refinement to a bounded FIFO for arbitrary histories and element types, AccuracyQueue counts, "
               "Mean/EWMA/CircularMean/Prequential closed forms. This run: every reachable queue state for capacities 1..4 (BFS to closure on the "
               "real CircularQueue/AccuracyQueue, each transition compared with collections.deque and with the model), random long histories, "
               "statistics against their definitions.")
ASSUMPTIONS = ["keep-last / dequeue on an empty queue are rejections (EmptyQueueError) with the state unchanged"]

from frouros.utils.data_structures import AccuracyQueue, CircularQueue, EmptyQueueError  # noqa: E402
from frouros.utils.stats import EWMA, CircularMean, Mean  # noqa: E402
from frouros.metrics import PrequentialError  # noqa: E402


def content(q) -> list:
    return [q.queue[(q.first + i) % q.max_len] for i in range(q.count)] if q.max_len else []


def key(q):
    return (q.count, q.first, q.last, tuple(q.queue), getattr(q, "num_true", None))


def apply_impl(q, op):
    """returns ('ok', returned) or ('err', kind)"""
    try:
        if op[0] == "e":
            return "ok", q.enqueue(op[1])
        if op[0] == "d":
            return "ok", q.dequeue()
        if op[0] == "c":
            q.clear()
            return "ok", None
        q.maintain_last_element()
        return "ok", None
    except EmptyQueueError:
        return "err", "EmptyQueue"
    except Exception as e:  # noqa: BLE001
        return "err", type(e).__name__


def apply_spec(dq: deque, cap: int, op):
    if op[0] == "e":
        ev = dq.popleft() if len(dq) == cap else None
        dq.append(op[1])
        return "ok", ev
    if op[0] == "d":
        return ("ok", dq.popleft()) if dq else ("err", "EmptyQueue")
    if op[0] == "c":
        dq.clear()
        return "ok", None
    if not dq:
        return "err", "EmptyQueue"
    last = dq[-1]
    dq.clear()
    dq.append(last)
    return "ok", None


def check_step(out: Outcome, q, dq, cap, op, path, acc: bool) -> bool:
    before = key(q)
    ri, rs = apply_impl(q, op), apply_spec(dq, cap, op)
    rep = {"capacity": cap, "ops": path + [op], "accuracy_queue": acc}
    if ri[0] != rs[0] or (ri[0] == "err" and ri[1] != rs[1]):
        out.violation(f"{'AccuracyQueue' if acc else 'CircularQueue'}: operation {op} gives {ri}, a bounded FIFO gives {rs}", rep)
        return False
    if ri[0] == "err" and key(q) != before:
        out.violation(f"queue: rejected operation {op} changed the state", rep)
        return False
    if ri[0] == "ok" and not acc and op[0] in "ed" and ri[1] != rs[1]:
        out.violation(f"CircularQueue: {op} returned {ri[1]!r}, the oldest element is {rs[1]!r}", rep)
        return False
    if content(q) != list(dq) or len(q) != len(dq) or q.is_empty() != (len(dq) == 0) or q.is_full() != (len(dq) == cap):
        out.violation(f"queue: after {op} contents/length/emptiness/fullness {content(q)} differ from the reference deque {list(dq)}", rep)
        return False
    if q.is_full() and sorted(map(repr, q.queue)) != sorted(map(repr, dq)):
        out.violation("queue: a full queue does not expose exactly the last max_len items", rep)
        return False
    if acc and (q.num_true != sum(1 for v in dq if v) or q.num_false != sum(1 for v in dq if not v)):
        out.violation(f"AccuracyQueue: counts (true={q.num_true}, false={q.num_false}) differ from contents {list(dq)} after {op}", rep)
        return False
    return True


def model_lines(cap: int, path: list, acc: bool) -> list[str]:
    pre = "a" if acc else "q"
    lines = [f"x {pre}n {cap}"]
    for op in path:
        if op[0] == "e":
            lines.append(f"x {pre}e " + (("1" if op[1] else "0") if acc else f2h(op[1])))
        else:
            lines.append(f"x {pre}" + {"d": "d", "c": "c", "k": "k"}[op[0]])
    return lines


def impl_line(q, ret, acc: bool) -> str:
    if ret[0] == "err":
        return "err:" + ret[1]
    if acc:
        return f"{q.count} {q.num_true} {q.num_false} [" + " ".join("1" if v else "0" for v in content(q)) + "]"
    body = f"{q.count} {int(q.is_empty())} {int(q.is_full())} [" + " ".join("x" + f2h(v) for v in content(q)) + "]"
    return body


def bfs(out: Outcome, cap: int, acc: bool, limit: int) -> None:
    """all reachable states to closure; every transition checked against the deque spec; witness paths replayed on the model"""
    vals = [True, False] if acc else [0.0, 1.0]
    ops = [("e", v) for v in vals] + [("d",), ("c",), ("k",)]
    mk = (lambda: AccuracyQueue(max_len=cap)) if acc else (lambda: CircularQueue(max_len=cap))
    q0 = mk()
    seen = {key(q0): []}
    frontier = [(q0, deque(), [])]
    lines, expect = [], []
    while frontier and len(seen) < limit:
        nxt = []
        for q, dq, path in frontier:
            for op in ops:
                q2, dq2 = copy.deepcopy(q), deque(dq)
                if not check_step(out, q2, dq2, cap, op, path, acc):
                    return
                out.count("queue_transitions_checked")
                k = key(q2)
                if k not in seen:
                    seen[k] = path + [op]
                    nxt.append((q2, dq2, path + [op]))
        frontier = nxt
    out.count(f"{'acc' if acc else 'circ'}_queue_states_cap{cap}", len(seen))
    out.stats.setdefault("closure_reached", {})[f"{'acc' if acc else 'circ'}{cap}"] = not frontier
    # replay each witness path on implementation and model, compare line by line
    for k, path in seen.items():
        q = mk()
        ml = model_lines(cap, path, acc)
        il = [None]
        for op in path:
            r = apply_impl(q, op)
            il.append((impl_line(q, r, acc), op, r))
        lines.append((ml, il, path))
    flat = [l for ml, _, _ in lines for l in ml]
    res = run_driver(flat)
    pos = 0
    for ml, il, path in lines:
        for j, exp in enumerate(il):
            got = res[pos + j]
            if exp is None:
                continue
            want, op, r = exp
            g = got
            if g.startswith("ret="):
                ret, g = g.split(" ", 1)
                if not acc and op[0] in "ed":
                    rv = "-" if r[1] is None else "x" + f2h(r[1])
                    if ret != "ret=" + rv:
                        out.mismatch(f"queue model returns {ret} for {op}, implementation returned {r[1]!r}", {"capacity": cap, "ops": path[: j]})
                        break
            if g != want:
                out.mismatch(f"queue model state '{g}' differs from implementation '{want}' after {op}", {"capacity": cap, "ops": path[: j], "accuracy_queue": acc})
                break
        pos += len(ml)
        out.traces_validated += 1
    out.case({"bfs": True, "capacity": cap, "accuracy_queue": acc, "states": len(seen)})


def random_histories(out: Outcome, rng, n: int) -> None:
    for _ in range(n):
        cap = rng.choice([1, 2, 3, 5, 8, 17])
        acc = rng.random() < 0.4
        q = AccuracyQueue(max_len=cap) if acc else CircularQueue(max_len=cap)
        dq, path = deque(), []
        for _ in range(rng.randint(5, 120)):
            r = rng.random()
            op = ("e", (rng.random() < 0.5) if acc else float(rng.randint(0, 9))) if r < 0.6 else (("d",) if r < 0.8 else (("k",) if r < 0.92 else ("c",)))
            if not check_step(out, q, dq, cap, op, path, acc):
                break
            path.append(op)
        out.case({"random_history": True, "capacity": cap, "accuracy_queue": acc, "n": len(path), "h": hash(tuple(path)) & 0xFFFFFF})


def statistics(out: Outcome, rng, n: int) -> None:
    lines, expect = [], []
    for _ in range(n):
        unit = rng.choice([1.0, 1.0, 1.0, 1e-13, 1e-7, 1e9])       # the statistics are scale-equivariant: tolerances follow the scale of the data, without a floor at 1
        xs = [unit * rng.choice([rng.gauss(0, 1), float(rng.randint(0, 1)), 0.0, rng.uniform(-1e3, 1e3)]) for _ in range(rng.randint(1, 80))]
        sc = max([abs(v) for v in xs]) or 1.0
        m, a = Mean(), rng.choice([0.0, 0.05, 0.3, 1.0, rng.random()])
        try:
            e = EWMA(alpha=a)
        except ValueError:
            # the ends of [0, 1] are degenerate weights (0: the statistic never moves, 1: it is the last value); a constructor that rejects one with ValueError narrows a domain
            # no clause of this property fixes - the case is run with an interior weight
            out.count("ewma_weight_rejected_by_the_constructor")
            a = 0.5
            e = EWMA(alpha=a)
        size = rng.choice([1, 2, 3, 7])
        c, pa = CircularMean(size=size), rng.choice([1.0, 0.999, 0.9, 0.5, 0.01])
        p = PrequentialError(alpha=pa)
        lines += ["x mn", f"x en {f2h(a)}", f"x cn {size}", f"x pn {f2h(pa)}"]
        expect += [None] * 4
        for t, x in enumerate(xs, 1):
            m.update(x); e.update(x); c.update(x)
            pv = p(error_value=x)
            rep = {"values": xs[:t], "alpha": a, "size": size, "prequential_alpha": pa}
            if abs(m.get() - sum(xs[:t]) / t) > 1e-9 * sc:
                out.violation(f"Mean: {m.get()!r} is not the arithmetic mean after {t} values", rep); return
            w = xs[max(0, t - size): t]
            if abs(c.get() - sum(w) / len(w)) > 1e-9 * sc * t:
                out.violation(f"CircularMean(size={size}): {c.get()!r} is not the mean of the last {len(w)} values {sum(w) / len(w)!r} after {t} values", rep); return
            ew = sum(a * (1 - a) ** (t - i) * xs[i - 1] for i in range(1, t + 1))
            if abs(e.get() - ew) > 1e-9 * sc:
                out.violation(f"EWMA(alpha={a}): {e.get()!r} differs from sum_i a(1-a)^(t-i)x_i = {ew!r}", rep); return
            num = sum(pa ** (t - i) * xs[i - 1] for i in range(1, t + 1)); den = sum(pa ** (t - i) for i in range(1, t + 1))
            if abs(pv - num / den) > 1e-9 * sc:
                out.violation(f"PrequentialError(alpha={pa}): {pv!r} differs from the fading-factor definition {num / den!r}", rep); return
            lines += [f"x mu {f2h(x)}", f"x eu {f2h(x)}", f"x cu {f2h(x)}", f"x pu {f2h(x)}"]
            expect += [("Mean", m.get(), xs[:t]), ("EWMA", e.get(), xs[:t]), ("CircularMean", c.get(), xs[:t]), ("PrequentialError", pv, xs[:t])]
        out.case({"statistics": True, "n": len(xs), "alpha": a, "size": size, "h": hash(tuple(xs)) & 0xFFFFFF})
    # PrequentialError over hundreds to thousands of values (fading factors of the literature: 0.99 .. 0.999, whose normaliser converges slowly), against its
    # definition evaluated non-incrementally at checkpoints
    for pa in (0.9, 0.99, 0.995, 0.999, 1.0):
        n_long = rng.randint(300, 900) if n < 100 else rng.randint(1500, 4000)      # (n: number of cases requested = the tier)
        ys = [float(rng.random() < rng.choice([0.1, 0.3])) for _ in range(n_long)]
        pm = PrequentialError(alpha=pa)
        checkpoints = {rng.randint(100, n_long) for _ in range(12)} | {127, 128, 129, 130, 255, 256, 257, n_long}
        for t, x in enumerate(ys, 1):
            pv = pm(error_value=x)
            if t in checkpoints:
                num = math.fsum(pa ** (t - i) * ys[i - 1] for i in range(1, t + 1))
                den = math.fsum(pa ** (t - i) for i in range(1, t + 1))
                if abs(float(pv) - num / den) > 1e-9:
                    out.violation(f"PrequentialError(alpha={pa}): {float(pv)!r} differs from the fading-factor definition {num / den!r} after {t} values",
                                  {"values": ys[:t], "prequential_alpha": pa, "kind": "long prequential"})
                    break
        out.case({"prequential_long": pa, "n": n_long})
    res = run_driver(lines)
    for got, exp in zip(res, expect):
        if exp is None:
            continue
        name, val, xs = exp
        gv = h2f(got.split(" ")[0][1:])
        if abs(gv - float(val)) > 1e-9 * (max(abs(v) for v in xs) or 1.0) and not (gv != gv and float(val) != float(val)):
            out.mismatch(f"{name}: model value {gv!r} differs from implementation {float(val)!r}", {"values": xs})
            break
    out.traces_validated += n


def typed_and_long(out: Outcome, rng, thorough: bool) -> None:
    """(a) the value TYPES detectors are fed in practice: NumPy scalars (elements of `(y_pred != y_true).astype(int)`, of a float64
    array, NumPy booleans) must be accepted and give the same statistics as the equal Python numbers; (b) sequences of thousands of
    values: the running statistics keep their definition when 1/t is far below any fixed step-size floor"""
    import numpy as onp
    casts = {"np.int64": onp.int64, "np.int32": onp.int32, "np.float64": onp.float64, "bool": bool}   # unsigned and narrow float dtypes bring NumPy wrap-around / float32 rounding into the result: outside "every finite value sequence"
    for tname, cast in casts.items():
        xs = [rng.randint(0, 1) for _ in range(rng.randint(5, 60))]
        size = rng.choice([1, 3, 7])
        objs = {"Mean": (Mean(), Mean()), "EWMA": (EWMA(alpha=0.3), EWMA(alpha=0.3)), "CircularMean": (CircularMean(size=size), CircularMean(size=size))}
        pe = (PrequentialError(alpha=0.9), PrequentialError(alpha=0.9))
        for t, x in enumerate(xs, 1):
            rep = {"values": xs[:t], "value_type": tname}
            for name, (a, b) in objs.items():
                try:
                    a.update(cast(x))
                except Exception as e:  # noqa: BLE001
                    out.violation(f"{name}.update({tname}({x})) raises {type(e).__name__}: {e}", rep)
                    return
                b.update(float(x))
                if abs(float(a.get()) - float(b.get())) > 1e-12:
                    out.violation(f"{name}: after {t} values of type {tname} the statistic is {float(a.get())!r}, with the equal Python floats {float(b.get())!r}", rep)
                    return
            try:
                va, vb = pe[0](error_value=cast(x)), pe[1](error_value=float(x))
            except Exception as e:  # noqa: BLE001
                out.violation(f"PrequentialError(error_value={tname}({x})) raises {type(e).__name__}: {e}", rep)
                return
            if abs(float(va) - float(vb)) > 1e-12:
                out.violation(f"PrequentialError: {float(va)!r} with {tname} values, {float(vb)!r} with the equal Python floats", rep)
                return
        out.case({"value_type": tname, "n": len(xs)})
    for _ in range(3 if thorough else 1):
        n_long = rng.randint(4300, 6000)
        xs = [rng.choice([rng.gauss(0.3, 1), float(rng.randint(0, 1))]) for _ in range(n_long)]
        a, size = rng.choice([0.001, 0.05, 0.3]), rng.choice([3, 50, 700])
        m, e, c = Mean(), EWMA(alpha=a), CircularMean(size=size)
        acc, ew = 0.0, 0.0
        lines, expect = ["x mn", f"x en {f2h(a)}", f"x cn {size}"], [None] * 3
        for t, x in enumerate(xs, 1):
            m.update(x); e.update(x); c.update(x)
            acc += x
            ew = a * x + (1 - a) * ew
            lines += [f"x mu {f2h(x)}", f"x eu {f2h(x)}", f"x cu {f2h(x)}"]
            expect += [("Mean", m.get(), t), ("EWMA", e.get(), t), ("CircularMean", c.get(), t)]
            if t % 250 and t != n_long:
                continue
            rep = {"values_seeded": True, "n": t, "alpha": a, "size": size, "kind": "long"}
            if abs(m.get() - math.fsum(xs[:t]) / t) > 1e-9 * 5:
                out.violation(f"Mean: {m.get()!r} is not the arithmetic mean {math.fsum(xs[:t]) / t!r} after {t} values", rep); return
            w = xs[max(0, t - size): t]
            if abs(c.get() - math.fsum(w) / len(w)) > 1e-8 * 5:
                out.violation(f"CircularMean(size={size}): {c.get()!r} is not the mean of the last {len(w)} values {math.fsum(w) / len(w)!r} after {t} values", rep); return
            if abs(e.get() - ew) > 1e-9 * 5:
                out.violation(f"EWMA(alpha={a}): {e.get()!r} differs from the exponentially weighted sum {ew!r} after {t} values", rep); return
        res = run_driver(lines)
        for got, exp in zip(res, expect):
            if exp is None:
                continue
            name, val, t = exp
            gv = h2f(got.split(" ")[0][1:])
            if not close(gv, float(val), 1e-8 * 5):
                out.mismatch(f"{name}: model value {gv!r} differs from implementation {float(val)!r} after {t} values", {"n": t, "kind": "long"})
                break
        out.traces_validated += 1
        out.case({"long": n_long, "alpha": a, "size": size})


def run(out: Outcome) -> None:
    rng = rng_for(out.seed, "C18")
    thorough = out.tier == "thorough"
    out.rule = ("BFS to closure over all reachable CircularQueue/AccuracyQueue states for capacities 1..4 with ops enqueue(2 values)/dequeue/clear/keep-last; "
                "random long histories for larger capacities; statistics on random value sequences and parameters")
    for cap in ([1, 2, 3, 4] if thorough else [1, 2, 3]):
        for acc in (False, True):
            bfs(out, cap, acc, limit=200000 if thorough else 20000)
    bfs(out, 0, False, limit=50) if False else None
    random_histories(out, rng, 400 if thorough else 80)
    statistics(out, rng, 200 if thorough else 40)
    typed_and_long(out, rng, thorough)


def replay(out: Outcome, payload: dict) -> None:
    if "capacity" in payload:
        acc = payload.get("accuracy_queue", False)
        cap = payload["capacity"]
        q = AccuracyQueue(max_len=cap) if acc else CircularQueue(max_len=cap)
        dq, path = deque(), []
        for op in payload["ops"]:
            if not check_step(out, q, dq, cap, tuple(op), path, acc):
                break
            path.append(tuple(op))
    else:
        statistics(out, rng_for(out.seed, "C18r"), 20)
