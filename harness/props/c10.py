"""C10 — histogram and transport distances equal their formulas and obey distance axioms."""
from __future__ import annotations

import math

from common import Outcome, close, f2h, h2f, np, rng_for, run_driver

RULE_ADDENDA = ('detector-level kwargs (JS base, sample weights); stand-alone statistic = compare for all eight; identical constant samples of magnitude up to 3e18')
LEVEL = "proof"
EXPLANATION = ("Theorems (Lean, reals): bounds / symmetry / identity for Hellinger, Bhattacharyya, intersection, PSI, KL, JS on probability vectors; bins partition the "
               "pooled range (proportions sum to 1, permutation invariant); EMD / energy non-negativity, symmetry, identity, affine scaling. This run evaluates the "
               "textbook formulas (own binning, own piecewise-linear CDFs, own transport integrals) and every axiom on the real detectors, and ties the model to /repo.")
ASSUMPTIONS = ["np.histogram(bins='auto') edges/counts are inputs of the JS/KL model (taken from numpy)", "absolute slack 1e-12 for '>= 0' / 'zero on identical samples'"]

import sys  # noqa: E402
from frouros.detectors.data_drift.batch import (EMD, JS, KL, PSI, BhattacharyyaDistance, EnergyDistance,  # noqa: E402
                                                 HellingerDistance, HINormalizedComplement)

BINNED = {"psi": PSI, "hellinger": HellingerDistance, "bhattacharyya": BhattacharyyaDistance, "hi": HINormalizedComplement}
PROB = {"js": JS, "kl": KL}
TRANSPORT = {"emd": EMD, "energy": EnergyDistance}
FLOOR = sys.float_info.min


def dist(cls, ref, test, **kw) -> float:
    d = cls(**kw)
    d.fit(X=np.array(ref, dtype=float))
    return float(d.compare(X=np.array(test, dtype=float))[0].distance)


def dist_alone(cls, ref, test, **kw) -> float:
    """the detector's stand-alone statistic with the detector's own stored parameters (what the permutation callback re-evaluates)"""
    d = cls(**kw)
    return float(d.statistical_method(np.array(ref, dtype=float), np.array(test, dtype=float), **d.statistical_kwargs))


def weighted_transport(name, u, v, wu, wv):
    allv = sorted(u + v)
    su, sv = sum(wu), sum(wv)
    tot = 0.0
    for z, zn in zip(allv, allv[1:]):
        d = abs(sum(w for x, w in zip(u, wu) if x <= z) / su - sum(w for x, w in zip(v, wv) if x <= z) / sv)
        tot += (d if name == "emd" else d * d) * (zn - z)
    return tot if name == "emd" else math.sqrt(2 * tot)


def check_detector_kwargs(out: Outcome, rng, ref, test, nb) -> None:
    """detector-level options are part of the configuration: the distance compare returns and the stand-alone statistic must both use them"""
    rep = {"ref": ref, "test": test, "num_bins": nb}
    plain = prob_formula("js", ref, test, nb)
    if not math.isnan(plain) and plain > 1e-6:
        for base in (2.0, 10.0):
            want = plain / math.sqrt(math.log(base))
            r = {**rep, "detector": "js", "kwargs": {"base": base}}
            got = dist(JS, ref, test, num_bins=nb, base=base)
            alone = dist_alone(JS, ref, test, num_bins=nb, base=base)
            if math.isnan(got) or not approx(got, want):
                out.violation(f"js(base={base}): distance {got!r} differs from the Jensen-Shannon distance in that base {want!r}", r)
            if math.isnan(alone) or not approx(alone, want):
                out.violation(f"js(base={base}): stand-alone statistic with the detector's own parameters {alone!r} differs from {want!r}", r)
            out.case({"kwargs": "js-base", "base": base, "h": hash(tuple(ref + test)) & 0xFFFFFF})
    wu, wv = [rng.choice([0.5, 1.0, 2.0, 3.5]) for _ in ref], [rng.choice([0.5, 1.0, 2.0, 3.5]) for _ in test]
    for name, cls in TRANSPORT.items():
        want = weighted_transport(name, ref, test, wu, wv)
        r = {**rep, "detector": name, "kwargs": {"u_weights": wu, "v_weights": wv}}
        got = dist(cls, ref, test, u_weights=np.array(wu), v_weights=np.array(wv))
        alone = dist_alone(cls, ref, test, u_weights=np.array(wu), v_weights=np.array(wv))
        if math.isnan(got) or not approx(got, want):
            out.violation(f"{name} with sample weights: distance {got!r} differs from the weighted formula {want!r}", r)
        if math.isnan(alone) or not approx(alone, want):
            out.violation(f"{name} with sample weights: stand-alone statistic with the detector's own parameters {alone!r} differs from {want!r}", r)
        out.case({"kwargs": name + "-weights", "h": hash(tuple(ref + test)) & 0xFFFFFF})


CLOSED = ["left"]       # which side of a bin is closed: [a, b) with the last bin closed (NumPy's convention, the model's) or (a, b] with the first bin closed


def proportions(ref, test, nb):
    lo, hi = min(ref + test), max(ref + test)
    if lo == hi:
        lo, hi = lo - 0.5, hi + 0.5
    edges = list(np.linspace(lo, hi, nb + 1))   # the property fixes "num_bins equal-width bins spanning the pooled range"

    def cnt(a):
        c = [0] * nb
        for x in a:
            for i in range(nb):
                if CLOSED[0] == "left":
                    inside = edges[i] <= x and (x < edges[i + 1] or (i == nb - 1 and x <= edges[i + 1]))
                else:
                    inside = (edges[i] < x or (i == 0 and edges[i] <= x)) and x <= edges[i + 1]
                if inside:
                    c[i] += 1
                    break
        return [v / len(a) for v in c]

    return cnt(ref), cnt(test)


def on_interior_edge(ref, test, nb) -> bool:
    lo, hi = min(ref + test), max(ref + test)
    if lo == hi:
        return False
    inner = set(np.linspace(lo, hi, nb + 1)[1:-1].tolist())
    return any(float(x) in inner for x in ref + test)


def binned_formula(name, ref, test, nb):
    p, q = proportions(ref, test, nb)
    if name == "psi":
        p = [FLOOR if v == 0 else v for v in p]
        q = [FLOOR if v == 0 else v for v in q]
        return sum((b - a) * math.log(b / a) for a, b in zip(p, q))
    if name == "hellinger":
        return math.sqrt(sum((math.sqrt(a) - math.sqrt(b)) ** 2 for a, b in zip(p, q))) / math.sqrt(2)
    if name == "bhattacharyya":
        return 1 - sum(math.sqrt(a * b) for a, b in zip(p, q))
    return 1 - sum(min(a, b) for a, b in zip(p, q))


def hist_cdf(edges, counts, x):
    tot = sum(counts)
    if x <= edges[0]:
        return 0.0
    acc = 0
    for i, c in enumerate(counts):
        if x < edges[i + 1]:
            return (acc + c * (x - edges[i]) / (edges[i + 1] - edges[i])) / tot
        acc += c
    return 1.0


def prob_vectors(ref, test, nb):
    out = []
    lo, hi = min(ref + test), max(ref + test)
    pts = list(np.linspace(lo, hi, nb))
    hs = []
    for a in (ref, test):
        c, e = np.histogram(np.array(a, dtype=float), bins="auto")
        hs.append((list(map(float, e)), list(map(int, c))))
        out.append([hist_cdf(hs[-1][0], hs[-1][1], pts[i]) - hist_cdf(hs[-1][0], hs[-1][1], pts[i - 1]) for i in range(1, nb)])
    return out[0], out[1], hs, lo, hi


def rel_entr(x, y):
    if x > 0 and y > 0:
        return x * math.log(x / y)
    return 0.0 if (x == 0 and y >= 0) else math.inf


def prob_formula(name, ref, test, nb):
    p, q, _, _, _ = prob_vectors(ref, test, nb)
    if name == "kl":
        return sum(rel_entr(b, a) for a, b in zip(p, q))
    sp, sq = sum(p), sum(q)
    if sp == 0 or sq == 0:
        return math.nan
    p, q = [v / sp for v in p], [v / sq for v in q]
    m = [(a + b) / 2 for a, b in zip(p, q)]
    return math.sqrt(max(0.0, (sum(rel_entr(a, c) for a, c in zip(p, m)) + sum(rel_entr(b, c) for b, c in zip(q, m))) / 2))


def transport_formula(name, u, v):
    allv = sorted(u + v)
    tot = 0.0
    for z, zn in zip(allv, allv[1:]):
        d = abs(sum(1 for x in u if x <= z) / len(u) - sum(1 for x in v if x <= z) / len(v))
        tot += (d if name == "emd" else d * d) * (zn - z)
    return tot if name == "emd" else math.sqrt(2 * tot)


def sample(rng, n, kind):
    if kind == "cont":
        return [rng.gauss(0, 1) for _ in range(n)]
    if kind == "shift":
        return [rng.gauss(1.5, 0.7) for _ in range(n)]
    if kind == "tied":
        return [float(rng.choice([0, 1, 1, 2, 5])) for _ in range(n)]
    if kind == "disjoint":
        return [rng.uniform(10, 12) for _ in range(n)]
    if kind == "nested":
        return [rng.uniform(-0.2, 0.2) for _ in range(n)]
    if kind == "low":
        return [rng.uniform(-6, -4) for _ in range(n)]
    if kind == "edges":
        return [float(rng.randint(0, 8)) / 2 for _ in range(n)]
    return [3.25] * n


def approx(a, b, tol=1e-9):
    if math.isinf(a) or math.isinf(b):
        return a == b
    return abs(a - b) <= tol * max(1.0, abs(a), abs(b))


def check_pair(out: Outcome, rng, ref, test, nb, lines, expect) -> None:
    rep = {"ref": ref, "test": test, "num_bins": nb}
    degenerate = min(ref + test) == max(ref + test)
    for name, cls in {**BINNED, **PROB, **TRANSPORT}.items():
        kw = {} if name in TRANSPORT else {"num_bins": nb}
        got = dist(cls, ref, test, **kw)
        alone = dist_alone(cls, ref, test, **kw)
        if not ((math.isnan(got) and math.isnan(alone)) or got == alone or approx(got, alone, 1e-12)):
            out.violation(f"{name}: the stand-alone statistic with the detector's own parameters gives {alone!r}, compare returns {got!r}", {**rep, "detector": name})
        want = binned_formula(name, ref, test, nb) if name in BINNED else (prob_formula(name, ref, test, nb) if name in PROB else transport_formula(name, ref, test))
        r = {**rep, "detector": name}
        if name == "js" and degenerate:
            if math.isnan(got):
                if "KF-C10-1" in out.findings:
                    out.findings["KF-C10-1"].hits += 1
                else:
                    out.violation("JS: NaN for identical constant samples", r)
                continue
            if abs(got) <= 1e-7:
                continue            # both samples are one single value and the distance is 0: what the property says ("zero for identical samples"); the formula's 0/0 is the recorded finding
        if name == "js" and not math.isnan(want) and want <= 1e-7 and (math.isnan(got) or abs(got) <= 1e-7):
            # JS = sqrt(sum/2): for (numerically) equal distributions the sum is 0 up to rounding, its square root amplifies 1e-16 to 1e-8 and a
            # slightly negative sum gives NaN inside scipy.spatial.distance.jensenshannon
            if math.isnan(got):
                if "KF-C10-3" in out.findings:
                    out.findings["KF-C10-3"].hits += 1
                else:
                    out.violation("js: NaN for (numerically) identical distributions", r)
            continue
        if math.isnan(got) or not approx(got, want):
            if name in BINNED and on_interior_edge(ref, test, nb):
                # a value lies EXACTLY on an interior bin edge: the property fixes equal-width bins over the pooled range, not which side of a bin is closed
                CLOSED[0] = "right"
                try:
                    alt = binned_formula(name, ref, test, nb)
                finally:
                    CLOSED[0] = "left"
                if not math.isnan(got) and approx(got, alt):
                    out.mismatch(f"{name}: distance {got!r} is the textbook formula with bins closed on the right ({alt!r}); the model (and NumPy) close them on the left ({want!r})", r)
                    continue
            out.violation(f"{name}: distance {got!r} differs from the textbook formula {want!r} (n={len(ref)}, m={len(test)}, num_bins={nb})", r)
            continue
        if got < -1e-12:
            if name == "kl" and (min(ref) == max(ref) or min(test) == max(test)) and "KF-C10-2" in out.findings:
                out.findings["KF-C10-2"].hits += 1
            else:
                out.violation(f"{name}: negative distance {got!r}", r)
        if name in ("hellinger", "bhattacharyya", "hi") and got > 1 + 1e-12:
            out.violation(f"{name}: distance {got!r} above its bound 1", r)
        if name == "js" and got > math.sqrt(math.log(2)) + 1e-12:
            out.violation(f"js: distance {got!r} above sqrt(ln 2)", r)
        if name != "kl":
            back = dist(cls, test, ref, **kw)
            if not approx(got, back, 1e-9):
                out.violation(f"{name}: not symmetric: d(ref,test)={got!r}, d(test,ref)={back!r}", r)
        sh_r, sh_t = ref[:], test[:]
        rng.shuffle(sh_r)
        rng.shuffle(sh_t)
        shuf = dist(cls, sh_r, sh_t, **kw)
        if not approx(got, shuf, 1e-9):
            out.violation(f"{name}: depends on sample order: {got!r} vs {shuf!r} after shuffling", r)
        if not (name == "js" and min(ref) == max(ref)):
            same = dist(cls, ref, list(ref), **kw)
            # (Hellinger and JS are square roots of a sum that is 0 up to rounding for identical samples: 1e-16 under the root is 1e-8)
            if not (abs(same) <= (1e-7 if name in ("hellinger", "js") else 1e-12)):
                out.violation(f"{name}: distance of a sample to itself is {same!r}, not 0", r)
        if name in TRANSPORT:
            for a, b in ((2.0, 1.0), (0.25, -3.0), (-1.0, 0.0), (-4.0, 2.5)):
                sc = dist(cls, [a * x + b for x in ref], [a * x + b for x in test])
                wantsc = abs(a) * got if name == "emd" else math.sqrt(abs(a)) * got
                if not approx(sc, wantsc, 1e-9):
                    out.violation(f"{name}: under x -> {a}*x+{b} the distance is {sc!r}, expected {wantsc!r}", r)
        # model line
        if name in PROB:
            _, _, hs, lo, hi = prob_vectors(ref, test, nb)
            (e1, c1), (e2, c2) = hs
            lines.append(f"prob {name} {nb} {f2h(lo)} {f2h(hi)} {len(e1)} {len(e2)} " + " ".join([f2h(v) for v in e1] + [str(c) for c in c1] + [f2h(v) for v in e2] + [str(c) for c in c2]))
        else:
            lines.append(f"dist {name} {nb} {len(ref)} {len(test)} " + " ".join(f2h(v) for v in ref + test))
        expect.append((name, got, r))
    out.case({"n": len(ref), "m": len(test), "nb": nb, "h": hash(tuple(ref + test)) & 0xFFFFFF})


def run(out: Outcome) -> None:
    rng = rng_for(out.seed, "C10")
    thorough = out.tier == "thorough"
    out.rule = ("pairs of 1-D samples (continuous, shifted, heavily tied, disjoint, nested, below-reference, on bin edges, constant), n != m allowed, num_bins in 2..40; "
                "formula + axioms per detector; all cases distinct")
    lines, expect = [], []
    kinds = ["cont", "shift", "tied", "disjoint", "nested", "low", "edges", "const"]
    for i in range(60 if thorough else 16):
        k1, k2 = rng.choice(kinds), rng.choice(kinds)
        n, m = rng.randint(2, 40), rng.randint(2, 40)
        if i % 5 == 0:
            m = n
        ref, test = sample(rng, n, k1), sample(rng, m, k2)
        if i % 7 == 3:
            test = list(ref) * rng.choice([1, 3])     # identical / tiled
        check_pair(out, rng, ref, test, rng.choice([2, 3, 5, 10, 17, 40]), lines, expect)
        if i % 3 == 0:
            check_detector_kwargs(out, rng, ref, test, rng.choice([3, 5, 10, 17]))
    # observations EXACTLY on interior bin edges, by construction (ratings, counts, pixel levels, data rounded to a grid): integers 0..K with K a multiple of num_bins,
    # minimum and maximum present, so that every interior edge is a value of the data (which side of a bin is closed is then visible)
    for _ in range(6 if thorough else 3):
        nb = rng.choice([2, 4, 5, 8])
        K = nb * rng.choice([1, 2, 3])
        n, m = rng.randint(6, 40), rng.randint(6, 40)
        ref = [0.0, float(K)] + [float(rng.randint(0, K)) for _ in range(n)]
        test = [float(rng.randint(0, K)) for _ in range(m)] + [float(K // nb)]
        check_pair(out, rng, ref, test, nb, lines, expect)
        out.count("pairs_with_values_on_interior_edges")
    # one detector OBJECT used again: fit(A), compare, fit(B), compare (and with reset() in between) - the second comparison is against B and nothing else
    for name, cls in {**BINNED, **PROB, **TRANSPORT}.items():
        kw = {} if name in TRANSPORT else {"num_bins": rng.choice([3, 5, 10])}
        # the two references differ in LOCATION (B far from A) or in SPREAD (A wide, B and the test sample narrow inside it): anything of A that survives the second fit - its
        # values, its histogram, its range - then shows
        for variant in (("cont", "disjoint", "cont"), ("wide", "nested", "nested")) + ((("tied", "low", "shift"),) if thorough else ()):
            A = sample(rng, rng.randint(8, 40), variant[0]) if variant[0] != "wide" else [rng.uniform(-50, 50) for _ in range(rng.randint(8, 40))]
            B = sample(rng, rng.randint(8, 40), variant[1])
            T1, T2 = sample(rng, rng.randint(8, 40), "cont"), sample(rng, rng.randint(8, 40), variant[2])
            for with_reset in (False, True):
                d = cls(**kw)
                d.fit(X=np.array(A, dtype=float))
                first = float(d.compare(X=np.array(T1, dtype=float))[0].distance)
                if with_reset:
                    d.reset()
                d.fit(X=np.array(B, dtype=float))
                again = float(d.compare(X=np.array(T2, dtype=float))[0].distance)
                self_b = float(d.compare(X=np.array(B, dtype=float))[0].distance)
                want, want_first = dist(cls, B, T2, **kw), dist(cls, A, T1, **kw)
                r = {"detector": name, "A": A, "B": B, "T1": T1, "T2": T2, "kwargs": kw, "reset_between": with_reset, "kind": "refit"}
                same = lambda a, b: (math.isnan(a) and math.isnan(b)) or a == b or approx(a, b, 1e-12)  # noqa: E731
                if not same(first, want_first):
                    out.violation(f"{name}: fit(A); compare(T1) gives {first!r}, a new detector gives {want_first!r}", r)
                if not same(again, want):
                    out.violation(f"{name}: fit(A); compare; {'reset(); ' if with_reset else ''}fit(B); compare(T2) gives {again!r}, a new detector fitted on B gives {want!r} "
                                  "(the comparison is not against the reference fitted last)", r)
                if not (name == "js" and min(B) == max(B)) and not abs(self_b) <= 1e-9 and not math.isnan(dist(cls, B, B, **kw)):
                    out.violation(f"{name}: after re-fitting on B, compare(B) gives {self_b!r}, not 0", r)
                out.case({"refit": name, "reset_between": with_reset, "h": hash(tuple(A + B + T1 + T2)) & 0xFFFFFF})
    if "KF-C10-1" in out.findings:
        check_pair(out, rng, [3.25] * 5, [3.25] * 5, 10, [], [])
    if "KF-C10-3" in out.findings:
        import json
        from common import VERIF
        w = json.loads((VERIF / "corpus" / "findings" / "KF-C10-3.json").read_text())
        check_pair(out, rng, w["ref"], w["test"], w["num_bins"], [], [])
    if "KF-C10-2" in out.findings:
        check_pair(out, rng, [11.0, 10.8, 10.1, 10.9], [3.25] * 6, 2, [], [])
    # identical constant samples of large magnitude (counters, nanosecond timestamps): still distance 0
    for c in (1e15, 2.0**53, 1e17, -3e18):
        for name, cls in {**BINNED, **PROB, **TRANSPORT}.items():
            if name == "js":
                continue            # NaN for every constant sample: KF-C10-1
            r = {"ref": [c] * 4, "test": [c] * 3, "num_bins": 5, "detector": name}
            try:
                got = dist(cls, [c] * 4, [c] * 3, **({} if name in TRANSPORT else {"num_bins": 5}))
            except Exception as e:  # noqa: BLE001
                # the recorded finding is "an exception instead of 0 for a single value of magnitude >= 2^53 (the +-0.5 widening of the degenerate range is absorbed)":
                # identified by the failing input, not by the class of the exception a particular binning routine happens to raise there
                if abs(c) >= 2.0**53 and name not in TRANSPORT and "KF-C10-4" in out.findings:
                    out.findings["KF-C10-4"].hits += 1
                else:
                    out.violation(f"{name}: {type(e).__name__} for identical constant samples of value {c!r}: {e}", r)
                continue
            if not abs(got) <= 1e-12:
                out.violation(f"{name}: distance {got!r} for identical constant samples of value {c!r}, expected 0", r)
        out.case({"huge_constant": c})
    res = run_driver(lines)
    for got, (name, val, r) in zip(res, expect):
        mv = math.inf if got == "inf" else h2f(got[1:])
        if (math.isnan(mv) and math.isnan(val)) or approx(mv, val, 1e-8):
            out.traces_validated += 1
            continue
        out.mismatch(f"{name}: model value {mv!r} differs from implementation {val!r}", r)


def replay(out: Outcome, payload: dict) -> None:
    check_pair(out, rng_for(out.seed, "C10r"), payload["ref"], payload["test"], payload["num_bins"], [], [])
