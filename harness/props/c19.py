"""C19 — configurations: out-of-domain values rejected, every accepted one is operable."""
from __future__ import annotations

import itertools
import math

import dets
import gen
from common import Outcome, f2h, np, rng_for, run_driver

RULE_ADDENDA = ('NaN / +-inf on every real-valued grid; num_bins / window_size of every constructor; every default constructor operated; every public package importable first')
LEVEL = "proof"
EXPLANATION = ("Theorems (Lean): each validation function accepts exactly its stated domain and reports the stated error kind (decision tables for all 18 constructors); "
               "operability lemmas (queues never fail for positive capacities, ADWIN bookkeeping never underflows, ...). This run evaluates a boundary grid per parameter "
               "(just outside / on / just inside every bound, wrong types, ordering pairs) on the real constructors against the model and against the stated domain, and "
               "updates every accepted configuration with a battery of in-domain streams.")
ASSUMPTIONS = ["'stated domain' is the table DESIGN Appendix C transcribed from the error messages / docstrings", "float-stress streams are part of the in-domain battery"]

import frouros.detectors.concept_drift as cd  # noqa: E402
from frouros.detectors.concept_drift.exceptions import InvalidAverageRunLengthError  # noqa: E402
from frouros.detectors.concept_drift.streaming.change_detection.bocd import GaussianUnknownMean  # noqa: E402

# boundary grid for real-valued parameters; NaN and the infinities are values a caller can pass too: NaN lies outside every stated
# domain (every comparison with it is false), +inf inside the half-open ones
FL = [-1.0, -1e-9, 0.0, 5e-324, 1e-9, 0.5, 1 - 1e-9, 1.0, 1 + 1e-9, 2.0, 1e9, math.nan, math.inf, -math.inf]
INTS = [-5, -1, 0, 1, 2, 3, 7]

# stated domain per class: parameter -> (kind, predicate(value, params))
O01 = lambda v, p: 0 < v < 1  # noqa: E731
C01 = lambda v, p: 0 <= v <= 1  # noqa: E731
OC01 = lambda v, p: 0 < v <= 1  # noqa: E731
POS = lambda v, p: v > 0  # noqa: E731
GE1 = lambda v, p: v >= 1  # noqa: E731
STATED = {
    "DDM": {"warning_level": ("f", POS), "drift_level": ("f", lambda v, p: v > 0 and v > p["warning_level"]), "min_num_instances": ("n", GE1)},
    "RDDM": {"warning_level": ("f", POS), "drift_level": ("f", lambda v, p: v > 0 and v > p["warning_level"]), "min_num_instances": ("n", GE1), "min_concept_size": ("n", GE1)},
    "EDDM": {"beta": ("f", lambda v, p: v > 0 and v < p["alpha"]), "level": ("f", POS), "min_num_misclassified_instances": ("n", lambda v, p: v >= 0)},
    "ECDDWT": {"lambda_": ("f", C01), "warning_level": ("f", O01), "average_run_length": ("n", lambda v, p: v in (100, 400, 1000)), "min_num_instances": ("n", GE1)},
    "HDDMA": {"alpha_d": ("f", OC01), "alpha_w": ("f", lambda v, p: 0 < v <= 1 and v > p["alpha_d"]), "min_num_instances": ("n", GE1)},
    "HDDMW": {"alpha_d": ("f", OC01), "alpha_w": ("f", lambda v, p: 0 < v <= 1 and v > p["alpha_d"]), "lambda_": ("f", OC01), "min_num_instances": ("n", GE1)},
    "ADWIN": {"clock": ("n", GE1), "delta": ("f", O01), "m": ("n", GE1), "min_window_size": ("n", GE1), "min_num_instances": ("n", GE1)},
    "KSWIN": {"alpha": ("f", POS), "min_num_instances": ("n", GE1), "num_test_instances": ("n", lambda v, p: 1 <= v <= p["min_num_instances"] // 2)},
    "STEPD": {"alpha_d": ("f", POS), "alpha_w": ("f", lambda v, p: v > 0 and v > p["alpha_d"]), "min_num_instances": ("n", GE1)},
    "CUSUM": {"lambda_": ("f", lambda v, p: v >= 0), "delta": ("f", C01), "min_num_instances": ("n", GE1)},
    "PageHinkley": {"lambda_": ("f", lambda v, p: v >= 0), "delta": ("f", C01), "alpha": ("f", C01), "min_num_instances": ("n", GE1)},
    "GeometricMovingAverage": {"lambda_": ("f", lambda v, p: v >= 0), "alpha": ("f", C01), "min_num_instances": ("n", GE1)},
}
KINDS = {ValueError: "Value", TypeError: "Type", ZeroDivisionError: "ZeroDivision", InvalidAverageRunLengthError: "InvalidAverageRunLength"}


def kind_of(e):
    """the kind of a rejection: the dedicated error, else the first of ValueError / TypeError / ZeroDivisionError the exception IS (a subclass of ValueError is a ValueError)"""
    if isinstance(e, InvalidAverageRunLengthError):
        return "InvalidAverageRunLength"
    for t, k in ((ValueError, "Value"), (TypeError, "Type"), (ZeroDivisionError, "ZeroDivision")):
        if isinstance(e, t):
            return k
    return None


def construct(cls: str, params: dict):
    try:
        cfg = dets.make_config(cls, params)
        det = getattr(cd, cls)(config=cfg)
        return det, None
    except Exception as e:  # noqa: BLE001
        return None, e


def cfg_line(cls: str, fp: dict) -> str:
    parts = ["cfg", cls]
    for k, v in fp.items():
        parts.append(f"{k}={f2h(v)}" if isinstance(v, float) else f"{k}={int(v)}")
    return " ".join(parts)


def battery(rng, cls: str, n: int) -> list[list]:
    if cls in dets.BINARY_ONLY:
        return [[0] * n, [1] * n, gen.bernoulli_stream(rng, n), [0] * (n // 2) + [1] * (n // 2), [1, 0] * (n // 2)]
    if cls in dets.UNIT_INTERVAL:
        return [[0.0] * n, [1.0] * n, gen.unit_stream(rng, n), [0.0] * (n // 2) + [1.0] * (n // 2), [0.5] * n]
    nonneg = cls == "ADWIN"
    return [gen.real_stream(rng, n, nonneg=nonneg), gen.float_stress_stream(rng, n), [0.0] * n, [1e6] * (n // 2) + [0.0] * (n // 2),
            [abs(rng.gauss(0, 1)) if nonneg else rng.gauss(0, 1) for _ in range(n // 2)] + [5.0 + rng.random() for _ in range(n // 2)]]


def operable(out: Outcome, rng, cls: str, params: dict, thorough: bool) -> None:
    for bi, xs in enumerate(battery(rng, cls, 120 if thorough else 60)):
        det, err = construct(cls, params)
        if det is None:
            return
        np.random.seed(1)
        cast = {2: "int64", 4: "float64"}.get(bi)      # in-domain values arrive as NumPy scalars too (elements of an int / float64 array)
        for t, x in enumerate(xs, 1):
            try:
                det.update(value=dets.typed(x, cast))
            except Exception as e:  # noqa: BLE001
                rep = {"class": cls, "params": params, "stream": xs[:t]}
                if cls == "ADWIN" and isinstance(e, ValueError) and "KF-C19-1" in out.findings and dets.model_raises_at_end("ADWIN", params, xs[:t]):
                    out.findings["KF-C19-1"].hits += 1
                else:
                    out.violation(f"{cls}: accepted configuration {params} raises {type(e).__name__}: {e} at update {t} of an in-domain stream", rep)
                break
    out.count("accepted_configurations_operated")


NUMPY2_ONLY = {"concat", "permute_dims", "matrix_transpose", "vecdot", "astype", "acos", "acosh", "asin", "asinh", "atan", "atanh", "atan2", "pow", "bitwise_left_shift",
               "bitwise_right_shift", "bitwise_invert", "unique_all", "unique_counts", "unique_inverse", "unique_values", "cumulative_sum", "cumulative_prod", "isdtype", "long",
               "ulong", "bitwise_count", "unstack", "trapezoid", "StringDType", "strings"}


# standard-library names newer than Python 3.9 (name -> minor version that introduced it); a denylist like NUMPY2_ONLY: incomplete by nature
# names / modules of the standard library that exist on SOME operating systems only, and calls whose meaning differs between them: the package is a pure-Python
# distribution without an operating-system classifier, i.e. declared OS independent.  A denylist (incomplete by nature); uses behind `hasattr(os, "name")`,
# `try ... except AttributeError` or a `sys.platform` / `os.name` test are exempt.
PLATFORM_ONLY_ATTRS = {"os": {"sched_getaffinity": "Linux", "sched_setaffinity": "Linux", "fork": "POSIX", "getuid": "POSIX", "geteuid": "POSIX", "getgid": "POSIX", "getpgid": "POSIX",
                              "setsid": "POSIX", "uname": "POSIX", "getloadavg": "POSIX", "mkfifo": "POSIX", "chown": "POSIX", "nice": "POSIX", "killpg": "POSIX", "wait": "POSIX",
                              "O_BINARY": "Windows", "startfile": "Windows", "posix_fadvise": "Linux", "sendfile": "POSIX", "pipe2": "Linux", "memfd_create": "Linux",
                              "cpu_count_affinity": "Linux"},
                       "signal": {"SIGALRM": "POSIX", "SIGKILL": "POSIX", "SIGUSR1": "POSIX", "SIGHUP": "POSIX", "alarm": "POSIX", "setitimer": "POSIX", "pthread_kill": "POSIX"},
                       "time": {"clock_gettime": "POSIX", "tzset": "POSIX"}, "socket": {"AF_UNIX": "POSIX"}}
PLATFORM_ONLY_MODULES = {"fcntl": "POSIX", "resource": "POSIX", "pwd": "POSIX", "grp": "POSIX", "termios": "POSIX", "tty": "POSIX", "pty": "POSIX", "syslog": "POSIX",
                         "msvcrt": "Windows", "winreg": "Windows", "winsound": "Windows", "_winapi": "Windows", "posix": "POSIX", "nt": "Windows"}
# calls that mean different things on different systems: `os.rename` onto an EXISTING target replaces it on POSIX and raises FileExistsError on Windows (`os.replace` is
# the portable call)
PLATFORM_SEMANTICS = {"os": {"rename": "replaces an existing target on POSIX, raises FileExistsError on Windows (os.replace is the portable call)"}}
STDLIB_NEWER = {
    "typing": {"TypeAlias": 10, "ParamSpec": 10, "Concatenate": 10, "TypeGuard": 10, "ParamSpecArgs": 10, "ParamSpecKwargs": 10, "is_typeddict": 10, "Self": 11, "LiteralString": 11,
               "Never": 11, "assert_never": 11, "assert_type": 11, "reveal_type": 11, "Required": 11, "NotRequired": 11, "Unpack": 11, "TypeVarTuple": 11, "dataclass_transform": 11,
               "override": 12, "TypeAliasType": 12, "get_overloads": 11, "clear_overloads": 11},
    "itertools": {"pairwise": 10, "batched": 12},
    "statistics": {"correlation": 10, "covariance": 10, "linear_regression": 10},
    "bisect": {}, "math": {"cbrt": 11, "exp2": 11, "sumprod": 12},
    "functools": {}, "contextlib": {"aclosing": 10, "chdir": 11}, "enum": {"StrEnum": 11, "verify": 11, "member": 11, "nonmember": 11},
    "tomllib": {"load": 11, "loads": 11}, "datetime": {"UTC": 11}, "operator": {"call": 11},
}


def declared_environment(out: Outcome) -> None:
    """operability starts with the environment the package DECLARES (pyproject.toml: Python >= 3.9, numpy >= 1.26.3, scipy, requests, matplotlib, tqdm) - this
    process is one interpreter and one NumPy, so the rest is audited statically on the source of the tree under test: every directory with modules is a regular
    package (a namespace package imports from a checkout but is left out of a built distribution), only declared distributions and the standard library are imported,
    the syntax is the declared minimum Python's, and no NumPy name that exists only from 2.0 on is used"""
    import ast
    import sys
    from common import REPO
    import re as _re
    root = REPO / "frouros"
    text = (REPO / "pyproject.toml").read_text()
    m = _re.search(r'requires-python\s*=\s*">=\s*3\.(\d+)', text)
    minor = int(m.group(1)) if m else 9
    deps_block = _re.search(r"\ndependencies\s*=\s*\[(.*?)\n\s*\]", text, _re.S)      # (up to the closing bracket on its own line: a requirement may carry extras, `pkg[extra]>=1`)
    declared = {_re.split(r"[<>=!~ \[]", d.strip().strip('",'))[0].lower().replace("-", "_") for d in (deps_block.group(1).split("\n") if deps_block else []) if d.strip().strip('",')}
    stdlib = set(sys.stdlib_module_names)
    # modules that a user's import can reach: the packages' __init__ modules and everything they (transitively) import inside the package
    # (helpers that only the test suite imports - frouros/utils/decorators.py needs pytest - are not part of what runs for a user)
    files = {f for f in root.rglob("*.py") if "tests" not in f.relative_to(root).parts}

    def resolve(mod: str):
        q = REPO / (mod.replace(".", "/") + ".py")
        if q in files:
            return q
        q = REPO / mod.replace(".", "/") / "__init__.py"
        return q if q in files else None

    live, todo = set(), [f for f in files if f.name == "__init__.py"]
    # a package whose __init__ imports nothing is used through its modules (`from frouros.datasets.real import Elec2`): they are entry points too
    for init in list(todo):
        try:
            has_imports = any(isinstance(n, (ast.Import, ast.ImportFrom)) for n in ast.walk(ast.parse(init.read_text())))
        except SyntaxError:
            has_imports = True
        if not has_imports:
            todo += [f for f in files if f.parent == init.parent and not f.name.startswith("_")]
    while todo:
        f = todo.pop()
        if f in live:
            continue
        live.add(f)
        try:
            t = ast.parse(f.read_text())
        except SyntaxError:
            continue
        pkg = ".".join(f.relative_to(REPO).with_suffix("").parts[:-1])
        for node in ast.walk(t):
            names = []
            if isinstance(node, ast.Import):
                names = [a.name for a in node.names]
            elif isinstance(node, ast.ImportFrom):
                base = node.module or ""
                if node.level:
                    up = pkg.split(".")[: len(pkg.split(".")) - (node.level - 1)]
                    base = ".".join(up + ([node.module] if node.module else []))
                names = [base] + [base + "." + a.name for a in node.names]
            for nm in names:
                if nm.startswith("frouros"):
                    q = resolve(nm)
                    if q is not None and q not in live:
                        todo.append(q)
    for d in sorted({p.parent for p in live}):
        if not (d / "__init__.py").exists():
            out.violation(f"{d.relative_to(REPO)} holds modules but no __init__.py: it imports from a source checkout as a namespace package and is left out of a built distribution",
                          {"kind": "packaging", "directory": str(d.relative_to(REPO))})
    for f in sorted(live):
        src = f.read_text()
        rel = str(f.relative_to(REPO))
        try:
            tree = ast.parse(src, feature_version=(3, minor))
        except SyntaxError as e:
            out.violation(f"{rel}: not valid Python 3.{minor} (the declared minimum): {e.msg}", {"kind": "syntax", "file": rel})
            continue
        # optional dependencies and newer APIs used behind a guard are fine: an import inside `try: ... except ImportError`, a name tested with `hasattr` first
        # three separate exemptions, each for what its guard actually protects (review T4: a guard must not exempt more than it guards):
        #   guarded_imports - statements directly in the body of a `try` whose handlers catch ImportError / ModuleNotFoundError (by NAME, or everything): IMPORTS only
        #   guarded_attrs   - inside `if hasattr(X, "name")` / `X.name if hasattr(X, "name") else ...` / `try ... except AttributeError`: uses of the attribute `name` only
        #   version_guarded - the body of `if sys.version_info >= (3, k)`: names newer than the declared minimum but not newer than 3.k
        def catches(handler, names):
            if handler.type is None:
                return True
            types = handler.type.elts if isinstance(handler.type, ast.Tuple) else [handler.type]
            return any((isinstance(t, ast.Name) and t.id in names) or (isinstance(t, ast.Attribute) and t.attr in names) for t in types)

        guarded_imports, guarded_attrs, attr_try = set(), {}, set()
        for node in ast.walk(tree):
            # `if TYPE_CHECKING:` / `if typing.TYPE_CHECKING:` - False at run time by definition: imports in its body are never executed
            if isinstance(node, ast.If) and ((isinstance(node.test, ast.Name) and node.test.id == "TYPE_CHECKING") or (isinstance(node.test, ast.Attribute) and node.test.attr == "TYPE_CHECKING")):
                guarded_imports |= {id(x) for sub in node.body for x in ast.walk(sub) if isinstance(x, (ast.Import, ast.ImportFrom))}
            if isinstance(node, ast.Try):
                if any(catches(h, ("ImportError", "ModuleNotFoundError", "Exception", "BaseException")) for h in node.handlers):
                    guarded_imports |= {id(x) for x in node.body if isinstance(x, (ast.Import, ast.ImportFrom))}
                if any(catches(h, ("AttributeError", "Exception", "BaseException")) for h in node.handlers):
                    for sub in node.body:
                        if not isinstance(sub, (ast.FunctionDef, ast.AsyncFunctionDef, ast.ClassDef)):
                            attr_try |= {id(x) for x in ast.walk(sub)}
            if isinstance(node, (ast.If, ast.IfExp)):
                tested = {c.args[1].value for c in ast.walk(node.test) if isinstance(c, ast.Call) and isinstance(c.func, ast.Name) and c.func.id == "hasattr"
                          and len(c.args) == 2 and isinstance(c.args[1], ast.Constant) and isinstance(c.args[1].value, str)}
                if tested:
                    for x in ast.walk(node):
                        if isinstance(x, ast.Attribute) and x.attr in tested:
                            guarded_attrs[id(x)] = True
        # inside `if sys.platform ...` / `if os.name ...` / `if platform.system() ...` (either branch): platform-specific code behind a platform test
        platform_guarded = set()
        for node in ast.walk(tree):
            if isinstance(node, (ast.If, ast.IfExp)) and any((isinstance(c, ast.Attribute) and ((c.attr == "platform" and isinstance(c.value, ast.Name) and c.value.id == "sys")
                                                                  or (c.attr == "name" and isinstance(c.value, ast.Name) and c.value.id == "os")
                                                                  or (c.attr == "system" and isinstance(c.value, ast.Name) and c.value.id == "platform")))
                                                                 for c in ast.walk(node.test)):
                platform_guarded |= {id(x) for x in ast.walk(node)}
        platform_guarded |= set(guarded_attrs) | attr_try | guarded_imports
        version_guard = {}
        for node in ast.walk(tree):
            if isinstance(node, ast.If) and isinstance(node.test, ast.Compare) and len(node.test.ops) == 1 and isinstance(node.test.ops[0], (ast.GtE, ast.Gt)) \
                    and isinstance(node.test.left, ast.Attribute) and node.test.left.attr == "version_info" and isinstance(node.test.comparators[0], ast.Tuple) \
                    and len(node.test.comparators[0].elts) >= 2 and all(isinstance(e, ast.Constant) for e in node.test.comparators[0].elts[:2]):
                k = node.test.comparators[0].elts[1].value + (1 if isinstance(node.test.ops[0], ast.Gt) and len(node.test.comparators[0].elts) == 2 else 0)
                for sub in node.body:
                    for x in ast.walk(sub):
                        version_guard[id(x)] = k
        np_aliases = set()
        for node in ast.walk(tree):
            if id(node) in guarded_imports:
                if isinstance(node, ast.Import):
                    np_aliases |= {a.asname or a.name for a in node.names if a.name == "numpy"}
                continue
            mods = []
            if isinstance(node, ast.Import):
                mods = [a.name for a in node.names]
                np_aliases |= {a.asname or a.name for a in node.names if a.name == "numpy"}
            elif isinstance(node, ast.ImportFrom) and node.level == 0 and node.module:
                mods = [node.module]
            for mod in mods:
                top = mod.split(".")[0]
                if top not in stdlib and top != "frouros" and top.lower() not in declared:
                    out.violation(f"{rel}: imports '{top}', which is neither the standard library nor a declared dependency ({sorted(declared)})", {"kind": "undeclared import", "file": rel, "module": top})
        for node in ast.walk(tree):
            if (isinstance(node, (ast.Import, ast.ImportFrom)) and id(node) in guarded_imports) or (isinstance(node, ast.Attribute) and (id(node) in guarded_attrs or id(node) in attr_try)):
                continue
            if isinstance(node, ast.ImportFrom) and node.level == 0 and node.module in STDLIB_NEWER:
                for a in node.names:
                    if a.name in STDLIB_NEWER[node.module] and STDLIB_NEWER[node.module][a.name] > version_guard.get(id(node), minor):
                        out.violation(f"{rel}:{node.lineno}: `from {node.module} import {a.name}` needs Python 3.{STDLIB_NEWER[node.module][a.name]}, the package declares >= 3.{minor}",
                                      {"kind": "stdlib api", "file": rel, "name": f"{node.module}.{a.name}"})
            if isinstance(node, ast.Attribute) and isinstance(node.value, ast.Name) and node.value.id in STDLIB_NEWER and node.attr in STDLIB_NEWER[node.value.id] \
                    and STDLIB_NEWER[node.value.id][node.attr] > version_guard.get(id(node), minor):
                out.violation(f"{rel}:{node.lineno}: {node.value.id}.{node.attr} needs Python 3.{STDLIB_NEWER[node.value.id][node.attr]}, the package declares >= 3.{minor}",
                              {"kind": "stdlib api", "file": rel, "name": f"{node.value.id}.{node.attr}"})
            if isinstance(node, ast.Attribute) and isinstance(node.value, ast.Name) and node.attr in PLATFORM_ONLY_ATTRS.get(node.value.id, {}) and id(node) not in platform_guarded:
                out.violation(f"{rel}:{node.lineno}: {node.value.id}.{node.attr} exists on {PLATFORM_ONLY_ATTRS[node.value.id][node.attr]} only; the package declares no operating system "
                              "(a pure-Python distribution) and the use is not behind a hasattr / platform guard", {"kind": "platform api", "file": rel, "name": f"{node.value.id}.{node.attr}"})
            if isinstance(node, ast.Attribute) and isinstance(node.value, ast.Name) and node.attr in PLATFORM_SEMANTICS.get(node.value.id, {}) and id(node) not in platform_guarded:
                out.violation(f"{rel}:{node.lineno}: {node.value.id}.{node.attr} {PLATFORM_SEMANTICS[node.value.id][node.attr]}; the package declares no operating system",
                              {"kind": "platform semantics", "file": rel, "name": f"{node.value.id}.{node.attr}"})
            if isinstance(node, (ast.Import, ast.ImportFrom)) and id(node) not in platform_guarded:
                for modname in ([a.name for a in node.names] if isinstance(node, ast.Import) else ([node.module] if node.level == 0 and node.module else [])):
                    if modname.split(".")[0] in PLATFORM_ONLY_MODULES:
                        out.violation(f"{rel}:{node.lineno}: module {modname} exists on {PLATFORM_ONLY_MODULES[modname.split('.')[0]]} only; the package declares no operating system",
                                      {"kind": "platform module", "file": rel, "name": modname})
            if isinstance(node, ast.Attribute) and isinstance(node.value, ast.Name) and node.value.id in (np_aliases or {"np"}) and node.attr in NUMPY2_ONLY:
                out.violation(f"{rel}:{node.lineno}: numpy.{node.attr} exists only from NumPy 2.0 on, the package declares numpy >= 1.26.3", {"kind": "numpy api", "file": rel, "name": node.attr})
    out.case({"declared_environment_audit": True, "python_min": f"3.{minor}", "declared": sorted(declared)})


def run(out: Outcome) -> None:
    rng = rng_for(out.seed, "C19")
    thorough = out.tier == "thorough"
    out.rule = ("per class and validated parameter: boundary grid (just outside / on / just inside each bound), every pair under an ordering constraint, wrong types; "
                "model decision vs implementation vs stated domain; every accepted grid configuration operated on 5 in-domain streams")
    lines, expect = [], []
    for cls, table in STATED.items():
        base = dets.full_params(cls, {})
        if cls == "BOCD":
            continue
        for name, (kind, pred) in table.items():
            grid = FL if kind == "f" else INTS + ([100, 400, 1000, 500] if name == "average_run_length" else []) + ([50, 51] if name == "num_test_instances" else [])
            for v in grid:
                params = {**base, name: v}
                # ordering partner variations
                variants = [params]
                if name in ("drift_level", "alpha_w", "beta", "num_test_instances"):
                    partner = {"drift_level": "warning_level", "alpha_w": "alpha_d", "beta": "alpha", "num_test_instances": "min_num_instances"}[name]
                    for pv in ([0.2, 0.5, 1.0] if kind == "f" else [2, 3, 7, 8]):
                        variants.append({**params, partner: pv})
                for prm in variants:
                    det, err = construct(cls, prm)
                    stated_ok = all(pr(prm[nm], prm) for nm, (_, pr) in table.items())
                    rep = {"class": cls, "params": prm, "varied": name}
                    if (err is None) != stated_ok:
                        out.violation(f"{cls}Config({name}={v!r}, ...): {'accepted' if err is None else 'rejected with ' + type(err).__name__} but the stated domain says "
                                      f"{'accept' if stated_ok else 'reject'}", rep)
                    elif err is not None and kind_of(err) is None:
                        out.violation(f"{cls}Config({name}={v!r}): rejected with {type(err).__name__}, not ValueError/TypeError/its dedicated error", rep)
                    lines.append(cfg_line(cls, prm))
                    expect.append((None if err is None else (kind_of(err) or "Other"), rep))
                    if err is None and (thorough or rng.random() < 0.25):
                        operable(out, rng, cls, prm, thorough)
                    out.case({"class": cls, "params": prm})
            for bad in ("3", None, [1]):
                det, err = construct(cls, {**base, name: bad})
                if err is None:
                    out.violation(f"{cls}Config({name}={bad!r}) of the wrong type is accepted", {"class": cls, "param": name, "value": repr(bad)})
            if kind == "n" and name != "average_run_length":
                # integer-valued parameters (documented `:type: int`): a non-integral float or NaN is outside the documented domain
                for bad in (2.5, math.nan):
                    det, err = construct(cls, {**base, name: bad})
                    if err is None:
                        if "KF-C19-2" in out.findings:
                            out.findings["KF-C19-2"].hits += 1
                        else:
                            out.violation(f"{cls}Config({name}={bad!r}): a non-integral value is accepted for an integer-valued parameter", {"class": cls, "param": name, "value": repr(bad)})
        if cls in ("HDDMA", "HDDMW"):
            for bad in (1, "yes", None):
                _, err = construct(cls, {**base, "two_sided_test": bad})
                if err is None:
                    out.violation(f"{cls}Config(two_sided_test={bad!r}) is accepted", {"class": cls})
    # ordering constraints JOINTLY: both parameters of a pair moved away from their defaults, on either side of the OTHER parameter's default (a pair is valid or not by
    # what the two values are, not by where the defaults lie)
    PAIRS = {"DDM": ("warning_level", "drift_level", [0.3, 1.0, 2.0, 2.5, 3.0, 3.5, 6.0, 40.0]),
             "RDDM": ("warning_level", "drift_level", [0.5, 1.773, 2.0, 2.258, 2.3, 3.0, 4.0, 6.0]),
             "HDDMA": ("alpha_d", "alpha_w", [1e-4, 0.001, 0.004, 0.005, 0.006, 0.3, 0.9, 1.0]),
             "HDDMW": ("alpha_d", "alpha_w", [1e-4, 0.001, 0.004, 0.005, 0.006, 0.3, 0.9, 1.0]),
             "STEPD": ("alpha_d", "alpha_w", [1e-4, 0.003, 0.01, 0.05, 0.06, 0.5]),
             "EDDM": ("beta", "alpha", [0.3, 0.89, 0.9, 0.91, 0.95, 0.96, 1.5])}
    for cls, (lo_name, hi_name, vals) in PAIRS.items():
        table, base = STATED[cls], dets.full_params(cls, {})
        for a_ in vals:
            for b_ in vals:
                prm = {**base, lo_name: a_, hi_name: b_}
                det, err = construct(cls, prm)
                stated_ok = all(pr(prm[nm], prm) for nm, (_, pr) in table.items())
                rep = {"class": cls, "params": prm, "varied": f"{lo_name} x {hi_name}"}
                if (err is None) != stated_ok:
                    out.violation(f"{cls}Config({lo_name}={a_!r}, {hi_name}={b_!r}): {'accepted' if err is None else 'rejected with ' + type(err).__name__ + ': ' + str(err)} but the "
                                  f"stated domain says {'accept' if stated_ok else 'reject'}", rep)
                lines.append(cfg_line(cls, prm))
                expect.append((None if err is None else (kind_of(err) or "Other"), rep))
                if err is None and rng.random() < (0.3 if thorough else 0.08):
                    operable(out, rng, cls, prm, thorough)
                out.case({"class": cls, "params": prm, "pair": True})
    # RDDM keeps its recent predictions in a ring of `min_concept_size` slots and replays them after an event: accepted configurations with SMALL rings on runs long
    # enough for the ring to wrap many times, with events of every kind (drift after warnings, warning limit, concept-size limit)
    for k in range(6 if thorough else 3):
        prm = {"warning_level": rng.choice([0.8, 1.2, 1.773]), "drift_level": rng.choice([2.258, 2.6, 3.0]), "min_num_instances": rng.choice([5, 30, 60]),
               "min_concept_size": rng.choice([7, 25, 100]), "max_concept_size": rng.choice([150, 400, 40000]), "max_num_instances_warning": rng.choice([5, 30, 1400])}
        det, err = construct("RDDM", prm)
        if det is None:
            out.violation(f"RDDMConfig({prm}) inside the stated domains is rejected: {type(err).__name__}: {err}", {"class": "RDDM", "params": prm})
            continue
        xs, pr_err = [], 0.05
        for seg in range(rng.randint(4, 8)):
            pr_err = rng.choice([0.02, 0.1, 0.25, 0.5, 0.8]) if seg else 0.05
            xs += [1 if rng.random() < pr_err else 0 for _ in range(rng.randint(120, 500))]
        events = 0
        for t, x in enumerate(xs, 1):
            try:
                det.update(value=x)
                events += bool(det.drift)
            except Exception as e:  # noqa: BLE001
                out.violation(f"RDDM: accepted configuration {prm} raises {type(e).__name__}: {e} at update {t} of a 0/1 stream with several concept changes",
                              {"class": "RDDM", "params": prm, "stream": xs[:t]})
                break
        out.count("rddm_small_ring_long_runs")
        out.count("rddm_small_ring_drifts", events)
        out.case({"class": "RDDM", "params": prm, "n": len(xs), "small_ring": True})
    # ADWIN on NOISE-FREE piecewise-constant streams of non-dyadic levels in larger units (a set point read from a PLC, a price): the window statistics of a constant stretch
    # are zero up to rounding residue of either sign, on which no accepted configuration may raise (long enough for the window to be cut and refilled several times)
    for k in range(4 if thorough else 2):
        prm = rng.choice([{}, {"clock": rng.choice([1, 8, 32]), "delta": rng.choice([0.002, 0.05]), "m": 5, "min_window_size": 5, "min_num_instances": 10}])
        levels = [rng.choice([20.1, 101.3, 0.7, 33.3]), rng.choice([80.3, 250.9, 7.9, 166.7]), rng.choice([20.1, 55.7, 0.1])]
        xs = [lv for lv in levels for _ in range(rng.randint(280, 420))]
        det, err = construct("ADWIN", prm)
        if det is None:
            continue
        for t, x in enumerate(xs, 1):
            try:
                det.update(value=x)
            except Exception as e:  # noqa: BLE001
                rep = {"class": "ADWIN", "params": prm, "stream": xs[:t]}
                if isinstance(e, ValueError) and "KF-C19-1" in out.findings and dets.model_raises_at_end("ADWIN", prm, xs[:t]):
                    out.findings["KF-C19-1"].hits += 1
                else:
                    out.violation(f"ADWIN: accepted configuration {prm} raises {type(e).__name__}: {e} at update {t} of a noise-free piecewise-constant stream (levels {levels})", rep)
                break
        out.count("adwin_piecewise_constant_runs")
        out.case({"class": "ADWIN", "params": prm, "levels": levels, "n": len(xs)})
    # every public package is importable as the FIRST frouros import of a process (operability starts with the import statement)
    import subprocess
    import sys
    from common import REPO
    for mod in ("frouros", "frouros.metrics", "frouros.callbacks", "frouros.callbacks.batch", "frouros.callbacks.streaming", "frouros.datasets", "frouros.datasets.real",
                "frouros.datasets.synthetic", "frouros.detectors", "frouros.detectors.concept_drift", "frouros.detectors.data_drift", "frouros.detectors.data_drift.batch",
                "frouros.detectors.data_drift.streaming", "frouros.utils", "frouros.utils.kernels", "frouros.utils.persistence"):
        r = subprocess.run([sys.executable, "-c", f"import sys; sys.path.insert(0, {str(REPO)!r}); import {mod}"], capture_output=True, text=True, timeout=300)
        if r.returncode != 0:
            out.violation(f"`import {mod}` as the first frouros import of a process fails: {r.stderr.strip().splitlines()[-1][:200] if r.stderr.strip() else r.returncode}", {"module": mod})
        out.case({"first_import": mod})
    declared_environment(out)
    # the documented default path: `Detector()` / `Detector(config=None)` builds its own default configuration (for BOCD also its default model) and is operable
    for cls in dets.CLASSES:
        rep = {"class": cls, "config": None}
        try:
            det = getattr(cd, cls)()
            cfg_default = getattr(cd, cls + "Config")()
        except Exception as e:  # noqa: BLE001
            out.violation(f"{cls}() / {cls}Config() with every argument at its default raises {type(e).__name__}: {e}", rep)
            continue
        np.random.seed(1)
        for t, x in enumerate(battery(rng, cls, 80)[2 if cls in dets.BINARY_ONLY or cls in dets.UNIT_INTERVAL else 0], 1):
            try:
                det.update(value=x)
            except Exception as e:  # noqa: BLE001
                out.violation(f"{cls}(): the default configuration raises {type(e).__name__}: {e} at update {t} of an in-domain stream", rep)
                break
        out.case({"class": cls, "default_constructor": True})
    # a configuration object of another detector class is a wrong type for `config`
    for cls in dets.CLASSES:
        for other in dets.CLASSES:
            if other == cls or issubclass(getattr(cd, other + "Config"), getattr(cd, cls + "Config")):
                continue
            try:
                getattr(cd, cls)(config=dets.make_config(other, {}))
                ok = True
            except TypeError:
                ok = False
            except Exception:  # noqa: BLE001
                ok = False
            if ok:
                out.violation(f"{cls}(config={other}Config()) is accepted although the configuration belongs to another detector", {"class": cls, "config_class": other})
        for junk in ("cfg", 3, {"min_num_instances": 3}):
            try:
                getattr(cd, cls)(config=junk)
                out.violation(f"{cls}(config={junk!r}) is accepted", {"class": cls, "config": repr(junk)})
            except TypeError:
                pass
            except Exception:  # noqa: BLE001
                pass
        out.case({"class": cls, "foreign_configs": True})
    # BOCD model, callbacks, other constructors
    for pv, dv in itertools.product([-1.0, 0.0, 0.5, 2.0], [-1.0, 0.0, 1e-9, 1.0, math.nan, math.inf]):
        try:
            GaussianUnknownMean(prior_mean=0.0, prior_var=pv, data_var=dv)
            k = None
        except Exception as e:  # noqa: BLE001
            k = (kind_of(e) or "Other")
        lines.append(f"cfg Gaussian prior_var={f2h(pv)} data_var={f2h(dv)}")
        expect.append((k, {"class": "GaussianUnknownMean", "prior_var": pv, "data_var": dv}))
        if not dv > 0 and k is None:
            out.violation(f"GaussianUnknownMean(data_var={dv}) accepted although data_var must be > 0", {"data_var": dv})
    from frouros.callbacks.batch import PermutationTestDistanceBased, ResetStatisticalTest
    from frouros.detectors.data_drift.batch import MMD, PSI
    from frouros.detectors.data_drift.streaming import IncrementalKSTest
    from frouros.metrics import PrequentialError
    for npm, tot, jobs in itertools.product([-1, 0, 1, 1000000, 1000001], [None, -1, 0, 1, 1000000, 1000001], [-2, -1, 0, 1, 3]):
        try:
            PermutationTestDistanceBased(num_permutations=npm, total_num_permutations=tot, num_jobs=jobs)
            k = None
        except Exception as e:  # noqa: BLE001
            k = (kind_of(e) or "Other")
        stated = 1 <= npm <= 1000000 and (tot is None or 1 <= tot <= 1000000) and (jobs == -1 or jobs > 0)
        if (k is None) != stated:
            out.violation(f"PermutationTestDistanceBased(num_permutations={npm}, total_num_permutations={tot}, num_jobs={jobs}): "
                          f"{'accepted' if k is None else 'rejected'} but the stated domain says {'accept' if stated else 'reject'}", {"num_permutations": npm, "total": tot, "num_jobs": jobs})
        lines.append(f"cfg Permutation num_permutations={npm} total_num_permutations={'-' if tot is None else tot} num_jobs={jobs} method_ok=1")
        expect.append((k, {"class": "Permutation", "num_permutations": npm, "total": tot, "num_jobs": jobs}))
        out.case({"class": "Permutation", "npm": npm, "tot": tot, "jobs": jobs})
    for m in ("auto", "conservative", "exact", "approximate", "estimate", "Exact", "", None):
        try:
            PermutationTestDistanceBased(num_permutations=5, method=m)
            ok = True
        except (ValueError, TypeError):
            ok = False
        if ok != (m in ("auto", "conservative", "exact", "approximate", "estimate")):
            out.violation(f"PermutationTestDistanceBased(method={m!r}) {'accepted' if ok else 'rejected'}", {"method": m})
    for a in FL:
        for name, mk, stated, tag in (("ResetStatisticalTest", lambda: ResetStatisticalTest(alpha=a), a > 0, f"cfg ResetCallback alpha={f2h(a)}"),
                                       ("PrequentialError", lambda: PrequentialError(alpha=a), 0 < a <= 1, f"cfg Prequential alpha={f2h(a)}")):
            try:
                mk()
                k = None
            except Exception as e:  # noqa: BLE001
                k = (kind_of(e) or "Other")
            if (k is None) != stated:
                out.violation(f"{name}(alpha={a!r}) {'accepted' if k is None else 'rejected'} but the stated domain says {'accept' if stated else 'reject'}", {"class": name, "alpha": a})
            lines.append(tag)
            expect.append((k, {"class": name, "alpha": a}))
    from frouros.detectors.data_drift.batch import JS, KL, BhattacharyyaDistance, HellingerDistance, HINormalizedComplement
    from frouros.detectors.data_drift.streaming import MMD as MMDStreaming
    for v in INTS:
        for name, mk, tag in ([("MMD.chunk_size", lambda: MMD(chunk_size=v), f"cfg ChunkSize chunk_size={v}"),
                               ("IncrementalKSTest.window_size", lambda: IncrementalKSTest(window_size=v), f"cfg PositiveInt value={v}"),
                               ("MMDStreaming.window_size", lambda: MMDStreaming(window_size=v), f"cfg PositiveInt value={v}")] +
                              [(c.__name__ + ".num_bins", (lambda c=c: c(num_bins=v)), f"cfg PositiveInt value={v}")
                               for c in (PSI, HellingerDistance, BhattacharyyaDistance, HINormalizedComplement, JS, KL)]):
            try:
                mk()
                k = None
            except Exception as e:  # noqa: BLE001
                k = (kind_of(e) or "Other")
            if (k is None) != (v >= 1):
                out.violation(f"{name}={v} {'accepted' if k is None else 'rejected'} but the stated domain is > 0", {"constructor": name, "value": v})
            lines.append(tag)
            expect.append((k, {"class": name, "value": v}))
    for bad in (1.5, "2"):
        try:
            MMD(chunk_size=bad)
            out.violation(f"MMD(chunk_size={bad!r}) accepted", {"value": repr(bad)})
        except TypeError:
            pass
        except Exception as e:  # noqa: BLE001
            out.violation(f"MMD(chunk_size={bad!r}) raised {type(e).__name__} instead of TypeError", {"value": repr(bad)})
    if "KF-C19-1" in out.findings:
        import json
        from common import VERIF
        w = json.loads((VERIF / "corpus" / "findings" / "KF-C05-1.json").read_text())
        det, _ = construct("ADWIN", w["params"])
        try:
            for x in w["stream"]:
                det.update(value=x)
        except ValueError:
            out.findings["KF-C19-1"].hits += 1
    got = run_driver(lines)
    for g, (k, rep) in zip(got, expect):
        mk = None if g == "ok" else g[4:]
        if mk != k:
            out.mismatch(f"{rep['class']}: model decision {mk} differs from implementation {k} for {rep}", rep)
        else:
            out.traces_validated += 1


def replay(out: Outcome, payload: dict) -> None:
    run(out)
