"""C09 — MMD is the unbiased estimator for any chunking; streaming MMD = batch on window."""
from __future__ import annotations

import math

from functools import partial

from common import Outcome, close, f2h, h2f, np, rng_for, run_driver

RULE_ADDENDA = ('offsets 1e3 ... 1e8 and scales 1e-3 ... 30; int64/int32/int16/uint8/float32 arrays; updates on the unfitted streaming detector')
LEVEL = "proof"
EXPLANATION = ("Theorems (Lean): chunks are the Python slices and flatten to the sample, chunked kernel sums equal the full double sum, mmd = unbiased "
               "estimator for every valid chunk size with or without the precomputed reference term, permutation invariance, streaming = batch on the last "
               "window. This run: every chunk_size in 1..max(n,m)+2 and None, 1-D..3-D samples, several bandwidths, stand-alone statistic, streaming windows.")
ASSUMPTIONS = ["tolerance 1e-9 (summation order differs between chunkings and between the ring buffer and the window order)"]

from frouros.detectors.data_drift.batch import MMD  # noqa: E402
from frouros.detectors.data_drift.streaming import MMD as MMDStreaming  # noqa: E402
from frouros.utils.kernels import rbf_kernel  # noqa: E402
from frouros.detectors.data_drift.exceptions import MissingFitError  # noqa: E402


def unbiased(X, Y, sigma):
    X2 = X.reshape(len(X), -1)
    Y2 = Y.reshape(len(Y), -1)
    k = lambda a, b: float(np.exp(-np.sum((a - b) ** 2) / (2 * sigma**2)))  # noqa: E731
    n, m = len(X2), len(Y2)
    sxx = sum(k(X2[i], X2[j]) for i in range(n) for j in range(n) if i != j)
    syy = sum(k(Y2[i], Y2[j]) for i in range(m) for j in range(m) if i != j)
    sxy = sum(k(X2[i], Y2[j]) for i in range(n) for j in range(m))
    return sxx / (n * (n - 1)) + syy / (m * (m - 1)) - 2 * sxy / (n * m)


def sample(rng, n, dim, offset=0.0, scale=1.0):
    shift = rng.choice([0.0, 0.5, 2.0])
    a = np.array([[offset + scale * rng.gauss(shift, 1.0) for _ in range(max(1, dim))] for _ in range(n)])
    return a[:, 0] if dim == 0 else a


def conditioning(rng):
    """location / scale of the features: mostly around 0, sometimes with a large offset (timestamps, prices, counters) or a
    small / large scale — the estimator is a function of differences only, so none of this may change its accuracy"""
    r = rng.random()
    if r < 0.55:
        return 0.0, 1.0
    if r < 0.85:
        return rng.choice([1e3, 1e6, 1e8, -1e7]), 1.0
    return rng.choice([0.0, 1e4]), rng.choice([1e-3, 30.0])


def run(out: Outcome) -> None:
    rng = rng_for(out.seed, "C09")
    thorough = out.tier == "thorough"
    out.rule = ("(n, m) in 2..12, dims 0 (1-D array)..3, every chunk_size in 1..max(n,m)+2 and None, bandwidths {0.5,1,2.5}; fit+compare, stand-alone "
                "statistic with the detector's own kwargs, streaming windows 2..6 with every chunk size; all cases are non-trivial (distinct inputs)")
    lines, expect = [], []
    for _ in range(40 if thorough else 12):
        n, m, dim = rng.randint(2, 12), rng.randint(2, 12), rng.choice([0, 1, 2, 3])
        off, sc = conditioning(rng)
        sigma = rng.choice([0.5, 1.0, 2.5]) * sc
        X, Y = sample(rng, n, dim, off, sc), sample(rng, m, dim, off, sc)
        if _ % 3 == 2:
            # heavily TIED samples (binary / categorical-coded / integer features; periodic patterns that put equal values on chunk boundaries): distinct observations
            # with equal values are still distinct pairs of the estimator
            sigma = rng.choice([0.5, 1.0, 2.5])
            alphabet = rng.choice([[0.0, 1.0], [0.0, 1.0, 2.0], [1.5, -2.0, 7.0, 7.5]])
            def tied(k):
                if rng.random() < 0.4:
                    period = rng.randint(1, 3)
                    vals = [[alphabet[(i % period) % len(alphabet)]] * max(1, dim) for i in range(k)]
                else:
                    vals = [[rng.choice(alphabet) for _ in range(max(1, dim))] for i in range(k)]
                A = np.array(vals, dtype=float)
                return A.reshape(-1) if dim == 0 else A
            X, Y = tied(n), tied(m)
            off, sc = 0.0, 1.0
            out.count("tied_sample_pairs")
        ref = unbiased(X, Y, sigma)
        kern = partial(rbf_kernel, sigma=sigma)
        for cs in [None] + list(range(1, max(n, m) + 3)):
            det = MMD(kernel=kern, chunk_size=cs)
            det.fit(X=X)
            got = float(det.compare(X=Y)[0].distance)
            alone = float(det.statistical_method(X, Y, **det.statistical_kwargs))
            rep = {"n": n, "m": m, "dim": dim, "sigma": sigma, "chunk_size": cs, "X": X.tolist(), "Y": Y.tolist()}
            if abs(got - ref) > 1e-9:
                out.violation(f"MMD.compare with chunk_size={cs} returns {got!r}, the unbiased estimator is {ref!r} (n={n}, m={m}, dim={dim})", rep)
            if abs(alone - ref) > 1e-9:
                out.violation(f"MMD stand-alone statistic with the detector's kwargs (chunk_size={cs}) returns {alone!r}, the unbiased estimator is {ref!r}", rep)
            # the statistic used by the permutation test must not depend on what was fitted: evaluate it on a re-split
            Z = np.concatenate([X, Y])
            A, B = Z[:n][::-1], Z[n:][::-1]
            alone2 = float(det.statistical_method(B[: max(2, m)], A[: max(2, n)], **det.statistical_kwargs))
            ref2 = unbiased(B[: max(2, m)], A[: max(2, n)], sigma)
            if abs(alone2 - ref2) > 1e-9:
                out.violation(f"MMD stand-alone statistic on another sample pair (after fit) returns {alone2!r}, the unbiased estimator is {ref2!r}", rep)
            lines.append(f"mmd {dim} {n} {m} {'-' if cs is None else cs} {f2h(sigma)} " + " ".join(f2h(v) for v in np.concatenate([X.reshape(-1), Y.reshape(-1)])))
            expect.append((got, rep))
            out.case({"n": n, "m": m, "dim": dim, "cs": cs, "sigma": sigma, "offset": off, "scale": sc, "h": hash(X.tobytes() + Y.tobytes()) & 0xFFFFFF})
    # ONE reference behind several differently configured detectors in one process (bandwidths, chunk sizes): each result is that detector's own
    n, m = rng.randint(4, 10), rng.randint(4, 10)
    X, Y = sample(rng, n, 1), sample(rng, m, 1)
    for sigma in (0.5, 1.0, 2.5, 0.5):
        for cs in (None, 2):
            det = MMD(kernel=partial(rbf_kernel, sigma=sigma), chunk_size=cs)
            det.fit(X=X)
            got = float(det.compare(X=Y)[0].distance)
            ref = unbiased(X, Y, sigma)
            if abs(got - ref) > 1e-9:
                out.violation(f"MMD(sigma={sigma}, chunk_size={cs}) fitted on a reference that other detectors in this process were fitted on returns {got!r}, its own unbiased estimator is {ref!r}",
                              {"n": n, "m": m, "sigma": sigma, "chunk_size": cs, "X": X.tolist(), "Y": Y.tolist(), "kind": "shared reference"})
            out.case({"shared_reference": True, "sigma": sigma, "cs": cs})
    # array dtype: integer-valued samples stored as int64 / int32 / int16 / uint8 / float32 arrays give the estimator of those VALUES
    # (differences of unsigned or narrow integers must not wrap)
    for dt in (np.int64, np.int32, np.int16, np.uint8, np.float32):
        n, m, dim = rng.randint(3, 8), rng.randint(3, 8), rng.choice([1, 2])
        sigma = rng.choice([1.0, 2.5, 40.0])
        hi = 200 if dt is np.uint8 else 3000
        Xi = np.array([[rng.randint(0, hi) for _ in range(dim)] for _ in range(n)])
        Yi = np.array([[rng.randint(0, hi) for _ in range(dim)] for _ in range(m)])
        ref = unbiased(Xi.astype(float), Yi.astype(float), sigma)
        det = MMD(kernel=partial(rbf_kernel, sigma=sigma), chunk_size=rng.choice([None, 2]))
        det.fit(X=Xi.astype(dt))
        got = float(det.compare(X=Yi.astype(dt))[0].distance)
        rep = {"n": n, "m": m, "dim": dim, "sigma": sigma, "dtype": np.dtype(dt).name, "X": Xi.tolist(), "Y": Yi.tolist()}
        if math.isnan(got) or abs(got - ref) > (1e-5 if dt is np.float32 else 1e-9):
            out.violation(f"MMD on {np.dtype(dt).name} arrays returns {got!r}, the unbiased estimator of these values is {ref!r}", rep)
        out.case({"dtype": np.dtype(dt).name, "n": n, "m": m, "dim": dim, "h": hash(Xi.tobytes() + Yi.tobytes()) & 0xFFFFFF})
    # memory LAYOUT: the same values as a Fortran-ordered matrix (what `df[["a", "b"]].to_numpy()` gives), a column slice of a wider matrix, a transpose, a strided
    # view (every other row), a read-only array - the estimator depends on the values only
    for layout in ("fortran", "column slice", "transpose", "strided rows", "read-only", "negative stride"):
        n, m, dim = rng.randint(3, 8), rng.randint(3, 8), rng.choice([2, 3])
        sigma = rng.choice([1.0, 2.5])
        Xc, Yc = sample(rng, n, dim), sample(rng, m, dim)

        def lay(A):
            if layout == "fortran":
                return np.asfortranarray(A)
            if layout == "column slice":
                wide = np.concatenate([A, np.full((A.shape[0], 2), 7.0)], axis=1)
                return wide[:, : A.shape[1]]
            if layout == "transpose":
                return np.ascontiguousarray(A.T).T
            if layout == "strided rows":
                big = np.repeat(A, 2, axis=0)
                return big[::2]
            if layout == "negative stride":
                return A[::-1][::-1][:, ::-1][:, ::-1] if False else np.ascontiguousarray(A[::-1])[::-1]
            B = A.copy()
            B.setflags(write=False)
            return B
        Xl, Yl = lay(Xc), lay(Yc)
        rep = {"n": n, "m": m, "dim": dim, "sigma": sigma, "layout": layout, "X": Xc.tolist(), "Y": Yc.tolist()}
        if not (np.array_equal(Xl, Xc) and np.array_equal(Yl, Yc)):
            raise AssertionError("layout helper changed the values")
        want = unbiased(Xc, Yc, sigma)
        try:
            det = MMD(kernel=partial(rbf_kernel, sigma=sigma), chunk_size=rng.choice([None, 2]))
            det.fit(X=Xl)
            got = float(det.compare(X=Yl)[0].distance)
            if math.isnan(got) or abs(got - want) > 1e-9:
                out.violation(f"MMD on {layout} arrays returns {got!r}, the unbiased estimator of these values is {want!r}", rep)
            sdet = MMDStreaming(window_size=m, kernel=partial(rbf_kernel, sigma=sigma))
            sdet.fit(X=Xl)
            last = None
            for row in Yl:
                last, _ = sdet.update(value=row)
            if last is None or abs(float(last.distance) - want) > 1e-9:
                out.violation(f"streaming MMD fitted on a {layout} reference and fed rows of a {layout} matrix returns {None if last is None else float(last.distance)!r}, the batch value is {want!r}", rep)
        except Exception as e:  # noqa: BLE001
            out.violation(f"MMD on {layout} arrays raised {type(e).__name__}: {e}", rep)
        out.case({"layout": layout, "n": n, "m": m, "dim": dim})
    # streaming
    for case_i in range(30 if thorough else 10):
        w, dim = rng.randint(2, 6), rng.choice([1, 2])
        cs = rng.choice([None, 1, 2, 3, w, w + 1])
        sigma = rng.choice([1.0, 0.7])
        off = rng.choice([0.0, 0.0, 1e6, 1e8])
        ref = sample(rng, rng.randint(2, 9), dim, off)
        kern = partial(rbf_kernel, sigma=sigma)
        det = MMDStreaming(window_size=w, kernel=kern, chunk_size=cs)
        lines.append(f"x sn {w} {'-' if cs is None else cs} {f2h(sigma)}")
        expect.append(None)
        rejected = 0
        if case_i % 2 == 0:      # the detector was used on another reference before: reset(), then fit again (every other case; half of those with a window that had FILLED before the reset)
            other = sample(rng, rng.randint(2, 6), dim, off)
            det.fit(X=other)
            lines.append(f"x sf {dim} " + " ".join(f2h(v) for v in other.reshape(-1)))
            expect.append(None)
            for _ in range(rng.randint(w, 2 * w) if case_i % 4 == 0 else rng.randint(1, max(1, w - 1))):
                v = sample(rng, 1, dim, off)[0]
                det.update(value=v)
                lines.append("x su " + " ".join(f2h(x) for x in v))
                expect.append(None)
            det.reset()
            lines.append("x sr")
            expect.append(None)
        # updates on the unfitted detector: MissingFitError, and no trace in what follows
        for _ in range(rng.choice([0, 0, 1, 3, w])):
            v = sample(rng, 1, dim, off)[0]
            rejected += 1
            lines.append("x su " + " ".join(f2h(x) for x in v))
            try:
                det.update(value=v)
                out.violation("streaming MMD: update on an unfitted detector did not raise MissingFitError", {"window": w, "dim": dim})
                expect.append(None)
            except MissingFitError:
                expect.append(("err:MissingFit", {"window": w, "dim": dim, "kind": "update before fit"}))
        det.fit(X=ref)
        stream = [sample(rng, 1, dim, off)[0] for _ in range(w + rng.randint(0, 8))]
        lines.append(f"x sf {dim} " + " ".join(f2h(v) for v in ref.reshape(-1)))
        expect.append(None)
        refit_at = rng.randint(1, len(stream) - 1) if case_i % 3 == 1 else rng.choice([None, None, rng.randint(1, len(stream) - 1)])      # (every third case for certain)      # a second fit() on the running detector (no reset): the reference changes, the window keeps sliding
        for t, v in enumerate(stream, 1):
            if refit_at == t:
                ref = sample(rng, rng.randint(2, 9), dim, off)
                det.fit(X=ref)
                lines.append(f"x sf {dim} " + " ".join(f2h(x) for x in ref.reshape(-1)))
                expect.append(None)
            try:
                r, _ = det.update(value=v)
            except Exception as e:  # noqa: BLE001
                out.violation(f"streaming MMD: update raised {type(e).__name__}: {e} at update {t}" + (" (after a second fit() at update %d)" % refit_at if refit_at and t >= refit_at else ""),
                              {"window": w, "dim": dim, "refit_at": refit_at})
                break
            rep = {"window": w, "dim": dim, "chunk_size": cs, "sigma": sigma, "ref": ref.tolist(), "stream": [x.tolist() for x in stream[:t]], "rejected_before_fit": rejected, "refit_at": refit_at}
            lines.append("x su " + " ".join(f2h(x) for x in v))
            if t < w:
                expect.append(("none", rep))
                if r is not None:
                    out.violation(f"streaming MMD returned a value after {t} < window_size={w} updates", rep)
                    break
                continue
            if r is None and refit_at and t >= refit_at and t - refit_at + 1 < w:
                # a second fit() on a running detector: whether the window keeps sliding (the current code, the model) or starts again is not fixed by the property
                out.mismatch(f"streaming MMD returned nothing {t - refit_at + 1} < window_size={w} updates after a second fit(): it restarts its window at fit(), the model keeps it sliding", rep)
                expect.append(None)
                break
            if r is None:
                out.violation(f"streaming MMD returned nothing at update {t} >= window_size={w}", rep)
                expect.append(None)
                break
            want = unbiased(ref, np.array(stream[t - w: t]), sigma)
            expect.append((float(r.distance), rep))
            if abs(float(r.distance) - want) > 1e-9:
                out.violation(f"streaming MMD returns {float(r.distance)!r} at update {t}, the batch value on the last {w} values is {want!r}", rep)
                break
        out.case({"streaming": True, "window": w, "dim": dim, "cs": cs, "n": len(stream), "h": hash(ref.tobytes()) & 0xFFFFFF})
    # the caller REUSES ONE BUFFER for successive values (`buf[:] = v; det.update(value=buf)`, the pattern of a reader that fills a preallocated row): the values that
    # count are those passed at each call - the window must not change when the caller overwrites its buffer afterwards
    for _ in range(3):
        w, dim, sigma = rng.randint(2, 5), rng.choice([1, 2, 3]), 1.0
        refb = sample(rng, rng.randint(4, 9), dim)
        stream = [sample(rng, 1, dim)[0] for _ in range(w + rng.randint(1, 6))]
        det = MMDStreaming(window_size=w, kernel=partial(rbf_kernel, sigma=sigma))
        det.fit(X=refb)
        buf = np.zeros(dim)
        rep = {"window": w, "dim": dim, "sigma": sigma, "ref": refb.tolist(), "stream": [x.tolist() for x in stream], "kind": "one buffer reused for every update"}
        for t, v in enumerate(stream, 1):
            buf[:] = v
            r, _ = det.update(value=buf)
            if r is not None:
                want = unbiased(refb, np.array(stream[t - w: t]), sigma)
                if abs(float(r.distance) - want) > 1e-9:
                    out.violation(f"streaming MMD fed from ONE reused buffer returns {float(r.distance)!r} at update {t}, the batch value on the last {w} values passed is {want!r}", rep)
                    break
        out.case({"streaming": True, "reused_buffer": True, "window": w, "dim": dim})
    # the documented use of the streaming detector: a 1-D reference and SCALAR updates (`update(value: Union[int, float])`) - the values as Python floats / ints (from a
    # list, a CSV reader, a JSON message), as NumPy scalars of several widths (elements of an array) and as 0-d arrays; all multiples of 1/8 so that every type holds
    # exactly the same numbers, and the result must be the batch value of those numbers
    casts = [("float", float), ("int", lambda v: int(v)), ("np.float64", np.float64), ("np.float32", np.float32), ("np.int64", lambda v: np.int64(v)),
             ("np.float16", np.float16), ("0-d array", lambda v: np.array(v))]
    for name, cast in casts:
        w = rng.randint(2, 5)
        sigma = 1.0
        whole = name in ("int", "np.int64")
        q = (lambda: float(rng.randint(-6, 6))) if whole else (lambda: rng.randint(-40, 40) / 8.0)
        ref1 = np.array([q() for _ in range(rng.randint(3, 8))])
        stream = [q() for _ in range(w + rng.randint(1, 6))]
        det = MMDStreaming(window_size=w, kernel=partial(rbf_kernel, sigma=sigma))
        rep = {"window": w, "dim": 1, "sigma": sigma, "ref": ref1.tolist(), "stream": stream, "value_type": name, "kind": "scalar updates on a 1-D reference"}
        try:
            det.fit(X=ref1)
            for t, v in enumerate(stream, 1):
                r, _ = det.update(value=cast(v))
                if (r is None) != (t < w):
                    out.violation(f"streaming MMD fed {name} scalars returned {'nothing' if r is None else 'a value'} at update {t} (window_size={w})", rep)
                    break
                if r is not None:
                    want = unbiased(ref1.reshape(-1, 1), np.array(stream[t - w: t]).reshape(-1, 1), sigma)
                    if abs(float(r.distance) - want) > 1e-9:
                        out.violation(f"streaming MMD fed {name} scalars returns {float(r.distance)!r} at update {t}, the batch value on the last {w} values is {want!r}", rep)
                        break
        except Exception as e:  # noqa: BLE001
            out.violation(f"streaming MMD on a 1-D reference: update(value=<{name}>) raised {type(e).__name__}: {e}", rep)
        out.case({"streaming": True, "scalar_updates": name, "window": w})
    res = run_driver(lines)
    for got, exp in zip(res, expect):
        if exp is None:
            continue
        val, rep = exp
        if val == "err:MissingFit":
            if got != val:
                out.mismatch(f"streaming MMD model answers '{got}' to an update on an unfitted detector (implementation: MissingFitError)", rep)
            continue
        if val == "none":
            if got != "-":
                out.mismatch(f"streaming MMD model returned {got} during warm-up", rep)
            continue
        toks = got.split(" ")
        if toks[0] == "-":
            out.mismatch("streaming MMD model returned nothing where the implementation returned a value", rep)
            continue
        mv = h2f(toks[0][1:])
        if not close(mv, val, 1e-9) or (len(toks) > 1 and not close(h2f(toks[1][1:]), val, 1e-9)):
            out.mismatch(f"MMD model value {mv!r} differs from implementation {val!r}", rep)
        out.traces_validated += 1


def replay(out: Outcome, payload: dict) -> None:
    run(out)
