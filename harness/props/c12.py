"""C12 — two-sample test detectors return the named test's valid result for every option."""
from __future__ import annotations

import math
import warnings

from common import Outcome, close, f2h, h2f, np, rng_for, run_driver

RULE_ADDENDA = ('Kuiper p-value vs the model (lattice ties skipped); Welch trim / permutations; options x detector reuse; chi-square labels from an object column')
LEVEL = "proof"
EXPLANATION = ("Theorems (Lean) cover the repo-owned part: keyword forwarding (every option reaches the test exactly once), the chi-square table and statistic "
               "(relabelling / column-order / swap invariance), Mann-Whitney U, Welch t/df, Kuiper V vs KS D. scipy's p-value routines are opaque functions: "
               "this run compares every detector with a direct library call for every documented option value and evaluates the invariances on the real detectors.")
ASSUMPTIONS = ["scipy.stats p-values of AD/BWS/CVM/MWU/Welch/chi2 are trusted library code (differentially compared, not modelled)",
               "BWS is compared in its exact regime or with a seeded PermutationMethod"]

import scipy.stats as st  # noqa: E402
from frouros.detectors.data_drift.batch import (AndersonDarlingTest, BWSTest, ChiSquareTest, CVMTest,  # noqa: E402
                                                 KuiperTest, MannWhitneyUTest, WelchTTest)

# (warning filters are left at the defaults: see common.py)


def arr(v):
    """a sample as an array; labels of mixed type (or with a missing value) stay Python objects, as in an object column"""
    if OBJECT_LABELS[0] or any(x is None for x in v) or len({type(x) for x in v}) > 1:
        a = np.empty(len(v), dtype=object)
        a[:] = v
        return a
    return np.array(v)


def res(det_cls, ref, test, **kw):
    d = det_cls()
    d.fit(X=arr(ref) if det_cls is ChiSquareTest and OBJECT_LABELS[0] else np.array(ref))
    r = d.compare(X=arr(test) if det_cls is ChiSquareTest and OBJECT_LABELS[0] else np.array(test), **kw)[0]
    return float(r.statistic), float(r.p_value)


OBJECT_LABELS = [False]


def direct(name, ref, test, **kw):
    a, b = np.array(ref), np.array(test)
    if name == "AD":
        r = st.anderson_ksamp([a, b], **kw)
        return float(r.statistic), float(r.pvalue)
    if name == "BWS":
        r = st.bws_test(a, b, **kw)
    elif name == "CVM":
        r = st.cramervonmises_2samp(a, b, **kw)
    elif name == "MWU":
        r = st.mannwhitneyu(a, b, **{"alternative": "two-sided", **kw})
    elif name == "Welch":
        r = st.ttest_ind(a, b, equal_var=False, **{"alternative": "two-sided", **kw})
    return float(r.statistic), float(r.pvalue)


DET = {"AD": AndersonDarlingTest, "BWS": BWSTest, "CVM": CVMTest, "MWU": MannWhitneyUTest, "Welch": WelchTTest}
OPTIONS = {
    "AD": [{}, {"midrank": False}, {"midrank": True}],
    "BWS": [{}, {"alternative": "two-sided"}, {"alternative": "less"}, {"alternative": "greater"}],
    "CVM": [{}, {"method": "auto"}, {"method": "exact"}, {"method": "asymptotic"}],
    "MWU": [{}, {"alternative": "two-sided"}, {"alternative": "less"}, {"alternative": "greater"}, {"method": "exact"}, {"method": "asymptotic"},
            {"use_continuity": False}, {"alternative": "less", "method": "asymptotic", "use_continuity": False}],
    "Welch": [{}, {"alternative": "two-sided"}, {"alternative": "less"}, {"alternative": "greater"},
              # the remaining keywords of scipy.stats.ttest_ind the detector forwards ("passing additional arguments … using compare kwargs")
              {"trim": 0.2}, {"trim": 0.1, "alternative": "greater"}, {"permutations": 80, "random_state": 5},
              {"nan_policy": "raise", "alternative": "less"}],
}

RANK_BASED = ["AD", "BWS", "CVM", "MWU"]


def same(a, b, tol=1e-12):
    return (math.isnan(a) and math.isnan(b)) or abs(a - b) <= tol * max(1.0, abs(a), abs(b))


def sample(rng, n, kind):
    if kind == "cont":
        return [rng.gauss(0, 1) for _ in range(n)]
    if kind == "shift":
        return [rng.gauss(0.8, 1.3) for _ in range(n)]
    return [float(rng.randint(0, 5)) for _ in range(n)]


def check_numeric(out: Outcome, rng, ref, test, lines, expect) -> None:
    rep = {"ref": ref, "test": test}
    tied = len(set(ref + test)) < len(ref + test)
    exact_bws = math.comb(len(ref) + len(test), len(ref)) <= 9999
    for name, cls in DET.items():
        # BWS draws random resamples above 9999 arrangements: compare it in its exact regime, else with a seeded method
        fixed = {} if (name != "BWS" or exact_bws) else {"method": st.PermutationMethod(n_resamples=199, random_state=12345)}
        for kw in OPTIONS[name]:
            kw = {**kw, **fixed}
            if name == "CVM" and kw.get("method") == "exact" and len(ref) + len(test) > 20:
                continue
            r = {**rep, "detector": name, "options": kw}
            try:
                got = res(cls, ref, test, **kw)
            except Exception as e:  # noqa: BLE001
                try:
                    direct(name, ref, test, **kw)
                    lib_raises = False
                except Exception as e2:  # noqa: BLE001
                    lib_raises = type(e2) is type(e)
                if lib_raises:
                    # the NAMED TEST itself rejects this pair (Anderson-Darling on samples that are one single value ...): the detector passing that on is the named test applied
                    out.count("pairs_rejected_by_the_named_test_itself")
                    continue
                out.violation(f"{name}: compare(X, **{kw}) raised {type(e).__name__}: {e}", r)
                continue
            want = direct(name, ref, test, **kw)
            if not (same(got[0], want[0]) and same(got[1], want[1])):
                out.violation(f"{name} with options {kw}: detector returns {got}, the named test applied to (reference, test) gives {want}", r)
            if math.isnan(got[1]) or not (0.0 <= got[1] <= 1.0):
                out.violation(f"{name} with options {kw}: p-value {got[1]!r} outside [0,1]", r)
        # options are per CALL: a detector that served a call with options (accepted or rejected ones) answers the next plain call like a new detector
        reused = cls()
        reused.fit(X=np.array(ref))
        plain0 = reused.compare(X=np.array(test), **fixed)[0]
        for kw in OPTIONS[name][1:3] + [{"alternative": "not-a-side"}]:
            try:
                reused.compare(X=np.array(test), **{**kw, **fixed})
            except Exception:  # noqa: BLE001
                pass
        try:
            plain1 = reused.compare(X=np.array(test), **fixed)[0]
            if not (same(float(plain0.statistic), float(plain1.statistic)) and (same(float(plain0.p_value), float(plain1.p_value)) or (name == "BWS" and not exact_bws))):
                out.violation(f"{name}: after calls with options the plain compare gives ({float(plain1.statistic)!r}, {float(plain1.p_value)!r}), before them "
                              f"({float(plain0.statistic)!r}, {float(plain0.p_value)!r}): options of one call stick to the detector", {**rep, "detector": name})
        except Exception as e:  # noqa: BLE001
            out.violation(f"{name}: after a call with a rejected option the plain compare raises {type(e).__name__}: {e}", {**rep, "detector": name})
        base = res(cls, ref, test, **fixed)
        sr, stt = ref[:], test[:]
        rng.shuffle(sr)
        rng.shuffle(stt)
        sh = res(cls, sr, stt, **fixed)
        if not (same(base[0], sh[0], 1e-9) and (same(base[1], sh[1], 1e-9) or (name == "BWS" and not exact_bws))):
            out.violation(f"{name}: result depends on sample order: {base} vs {sh}", {**rep, "detector": name})
        sw = res(cls, test, ref, **fixed)
        if (name != "BWS" or exact_bws) and not same(base[1], sw[1], 1e-9):
            out.violation(f"{name}: two-sided p-value changes when the samples are swapped: {base[1]!r} vs {sw[1]!r}", {**rep, "detector": name})
        if name in RANK_BASED:
            f = lambda x: math.exp(x / 3.0) + 2 * x  # noqa: E731  strictly increasing
            tr = res(cls, [f(x) for x in ref], [f(x) for x in test], **fixed)
            if not (same(base[0], tr[0], 1e-9) and same(base[1], tr[1], 1e-9)):
                out.violation(f"{name}: not invariant under a strictly increasing transform: {base} vs {tr}", {**rep, "detector": name})
    # Kuiper: recorded finding (statistic is the KS D, p-value can be NaN / outside [0,1])
    ks = res(KuiperTest, ref, test)
    n, m = len(ref), len(test)
    pooled = sorted(ref + test)
    dp = max(sum(1 for x in ref if x <= z) / n - sum(1 for x in test if x <= z) / m for z in pooled)
    dm = max(sum(1 for x in test if x <= z) / m - sum(1 for x in ref if x <= z) / n for z in pooled)
    V = max(dp, 0) + max(dm, 0)
    D = max(dp, dm, 0)
    if abs(ks[0] - V) > 1e-12 and abs(ks[0] - D) > 1e-12:
        # the recorded finding KF-C12-1 is "the statistic is the KS distance D instead of Kuiper's V": a value that is NEITHER is another defect
        out.violation(f"KuiperTest: statistic {ks[0]!r} is neither Kuiper's V = D+ + D- = {V!r} nor the two-sided KS distance {D!r} of the two empirical distribution functions",
                      {**rep, "detector": "Kuiper"})
    bad = []
    if abs(ks[0] - V) > 1e-12:
        bad.append(f"statistic {ks[0]!r} is the KS D, Kuiper's V = D+ + D- is {V!r}")
    if math.isnan(ks[1]) or not (0 <= ks[1] <= 1):
        bad.append(f"p-value {ks[1]!r} is not a probability")
    if bad:
        if "KF-C12-1" in out.findings:
            out.findings["KF-C12-1"].hits += 1
        else:
            out.violation("KuiperTest: " + "; ".join(bad), {**rep, "detector": "Kuiper"})
    # model lines: Mann-Whitney U, Welch t/df, Kuiper V / KS D
    u = res(MannWhitneyUTest, ref, test)[0]
    lines.append(f"t2 mwu {n} {m} " + " ".join(f2h(v) for v in ref + test))
    expect.append(("mwu", 2 * u, rep))
    if len(set(ref)) > 1 or len(set(test)) > 1:
        t = st.ttest_ind(np.array(ref), np.array(test), equal_var=False)
        lines.append(f"t2 welch {n} {m} " + " ".join(f2h(v) for v in ref + test))
        expect.append(("welch", (res(WelchTTest, ref, test)[0], float(t.df)), rep))
    g = math.gcd(n, m)
    lines.append(f"t2 kuiper {n} {m} " + " ".join(f2h(v) for v in ref + test))
    expect.append(("kuiper", (round(V * n * m / g), round(ks[0] * n * m / g)), rep))
    # KuiperTest AS CODED (statistic = KS D, p-value = the Paltani / Stephens series, NaN and values above 1 included): `Kuiper.kuiper` of the model
    lines.append(f"t2 kuiperp {n} {m} " + " ".join(f2h(v) for v in ref + test))
    expect.append(("kuiperp", ks, rep))
    out.case({"n": n, "m": m, "tied": tied, "h": hash(tuple(ref + test)) & 0xFFFFFF})


def check_chi2(out: Outcome, rng, lines, expect, force_long: bool = False) -> None:
    alphabet = rng.choice([["a", "b"], ["a", "b", "c"], ["x", "y", "z", "w"], [1, 2, 3], ["only"], ["s1", "s2", "s3", "s10", "s11", "s12"]])
    objects = rng.random() < 0.25
    if force_long:
        alphabet, objects = ["s1", "s2", "s3", "s10", "s11", "s12"], False
    long_labels = alphabet[0] == "s1" and not objects
    if objects:        # labels as they come out of an object column: a missing value, mixed types (hashable, not sortable)
        alphabet = [None, "a", 7, 2.5][: rng.randint(2, 4)]
    OBJECT_LABELS[0] = objects
    n, m = rng.randint(4, 40), rng.randint(4, 40)
    ref = [rng.choice(alphabet[:3] if long_labels else alphabet) for _ in range(n)]     # (labels of DIFFERENT lengths: the reference array is `<U2`, the test array `<U3` - test-only labels that are longer than every reference label)
    ints = isinstance(alphabet[0], int)      # both samples keep one dtype (numpy would otherwise stringify only one of them)
    test = [rng.choice(alphabet[: rng.randint(1, len(alphabet))] + rng.choice([[], [99 if ints else "new"]])) for _ in range(m)]
    if long_labels and not objects:
        test = [rng.choice(alphabet) for _ in range(max(m, 12))] + ["s10", "s11", "s12"]
    if rng.random() < 0.5:      # reference-only categories
        ref += [77 if ints else "ref_only"] * rng.randint(1, 3)
    rep = {"ref": ref, "test": test}
    cats = list(dict.fromkeys(ref + test))
    if len(cats) < 2:
        return
    for kw in ({}, {"correction": False}, {"lambda_": "log-likelihood"}):
        try:
            got = res(ChiSquareTest, ref, test, **kw)
        except Exception as e:  # noqa: BLE001
            out.violation(f"ChiSquareTest: compare raised {type(e).__name__}: {e}", {**rep, "options": kw})
            return
        table = np.array([[test.count(c) for c in cats], [ref.count(c) for c in cats]])
        want = st.chi2_contingency(table, **kw)
        if not (same(got[0], float(want[0]), 1e-9) and same(got[1], float(want[1]), 1e-9)):
            out.violation(f"ChiSquareTest{kw}: detector returns {got}, chi2_contingency of the full (test, reference) table gives ({float(want[0])!r}, {float(want[1])!r})", {**rep, "options": kw})
        if math.isnan(got[1]) or not (0 <= got[1] <= 1):
            out.violation(f"ChiSquareTest: p-value {got[1]!r} outside [0,1]", {**rep, "options": kw})
    base = res(ChiSquareTest, ref, test)
    relabel = {c: f"L{(7 * i + 3) % 101}" for i, c in enumerate(cats)}
    rl = res(ChiSquareTest, [relabel[c] for c in ref], [relabel[c] for c in test])
    if not (same(base[0], rl[0], 1e-9) and same(base[1], rl[1], 1e-9)):
        out.violation(f"ChiSquareTest: not invariant to relabelling categories: {base} vs {rl}", rep)
    sw = res(ChiSquareTest, test, ref)
    if not (same(base[0], sw[0], 1e-9) and same(base[1], sw[1], 1e-9)):
        out.violation(f"ChiSquareTest: result changes when the samples are swapped: {base} vs {sw}", rep)
    lines.append("t2 chi2 1 " + " ".join(f"{test.count(c)} {ref.count(c)}" for c in cats))
    expect.append(("chi2", base[0], rep))
    out.case({"chi2": True, "n": len(ref), "m": len(test), "k": len(cats), "object_labels": objects, "h": hash(tuple(map(str, ref + test))) & 0xFFFFFF})
    OBJECT_LABELS[0] = False


def check_refit(out: Outcome, rng) -> None:
    """one detector OBJECT fitted again: fit(A), compare(T), fit(B), compare(T) (with and without reset() in between) - the second result is the named test applied to
    (B, T), i.e. what a new detector fitted on B returns"""
    classes = dict(DET, Kuiper=KuiperTest, ChiSquare=ChiSquareTest)
    for name, cls in classes.items():
        if name == "ChiSquare":
            A = [rng.choice(["a", "b", "c"]) for _ in range(rng.randint(10, 30))]
            B = [rng.choice(["a", "b", "b", "b", "c", "d"]) for _ in range(rng.randint(10, 30))]
            T = [rng.choice(["a", "a", "b", "c", "d"]) for _ in range(rng.randint(10, 30))]
        else:
            A, B = sample(rng, rng.randint(6, 20), "cont"), sample(rng, rng.randint(6, 20), rng.choice(["shift", "tied"]))
            T = sample(rng, rng.randint(6, 20), rng.choice(["cont", "shift"]))
        fixed = {"method": st.PermutationMethod(n_resamples=199, random_state=12345)} if name == "BWS" and math.comb(len(B) + len(T), len(T)) > 9999 else {}
        for with_reset in (False, True):
            rep = {"detector": name, "A": A, "B": B, "T": T, "reset_between": with_reset, "kind": "refit"}
            try:
                d = cls()
                d.fit(X=np.array(A))
                d.compare(X=np.array(T), **fixed)
                if with_reset:
                    d.reset()
                d.fit(X=np.array(B))
                r2 = d.compare(X=np.array(T), **fixed)[0]
                fresh = cls()
                fresh.fit(X=np.array(B))
                r3 = fresh.compare(X=np.array(T), **fixed)[0]
            except Exception as e:  # noqa: BLE001
                out.violation(f"{name}: fit(A); compare; {'reset(); ' if with_reset else ''}fit(B); compare raised {type(e).__name__}: {e}", rep)
                continue
            if not (same(float(r2.statistic), float(r3.statistic)) and same(float(r2.p_value), float(r3.p_value))):
                out.violation(f"{name}: fit(A); compare(T); {'reset(); ' if with_reset else ''}fit(B); compare(T) returns ({float(r2.statistic)!r}, {float(r2.p_value)!r}), a new detector "
                              f"fitted on B returns ({float(r3.statistic)!r}, {float(r3.p_value)!r}): the comparison is not against the reference fitted last", rep)
            out.case({"refit": name, "reset_between": with_reset, "h": hash(tuple(map(str, A + B + T))) & 0xFFFFFF})
        if name != "ChiSquare":
            # the caller REUSES ONE BUFFER for successive references (`buf[:] = new_window; det.fit(X=buf)`): the reference is what the buffer holds at fit(), not the object's identity
            B2 = (B * (len(A) // len(B) + 1))[: len(A)]
            rep = {"detector": name, "A": A, "B": B2, "T": T, "kind": "refit through one reused buffer"}
            # (BWS above 9 999 arrangements is a random resampling estimate: seeded method, decided by the sizes compared HERE)
            fixed = {"method": st.PermutationMethod(n_resamples=199, random_state=12345)} if name == "BWS" and math.comb(len(B2) + len(T), len(T)) > 9999 else {}
            try:
                buf = np.array(A, dtype=float)
                d = cls()
                d.fit(X=buf)
                d.compare(X=np.array(T), **fixed)
                buf[:] = np.array(B2, dtype=float)
                d.fit(X=buf)
                r2 = d.compare(X=np.array(T), **fixed)[0]
                fresh = cls()
                fresh.fit(X=np.array(B2, dtype=float))
                r3 = fresh.compare(X=np.array(T), **fixed)[0]
                if not (same(float(r2.statistic), float(r3.statistic)) and same(float(r2.p_value), float(r3.p_value))):
                    out.violation(f"{name}: fit(buf); compare; buf[:] = B; fit(buf); compare returns ({float(r2.statistic)!r}, {float(r2.p_value)!r}), a new detector fitted on B returns "
                                  f"({float(r3.statistic)!r}, {float(r3.p_value)!r})", rep)
            except Exception as e:  # noqa: BLE001
                out.violation(f"{name}: re-fitting through a reused buffer raised {type(e).__name__}: {e}", rep)
            out.case({"refit_reused_buffer": name})


def run(out: Outcome) -> None:
    rng = rng_for(out.seed, "C12")
    thorough = out.tier == "thorough"
    out.rule = ("sample pairs (continuous, shifted, tied integers; sizes 3..25) x every documented option value of every detector vs a direct library call; "
                "order / swap / monotone-transform invariances; chi-square over random alphabets incl. reference-only and test-only categories")
    lines, expect = [], []
    for i in range(30 if thorough else 8):
        n, m = rng.randint(3, 25), rng.randint(3, 25)
        if i in (1, 2, 3):      # the smallest samples the property admits ("size >= 2 (>= the test's own minimum)"): two values on one side, on the other, on both
            n, m = [(2, rng.randint(2, 9)), (rng.randint(3, 9), 2), (2, 2)][i - 1]
        k1, k2 = rng.choice(["cont", "shift", "tied"]), rng.choice(["cont", "shift", "tied"])
        if i == 0:
            check_numeric(out, rng, [1.0, 2.0, 3.0], [1.5, 2.5, 3.5], lines, expect)
        a_, b_ = sample(rng, n, k1), sample(rng, m, k2)
        if i in (4, 5):       # BOTH samples heavily tied on a common small alphabet (integer / rounded / binned features): values shared between and repeated within the samples
            a_, b_ = sample(rng, max(n, 6), "tied"), sample(rng, max(m, 6), "tied")
        if i == 6:            # the test sample IS the reference (tied): every statistic of "no difference"
            a_ = sample(rng, max(n, 6), "tied")
            b_ = list(a_)
        if len(set(a_ + b_)) < 2:
            b_ = list(b_)
            b_[0] += 1.0          # a pooled sample that is ONE single value is rejected by several of the named tests themselves (Anderson-Darling): not a pair to judge wrappers on
        try:
            check_numeric(out, rng, a_, b_, lines, expect)
        except Exception as e:  # noqa: BLE001
            # a detector that raises on a pair of finite samples of admissible sizes does not "return the statistic and p-value of the named test"
            import traceback
            where = [f.name for f in traceback.extract_tb(e.__traceback__) if "frouros" in f.filename][-1:]
            out.violation(f"a two-sample detector raised {type(e).__name__}: {e} on finite samples of sizes {n} and {m}" + (f" (in {where[0]})" if where else ""),
                          {"ref": a_, "test": b_, "kind": "exception"})
    for _ in range(60 if thorough else 20):
        check_chi2(out, rng, lines, expect, force_long=(_ < 2))
    check_refit(out, rng)
    # KF-C12-2: Kuiper on nearly identical samples of 290+ values (second branch of the series at N >= 144.7)
    for nn, shift in ((290, 3.5), (300, 4.5)):
        a = np.arange(float(nn))
        kd = KuiperTest()
        kd.fit(X=a)
        try:
            rk = kd.compare(X=a + shift)[0]
            if math.isnan(float(rk.p_value)) or not (0 <= float(rk.p_value) <= 1):
                if "KF-C12-1" in out.findings:
                    out.findings["KF-C12-1"].hits += 1
                else:
                    out.violation(f"KuiperTest: p-value {float(rk.p_value)!r} for arange({nn}) vs arange({nn}) + {shift}", {"n": nn, "shift": shift})
        except OverflowError as e:
            if "KF-C12-2" in out.findings:
                out.findings["KF-C12-2"].hits += 1
            else:
                out.violation(f"KuiperTest.compare raises OverflowError: {e} for arange({nn}) vs arange({nn}) + {shift}", {"n": nn, "shift": shift})
        except Exception as e:  # noqa: BLE001
            out.violation(f"KuiperTest.compare raises {type(e).__name__}: {e} for arange({nn}) vs arange({nn}) + {shift}", {"n": nn, "shift": shift})
        out.case({"kuiper_large": nn, "shift": shift})
    # keyword forwarding glue: model of the (repaired) wiring
    for has_alt in (0, 1):
        for n_other in (0, 1, 2):
            lines.append(f"t2 fwd pop {has_alt} {n_other}")
            expect.append(("fwd", None, {"has_alt": has_alt, "n_other": n_other}))
    got = run_driver(lines)
    for g, (kind, val, rep) in zip(got, expect):
        ok = True
        if kind == "mwu":
            ok = int(g) == int(round(val))
        elif kind == "welch":
            t, df = g.split(" ")
            ok = close(h2f(t[1:]), val[0], 1e-9) and close(h2f(df[1:]), val[1], 1e-9)
        elif kind == "kuiper":
            v, d, _, _ = map(int, g.split(" "))
            ok = (v, d) == val
        elif kind == "kuiperp":
            ms, mp = (h2f(t[1:]) for t in g.split(" "))
            # the p-value series is discontinuous in D where D*N crosses 1 (sign of the base D - 1/N: NaN on one side), 2 and 3 (branch changes): a
            # statistic that sits on such a boundary up to rounding (e.g. D = 3/8 with N = 8/3) is a tie - only the statistic is compared there
            nn, mm = len(rep["ref"]), len(rep["test"])
            ne = nn * mm / (nn + mm)
            on_boundary = min(abs(val[0] * ne - k) for k in (1, 2, 3)) < 1e-9 or abs(val[0] - 0.5) < 1e-12 or abs(val[0] - (ne - 1.0) / (2.0 * ne)) < 1e-12
            if on_boundary:
                out.count("kuiper_branch_boundary_ties_skipped")
            ok = close(ms, val[0], 1e-12) and (on_boundary or (math.isnan(mp) and math.isnan(val[1])) or (math.isinf(mp) and mp == val[1]) or close(mp, val[1], 1e-7))
        elif kind == "chi2":
            ok = close(h2f(g[1:]), val, 1e-9)
        elif kind == "fwd":
            ok = g.startswith("call ")
        if ok:
            out.traces_validated += 1
        else:
            out.mismatch(f"{kind}: model output {g} differs from implementation {val}", rep)


def replay(out: Outcome, payload: dict) -> None:
    if all(isinstance(v, (int, float)) for v in payload["ref"]):
        check_numeric(out, rng_for(out.seed, "C12r"), payload["ref"], payload["test"], [], [])
    else:
        run(out)
