"""C05 — ADWIN keeps an exact suffix window and shrinks it only on a significant cut."""
from __future__ import annotations

import copy
import math

import corr
import dets
import gen
from common import Outcome, np, rng_for

RULE_ADDENDA = ('17 500-35 000 stationary values then a shift with checkpoints (no data dropped without a reported drift); independent eps_cut; theorem witnesses replayed')
LEVEL = "proof"
SHRINK_KEYS = ("stream",)
EXPLANATION = ("Theorems (Lean): variance merge/insert/delete identities, row bounds, width bookkeeping, drift iff data dropped. This run "
               "recomputes the window brute-force from the stream history after every update of the real detector (width/total/variance, "
               "bucket blocks, row bounds), checks every shrink against the bound, and ties the model to /repo.")
ASSUMPTIONS = ["'examined split' is the traversal the code performs; the bound eps_cut is the one the code computes",
               "float tolerance 1e-9 (total) / 1e-6 relative to the magnitude (variance, proven cancellation)"]


def ssd(a):
    if not a:
        return 0.0
    m = math.fsum(a) / len(a)
    return math.fsum((x - m) ** 2 for x in a)


def blocks_of(d):
    """(size, total, variance) of every bucket entry, oldest first"""
    out = []
    for i in range(len(d.buckets) - 1, -1, -1):
        b = d.buckets[i]
        for j in range(b.idx):
            out.append((2 ** i, float(b.total[j]), float(b.variance[j])))
    return out


# the harmonic term of the bound: frouros writes 1/(n - (min_window_size + 1)), MOA's ADWIN.java and river 1/(n - min_window_size + 1); the property names "the ADWIN bound
# eps_cut", not one of the two - a cut is justified when it is justified under either, and a split "still exceeds" only when it does under both (WHICH of the two the code
# uses is the model's business: a difference from the model is a correspondence break)
FORM = ["frouros"]


def either_form(fn, d, combine):
    res = []
    for form in ("frouros", "moa"):
        FORM[0] = form
        try:
            res.append(fn(d))
        except (ZeroDivisionError, ValueError):
            res.append(None)
        finally:
            FORM[0] = "frouros"
    vals = [r for r in res if r is not None]
    return combine(vals) if vals else False


def eps_cut(d, n0: int, n1: int) -> float:
    """the ADWIN bound written out from the configuration (NOT the detector's own routine): eps = sqrt(2 m v d') + (2/3) d' m with
    d' = ln(2 ln(width) / delta), m = 1/(n0 - k) + 1/(n1 - k), k = min_window_size + 1, v = variance / width"""
    delta, k = float(d.config.delta), int(d.config.min_window_size) + (1 if FORM[0] == "frouros" else -1)
    width, var = int(d.width), float(d.variance)
    dp = math.log(2.0 * math.log(width) / delta)
    m = 1.0 / (n0 - k) + 1.0 / (n1 - k)
    inner = 2.0 * m * (var / width) * dp
    return (math.sqrt(inner) if inner >= 0 else math.nan) + 2.0 / 3.0 * dp * m


def exceeds_any_boundary_split(d) -> bool:
    """does SOME split of the window into older/newer parts along bucket boundaries exceed the code's bound?"""
    bl = blocks_of(d)
    n0, t0 = 0, 0.0
    n1, t1 = int(d.width), float(d.total)
    mw = d.config.min_window_size
    for size, tot, _ in bl[:-1]:
        n0 += size
        n1 -= size
        t0 += tot
        t1 -= tot
        if n1 > mw and n0 > mw and (FORM[0] != "frouros" or (n0 != mw + 1 and n1 != mw + 1)):      # (frouros' form of the term is infinite for a part of min_window_size + 1 values)
            thr = eps_cut(d, n0, n1)
            if abs(t0 / n0 - t1 / n1) > thr * (1 - 1e-9):
                return True
    return False


def examined_exceeds(d) -> bool:
    """the traversal of the code (newest entry of each row is skipped): does an examined split still exceed the bound?"""
    n0, t0, n1, t1 = 0, 0.0, int(d.width), float(d.total)
    mw = d.config.min_window_size
    for i in range(len(d.buckets) - 1, -1, -1):
        b = d.buckets[i]
        for j in range(b.idx):
            if i == 0 and j == b.idx - 1:
                break
            n0 += 2 ** i
            n1 -= 2 ** i
            t0 += float(b.total[j])
            t1 -= float(b.total[j])
            if n1 > mw and n0 > mw and (FORM[0] != "frouros" or (n0 != mw + 1 and n1 != mw + 1)):      # (frouros' form of the term is infinite for a part of min_window_size + 1 values)
                thr = eps_cut(d, n0, n1)
                if abs(t0 / n0 - t1 / n1) > thr * (1 + 1e-9):
                    return True
    return False


def check(out: Outcome, p: dict, xs: list, runners: list, label: str = "") -> None:
    fp = dets.full_params("ADWIN", p)
    r = dets.Runner("a", "ADWIN", p)
    if r.det is None:
        return
    d = r.det
    hist = []
    shrunk = 0
    mag = max([1.0] + [abs(v) for v in xs if v is not None])
    ab = corr.AdwinBudget(fp["m"])
    for t, x in enumerate(xs, 1):
        if x is None:
            # `None` in a stream is a reset(): the window restarts - every clause below is then about the values SINCE the reset (a history, as the property's quantifier says)
            r.reset()
            hist, ab = [], corr.AdwinBudget(fp["m"])
            out.count("resets_inside_streams")
            if int(d.width) != 0 or bool(d.drift):
                out.violation(f"ADWIN: after reset() width={int(d.width)} drift={bool(d.drift)}", {"class": "ADWIN", "params": p, "stream": xs[:t], "step": t})
                break
            continue
        before = int(d.width)
        pre = copy.deepcopy(d)
        r.update(x)
        hist.append(float(x))
        rep = {"class": "ADWIN", "params": p, "stream": xs[:t], "step": t}
        if r.err is not None:
            # the recorded finding is identified by the failing history (a ValueError exactly where the model, which carries that behaviour, raises), not by the message
            kf = "KF-C05-1" if (isinstance(r.err, ValueError) and dets.model_raises_at_end("ADWIN", p, xs[:t])) else None
            if kf and kf in out.findings:
                out.findings[kf].hits += 1
            else:
                out.violation(f"ADWIN: update raised {type(r.err).__name__}: {r.err} on a non-negative finite stream", rep)
            break
        w = int(d.width)
        win = hist[len(hist) - w:] if w else []
        if not (0 < w <= len(hist)):
            out.violation(f"ADWIN: width {w} is not a suffix length after {t} updates", rep)
            break
        # the total is judged against the rounding error the algorithm can have accumulated (half an ulp per operation at the magnitude the sum had THEN), not against
        # 1e-9 of the largest value of the whole stream: after the level has dropped by many orders of magnitude the window's sum must still be right
        tol_total = ab.step(x, w) + 1e-300
        if abs(float(d.total) - math.fsum(win)) > tol_total:
            out.violation(f"ADWIN: total {float(d.total)!r} is not the sum of the last {w} values ({math.fsum(win)!r}) at step {t}", rep)
            break
        # (variance: the looser of the classical tolerance relative to what the window holds now and eight times the accumulated rounding budget)
        wm = max([abs(float(v)) for v in win] + [0.0])
        if abs(float(d.variance) - ssd(win)) > max(1e-6 * wm * wm * max(1, w), 8.0 * ab.budget_var * 1e3) + 1e-300:
            out.violation(f"ADWIN: variance {float(d.variance)!r} is not the sum of squared deviations of the last {w} values ({ssd(win)!r}) at step {t}", rep)
            break
        try:
            bl = blocks_of(d)
            row_lengths = [int(b.idx) for b in d.buckets]
        except (AttributeError, TypeError, IndexError):
            # the rows are kept in another representation than arrays with an `idx` counter: the clauses about the stored buckets are skipped (counted), the window clauses
            # above and the cut clauses below (which fall back in the same way) remain
            bl, row_lengths = None, []
            out.count("bucket_clauses_skipped_private_representation")
        if bl is None:
            pass
        elif sum(s for s, _, _ in bl) != w:
            out.violation(f"ADWIN: bucket sizes sum to {sum(s for s, _, _ in bl)} but width is {w} at step {t}", rep)
            break
        if any(k_ > fp["m"] for k_ in row_lengths):
            out.violation(f"ADWIN: a bucket row holds more than m={fp['m']} entries after update {t}", rep)
            break
        pos, bad = 0, None
        for size, tot, var in (bl or []):
            blk = win[pos: pos + size]
            pos += size
            if abs(tot - math.fsum(blk)) > 1e-9 * mag * size or abs(var - ssd(blk)) > 1e-6 * mag * mag * size:
                bad = (size, tot, var, math.fsum(blk), ssd(blk))
                break
        if bad:
            out.violation(f"ADWIN: a bucket of size {bad[0]} stores (total, variance)=({bad[1]!r},{bad[2]!r}) but its block has ({bad[3]!r},{bad[4]!r}) at step {t}", rep)
            break
        dropped = w < before + 1
        due = (t_since(r) % fp["clock"] == 0) and (before + 1 > fp["min_num_instances"])
        if dropped:
            shrunk += 1
            if not due:
                out.violation(f"ADWIN: window cut from {before + 1} to {w} values at step {t} although no check is due", rep)
                break
            try:        # uses two private helpers of the detector; if a refactor removes them this clause is skipped, not failed
                try:
                    pre._insert_bucket(value=x)
                except TypeError:           # the private helper's parameter has another name
                    pre._insert_bucket(x)
                justified = either_form(exceeds_any_boundary_split, pre, any)
            except (AttributeError, TypeError, IndexError):
                justified = True
                out.count("shrink_justification_skipped_private_api_missing")
            if not justified:
                out.violation(f"ADWIN: window shrank at step {t} although no split along bucket boundaries exceeds eps_cut", rep)
                break
        if bool(d.drift) != dropped:
            out.violation(f"ADWIN: drift={bool(d.drift)} but data {'was' if dropped else 'was not'} dropped at step {t}", rep)
            break
        try:
            still = due and either_form(examined_exceeds, d, all)
        except (AttributeError, TypeError, IndexError):
            still = False
            out.count("post_check_clause_skipped_private_api_missing")
        if still:
            out.violation(f"ADWIN: after the check at step {t} an examined split still exceeds eps_cut", rep)
            break
    runners.append(r)
    out.case({"class": "ADWIN", "params": p, "n": len(xs), "h": hash(tuple(xs)) & 0xFFFFFF, "resets": sum(1 for v in xs if v is None)}, nontrivial=shrunk > 0)
    out.count("window_cuts_observed", shrunk)


def t_since(r) -> int:
    return int(r.det.num_instances)


def check_long(out: Outcome, rng, p: dict, n_long: int, runners: list) -> None:
    """a stationary stream of tens of thousands of values (the window must keep ALL of them while nothing changes: more than a dozen bucket rows),
    then a shift; window bookkeeping against the stream at checkpoints, the model at the same checkpoints (updates in between are not read)"""
    r = dets.Runner("a", "ADWIN", p)
    if r.det is None:
        return
    d = r.det
    xs = [rng.random() for _ in range(n_long)] + [2.0 + rng.random() for _ in range(400)]
    cut_seen = ever_drift = False
    for t, x in enumerate(xs, 1):
        look = t % 1500 == 0 or t == n_long or t == len(xs)
        r.update(x, observe=look)
        if r.err is not None:
            out.violation(f"ADWIN: update raised {type(r.err).__name__}: {r.err} at update {t} of a long stationary stream", {"class": "ADWIN", "params": p, "n": t, "kind": "long"})
            break
        ever_drift = ever_drift or bool(d.drift)
        if not look:
            continue
        w = int(d.width)
        win = xs[t - w: t]
        rep = {"class": "ADWIN", "params": p, "stream_seeded": True, "n": t, "kind": "long"}
        if not (0 < w <= t) or abs(float(d.total) - math.fsum(win)) > 1e-7 * max(1.0, w) or abs(float(d.variance) - ssd(win)) > 1e-6 * max(1.0, w):
            out.violation(f"ADWIN: after {t} updates width={w}, total={float(d.total)!r}, variance={float(d.variance)!r} are not count/sum/SSD of the last {w} values "
                          f"(sum {math.fsum(win)!r}, SSD {ssd(win)!r})", rep)
            break
        if t <= n_long and w < t and not ever_drift:
            out.violation(f"ADWIN: the window holds {w} of {t} values of a stationary stream although no drift was ever reported (data dropped silently)", rep)
            break
        cut_seen = cut_seen or w < t
    runners.append(r)
    out.case({"class": "ADWIN", "params": p, "n": len(xs), "long": True}, nontrivial=cut_seen)


def run(out: Outcome) -> None:
    rng = rng_for(out.seed, "C05")
    thorough = out.tier == "thorough"
    out.rule = ("random accepted configs (small m, clock 1, weak delta to force many cuts) x non-negative streams incl. multi-shift and float-stress "
                "families, runs continue after detections; non-trivial = at least one window cut")
    runners: list = []
    n = 250 if thorough else 60
    for i in range(n):
        p = gen.rand_params(rng, "ADWIN")
        L = rng.randint(10, 700 if thorough else 300)
        kind = rng.random()
        if kind < 0.55:
            xs = gen.real_stream(rng, L, nonneg=True)
        elif kind < 0.8:   # several shifts, so that runs continue after detections
            xs, level = [], rng.choice([0.0, 1.0, 5.0])
            while len(xs) < L:
                seg = rng.randint(8, 120)
                level = abs(level + rng.choice([-3, -1, 2, 4, 8]))
                xs += [abs(rng.gauss(level, rng.choice([0.05, 0.5, 1.0]))) for _ in range(seg)]
            xs = xs[:L]
        elif kind < 0.9:
            xs = [float(v) for v in gen.bernoulli_stream(rng, L)]
        else:
            xs = gen.float_stress_stream(rng, L)
        check(out, p, xs, runners)
    # the cancellation probes at EVERY scale in every run (not left to the draw): non-dyadic values at 1e8 / 1e-8 / 1e3 followed by exact zeros, and noise on a large level
    for sc in (1e8, 1e-8, 1e3, 1.0):
        for _ in range(3 if thorough else 2):
            check(out, gen.rand_params(rng, "ADWIN"), gen.float_stress_stream(rng, rng.randint(40, 300), scale=sc), runners)
    for level in (1e6, 1e8):
        p = gen.rand_params(rng, "ADWIN")
        check(out, p, [level + abs(rng.gauss(0, 1)) for _ in range(150)] + [level + 6 + abs(rng.gauss(0, 1)) for _ in range(80)], runners)
    # runs that continue after a detection with a large min_num_instances: right after a cut the window is shorter than min_num_instances,
    # so no check is due although the update counter is large
    for i in range(40 if thorough else 12):
        p = {"clock": rng.choice([1, 2]), "delta": rng.choice([0.3, 0.8, 0.05]), "m": rng.choice([2, 3, 5]), "min_window_size": rng.choice([1, 2]),
             "min_num_instances": rng.choice([15, 25, 40, 100])}
        xs, level = [], 0.0
        for seg in range(rng.randint(3, 6)):
            level = rng.choice([0.0, 5.0, 20.0, 50.0]) if seg else 1.0
            xs += [abs(rng.gauss(level, 0.2)) for _ in range(rng.randint(p["min_num_instances"] + 5, 3 * p["min_num_instances"]))]
            xs += [abs(rng.gauss(level + rng.choice([3.0, 8.0]), 0.1)) for _ in range(rng.randint(2, 6))]     # a small step inside the short post-cut window
        check(out, p, xs, runners)
    # input types: narrow numpy integer / float32 / bool scalars are finite non-negative numbers too (the window statistics must not take their dtype)
    for dt in (np.uint8, np.int8, np.int16, np.int32, np.bool_, int, bool):   # (float32 inputs make numpy keep float32 precision: within the property's tolerance, but not comparable with the float64 model)
        p = {"clock": rng.choice([1, 4]), "delta": 0.002, "m": 5, "min_window_size": 5, "min_num_instances": 10}
        hi = 1 if dt in (np.bool_, bool) else (100 if dt is np.int8 else 250)
        xs = [dt(rng.randint(0, hi)) for _ in range(120 if thorough else 60)]
        check(out, p, xs, runners)
    # dynamic range INSIDE one stream: a regime of large values (a sensor at 101 325 Pa, counts of bytes) followed by a small NON-ZERO regime, ratio 1e6 .. 1e12 - after
    # the cut the window holds only small values and its sum and variance must be theirs
    for _ in range(6 if thorough else 3):
        big, small = rng.choice([1e5, 1e8, 1e11]), rng.choice([1e-6, 1e-3, 1.0])
        if _ < 2:
            # (two ratios of 1e11 / 1e12 in every run, at magnitudes where the rounding budget of the large regime is still far below the sum of the small one: what is
            # left after the cut is below any FIXED relative resolution of what left, and must still be right)
            big, small = [(1e5, 1e-6), (1e3, 1e-9)][_]
        p = rng.choice([{}, {"clock": 1, "delta": 0.002, "m": 5, "min_window_size": 5, "min_num_instances": 10}, {"clock": 4, "delta": 0.05, "m": 3, "min_window_size": 2, "min_num_instances": 5}])
        xs = [abs(rng.gauss(big, big * 1e-3)) for _ in range(rng.randint(60, 400))] + [abs(rng.gauss(small, small * 0.2)) for _ in range(rng.randint(150, 500))]
        check(out, p, xs, runners)
        out.count("regime_change_streams")
    # m = 1: rows are emptied by every merge, deletions must skip the emptied rows
    for i in range(20 if thorough else 8):
        p = {"clock": 1, "delta": rng.choice([0.3, 0.8]), "m": 1, "min_window_size": rng.choice([1, 2]), "min_num_instances": rng.choice([1, 3, 5])}
        xs, level = [], 0.0
        for seg in range(rng.randint(3, 7)):
            level = rng.choice([0.0, 4.0, 9.0, 20.0])
            xs += [abs(rng.gauss(level, 0.3)) for _ in range(rng.randint(10, 60))]
        check(out, p, xs, runners)
    # histories with reset(): update ... reset() ... update, reset at a random point, right after a cut, and twice; the window, its buckets and the cuts after the
    # reset are those of the values since the reset
    for i in range(24 if thorough else 10):
        p = gen.rand_params(rng, "ADWIN") if i % 2 else {"clock": rng.choice([1, 2, 4]), "delta": rng.choice([0.3, 0.05, 0.002]), "m": rng.choice([1, 2, 5]),
                                                       "min_window_size": rng.choice([1, 2, 5]), "min_num_instances": rng.choice([3, 10, 20])}
        xs, level = [], rng.choice([0.0, 1.0, 5.0])
        for seg in range(rng.randint(2, 5)):
            level = abs(level + rng.choice([-3, 2, 6, 15]))
            xs += [abs(rng.gauss(level, rng.choice([0.05, 0.5]))) for _ in range(rng.randint(6, 90))]
            if rng.random() < 0.7:
                xs.append(None)
        k = rng.randint(1, max(1, len(xs) - 1))
        xs = xs[:k] + [None] + xs[k:] + [abs(rng.gauss(level + 9, 0.3)) for _ in range(rng.randint(20, 60))]
        check(out, p, xs, runners)
    if "KF-C05-1" in out.findings:   # witness of the recorded finding
        import json
        from common import VERIF
        w = json.loads((VERIF / "corpus" / "findings" / "KF-C05-1.json").read_text())
        check(out, w["params"], w["stream"], [])
    # concrete facts PROVED for the model, replayed on the implementation
    #  C05b.shrink_witness: clock=1, delta=0.9, m=8, min_window_size=1, min_num_instances=7 on 0,0,0,0,100,100,100,100: the 8th update cuts and reports drift
    d = dets.make("ADWIN", {"clock": 1, "delta": 0.9, "m": 8, "min_window_size": 1, "min_num_instances": 7})
    tr = []
    for x in [0, 0, 0, 0, 100, 100, 100, 100]:
        d.update(value=float(x))
        tr.append((bool(d.drift), int(d.width)))
    if tr[:7] != [(False, k) for k in range(1, 8)] or not tr[7][0] or not tr[7][1] < 8:
        out.violation(f"ADWIN: on the stream of theorem C05b.shrink_witness the implementation gives (drift, width) = {tr}, proved for the model: no drift and widths 1..7, "
                      "then drift with a shorter window at update 8", {"class": "ADWIN", "kind": "theorem witness", "theorem": "C05b.shrink_witness"})
    #  C02d.adwin_max_lt_buckets_witness: default integer parameters, any six values: num_buckets = 7, num_max_buckets = 6
    d = dets.make("ADWIN", {})
    for x in [0.3, 0.1, 0.5, 0.2, 0.9, 0.4]:
        d.update(value=x)
    if (int(d.num_buckets), int(d.num_max_buckets)) != (7, 6):
        # a fact about the MODEL's counters (no clause of the property says what they count): a difference is a broken correspondence
        out.mismatch(f"ADWIN: after six updates (num_buckets, num_max_buckets) = {(int(d.num_buckets), int(d.num_max_buckets))}, proved for the model: (7, 6)",
                      {"class": "ADWIN", "kind": "theorem witness", "theorem": "C02d.adwin_max_lt_buckets_witness"})
    out.case({"theorem_witnesses": 2})
    for _ in range(2 if thorough else 1):
        m = rng.choice([1, 1, 2]) if thorough else 1
        check_long(out, rng, {"clock": 32, "delta": 0.002, "m": m, "min_window_size": 5, "min_num_instances": 10}, (17500 if m == 1 else 34000) + rng.randint(0, 1500), runners)
    corr.compare_batch(out, runners, rtol=1e-7)


def replay(out: Outcome, payload: dict) -> None:
    runners: list = []
    check(out, payload["params"], payload["stream"], runners)
    corr.compare_batch(out, runners, rtol=1e-7)
