"""C13 — permutation-test callback: same statistic under the null, Phipson-Smyth p-values."""
from __future__ import annotations

import itertools
import math
from functools import partial

from common import f2h, Outcome, close, h2f, np, rng_for, run_driver

RULE_ADDENDA = ('user-supplied total_num_permutations; the whole p-value computation through the driver; keyword plumbing vs the model; 2-3 column samples; spawn / forkserver start methods')
LEVEL = "proof"
EXPLANATION = ("Theorems (Lean): the null statistics are the detector's statistic with the detector's parameters on the re-splits (wiring, job partition irrelevant); "
               "the four p-value formulas with their ranges, the binomial CDF, the exact integral of the approximate method and the double-factor witness. This run "
               "reproduces NumPy's permutations from random_state, recomputes every null statistic with a fresh detector of the same parameters, checks the "
               "formulas from (b, m, m_t), and varies num_jobs / repeats.")
ASSUMPTIONS = ["worker-pool scheduling is exercised with num_jobs in {1,2,3}; the model proves the sequential meaning (a List.map)"]

from scipy.stats import binom  # noqa: E402
from scipy.integrate import quad  # noqa: E402
from frouros.callbacks.batch import PermutationTestDistanceBased  # noqa: E402
from frouros.detectors.data_drift.batch import (EMD, JS, KL, MMD, PSI, BhattacharyyaDistance, EnergyDistance,  # noqa: E402
                                                 HellingerDistance, HINormalizedComplement)
from frouros.utils.kernels import rbf_kernel  # noqa: E402

DETECTORS = [
    ("PSI", PSI, lambda rng: {"num_bins": rng.choice([3, 4, 7, 25])}),
    ("Hellinger", HellingerDistance, lambda rng: {"num_bins": rng.choice([3, 4, 7, 25])}),
    ("Bhattacharyya", BhattacharyyaDistance, lambda rng: {"num_bins": rng.choice([3, 4, 7, 25])}),
    ("HI", HINormalizedComplement, lambda rng: {"num_bins": rng.choice([3, 4, 7, 25])}),
    ("JS", JS, lambda rng: {"num_bins": rng.choice([4, 6, 15]), **rng.choice([{}, {"base": 2.0}, {"base": 10.0}])}),
    ("KL", KL, lambda rng: {"num_bins": rng.choice([4, 6, 15])}),
    ("EMD", EMD, lambda rng: {}),
    ("Energy", EnergyDistance, lambda rng: {}),
    ("MMD", MMD, lambda rng: {"chunk_size": rng.choice([None, 1, 2, 5]), "kernel": partial(rbf_kernel, sigma=rng.choice([0.5, 1.0, 2.0]))}),
]


def formulas(b: int, m: int, mt: int) -> dict:
    p = np.arange(1, mt + 1) / mt
    integral, _ = quad(lambda q: binom.cdf(b, m, q), 0, 0.5 / mt)
    return {"conservative": (b + 1) / (m + 1), "estimate": b / m, "exact": float(np.mean(binom.cdf(b, m, p))),
            "approximate-spec": (b + 1) / (m + 1) - integral, "approximate-as-coded": (b + 1) / (m + 1) - 0.5 / mt * integral}


def one(out: Outcome, rng, name, cls, params, ref, test, K, method, lines, expect, jobs=(1,), user_mt=None) -> None:
    n, m = len(ref), len(test)
    X, Y = np.array(ref), np.array(test)
    if name == "MMD":
        cols = params.pop("_columns", 1) if "_columns" in params else 1
        if cols == 1:
            X, Y = X.reshape(-1, 1), Y.reshape(-1, 1)
        else:       # multivariate samples: rows are observations (ref/test hold rows*cols values)
            X, Y = X.reshape(-1, cols), Y.reshape(-1, cols)
            n, m = len(X), len(Y)
    seed = rng.randint(0, 10**6)
    results = []
    for j in jobs:
        cb = PermutationTestDistanceBased(num_permutations=K, random_state=seed, num_jobs=j, method=method, name="perm",
                                          **({} if user_mt is None else {"total_num_permutations": user_mt}))
        det = cls(callbacks=[cb], **params)
        det.fit(X=X)
        res, logs = det.compare(X=Y)
        results.append((float(res.distance), [float(v) for v in logs["perm"]["permuted_statistics"]], float(logs["perm"]["p_value"]),
                        float(logs["perm"]["observed_statistic"])))
    # what the callback will pass to the stand-alone statistic, against the model of the keyword plumbing (`Kwargs.callbackKwargs`)
    kind = {"PSI": "psi", "Hellinger": "hellinger", "Bhattacharyya": "bhattacharyya", "HI": "hi", "JS": "js", "KL": "kl", "EMD": "emd", "Energy": "energy", "MMD": "mmd"}[name]

    def canon(k, v):
        if v is None:
            return "None"
        if callable(v):
            return "k"
        if k == "sqrt_div":
            return "np.sqrt(2)" if float(v) == float(np.sqrt(2)) else repr(float(v))
        if isinstance(v, float) and v == int(v):
            return str(int(v))
        return str(v)
    kw_impl = ";".join(sorted(f"{k}={canon(k, v)}" for k, v in det.statistical_kwargs.items()))
    extra = " ".join(f"{k}={canon(k, v)}" for k, v in params.items() if k not in ("num_bins", "chunk_size", "kernel"))
    lines.append(f"kw {kind} {params.get('num_bins', 10)} {params.get('chunk_size') or '-'} {extra}".rstrip())
    expect.append((kw_impl, {"detector": name, "params": {k: (v if not callable(v) else "rbf") for k, v in params.items()}, "kwargs_tie": True}))
    rep = {"detector": name, "params": {k: (v if not callable(v) else "rbf") for k, v in params.items()}, "ref": ref, "test": test,
           "num_permutations": K, "method": method, "random_state": seed, "total_num_permutations": user_mt}
    dist, null, pval, observed = results[0]
    for j, r in zip(jobs[1:], results[1:]):
        if r != results[0]:
            out.violation(f"{name}: permutation test result differs between num_jobs={jobs[0]} and num_jobs={j}", rep)
    if observed != dist:
        out.violation(f"{name}: logged observed statistic {observed!r} is not the distance compare returned {dist!r}", rep)
    # reproduce the permutations
    np.random.seed(seed)
    data = np.concatenate([X, Y])
    total = math.factorial(n + m)
    perms = [np.array(p) for p in itertools.permutations(data)] if K >= total else [np.random.permutation(data) for _ in range(K)]
    if len(null) != len(perms):
        out.violation(f"{name}: {len(null)} null statistics logged for {len(perms)} permutations", rep)
        return
    bad = None
    for i, p in enumerate(perms[: (len(perms) if len(perms) <= 60 else 25)]):
        d2 = cls(**params)
        d2.fit(X=p[:n])
        want = float(d2.compare(X=p[-m:])[0].distance)
        if not ((math.isnan(want) and math.isnan(null[i])) or (math.isinf(want) and want == null[i]) or abs(want - null[i]) <= 1e-9 * max(1.0, abs(want))):
            bad = (i, null[i], want)
            break
    if bad:
        out.violation(f"{name}: null statistic #{bad[0]} is {bad[1]!r} but the detector's own distance with its own parameters on that re-split is {bad[2]!r}", rep)
    arr = np.array(null)
    b, mm = int((arr >= dist).sum()), len(null)
    mt = min(total, 1000000) if user_mt is None else user_mt      # m_t: the user's value when given, else the documented default
    f = formulas(b, mm, mt)
    meth = "exact" if method == "auto" else method
    key = "approximate-as-coded" if meth == "approximate" else meth
    if not close(pval, f[key], 1e-9):
        out.violation(f"{name}: p-value {pval!r} for method {method} differs from its formula {f[key]!r} (b={b}, m={mm}, m_t={mt})", rep)
    if meth == "approximate" and not close(f["approximate-spec"], f["approximate-as-coded"], 1e-12):
        if "KF-C13-1" in out.findings:
            out.findings["KF-C13-1"].hits += 1
        else:
            out.violation(f"{name}: 'approximate' p-value {pval!r} differs from the Phipson-Smyth integral form {f['approximate-spec']!r}", rep)
    if meth != "estimate" and not (0 < pval <= 1):
        out.violation(f"{name}: p-value {pval!r} for method {method} outside (0,1]", rep)
    if mt <= 5000:
        lines.append(f"pval {meth} {b} {mm} {mt}")
        expect.append((pval, rep))
        # the whole p-value computation of the callback through the model (count, auto resolution, default/user m_t, formula)
        lines.append(f"pv {method} {K} {'-' if user_mt is None else user_mt} {total} {f2h(dist)} " + " ".join(f2h(v) for v in null))
        expect.append((pval, {**rep, "b": b, "wiring": True}))
    out.case({"detector": name, "method": method, "K": K, "n": n, "m": m, "b": b, "jobs": list(jobs), "user_mt": user_mt, "h": hash(tuple(ref + test)) & 0xFFFFFF})


def run(out: Outcome) -> None:
    rng = rng_for(out.seed, "C13")
    thorough = out.tier == "thorough"
    out.rule = ("nine distance detectors with non-default parameters x sample pairs x methods {auto, conservative, exact, approximate, estimate}; permutations reproduced "
                "from random_state; enumerate-all branch for n+m <= 5; num_jobs in {1,2,3}; (b, m, m_t) grid for the formulas through the model")
    lines, expect = [], []
    methods = ["auto", "conservative", "exact", "approximate", "estimate"]
    for i, (name, cls, mk) in enumerate(DETECTORS):
        for rep_i in range(3 if thorough else 1):
            params = mk(rng)
            n, m = rng.randint(4, 14), rng.randint(4, 14)
            ref = [rng.gauss(0, 1) for _ in range(n)]
            test = [rng.gauss(rng.choice([0, 0.7]), 1) for _ in range(m)]
            if name in ("HI", "PSI") and rep_i == 0:    # heavily tied statistics (exact ties with the observed value)
                ref = [float(rng.randint(0, 3)) for _ in range(n)]
                test = [float(rng.randint(0, 3)) for _ in range(m)]
            method = methods[(i + rep_i + out.seed) % len(methods)]       # the detector x method pairing rotates with the seed
            one(out, rng, name, cls, params, ref, test, rng.choice([10, 20]), method, lines, expect, jobs=(1, 2) if i % 3 == 0 else (1,))
    # multivariate samples (2-3 columns) for MMD: the pooled sample is re-split by ROWS
    for cols in (2, 3):
        n, m = rng.randint(4, 9), rng.randint(4, 9)
        ref = [rng.gauss(0, 1) for _ in range(n * cols)]
        test = [rng.gauss(0.6, 1) for _ in range(m * cols)]
        one(out, rng, "MMD", MMD, {"chunk_size": rng.choice([None, 2]), "kernel": partial(rbf_kernel, sigma=1.0), "_columns": cols}, ref, test, 12, "conservative", lines, expect)
    # a user-supplied total_num_permutations (e.g. the number of DISTINCT splits C(n+m, n)) is the m_t of the formulas
    for meth in ("exact", "approximate", "auto", "conservative"):
        n, m = rng.randint(3, 6), rng.randint(3, 6)
        ref = [rng.gauss(0, 1) for _ in range(n)]
        test = [rng.gauss(0.5, 1) for _ in range(m)]
        one(out, rng, "EMD", EMD, {}, ref, test, rng.choice([8, 12]), meth, lines, expect, user_mt=rng.choice([math.comb(n + m, n), 250, 1000]))
    # data in another UNIT (seconds as nanoseconds, metres as micrometres ...): EMD and the energy distance follow the scale of the data, so every statistic of the
    # test is then tiny (or huge) - the count b is still a count of `>=` among exactly these numbers, and the p-value its formula
    for k_sc, sc in enumerate((1e-9, rng.choice([1e-12, 1e-7]), rng.choice([1e6, 1e9]))):
        n, m = rng.randint(5, 10), rng.randint(5, 10)
        ref = [sc * rng.gauss(0, 1) for _ in range(n)]
        test = [sc * rng.gauss(1.5, 1) for _ in range(m)]
        nm, cl = [("EMD", EMD), ("Energy", EnergyDistance)][(k_sc + out.seed) % 2]
        one(out, rng, nm, cl, {}, ref, test, rng.choice([15, 25]), methods[(k_sc + out.seed) % len(methods)], lines, expect)
        out.count("rescaled_unit_cases")
    # a LARGE workload (thousands of samples x thousands of permutations: hundreds of megabytes of permuted data if materialised at once) with 1 and 2 workers: the null
    # statistics and the p-value are those of the seed, whatever the number of workers (about 6 s)
    if True:
        big_ref = np.array([rng.gauss(0, 1) for _ in range(2000)])
        big_test = np.array([rng.gauss(0.03, 1) for _ in range(2000)])
        got_big = []
        for j in (1, 2):
            cb = PermutationTestDistanceBased(num_permutations=4500, random_state=31, num_jobs=j, method="conservative", name="perm")
            det = EMD(callbacks=[cb])
            det.fit(X=big_ref)
            _, logs = det.compare(X=big_test)
            got_big.append(([float(v) for v in logs["perm"]["permuted_statistics"]], float(logs["perm"]["p_value"])))
        if got_big[0] != got_big[1]:
            out.violation(f"EMD permutation test on 2 x 2000 samples with 4500 permutations: num_jobs=1 gives p={got_big[0][1]!r}, num_jobs=2 gives p={got_big[1][1]!r} for the same random_state",
                          {"detector": "EMD", "n": 2000, "m": 2000, "num_permutations": 4500, "random_state": 31, "kind": "large workload x num_jobs"})
        out.case({"large_workload": True, "n": 2000, "m": 2000, "K": 4500})
    # identical samples: every null statistic ties with the observed one for symmetric statistics
    one(out, rng, "HI", HINormalizedComplement, {"num_bins": 4}, [0.0, 1.0, 2.0, 3.0, 1.0, 2.0], [0.0, 1.0, 2.0, 3.0, 1.0, 2.0], 15, "conservative", lines, expect)
    # enumerate-all branch (fewer permutations exist than requested)
    one(out, rng, "EMD", EMD, {}, [0.1, 0.9], [0.5, 1.4], 100, "conservative", lines, expect, jobs=(1, 3))
    one(out, rng, "PSI", PSI, {"num_bins": 4}, [0.1, 0.9, 0.3], [0.5, 1.4], 200, "exact", lines, expect)
    # repeatability for every fixed random_state, 0 included (a falsy seed is still a seed)
    for rs in (0, 1, 12345):
        runs = []
        for _ in range(2):
            cb = PermutationTestDistanceBased(num_permutations=12, random_state=rs, num_jobs=1, name="perm")
            det = EMD(callbacks=[cb])
            det.fit(X=np.array([0.1, 0.5, 0.9, 1.3, 0.2, 0.7]))
            _, logs = det.compare(X=np.array([0.4, 1.1, 1.8, 0.6, 2.2]))
            runs.append(([float(v) for v in logs["perm"]["permuted_statistics"]], float(logs["perm"]["p_value"])))
            np.random.random(3)
        if runs[0] != runs[1]:
            out.violation(f"permutation test with random_state={rs} is not repeatable", {"random_state": rs})
        out.case({"repeatable": rs})
    # every argument of the callback at its DEFAULT (random_state=None: fresh permutations every time) and every switch flipped (verbose=True: the progress bar
    # branch), run end to end.  The permutations cannot be replayed for random_state=None; what is checked is what the property says of EVERY configuration: the null
    # statistics are the detector's distance on re-splits of the pooled sample, and the p-value is the formula of the logged (observed, null) statistics.
    import contextlib
    import io
    for variant, kw in (("defaults", {}), ("verbose", {"verbose": True, "random_state": 5}), ("verbose-2-jobs", {"verbose": True, "random_state": 5, "num_jobs": 2}),
                        ("default random_state, 2 jobs", {"num_jobs": 2})):
        refv, testv = [rng.gauss(0, 1) for _ in range(7)], [rng.gauss(0.6, 1) for _ in range(6)]
        repv = {"variant": variant, "callback_arguments": {"num_permutations": 12, **kw}, "ref": refv, "test": testv, "kind": "callback configuration"}
        try:
            with contextlib.redirect_stderr(io.StringIO()), contextlib.redirect_stdout(io.StringIO()):
                cbv = PermutationTestDistanceBased(num_permutations=12, **kw)
                detv = EMD(callbacks=[cbv])
                detv.fit(X=np.array(refv))
                resv, logsv = detv.compare(X=np.array(testv))
            lg = logsv[cbv.name]
            nullv, pv, obsv = [float(v) for v in lg["permuted_statistics"]], float(lg["p_value"]), float(lg["observed_statistic"])
            pooled = sorted(refv + testv)
            if len(nullv) != 12:
                out.violation(f"permutation callback ({variant}): {len(nullv)} null statistics for num_permutations=12", repv)
            elif obsv != float(resv.distance):
                out.violation(f"permutation callback ({variant}): observed statistic {obsv!r} is not the distance compare returned {float(resv.distance)!r}", repv)
            else:
                bv = sum(1 for v in nullv if v >= obsv)
                fv = formulas(bv, 12, min(math.factorial(13), 1000000))
                if not close(pv, fv["exact"], 1e-9):       # default method: auto -> exact
                    out.violation(f"permutation callback ({variant}): p-value {pv!r} differs from its formula {fv['exact']!r} (b={bv}, m=12)", repv)
                # a null statistic is the detector's distance on SOME split of the pooled sample into 7 and 6 values: all C(13, 7) = 1716 splits are enumerated
                from scipy.stats import wasserstein_distance
                pool = refv + testv
                attainable = sorted(float(wasserstein_distance([pool[i] for i in c], [pool[i] for i in range(13) if i not in c])) for c in itertools.combinations(range(13), 7))
                import bisect
                for v in nullv:
                    j = bisect.bisect_left(attainable, v)
                    if min(abs(v - attainable[k]) for k in (max(0, j - 1), min(len(attainable) - 1, j))) > 1e-9:
                        out.violation(f"permutation callback ({variant}): the null statistic {v!r} is not the detector's distance on any split of the pooled sample into 7 and 6 values", repv)
                        break
        except Exception as e:  # noqa: BLE001
            out.violation(f"permutation callback ({variant}) cannot be run: {type(e).__name__}: {e}", repv)
        out.case({"callback_configuration": variant})
    # ONE detector with ONE callback comparing the same batch again and again (and another batch in between): a fixed random_state means the same
    # permutations every time
    for rs in (0, 7):
        cbr = PermutationTestDistanceBased(num_permutations=15, random_state=rs, num_jobs=1, name="perm")
        detr = EMD(callbacks=[cbr])
        ra, ta, tb = [rng.gauss(0, 1) for _ in range(8)], [rng.gauss(0.5, 1) for _ in range(6)], [rng.gauss(-0.3, 1) for _ in range(7)]
        detr.fit(X=np.array(ra))
        seen = []
        for batch in (ta, ta, tb, ta):
            _, lg = detr.compare(X=np.array(batch))
            seen.append((tuple(float(v) for v in lg["perm"]["permuted_statistics"]), float(lg["perm"]["p_value"])))
        if not (seen[0] == seen[1] == seen[3]):
            out.violation(f"permutation test with random_state={rs}: the same detector comparing the same batch repeatedly reports p = {[s_[1] for s_ in (seen[0], seen[1], seen[3])]}",
                          {"random_state": rs, "ref": ra, "test": ta, "kind": "callback reuse"})
        out.case({"callback_reuse": rs})
    # worker pools under every multiprocessing START METHOD (fork: Linux default up to 3.13; spawn: Windows / macOS default; forkserver: Linux default from 3.14):
    # a fresh interpreter sets the method, runs the callback with num_jobs = 2 and must report what this process reports with num_jobs = 1
    import json
    import subprocess
    import sys
    from common import REPO
    refv, testv = [rng.gauss(0, 1) for _ in range(7)], [rng.gauss(0.7, 1) for _ in range(6)]
    cb = PermutationTestDistanceBased(num_permutations=10, random_state=3, num_jobs=1, name="perm")
    det = EMD(callbacks=[cb])
    det.fit(X=np.array(refv))
    _, logs = det.compare(X=np.array(testv))
    here = ([float(v) for v in logs["perm"]["permuted_statistics"]], float(logs["perm"]["p_value"]))
    code = ("import sys, json; sys.path.insert(0, %r)\n"
            "import multiprocessing as mp\n"
            "if __name__ == '__main__':\n"
            "    req = json.loads(sys.stdin.read())\n"
            "    mp.set_start_method(req['method'], force=True)\n"
            "    import numpy as np\n"
            "    from frouros.callbacks.batch import PermutationTestDistanceBased\n"
            "    from frouros.detectors.data_drift.batch import EMD\n"
            "    cb = PermutationTestDistanceBased(num_permutations=10, random_state=3, num_jobs=2, name='perm')\n"
            "    det = EMD(callbacks=[cb]); det.fit(X=np.array(req['ref']))\n"
            "    _, logs = det.compare(X=np.array(req['test']))\n"
            "    print(json.dumps([[float(v) for v in logs['perm']['permuted_statistics']], float(logs['perm']['p_value'])]))\n") % str(REPO)
    for method in (("fork", "spawn", "forkserver") if thorough else ("spawn", "forkserver")):
        rep = {"start_method": method, "ref": refv, "test": testv}
        try:
            r = subprocess.run([sys.executable, "-c", code], input=json.dumps({"method": method, "ref": refv, "test": testv}), capture_output=True, text=True, timeout=600)
        except subprocess.TimeoutExpired:
            out.violation(f"permutation test with num_jobs=2 under the '{method}' start method did not finish", rep)
            continue
        if r.returncode != 0:
            out.violation(f"permutation test with num_jobs=2 under the '{method}' start method failed: {r.stderr.strip().splitlines()[-1][:200] if r.stderr.strip() else r.returncode}", rep)
        else:
            there = json.loads(r.stdout.strip().splitlines()[-1])
            if [there[0], there[1]] != [here[0], here[1]]:
                out.violation(f"permutation test with num_jobs=2 under the '{method}' start method reports p={there[1]!r}, with num_jobs=1 in this process p={here[1]!r}", rep)
        out.case({"start_method": method})
    # formula grid through the model
    grid = [(b, m, mt) for m in (1, 5, 20) for b in sorted({0, 1, m // 2, m}) if b <= m for mt in (2, 6, 24, 120)]
    for (b, m, mt) in grid:
        f = formulas(b, m, mt)
        for meth in ("conservative", "estimate", "exact", "approximate"):
            try:
              val = float(getattr(PermutationTestDistanceBased, "_compute_" + meth)(**(
                {"num_permutations": m, "observed_statistic": 0.0, "permuted_statistic": np.array([0.0] * b + [-1.0] * (m - b))} if meth == "conservative" else
                {"extreme_statistic": np.array([True] * b + [False] * (m - b))} if meth == "estimate" else
                {"extreme_statistic": np.array([True] * b + [False] * (m - b)), "total_num_permutations": mt, "permuted_statistic": np.zeros(m)})))
            except (TypeError, AttributeError):
                # the PRIVATE helpers are called by their current keyword names: after a restructuring of them this grid is skipped (the same formulas are checked
                # through `compare` with the callback attached, above)
                out.count("private_p_value_helpers_not_callable")
                continue
            key = "approximate-as-coded" if meth == "approximate" else meth
            if not close(val, f[key], 1e-9):
                out.violation(f"_compute_{meth}(b={b}, m={m}, m_t={mt}) = {val!r} differs from its formula {f[key]!r}", {"b": b, "m": m, "mt": mt, "method": meth})
            if meth != "estimate" and not (0 < val <= 1):
                out.violation(f"_compute_{meth}(b={b}, m={m}, m_t={mt}) = {val!r} outside (0,1]", {"b": b, "m": m, "mt": mt, "method": meth})
            lines.append(f"pval {meth} {b} {m} {mt}")
            expect.append((val, {"b": b, "m": m, "mt": mt, "method": meth}))
        out.case({"grid": True, "b": b, "m": m, "mt": mt})
    if "KF-C13-1" in out.findings:
        out.findings["KF-C13-1"].hits += 1 if not close(formulas(0, 1, 2)["approximate-spec"], formulas(0, 1, 2)["approximate-as-coded"], 1e-12) else 0
    got = run_driver(lines)
    for g, (val, rep) in zip(got, expect):
        if rep.get("kwargs_tie"):
            if g == val:
                out.traces_validated += 1
            else:
                out.mismatch(f"{rep['detector']}: the model's callback keyword arguments '{g}' differ from detector.statistical_kwargs '{val}'", rep)
            continue
        if rep.get("wiring"):
            toks = g.split(" ")
            if len(toks) == 2 and int(toks[1]) == rep["b"] and close(h2f(toks[0][1:]), val, 1e-9):
                out.traces_validated += 1
            else:
                out.mismatch(f"p-value model (whole computation) gives '{g}' where the implementation reports p={val!r} with b={rep['b']}", rep)
            continue
        if close(h2f(g[1:]), val, 1e-9):
            out.traces_validated += 1
        else:
            out.mismatch(f"p-value model {h2f(g[1:])!r} differs from implementation {val!r}", rep)


def replay(out: Outcome, payload: dict) -> None:
    run(out)
