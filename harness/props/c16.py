"""C16 — outputs are a pure function of config and stream; instances are isolated."""
from __future__ import annotations

import itertools
import random

import corr
import dets
import gen
from common import Outcome, np, rng_for

RULE_ADDENDA = ('a twin read only at a few random points vs one read after every update; every class in fresh interpreters started normally and with -O; heap-model object-graph scenarios (Python `is` relations) incl. a user-defined model class')
LEVEL = "proof"
EXPLANATION = ("Theorem (Lean): in the product of independent machines, projecting any interleaved schedule onto instance i gives exactly the run of instance i alone "
               "(frame lemma). The model has no shared state by construction, so it is the oracle for 'alone': this run drives 2-3 real detectors under every "
               "interleaving (short streams) and sampled interleavings (long), with shared config objects and callbacks, and requires each to match its own "
               "independent model run and an alone run bit for bit.")
ASSUMPTIONS = ["KSWIN: at most one KSWIN per group and the NumPy generator state is restored before each run (the property's carve-out)"]

from frouros.callbacks.streaming import HistoryConceptDrift  # noqa: E402


def schedules(lens: list[int], rng, limit: int):
    """all interleavings when there are few, else a random sample"""
    total = sum(lens)
    import math
    count = math.factorial(total)
    for l in lens:
        count //= math.factorial(l)
    base = [i for i, l in enumerate(lens) for _ in range(l)]
    if count <= limit:
        yield from sorted(set(itertools.permutations(base)))
    else:
        for _ in range(limit):
            s = base[:]
            rng.shuffle(s)
            yield tuple(s)


def group_case(out: Outcome, rng, classes: list[str], share_cfg: bool, with_cb, short: bool, runners: list, limit: int, pre_reset=None) -> None:
    """with_cb: False | True (a list holding one history callback) | "single" (the callback object itself, not a list) | "two" (two callbacks)"""
    k = len(classes)
    params = [gen.rand_params(rng, c) for c in classes]
    if share_cfg:
        params = [params[0]] * k
    lens = [rng.randint(2, 3) if short else rng.randint(20, 120) for _ in classes]
    streams = [gen.stream_for(rng, c, n) for c, n in zip(classes, lens)]
    seed = rng.randint(0, 2**31 - 1)

    def logs_key(logs):
        """scalar content of the history callback's logs as returned by update()"""
        if not logs or "h" not in logs:
            return None
        return {k: [repr(x) for x in v if isinstance(x, (bool, int, float, type(None), np.generic))] for k, v in logs["h"].items()}

    if pre_reset is None:
        pre_reset = rng.random() < 0.4     # every instance is used on a short stream and reset() before the run proper (state shared through reset paths)

    def warm(rs):
        if pre_reset:
            for r, c in zip(rs, classes):
                for x in gen.stream_for(random.Random(seed), c, 4):
                    r.det.update(value=x)
            for r in rs:
                r.det.reset()

    def build():
        cfg = dets.make_config(classes[0], params[0]) if share_cfg else None
        rs = []
        for i, c in enumerate(classes):
            cb = None
            if with_cb == "single":
                cb = HistoryConceptDrift(name="h")
            elif with_cb == "two":
                cb = [HistoryConceptDrift(name="h"), HistoryConceptDrift(name="h2")]
            elif with_cb:
                cb = [HistoryConceptDrift(name="h")]
            rs.append(dets.Runner("abc"[i], c, params[i], callbacks=cb, config=cfg))
        return rs

    # alone runs (sequential, fresh objects)
    alone = build()
    if any(r.det is None for r in alone):
        return
    warm(alone)
    np.random.seed(seed)      # after construction: KSWINConfig re-seeds the global generator when it is built
    alone_logs = []
    for r, xs in zip(alone, streams):
        ll = []
        for x in xs:
            ll.append(logs_key(r.update(x)))
        alone_logs.append(ll)
    if not pre_reset:
        runners.extend(alone)
    rep_base = {"classes": classes, "params": params, "shared_config": share_cfg, "history_callback": with_cb, "streams": streams}
    for sched in schedules(lens, rng, limit):
        rs = build()
        warm(rs)
        np.random.seed(seed)
        pos = [0] * k
        got_logs = [[] for _ in range(k)]
        for i in sched:
            got_logs[i].append(logs_key(rs[i].update(streams[i][pos[i]])))
            pos[i] += 1
        if with_cb and got_logs != alone_logs:
            i = next(j for j in range(k) if got_logs[j] != alone_logs[j])
            out.violation(f"{classes[i]} (instance {i} of {classes}): the callback logs returned by update under an interleaved schedule differ from running alone",
                          {**rep_base, "schedule": list(sched), "instance": i})
            return
        for i, (a, b) in enumerate(zip(alone, rs)):
            if a.obs != b.obs:
                j = next(t for t, (u, v) in enumerate(zip(a.obs, b.obs)) if u != v)
                out.violation(f"{classes[i]} (instance {i} of {classes}): output at its update {j} under an interleaved schedule differs from running alone",
                              {**rep_base, "schedule": list(sched), "instance": i})
                return
        out.count("schedules_run")
    # repeated run agrees exactly
    again = build()
    warm(again)
    np.random.seed(seed)
    for r, xs in zip(again, streams):
        for x in xs:
            r.update(x)
    if [r.obs for r in again] != [r.obs for r in alone]:
        out.violation(f"{classes}: two runs with the same configuration and streams disagree", rep_base)
    out.case({"classes": classes, "shared_config": share_cfg, "history_callback": with_cb, "lens": lens, "h": hash(str(streams)) & 0xFFFFFF})


def sparse_observation_case(out: Outcome, rng, cls: str, runners: list) -> None:
    """outputs after t updates are a function of the configuration and those t values ONLY - in particular not of how often somebody looked:
    one instance is read after every update, a twin only at a few random points (and after a reset() issued while nothing had been read for a
    while); wherever the twin is read it must show exactly what the other shows, and it goes through the model comparison too"""
    p = gen.rand_params(rng, cls)
    xs = gen.stream_for(rng, cls, rng.randint(30, 160))
    reset_at = rng.choice([None, rng.randint(5, len(xs) - 5)])
    look = set(rng.sample(range(len(xs)), k=min(len(xs), rng.randint(2, 6)))) | {len(xs) - 1}
    seed = rng.randint(0, 2**31 - 1)
    a, b = dets.Runner("a", cls, p), dets.Runner("a", cls, p)
    if a.det is None:
        return
    for r, sparse in ((a, False), (b, True)):
        np.random.seed(seed)
        for i, x in enumerate(xs):
            if reset_at == i:
                if sparse:
                    r.det.reset()
                    r.lines.append("r a")
                    r.obs.append(None)
                else:
                    r.reset()
            r.update(x, observe=(not sparse) or i in look)
            if r.err is not None:
                break
    rep = {"class": cls, "params": p, "stream": xs, "reset_before_index": reset_at, "read_after_indices": sorted(look)}
    for k, (u, v) in enumerate(zip(a.obs, b.obs)):
        if v is not None and u != v:
            out.violation(f"{cls}: an instance that was read only occasionally shows {v} after operation {k}, the instance read after every update shows {u}", rep)
            break
    runners.append(b)
    out.case({"class": cls, "sparse_observation": True, "n": len(xs), "looks": len(look), "reset": reset_at is not None})


def interpreter_variants(out: Outcome, rng, classes: list) -> None:
    """the outputs are a function of the configuration and the values - not of how the interpreter was started: every detector class on a stream with a
    reset, in fresh interpreters started normally and with `-O` (assert statements compiled away), each with its own hash salt, must give the in-process trace"""
    import json
    import subprocess
    import sys
    from common import VERIF
    reqs, here = [], []
    for cls in classes:
        p = gen.rand_params(rng, cls)
        xs = gen.stream_for(rng, cls, rng.randint(40, 120))
        xs.insert(rng.randint(10, len(xs) - 5), "r")
        r = dets.Runner("a", cls, p)
        if r.det is None:
            continue
        for x in xs:
            if x == "r":
                r.reset()
            else:
                r.update(x)
        reqs.append({"class": cls, "params": p, "stream": xs, "seed": None})
        here.append(r.obs)
    # every class once more with a HAIR-TRIGGER configuration behind a long warm-up (the weakest thresholds its configuration accepts, min_num_instances 30) on a stream with
    # jumps: whatever the detector would say without its guards (warm-up, validation) is then different from what it says with them, at many steps
    HAIR = {"DDM": {"warning_level": 0.01, "drift_level": 0.02}, "RDDM": {"warning_level": 0.01, "drift_level": 0.02, "min_concept_size": 10, "max_concept_size": 60},
            "EDDM": {"alpha": 0.999, "beta": 0.998, "level": 0.01, "min_num_misclassified_instances": 12}, "ECDDWT": {"warning_level": 0.01, "lambda_": 0.9},
            "HDDMA": {"alpha_d": 0.9, "alpha_w": 1.0, "two_sided_test": True}, "HDDMW": {"alpha_d": 0.9, "alpha_w": 1.0, "two_sided_test": True, "lambda_": 0.5},
            "ADWIN": {"clock": 1, "delta": 0.99, "m": 2, "min_window_size": 1}, "STEPD": {"alpha_d": 0.9, "alpha_w": 0.95},
            "CUSUM": {"lambda_": 0.0, "delta": 0.0}, "PageHinkley": {"lambda_": 0.0, "delta": 0.0, "alpha": 1.0}, "GeometricMovingAverage": {"lambda_": 0.0, "alpha": 0.5},
            "BOCD": {"hazard": 0.5}}
    for cls in classes:
        if cls not in HAIR:
            continue
        p = {**HAIR[cls]} if cls == "EDDM" else {**HAIR[cls], "min_num_instances": 30}      # (EDDM's warm-up is counted in errors: min_num_misclassified_instances)
        xs = []
        for seg in range(4):
            base = gen.stream_for(rng, cls, 24)
            if cls in dets.REAL_VALUED:
                base = [abs(v) + 8.0 * (seg % 2) for v in base] if cls == "ADWIN" else [v + 8.0 * (seg % 2) for v in base]
            elif cls in dets.UNIT_INTERVAL:
                base = [float(seg % 2)] * 24
            else:
                base = [seg % 2] * 24
            xs += base
        xs.insert(50, "r")
        r = dets.Runner("a", cls, p)
        if r.det is None:
            continue
        for x in xs:
            if x == "r":
                r.reset()
            else:
                r.update(x)
        reqs.append({"class": cls, "params": p, "stream": xs, "seed": None})
        here.append(r.obs)
    for flags in ([], ["-O"]):
        r = subprocess.run([sys.executable] + flags + [str(VERIF / "harness" / "alone.py")], input=json.dumps({"batch": reqs}), capture_output=True, text=True, timeout=900)
        if r.returncode != 0:
            out.violation(f"running the detectors in a fresh interpreter started with {flags or 'no flags'} failed: {r.stderr[-300:]}", {"interpreter_flags": flags, "requests": reqs})
            continue
        for q, there, h in zip(reqs, json.loads(r.stdout), here):
            if there != h:
                k = next((i for i, (u, v) in enumerate(zip(there, h)) if u != v), min(len(there), len(h)))
                out.violation(f"{q['class']}: in a fresh interpreter started with {flags or 'no flags'} the output after operation {k} is {there[k] if k < len(there) else None}, "
                              f"in this process {h[k] if k < len(h) else None}", {**q, "interpreter_flags": flags})
    out.case({"interpreter_variants": ["", "-O"], "classes": classes})


def user_model_class():
    """a model class written by a user: derives from the abstract base directly (same conjugate Gaussian arithmetic, own attribute names)"""
    from scipy.stats import norm
    from frouros.detectors.concept_drift.streaming.change_detection.bocd import BaseBOCDModel

    class UserModel(BaseBOCDModel):
        def __init__(self, prior_mean=0.0, prior_var=1.0, data_var=1.0):
            super().__init__()
            self.mu = np.array([prior_mean])
            self.prec = np.array([1 / prior_var])
            self.dv = data_var

        def log_pred_prob(self, idx, value):
            return norm(self.mu[:idx], np.sqrt(1 / self.prec[:idx] + self.dv)).logpdf(value)

        def update(self, value, **kwargs):
            new_prec = self.prec + 1 / self.dv
            new_mu = (self.mu * self.prec + value / self.dv) / new_prec
            self.prec = np.append([self.prec[0]], new_prec)
            self.mu = np.append([self.mu[0]], new_mu)

        @property
        def mean_params(self):
            return self.mu

        @property
        def var_params(self):
            return 1 / self.prec + self.dv

    return UserModel


def heap_scenarios(out: Outcome, rng, n_random: int) -> None:
    """object-graph correspondence: the heap model (`FrourosModel/Heap.lean`, the model the isolation / purity / transparency theorems of
    `Props/C16b.lean` are about) and the real objects are driven through the same scenario of constructor / update / reset / fit / compare
    calls; afterwards WHICH object every field references (Python `is`) must agree: configuration stored as given, callbacks list stored as
    given (or a new list), BOCD's model copied out of the configuration by the constructor and again by reset(), back-references of
    callbacks, the fitted reference stored as given, number of entries every history callback recorded"""
    import frouros.detectors.concept_drift as cd
    from frouros.callbacks.batch import ResetStatisticalTest
    from frouros.detectors.concept_drift.streaming.change_detection.bocd import GaussianUnknownMean
    from frouros.detectors.data_drift.batch import KSTest
    from common import run_driver

    fixed = [
        "cfg:c:m det:a:c:none det:b:c:none upd:a upd:b",
        "cfg:c:m det:a:c:none det:b:c:none upd:a rst:a upd:a rst:b",
        "cfg:c:m cb:h1 lst:L:h1 det:a:c:l=L det:b:c:none upd:a upd:a rst:a upd:b",
        "cfg:c:- cb:h1 det:a:c:s=h1 upd:a upd:a",
        "cfg:c:- cb:h1 cb:h2 lst:L:h1,h2 det:a:c:l=L upd:a rst:a upd:a",
        "cfg:c:- cb:h1 det:a:c:s=h1 det:b:c:s=h1 upd:a",          # one callback object handed to two constructors: the last one owns it
        "cfg:c:- cb:h1 lst:L:h1 det:a:c:l=L det:b:c:l=L upd:b upd:a",
        "cfg:c:- cfg:e:- det:a:c:none det:b:e:none upd:a",
        "arr:X arr:Y bdet:k:none fit:k:X cmp:k:Y cmp:k:Y",
        "arr:X arr:Y rcb:r bdet:k:s=r fit:k:X cmp:k:Y",
        "arr:X arr:Y rcb:r lst:L:r bdet:k:l=L fit:k:X brst:k fit:k:Y cmp:k:X",
        "arr:X cb:h1 bdet:k:s=h1",                                  # a streaming callback on a batch detector is rejected
        "cfg:c:- rcb:r det:a:c:s=r",                                # and the other way round
    ]

    def random_scenario():
        words, cbs, lists, dets_, bdets, arrs = [], [], [], [], [], []
        model = rng.random() < 0.5
        words.append("cfg:K:" + ("m" if model else "-"))
        for i in range(rng.randint(0, 3)):
            cbs.append(f"h{i}")
            words.append(f"cb:h{i}")
        if cbs and rng.random() < 0.6:
            lists.append("L")
            words.append("lst:L:" + ",".join(rng.sample(cbs, rng.randint(1, len(cbs)))))
        for i in range(rng.randint(1, 3)):
            arg = rng.choice(["none"] + [f"s={c}" for c in cbs] + [f"l={l}" for l in lists])
            dets_.append("abc"[i])
            words.append(f"det:{'abc'[i]}:K:{arg}")
        for _ in range(rng.randint(1, 7)):
            words.append(rng.choice(["upd:", "upd:", "rst:"]) + rng.choice(dets_))
        return " ".join(words)

    scenarios = fixed + [random_scenario() for _ in range(n_random)]
    lines, expect = [], []
    for sc_index, sc in enumerate(scenarios):
        env, order, bocd = {}, [], False
        raised = False
        try:
            for w in sc.split(" "):
                t = w.split(":")
                if t[0] == "cfg":
                    if t[2] == "m":
                        # every other scenario uses a USER-DEFINED model class (a subclass): the copy made by the constructor and by reset() must not depend on the class
                        mcls = GaussianUnknownMean if (sc_index % 2 == 0) else user_model_class()
                        env[t[1]] = cd.BOCDConfig(model=mcls(prior_mean=0.0, prior_var=1.0, data_var=1.0))
                        env[t[1] + ".model"] = env[t[1]].model
                    else:
                        env[t[1]] = cd.DDMConfig()
                elif t[0] == "cb":
                    env[t[1]] = HistoryConceptDrift(name=t[1])
                elif t[0] == "rcb":
                    env[t[1]] = ResetStatisticalTest(alpha=1.0, name=t[1])
                elif t[0] == "lst":
                    env[t[1]] = [env[x] for x in t[2].split(",") if x]
                elif t[0] == "arr":
                    env[t[1]] = np.array([rng.gauss(0, 1) for _ in range(6)])
                elif t[0] in ("det", "bdet"):
                    a = t[3] if t[0] == "det" else t[2]
                    arg = None if a == "none" else env[a[2:]]
                    if t[0] == "det":
                        cfg = env[t[2]]
                        env[t[1]] = (cd.BOCD if isinstance(cfg, cd.BOCDConfig) else cd.DDM)(config=cfg, callbacks=arg)
                    else:
                        env[t[1]] = KSTest(callbacks=arg)
                    order.append(t[1])
                elif t[0] == "upd":
                    env[t[1]].update(value=1)
                elif t[0] == "rst" or t[0] == "brst":
                    env[t[1]].reset()
                elif t[0] == "fit":
                    env[t[1]].fit(X=env[t[2]])
                elif t[0] == "cmp":
                    env[t[1]].compare(X=env[t[2]])
        except Exception:  # noqa: BLE001
            raised = True

        def name_of(o):
            return next((k for k, v in env.items() if v is o), "own")

        if raised:
            facts = "raised"
        else:
            parts = []
            for n in order:
                d = env[n]
                streaming = hasattr(d, "config")
                model = "-"
                if hasattr(d, "_model"):
                    model = name_of(d._model)
                    if model == "own":
                        model = next(("shared:" + m for m in order if m != n and getattr(env[m], "_model", None) is d._model), "own")
                av = getattr(d, "_additional_vars", None)
                vars_ = next(("shared:" + m for m in order if m != n and av is not None and getattr(env[m], "_additional_vars", None) is av), "own")
                xref = "-" if getattr(d, "X_ref", None) is None else name_of(d.X_ref)
                parts.append(f"{n}[cfg={name_of(d.config) if streaming else '-'} cbs={name_of(d.callbacks)} items={','.join(name_of(c) for c in d.callbacks)} "
                             f"model={model} vars={vars_} xref={xref}]")
            for k, v in env.items():
                if isinstance(v, (HistoryConceptDrift, ResetStatisticalTest)):
                    cnt = len(v.history["value"]) if isinstance(v, HistoryConceptDrift) else 0
                    parts.append(f"{k}[det={name_of(v.detector) if v.detector is not None else '-'} n={cnt}]")
            facts = " ".join(parts)
        lines.append("heap " + sc)
        expect.append((facts, sc))
        out.case({"heap_scenario": sc})
    for got, (want, sc) in zip(run_driver(lines), expect):
        if got == want:
            out.traces_validated += 1
        else:
            out.mismatch(f"object graph after the scenario '{sc}': the heap model says '{got}', the implementation '{want}'", {"scenario": sc, "model": got, "impl": want})


def shared_user_model_case(out: Outcome, rng) -> None:
    """two (three) BOCD instances behind ONE configuration whose model is a user-defined class that updates its statistics IN PLACE (pre-allocated buffers, running
    sums): interleaved updates, each instance must produce what it produces when run alone from a configuration of its own"""
    import frouros.detectors.concept_drift as cd
    from props.c02 import user_model_class
    UM = user_model_class(True)
    k = rng.choice([2, 3])
    streams = [[rng.gauss(rng.choice([0.0, 3.0]), 1.0) for _ in range(rng.randint(20, 45))] for _ in range(k)]
    rep = {"class": "BOCD", "model": "user-defined, updates its containers in place", "instances": k, "streams": streams, "kind": "shared configuration"}
    try:
        cfg = cd.BOCDConfig(model=UM(0.5, 2.0, 1.0), min_num_instances=8)
        ds = [cd.BOCD(config=cfg) for _ in range(k)]
        sched = [i for i, st in enumerate(streams) for _ in st]
        rng.shuffle(sched)
        pos, got = [0] * k, [[] for _ in range(k)]
        for i in sched:
            ds[i].update(value=streams[i][pos[i]])
            pos[i] += 1
            got[i].append((bool(ds[i].drift), ds[i].predicted_mean, ds[i].predicted_var))
        for i in range(k):
            alone = cd.BOCD(config=cd.BOCDConfig(model=UM(0.5, 2.0, 1.0), min_num_instances=8))
            for t, v in enumerate(streams[i]):
                alone.update(value=v)
                if (bool(alone.drift), alone.predicted_mean, alone.predicted_var) != got[i][t]:
                    out.violation(f"BOCD (user-defined model behind a shared configuration): instance {i} at its update {t + 1} gives {got[i][t]} interleaved with the others, "
                                  f"{(bool(alone.drift), alone.predicted_mean, alone.predicted_var)} alone", rep)
                    return
    except Exception as e:  # noqa: BLE001
        out.violation(f"BOCD instances behind a shared configuration with a user-defined model raised {type(e).__name__}: {e}", rep)
    out.case({"shared_user_model": True, "k": k})


CONTRAST = {"DDM": ({"warning_level": 0.5, "drift_level": 1.0}, {"warning_level": 3.0, "drift_level": 6.0}),
            "RDDM": ({"warning_level": 0.5, "drift_level": 1.0, "min_concept_size": 10}, {"warning_level": 2.5, "drift_level": 5.0, "min_concept_size": 40}),
            "EDDM": ({"alpha": 0.99, "beta": 0.98, "level": 0.5, "min_num_misclassified_instances": 2}, {"alpha": 0.6, "beta": 0.3, "level": 3.0, "min_num_misclassified_instances": 2}),
            "ECDDWT": ({"lambda_": 0.05, "average_run_length": 100, "warning_level": 0.2}, {"lambda_": 0.9, "average_run_length": 1000, "warning_level": 0.8}),
            "HDDMA": ({"alpha_d": 0.0005, "alpha_w": 0.001}, {"alpha_d": 0.2, "alpha_w": 0.6}), "HDDMW": ({"alpha_d": 0.0005, "alpha_w": 0.001, "lambda_": 0.02}, {"alpha_d": 0.2, "alpha_w": 0.6, "lambda_": 0.6}),
            "ADWIN": ({"clock": 1, "delta": 0.0005, "m": 5, "min_window_size": 1}, {"clock": 1, "delta": 0.6, "m": 2, "min_window_size": 3}),
            "STEPD": ({"alpha_d": 0.0005, "alpha_w": 0.001}, {"alpha_d": 0.2, "alpha_w": 0.6}),
            "CUSUM": ({"lambda_": 0.5, "delta": 0.0}, {"lambda_": 30.0, "delta": 0.8}), "PageHinkley": ({"lambda_": 0.5, "delta": 0.0, "alpha": 0.5}, {"lambda_": 30.0, "delta": 0.8, "alpha": 0.9999}),
            "GeometricMovingAverage": ({"lambda_": 0.1, "alpha": 0.2}, {"lambda_": 3.0, "alpha": 0.99}),
            "BOCD": ({"hazard": 0.3, "prior_var": 0.5, "data_var": 0.3}, {"hazard": 0.005, "prior_var": 4.0, "data_var": 2.0})}


def contrasting_configurations(out: Outcome, rng, runners: list) -> None:
    """two instances of one class with CONTRASTING parameters (both ends of each parameter's range) and a short warm-up, one after the other and the other way round in the same
    process on the same stream: anything one instance leaves behind for the class (a memo keyed by less than it depends on) shows in the other's outputs, which are compared
    with its own model run (and, on a difference, with the same detector alone in a fresh interpreter)"""
    for cls, (pa, pb) in CONTRAST.items():
        mn = {} if cls == "EDDM" else {"min_num_instances": rng.choice([2, 3, 5])}
        xs = gen.stream_for(rng, cls, 40) + [v for v in gen.stream_for(rng, cls, 60)]
        if cls in dets.REAL_VALUED:
            xs = xs[:50] + [abs(v) + 6.0 if cls == "ADWIN" else v + 6.0 for v in xs[50:]]
        elif cls in dets.BINARY_ONLY:
            # (a quiet start with isolated errors: the first verdicts fall where step-dependent quantities - the transient of an EWMA's variance, 1/t terms - still matter)
            xs = [0, 0, 0, 0, 0, 1, 0, 0, 1, 1, 0, 1, 0, 0, 0, 1] + xs[16:50] + [1 if rng.random() < 0.8 else 0 for _ in xs[50:]]
        for first, second in ((pa, pb), (pb, pa)):
            for k_i, prm in enumerate((first, second)):
                r = dets.Runner("a", cls, {**prm, **mn})
                if r.det is None:
                    continue
                for x in xs:
                    r.update(x)
                    if r.err is not None:
                        break
                if k_i == 1:
                    runners.append(r)       # the SECOND instance of the pair is the one whose trace is judged
        out.case({"contrasting_configurations": cls})


def run(out: Outcome) -> None:
    rng = rng_for(out.seed, "C16")
    thorough = out.tier == "thorough"
    out.rule = ("groups of 2-3 detector instances (same class with shared or separate config objects, different classes, with/without history callbacks); every "
                "interleaving for streams of 2-3 values each, sampled interleavings for long streams; each instance vs alone run and vs its own model run")
    runners: list = []
    # FIRST in the process, before any other instance of a class exists: what the first instance of a pair leaves behind for its class is then what the second one finds
    contrasting_configurations(out, rng_for(out.seed, "C16-contrast"), runners)
    n = 40 if thorough else 12
    for i in range(n):
        same = rng.random() < 0.6
        k = rng.choice([2, 3])
        if same:
            c = rng.choice([x for x in dets.CLASSES if x != "KSWIN"] + (["KSWIN"] if k == 1 else []))
            classes = [c] * k
        else:
            classes = rng.sample(dets.CLASSES, k)
            if classes.count("KSWIN") > 1:
                continue
        group_case(out, rng, classes, share_cfg=same and rng.random() < 0.6, with_cb=rng.choice([False, False, False, True, True, "single", "two"]), short=(i % 2 == 0), runners=runners,
                   limit=(2000 if thorough else 300) if i % 2 == 0 else (10 if thorough else 3))
    # in EVERY run: two and three detectors, each with its OWN history callback (same class and different classes), interleaved - the logs each update returns are that
    # detector's own
    pool = [c for c in dets.CLASSES if c != "KSWIN"]
    for k_f in range(3):
        a_ = pool[(out.seed + 5 * k_f) % len(pool)]
        b_ = pool[(out.seed + 5 * k_f + 3) % len(pool)]
        group_case(out, rng, [a_, a_] if k_f == 0 else [a_, b_, a_][: 2 + k_f % 2], share_cfg=False, with_cb=True if k_f < 2 else "two", short=False, runners=runners, limit=3)
    # every class at least once with a shared config object and different parameters in the same process (class-level caches)
    for c in dets.CLASSES:
        if c == "KSWIN":
            continue
        group_case(out, rng, [c, c], share_cfg=False, with_cb=False, short=False, runners=runners, limit=2)
        # one configuration OBJECT behind two detectors, without and with a warm-up + reset() before the run (anything reached through the
        # configuration - BOCD's model object - must have been copied by the constructor AND by reset())
        group_case(out, rng, [c, c], share_cfg=True, with_cb=False, short=False, runners=runners, limit=2, pre_reset=False)
        group_case(out, rng, [c, c], share_cfg=True, with_cb=rng.choice([False, "single", "two"]), short=False, runners=runners, limit=2, pre_reset=True)
    for c in dets.CLASSES:
        for _ in range(3 if thorough else 1):
            sparse_observation_case(out, rng, c, runners)
    shared_user_model_case(out, rng)
    interpreter_variants(out, rng, [c for c in dets.CLASSES if c != "KSWIN"])
    heap_scenarios(out, rng, 60 if thorough else 20)
    before = len(out.mismatches)
    corr.compare_batch(out, runners, rtol=1e-8)
    # a model/implementation disagreement means the in-process run is not the 'alone' behaviour the model describes: look for the failing
    # input on the implementation itself by running the same detector alone in a FRESH interpreter (no other instance ever existed there)
    import json
    import subprocess
    import sys
    from common import VERIF
    for mm in out.mismatches[before: before + 4]:
        rp = mm["replay"]
        stream = [__import__("common").h2f(l.split(" ")[2]) for l in rp["lines"] if l.startswith("u ")]
        req = {"class": rp["class"], "params": rp["params"], "stream": stream, "seed": None}
        r = subprocess.run([sys.executable, str(VERIF / "harness" / "alone.py")], input=json.dumps(req), capture_output=True, text=True, timeout=300)
        if r.returncode != 0:
            continue
        fresh = json.loads(r.stdout)
        k = rp["operation_index"]
        if k < len(fresh) and fresh[k] != rp["impl_obs"] and rp["class"] != "KSWIN":
            out.violation(f"{rp['class']}: output at update {k} in a process where other detectors ran differs from the same detector run alone in a fresh process",
                          {"class": rp["class"], "params": rp["params"], "stream": stream, "in_process_obs": rp["impl_obs"], "fresh_process_obs": fresh[k]})


def replay(out: Outcome, payload: dict) -> None:
    run(out)
