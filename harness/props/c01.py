"""C01 — no alarm without evidence: warm-up, constant streams, exclusive flags, status == attributes."""
from __future__ import annotations

import json

import corr
import dets
import gen
from common import Outcome, np, rng_for, VERIF

RULE_ADDENDA = ('large warm-ups (2 100-2 600 instances) for every class; a third of the runs fed NumPy scalars (int64/float64/uint8/int8)')
LEVEL = "proof"
SHRINK_KEYS = ("ops",)
EXPLANATION = ("Theorems (Lean kernel) about the model M of all 13 detectors: warm-up, flag exclusivity, reset=init for every "
               "carrier; this run ties M to /repo by differential execution and evaluates the property's own oracle "
               "(warm-up / exclusivity / status / constant streams) on the real detectors.")
ASSUMPTIONS = ["near-tied comparisons (relative margin 1e-9) truncate a trace instead of being judged"]


def warm(cls: str, p: dict) -> int:
    fp = dets.full_params(cls, p)
    if cls == "STEPD":
        return 2 * fp["min_num_instances"]
    if cls == "EDDM":
        return 0  # stated through num_misclassified_instances instead
    return fp["min_num_instances"]


def status_ok(cls: str, d) -> bool:
    st = d.status
    for k, v in st.items():
        if k in ("drift", "warning") and bool(getattr(d, k)) != bool(v):      # further keys (a third state of the control chart ...) are not this property's
            return False
    if "drift" not in st:
        return False
    if cls in dets.HAS_WARNING and cls != "STEPD" and "warning" not in st:
        return False
    return True


def in_finding_domain(out: Outcome, cls: str, p: dict, const_value) -> str | None:
    """KF attribution for constant-stream alarms."""
    fp = dets.full_params(cls, p)
    if cls == "HDDMW" and const_value is not None and const_value != 0:
        return "KF-C01-1"
    if cls == "KSWIN" and fp["alpha"] >= 1:
        return "KF-C01-2"
    if cls == "STEPD" and fp["alpha_w"] > 1:
        return "KF-C01-2"
    if cls == "EDDM" and fp["alpha"] > 1:
        return "KF-C01-2"
    return None


def check_trace(out: Outcome, cls: str, p: dict, ops: list[tuple], const_value=None, label: str = "", const_after_reset=None, quiet_until: int = 0) -> dets.Runner | None:
    """quiet_until: the first operations are not recorded for the model comparison (only the flags are read) - keeps very long warm-ups cheap"""
    r = dets.Runner("a", cls, p)
    if r.det is None:
        return None
    d = r.det
    u = 0
    w = warm(cls, p)
    fp = dets.full_params(cls, p)
    flagged = False
    for k, op in enumerate(ops):
        if op[0] == "u":
            r.update(op[1], observe=k >= quiet_until)
            u += 1
            if r.err is not None:
                break
        else:
            r.reset()
            u = 0
            if const_after_reset is not None and not any(o[0] == "r" for o in ops[k + 1:]):
                const_value = const_after_reset      # from the last reset on the stream is constant: the constant-stream clause applies again
        drift, warning = dets.flags(cls, d)
        flagged = flagged or drift or warning
        rep = {"class": cls, "params": p, "ops": ops[: k + 1], "drift": drift, "warning": warning, "op_index": k}
        if (drift or warning) and u <= w - 1:
            out.violation(f"{label}{cls}: flag raised during warm-up (update {u} since construction/reset, warm-up {w})", rep)
            break
        if cls == "EDDM" and (drift or warning) and d.num_misclassified_instances < fp["min_num_misclassified_instances"]:
            out.violation(f"{cls}: flag raised before min_num_misclassified_instances errors", rep)
            break
        if drift and warning:
            out.violation(f"{label}{cls}: drift and warning reported together", rep)
            break
        if not status_ok(cls, d):
            out.violation(f"{label}{cls}: status differs from the drift/warning attributes", rep)
            break
        if const_value is not None and cls != "BOCD" and (drift or warning):
            kf = in_finding_domain(out, cls, p, const_value)
            if kf and kf in out.findings:
                # attributed to the finding only if the faithful model predicts the same alarm (decided after the model run)
                out.kf_candidates.append((r, len(r.obs) - 1, kf, f"{label}{cls}: alarm on a constant stream (value {const_value!r})", rep))
            else:
                out.violation(f"{label}{cls}: alarm on a constant stream (value {const_value!r})", rep)
            break
    out.case({"class": cls, "params": p, "n_ops": len(ops), "const": const_value}, nontrivial=flagged or any(o[0] == "r" for o in ops))
    return r


def const_values(cls: str) -> list:
    if cls in dets.BINARY_ONLY:
        return [0, 1]
    if cls in dets.UNIT_INTERVAL:
        return [0.0, 1.0, 0.5, 0.25]
    if cls == "ADWIN":
        return [0.0, 1.0, 0.3, 1e6, 5e-324]
    return [0.0, 1.0, -2.5, 0.3, 1e6, 5e-324]


def corpus(out: Outcome) -> list:
    f = VERIF / "corpus" / "C01.json"
    return json.loads(f.read_text()) if f.exists() else []


def run(out: Outcome) -> None:
    rng = rng_for(out.seed, "C01")
    thorough = out.tier == "thorough"
    n_traces = 60 if thorough else 14
    length = 400 if thorough else 160
    out.rule = ("per detector class: random accepted configurations x piecewise-stationary streams with resets, warm-up "
                "boundary traces, constant streams for a grid of values; non-trivial = a flag was raised or a reset occurred")
    runners = []
    out.kf_candidates = []
    for e in corpus(out):
        r = check_trace(out, e["class"], e["params"], [tuple(o) for o in e["ops"]], e.get("const"), label="corpus:")
        if r:
            runners.append(r)
    for cls in dets.CLASSES:
        for i in range(n_traces):
            p = gen.rand_params(rng, cls)
            n = rng.randint(10, length)
            ops = gen.with_resets(rng, gen.stream_for(rng, cls, n), p_reset=rng.choice([0.0, 0.01, 0.05]))
            r = check_trace(out, cls, p, ops)
            if r:
                runners.append(r)
        # two-sided Hoeffding/McDiarmid tests: three-level streams with a wide gap between the levels (one side can be at drift level while
        # the other is only at warning level: the flags must stay exclusive)
        if cls in dets.UNIT_INTERVAL:
            for _ in range(40 if thorough else 14):
                ad = rng.choice([0.001, 0.01, 0.05])
                p = {"alpha_d": ad, "alpha_w": rng.choice([1.0, 0.9, 0.5]), "two_sided_test": True, "min_num_instances": rng.choice([1, 5, 30, 40])}
                if cls == "HDDMW":
                    p["lambda_"] = rng.choice([0.05, 0.2])
                a, b, c = rng.randint(3, 40), rng.randint(3, 60), rng.randint(5, 80)
                hi, lo, mid = rng.choice([0.6, 0.8, 1.0]), rng.choice([0.0, 0.1]), rng.choice([0.5, 0.7, 1.0])
                vals = [1.0 if rng.random() < hi else 0.0 for _ in range(a)] + [1.0 if rng.random() < lo else 0.0 for _ in range(b)] + [1.0 if rng.random() < mid else 0.0 for _ in range(c)]
                r = check_trace(out, cls, p, [("u", v) for v in vals])
                if r:
                    runners.append(r)
            # deterministic three-block grid (burst, long quiet period, burst again) and its mirror image
            for a, b, c in ([(a, b, 12) for a in (2, 4, 7) for b in (15, 30, 45, 80)] if not thorough else [(a, b, 20) for a in (1, 2, 3, 4, 5, 7, 10) for b in (10, 15, 20, 30, 45, 60, 80, 120)]):
                for (ad, aw, mn) in ((0.001, 0.005, 30), (0.001, 0.005, 40), (0.01, 0.5, 5), (0.05, 1.0, 1)):
                    p = {"alpha_d": ad, "alpha_w": aw, "two_sided_test": True, "min_num_instances": mn}
                    for first in (1.0, 0.0):
                        vals = [first] * a + [1.0 - first] * b + [first] * c
                        r = check_trace(out, cls, p, [("u", v) for v in vals])
                        if r:
                            runners.append(r)
        if cls == "EDDM":
            # sparse errors, then dense errors: the ratio test wants to fire as soon as its gate opens - it must wait for min_num_misclassified_instances errors
            for mm in ((35, 45, 60, 80) if thorough else (35, 60)):
                for gap in (3, 6):
                    vals = ([0] * gap + [1]) * rng.randint(22, 28) + [1] * (mm + 20)
                    r = check_trace(out, cls, {"min_num_misclassified_instances": mm, "alpha": 0.95, "beta": 0.9}, [("u", v) for v in vals])
                    if r:
                        runners.append(r)
        # warm-up boundary traces: streams that alarm as early as possible
        for mn in ([1, 2, 3, 5, 30] if thorough else [1, 2, 5]):
            p = gen.rand_params(rng, cls)
            key = "min_num_misclassified_instances" if cls == "EDDM" else "min_num_instances"
            p[key] = mn
            if cls == "KSWIN":
                p = {"alpha": 0.5, "min_num_instances": max(2, mn), "num_test_instances": 1}
            n = 3 * mn + 6
            if cls in dets.BINARY_ONLY or cls in dets.UNIT_INTERVAL:
                vals = [0] * (mn // 2) + [1] * n
                if cls == "STEPD":
                    vals = [1] * mn + [0] * n
            else:
                vals = [0.0] * (mn // 2) + [50.0 + j for j in range(n)]
            ops = [("u", v) for v in vals] + [("r",)] + [("u", v) for v in vals]
            r = check_trace(out, cls, p, ops)
            if r:
                runners.append(r)
        # LARGE warm-ups (beyond 2^11 instances): the same "alarm as early as possible" traces; nothing may be flagged before the configured count,
        # and the flags must come once it is reached
        for rep_lw in range(2 if (thorough or cls == "KSWIN") else 1):
            mn = rng.randint(2100, 2600)
            p = gen.rand_params(rng, cls)
            key = "min_num_misclassified_instances" if cls == "EDDM" else "min_num_instances"
            p[key] = mn
            if cls == "KSWIN":
                p = {"alpha": 0.5, "min_num_instances": mn, "num_test_instances": (1, 40)[rep_lw % 2]}      # both test-sample sizes in every run
            if cls == "RDDM":
                p = {**p, "min_concept_size": 7000, "max_concept_size": 40000, "max_num_instances_warning": 1400}
            n = 260
            if cls in dets.BINARY_ONLY or cls in dets.UNIT_INTERVAL:
                vals = [0] * (mn // 2) + [1] * (mn - mn // 2 + n)
                if cls == "STEPD":
                    vals = [1] * (2 * mn - 40) + [0] * n
                if cls == "EDDM":
                    vals = ([0, 0, 0, 1] * 200) + [1] * (mn + n)
            else:
                vals = [0.0] * (mn // 2) + [50.0 + (j % 7) for j in range(mn - mn // 2 + n)]
            r = check_trace(out, cls, p, [("u", v) for v in vals], label="large-warm-up:", quiet_until=(len(vals) - 2 * n) if cls == "BOCD" else 0)
            if r:
                runners.append(r)
        # constant streams (with resets)
        for c in const_values(cls):
            for rep_i in range((3 if thorough else 1) * (2 if cls in dets.UNIT_INTERVAL else 1)):
                p = gen.rand_params(rng, cls)
                if cls in dets.UNIT_INTERVAL:
                    p = {**dets.full_params(cls, p), "two_sided_test": rep_i % 2 == 0}
                n = rng.randint(20, length)
                ops = gen.with_resets(rng, [c] * n, p_reset=rng.choice([0.0, 0.03]))
                r = check_trace(out, cls, p, ops, const_value=c)
                if r:
                    runners.append(r)
    # constant streams of 0/1 error indicators as they come out of a compact array (`(y_pred != y_true).astype(np.uint8)`), LONGER than the range of that type:
    # 300+ ones are still a constant stream
    for k_c, cls in enumerate(dets.BINARY_ONLY + dets.UNIT_INTERVAL):
        for dt in ((np.uint8, np.int8) if thorough else ((np.uint8, np.int8)[(k_c + out.seed) % 2],)):
            p = gen.rand_params(rng, cls)
            if cls in dets.UNIT_INTERVAL:
                p = {**dets.full_params(cls, p), "two_sided_test": bool((k_c + out.seed) % 3)}
            c = 1 if cls != "STEPD" else rng.choice([0, 1])
            r = check_trace(out, cls, p, [("u", dt(c))] * rng.randint(300, 420), const_value=c, label=f"{np.dtype(dt).name}:")
            if r:
                runners.append(r)
            out.count("narrow_dtype_constant_streams")
    # arbitrary pre-history, reset(), then a constant stream: nothing seen before the reset may cause an alarm on the constant stream that follows
    for cls in dets.CLASSES:
        if cls == "BOCD":
            continue
        for c in const_values(cls)[:3]:
            for _ in range(3 if thorough else 1):
                p = gen.rand_params(rng, cls)
                if cls in dets.UNIT_INTERVAL:
                    p = {**dets.full_params(cls, p), "two_sided_test": True}
                pre = gen.stream_for(rng, cls, rng.randint(5, 80))
                if cls in dets.BINARY_ONLY or cls in dets.UNIT_INTERVAL:
                    pre = [1 - c if isinstance(c, int) else 1.0 - c for _ in range(rng.randint(3, 12))] + pre[: rng.randint(0, 10)]
                ops = [("u", v) for v in pre] + [("r",)] + [("u", c)] * rng.randint(40, 200)
                r = check_trace(out, cls, p, ops, const_after_reset=c, label="after-reset:")
                if r:
                    runners.append(r)
    # reset() issued RIGHT AFTER A REPORTED DRIFT (the usual monitoring loop), then another change before the warm-up is over: whatever a detector keeps of its window across
    # such a reset, the first min_num_instances - 1 updates after it are silent
    for cls in ("KSWIN", "ADWIN", "CUSUM", "PageHinkley", "GeometricMovingAverage"):
        p = {"KSWIN": {"alpha": 0.01, "min_num_instances": 40, "num_test_instances": 10}, "ADWIN": {"clock": 1, "delta": 0.3, "min_num_instances": 40, "min_window_size": 2},
             "CUSUM": {"lambda_": 5.0, "delta": 0.005, "min_num_instances": 40}, "PageHinkley": {"lambda_": 5.0, "delta": 0.005, "alpha": 0.999, "min_num_instances": 40},
             "GeometricMovingAverage": {"lambda_": 0.5, "alpha": 0.9, "min_num_instances": 40}}[cls]
        pre = [abs(rng.gauss(0.0, 1.0)) if cls == "ADWIN" else rng.gauss(0.0, 1.0) for _ in range(90)] + [6.0 + abs(rng.gauss(0.0, 1.0)) for _ in range(80)]
        probe = dets.Runner("p", cls, p)
        k = None
        if probe.det is None:
            continue
        for i, v in enumerate(pre):
            probe.update(v)
            if probe.err is not None:
                break
            if probe.det.drift:
                k = i
                break
        if k is None:
            continue
        # (the second change starts 12 updates before the warm-up ends: whatever test a shortened warm-up would allow has 9 of its newest values on the new level by update 39)
        post = [6.0 + abs(rng.gauss(0.0, 1.0)) for _ in range(28)] + [40.0 + abs(rng.gauss(0.0, 1.0)) for _ in range(11)] + [40.0 + abs(rng.gauss(0.0, 1.0)) for _ in range(30)]
        r = check_trace(out, cls, p, [("u", v) for v in pre[: k + 1]] + [("r",)] + [("u", v) for v in post], label="reset-after-drift:")
        if r:
            runners.append(r)
        out.count("reset_right_after_a_reported_drift")
    # thorough: default configurations on long streams (default warm-ups and windows are only reached after thousands of instances)
    if thorough:
        for cls in dets.CLASSES:
            n = {"RDDM": 45000, "BOCD": 1200, "KSWIN": 4000}.get(cls, 20000)
            vals, seg = [], 0
            while len(vals) < n:
                seg += 1
                L = rng.randint(n // 12, n // 5)
                if cls in dets.BINARY_ONLY or cls in dets.UNIT_INTERVAL:
                    pr = rng.choice([0.05, 0.1, 0.2, 0.1, 0.3, 0.45])
                    chunk = [1 if rng.random() < pr else 0 for _ in range(L)]
                    if cls == "STEPD":
                        chunk = [1 - v for v in chunk]
                else:
                    mu = rng.choice([0.0, 0.5, 2.0, 1.0])
                    chunk = [abs(rng.gauss(mu, 1.0)) if cls == "ADWIN" else rng.gauss(mu, 1.0) for _ in range(L)]
                vals += chunk
            vals = vals[:n]
            ops = [("u", v) for v in vals]
            ops.insert(rng.randint(n // 2, n - 1), ("r",))
            r = check_trace(out, cls, {}, ops, label="default-config-long:")
            if r:
                runners.append(r)
    # reproduce the listed findings' witnesses on the implementation (KNOWN-FINDING lines)
    if "KF-C01-1" in out.findings:
        runners.append(check_trace(out, "HDDMW", {"alpha_d": 0.3, "alpha_w": 0.6, "lambda_": 0.05, "min_num_instances": 30}, [("u", 1)] * 120, const_value=1))
    if "KF-C01-2" in out.findings:
        runners.append(check_trace(out, "KSWIN", {"alpha": 1.0, "min_num_instances": 10, "num_test_instances": 3}, [("u", 0.5)] * 15, const_value=0.5))
        runners.append(check_trace(out, "EDDM", {"alpha": 1.5, "beta": 1.2, "min_num_misclassified_instances": 3}, [("u", 1)] * 10, const_value=1))
        runners.append(check_trace(out, "STEPD", {"alpha_d": 0.5, "alpha_w": 1.5, "min_num_instances": 3}, [("u", 1)] * 10, const_value=1))
    settle(out, [r for r in runners if r is not None])     # a witness whose configuration is (now) rejected by the constructor has no trace to compare


def settle(out: Outcome, runners: list) -> None:
    corr.compare_batch(out, runners)
    for r, k, kf, what, rep in out.kf_candidates:
        mm = getattr(r, "mismatch_at", None)
        if mm is None or mm > k:       # the faithful model does not contradict the implementation up to the alarming step (ties are undecided)
            out.findings[kf].hits += 1
            out.known.append(rep)
        else:
            out.violation(what + " (not the behaviour recorded as " + kf + ": the faithful model does not alarm there)", rep)


def replay(out: Outcome, payload: dict) -> None:
    out.kf_candidates = []
    r = check_trace(out, payload["class"], payload["params"], [tuple(o) for o in payload["ops"]], payload.get("const"))
    if r:
        settle(out, [r])
