"""C07 — CUSUM, Page-Hinkley and geometric moving average follow their recurrences."""
from __future__ import annotations

import corr
import dets
import gen
from common import Outcome, close, rng_for

RULE_ADDENDA = ('magnitudes 1e-16 ... 1e12 with tolerances that follow the scale of the data; streams of 4 300-9 000 updates')
LEVEL = "proof"
SHRINK_KEYS = ("stream",)
EXPLANATION = ("Theorems (Lean, reals): model = non-incremental recurrence for all three kinds, shift invariance, lambda monotonicity, "
               "histories with resets. This run evaluates the recurrences, shifted copies and lambda pairs on the real detectors.")
ASSUMPTIONS = ["near-ties with the threshold (relative margin 1e-9) are excluded"]
KINDS = ["CUSUM", "PageHinkley", "GeometricMovingAverage"]


def spec(cls, fp, xs):
    g = 0.0
    acc = 0.0
    for t in range(1, len(xs) + 1):
        acc += xs[t - 1]
        m = (sum(xs[:t]) if t <= 400 else acc) / t       # plain sum of the prefix (running sum beyond 400 values: same quantity, O(n))
        x = xs[t - 1]
        if cls == "CUSUM":
            g = max(0.0, g + x - m - fp["delta"])
        elif cls == "PageHinkley":
            g = fp["alpha"] * g + x - m - fp["delta"]
        else:
            g = fp["alpha"] * g + (1 - fp["alpha"]) * (x - m)
        yield g, (t >= fp["min_num_instances"] and g > fp["lambda_"])


def scale(xs, floor=1.0):
    return max([floor] + [abs(v) for v in xs])


def check(out: Outcome, cls: str, p: dict, xs: list, runners: list) -> None:
    fp = dets.full_params(cls, p)
    r = dets.Runner("a", cls, p)
    if r.det is None:
        return
    # the statistic is built from the values and delta only: the tolerance follows THEIR scale (no floor at 1: streams of magnitude 1e-13 are streams too)
    sc = scale([v for v in xs if v != "r"], floor=max(abs(fp.get("delta", 0.0)), 1e-300))
    fired = False
    full = xs
    segs, cur = [], []
    for v in full:          # a reset restarts the recurrence on the values that follow
        if v == "r":
            segs.append(cur); cur = []
        else:
            cur.append(v)
    segs.append(cur)
    steps = []
    for si, seg in enumerate(segs):
        if si:
            steps.append(("r", None, None))
        steps += [(x, g, d) for x, (g, d) in zip(seg, spec(cls, fp, seg))]
    t = 0
    for k, (x, g, drift) in enumerate(steps):
        if x == "r":
            r.reset()
            t = 0
            continue
        t += 1
        r.update(x)
        rep = {"class": cls, "params": p, "stream": full[: k + 1], "step": t, "kind": "spec"}
        if abs(float(r.det.sum_) - g) > 1e-9 * sc * t:
            out.violation(f"{cls}: statistic {float(r.det.sum_)!r} differs from the recurrence value {g!r} at step {t}", rep)
            break
        # near-tie with the threshold: RELATIVE to the quantities compared and to the scale of the data the statistic is built from (no floor at 1: on a stream of
        # magnitude 1e-10 with a threshold of that order, differences of 1e-10 are not ties)
        if abs(g - fp["lambda_"]) <= 1e-9 * max(abs(fp["lambda_"]), abs(g), sc):
            out.count("near_threshold_steps_skipped")
            continue
        fired = fired or drift
        if bool(r.det.drift) != drift:
            out.violation(f"{cls}: drift={bool(r.det.drift)} at step {t}, the rule (t >= min and g > lambda) gives {drift}", rep)
            break
    runners.append(r)
    out.case({"class": cls, "params": p, "n": len(full), "h": hash(tuple(full)) & 0xFFFFFF}, nontrivial=fired)


def check_shift(out: Outcome, cls: str, p: dict, xs: list, c: float, runners: list) -> None:
    a, b = dets.Runner("a", cls, p), dets.Runner("b", cls, p)
    if a.det is None:
        return
    lam = dets.full_params(cls, p)["lambda_"]
    sc = max(scale(xs), abs(c))
    for t, x in enumerate(xs, 1):
        a.update(x)
        b.update(x + c)
        ga, gb = float(a.det.sum_), float(b.det.sum_)
        rep = {"class": cls, "params": p, "stream": xs[:t], "shift": c, "step": t, "kind": "shift"}
        if abs(ga - gb) > 1e-9 * sc * t:
            out.violation(f"{cls}: statistic changes under a constant shift of the stream ({ga!r} vs {gb!r}) at step {t}", rep)
            break
        if min(abs(ga - lam), abs(gb - lam)) <= 1e-7 * max(1.0, sc * t):
            continue
        if bool(a.det.drift) != bool(b.det.drift):
            out.violation(f"{cls}: verdict changes under a constant shift of the stream at step {t}", rep)
            break
    runners.extend([a, b])
    out.case({"class": cls, "shift": c, "params": p, "n": len(xs), "h": hash(tuple(xs)) & 0xFFFFFF})


def check_mono(out: Outcome, cls: str, p: dict, xs: list, dl: float, runners: list) -> None:
    p2 = {**p, "lambda_": dets.full_params(cls, p)["lambda_"] + dl}
    a, b = dets.Runner("a", cls, p), dets.Runner("b", cls, p2)
    if a.det is None or b.det is None:
        return
    for t, x in enumerate(xs, 1):
        a.update(x)
        b.update(x)
        if bool(b.det.drift) and not bool(a.det.drift):
            out.violation(f"{cls}: raising lambda_ added an alarm at step {t}",
                          {"class": cls, "params": p, "stream": xs[:t], "dl": dl, "step": t, "kind": "mono"})
            break
    runners.extend([a, b])
    out.case({"class": cls, "mono": dl, "params": p, "n": len(xs), "h": hash(tuple(xs)) & 0xFFFFFF})


def run(out: Outcome) -> None:
    rng = rng_for(out.seed, "C07")
    thorough = out.tier == "thorough"
    out.rule = ("random accepted configs x Gaussian/shifted/integer/tied streams: recurrence at every step; shifted copies (dyadic and "
                "non-dyadic constants); lambda pairs; non-trivial = drift raised")
    runners: list = []
    n = 120 if thorough else 30
    for cls in KINDS:
        for _ in range(n):
            p = gen.rand_params(rng, cls, small=rng.random() < 0.8)
            xs = gen.real_stream(rng, rng.randint(5, 400 if thorough else 150))
            if rng.random() < 0.3:
                xs = [float(v) for v in gen.bernoulli_stream(rng, len(xs))]
            if rng.random() < 0.3:
                # the whole problem at another magnitude (durations in seconds, currents in A, counts of bytes): values, delta and lambda_ scaled together
                f = rng.choice([2.0 ** -40, 1e-10, 3e-13, 2.0 ** 33, 7e9, 1e-6])
                xs = [v * f for v in xs]
                fp0 = dets.full_params(cls, p)
                p = {**p, "lambda_": fp0["lambda_"] * f, **({"delta": fp0["delta"] * f} if "delta" in fp0 and f < 1 else {})}      # delta is confined to [0, 1]
                out.count("rescaled_problems")
            ys = list(xs)
            if rng.random() < 0.4:
                for _ in range(rng.randint(1, 2)):
                    ys.insert(rng.randint(1, len(ys)), "r")
            check(out, cls, p, ys, runners)
            check_shift(out, cls, p, xs, rng.choice([1.0, -4.0, 1024.0, 0.1, 3.3, -1e3]), runners)
            check_mono(out, cls, p, xs, rng.choice([0.0, 0.1, 1.0, 5.0]), runners)
    # long streams (thousands of updates): the running mean and the statistic must keep following the recurrence far beyond the
    # lengths above (step sizes 1/t below any fixed floor, counters beyond 2^12)
    for cls in KINDS:
        for _ in range(3 if thorough else 1):
            p = gen.rand_params(rng, cls, small=False)
            n_long = rng.randint(4300, 5200) if not thorough else rng.randint(6000, 9000)
            cut = rng.randint(n_long // 2, n_long - 200)
            xs = [rng.gauss(0.0, 1.0) for _ in range(cut)] + [rng.gauss(rng.choice([0.4, 1.0, 3.0]), 1.0) for _ in range(n_long - cut)]
            check(out, cls, p, xs, runners)
    corr.compare_batch(out, runners)


def replay(out: Outcome, payload: dict) -> None:
    runners: list = []
    k = payload.get("kind", "spec")
    if k == "spec":
        check(out, payload["class"], payload["params"], payload["stream"], runners)
    elif k == "shift":
        check_shift(out, payload["class"], payload["params"], payload["stream"], payload["shift"], runners)
    else:
        check_mono(out, payload["class"], payload["params"], payload["stream"], payload["dl"], runners)
    corr.compare_batch(out, runners)
