"""C02 — reset() returns every streaming detector to freshly-constructed behaviour."""
from __future__ import annotations

import corr
import dets
import gen
from common import Outcome, close, f2h, h2f, np, rng_for, run_driver
from props.c14 import snap_val

RULE_ADDENDA = ("reset() twice, before any update, inside the pre-history, after an unread pre-history, from inside a user callback; BOCD's whole run-length table vs a fresh instance; config=None path")
LEVEL = "proof"
EXPLANATION = ("Theorems: reset s = init as whole model states for every detector and carrier; run_after_reset. This run: "
               "(pre-history, reset, post-stream) vs a fresh instance on the real code, compared bit-exactly, plus model correspondence.")
ASSUMPTIONS = ["KSWIN: the reset instance and the fresh instance are started from the same NumPy generator state (an assumption of this check, not part of "
               "C02's text: reset() does not re-seed the global generator, so 'identical to a new instance' can only be meant up to the generator state)"]


def feed(cls: str, r: dets.Runner, values: list, state=None, observe: bool = True):
    if cls == "KSWIN" and state is not None:
        np.random.set_state(state)
    for v in values:
        if v == "r":
            r.reset()
            continue
        r.update(v, observe=observe)
        if r.err is not None:
            break


def one_case(out: Outcome, rng, cls: str, p: dict, pre: list, post: list, runners: list) -> None:
    a = dets.Runner("a", cls, p)
    if a.det is None:
        return
    np.random.seed(rng.randint(0, 2**31 - 1))
    state = np.random.get_state()
    unread = rng.random() < 0.3       # nobody looks at the detector during the pre-history (state that is only materialised when read must not survive reset())
    feed(cls, a, pre, observe=not unread)
    if a.err is not None:
        return
    at_reset = (bool(a.det.drift), bool(getattr(a.det, "warning", False)))
    a.reset()
    if rng.random() < 0.2:          # reset() twice in a row is still a reset
        a.reset()
        out.count("double_resets")
    # structural comparison with a new instance (private attributes included).  A difference is NOT a violation by itself (a cache that never influences an
    # output may legitimately survive), it directs the search: many more post-reset streams are tried for this (class, configuration, pre-history).
    extra_posts = []
    try:
        fresh_state = snap_val({k: v for k, v in vars(dets.make(cls, p)).items() if k not in ("_callbacks", "_config")})
        reset_state = snap_val({k: v for k, v in vars(a.det).items() if k not in ("_callbacks", "_config")})
        if fresh_state != reset_state:
            out.count("structural_state_differs_after_reset:" + cls)
            extra_posts = [gen.stream_for(rng, cls, rng.randint(20, 250)) for _ in range(12)]
            if cls in dets.BINARY_ONLY or cls in dets.UNIT_INTERVAL:      # rises and drops of every size after the reset
                extra_posts += [[float(b)] * n1 + [float(1 - b)] * n2 for b in (0, 1) for n1 in (10, 40, 120) for n2 in (30, 150)]
    except Exception:  # noqa: BLE001
        pass
    # every public attribute reads as on a new instance - by enumeration of the class's public properties, not by a list of names
    try:
        ra, rf = dets.public_reads(a.det), dets.public_reads(dets.make(cls, p))
        rf2 = dets.public_reads(dets.make(cls, p))
        for name in sorted(ra):
            if name in rf and ra[name] != rf[name]:
                if rf2.get(name) != rf[name]:
                    # two NEW instances already disagree on it (an identifier, a creation time): not a function of configuration and history, hence not an output
                    out.count("public_attributes_not_a_function_of_the_history")
                    continue
                out.violation(f"{cls}: after reset() the public attribute `{name}` reads {str(ra[name])[:120]}, on a new instance {str(rf[name])[:120]}",
                              {"class": cls, "params": p, "pre": pre, "post": [], "attribute": name})
                break
        out.count("public_attributes_compared_after_reset", len(ra))
    except Exception:  # noqa: BLE001
        out.count("public_attribute_comparison_failed")
    k0 = len(a.obs) - 1
    feed(cls, a, post, state)
    b = dets.Runner("a", cls, p)
    feed(cls, b, post, state)
    runners.extend([a, b])
    if a.err is None and b.err is None and not (a.own_generator or b.own_generator):
        try:
            ra, rf = dets.public_reads(a.det), dets.public_reads(b.det)
            for name in sorted(ra):
                if name in rf and ra[name] != rf[name]:
                    # is the attribute a function of the history at all?  Two NEW instances fed the same updates from the same generator state must agree on it,
                    # otherwise it is not an output in the sense of this property (a wall-clock statistic, an object address ...)
                    c2 = dets.Runner("a", cls, p)
                    feed(cls, c2, post, state)
                    if c2.err is None and dets.public_reads(c2.det).get(name) != rf[name]:
                        out.count("public_attributes_not_a_function_of_the_history")
                        continue
                    out.violation(f"{cls}: after reset() and {len(post)} updates the public attribute `{name}` reads {str(ra[name])[:120]}, "
                                  f"on a new instance fed the same updates {str(rf[name])[:120]}", {"class": cls, "params": p, "pre": pre, "post": post, "attribute": name})
                    break
        except Exception:  # noqa: BLE001
            out.count("public_attribute_comparison_failed")
    out.count("resets_in_drift" if at_reset[0] else ("resets_in_warning" if at_reset[1] else "resets_in_control"))
    rep = {"class": cls, "params": p, "pre": pre, "post": post}
    if cls == "BOCD" and a.err is None and b.err is None:
        ta, tb = np.asarray(a.det.log_r, dtype=float), np.asarray(b.det.log_r, dtype=float)
        if ta.shape != tb.shape or not np.array_equal(ta, tb, equal_nan=True):
            out.violation(f"BOCD: the run-length table after reset() + {len(post)} updates (shape {ta.shape}) differs from a fresh instance's (shape {tb.shape})", rep)
    # KSWIN is compared from equal states of NumPy's GLOBAL generator; if the detector does not draw from it (checked by the runners), the two instances
    # are not comparable that way and a difference is a broken assumption of this check, not a verdict
    # (`own_generator`: the window was full and NO update moved the global generator.  A detector that draws from the global generator in another way than the model
    # expects is still a deterministic function of that state: reset and new instance ARE comparable and a difference is a violation)
    report = out.mismatch if (a.own_generator or b.own_generator) else out.violation
    for j, (x, y) in enumerate(zip(a.obs[k0:], b.obs)):
        if x is None or y is None:
            continue
        if x != y:
            what = "reads differently right after reset()" if j == 0 else f"output differs from a fresh instance at post-reset update {j}"
            report(f"{cls}: {what}: reset {x} vs fresh {y}", {**rep, "post_index": j})
            break
    out.case({"class": cls, "params": p, "pre_len": len(pre), "post_len": len(post), "at_reset": at_reset},
             nontrivial=len(pre) > 0)
    for xp in extra_posts:          # directed search (see above)
        if cls in dets.BINARY_ONLY:
            xp = [int(v) for v in xp]
        c = dets.Runner("a", cls, p)
        feed(cls, c, pre)
        if c.err is not None:
            break
        c.reset()
        kc = len(c.obs) - 1
        feed(cls, c, xp, state)
        f = dets.Runner("a", cls, p)
        feed(cls, f, xp, state)
        diff = next((j for j, (x, y) in enumerate(zip(c.obs[kc:], f.obs)) if x != y), None)
        if diff is not None:
            (out.mismatch if (c.own_generator or f.own_generator) else out.violation)(
                f"{cls}: output differs from a fresh instance at post-reset update {diff} (found by the search directed at a field that survives reset())",
                          {**rep, "post": xp, "post_index": diff})
            break


def reset_from_callback_case(out: Outcome, rng, cls: str) -> None:
    """reset() issued from INSIDE a user callback (on_update_end, as soon as the detector flags a drift - the streaming analogue of the library's own
    ResetStatisticalTest) is a reset like any other: right afterwards the detector reads as new, and from then on it equals a new instance fed the rest"""
    from frouros.callbacks.streaming.base import BaseCallbackStreaming

    class ResetOnDrift(BaseCallbackStreaming):
        def __init__(self):
            super().__init__(name="reset_on_drift")
            self.fired = 0

        def on_update_end(self, value):
            if self.detector.drift:
                self.fired += 1
                self.detector.reset()

        def reset(self):
            pass

    p = gen.rand_params(rng, cls)
    xs = gen.stream_for(rng, cls, rng.randint(150, 400))
    cb = ResetOnDrift()
    try:
        det = dets.make(cls, p, callbacks=[cb])
    except Exception:  # noqa: BLE001
        return
    np.random.seed(rng.randint(0, 2**31 - 1))
    fresh, seen = None, 0
    rep = {"class": cls, "params": p, "stream": xs, "kind": "reset from callback"}
    for t, x in enumerate(xs, 1):
        st = np.random.get_state()
        try:
            det.update(value=x)
        except Exception as e:  # noqa: BLE001
            out.violation(f"{cls}: update raised {type(e).__name__}: {e} at stream position {t} (a callback calls reset() when the detector flags a drift)", rep)
            return
        if cb.fired > seen:
            seen = cb.fired
            fresh = dets.make(cls, p)
            try:
                now = dets.obs(cls, det)
            except Exception as e:  # noqa: BLE001
                now = f"unreadable ({type(e).__name__}: {e})"
            if now != dets.obs(cls, fresh):
                out.violation(f"{cls}: right after reset() called by a callback at update {t} the detector reads {now}, a new instance {dets.obs(cls, fresh)}", rep)
                return
            continue
        if fresh is not None:
            after = np.random.get_state()
            np.random.set_state(st)
            fresh.update(value=x)
            np.random.set_state(after)
            if dets.obs(cls, det) != dets.obs(cls, fresh):
                out.violation(f"{cls}: after a reset() called by a callback the detector differs from a new instance fed the same values (stream position {t})", rep)
                return
    out.case({"class": cls, "params": p, "reset_from_callback": True, "resets": cb.fired}, nontrivial=cb.fired > 0)


def incks_model(out: Outcome, w: int, ref, pre: list, post: list, impl: list) -> None:
    """the IncrementalKSTest state machine of the model on the same history (fit, updates, reset, fit, updates)"""
    lines = [f"x kn {w}", "x kf " + " ".join(f2h(v) for v in ref)] + [f"x ku {f2h(v)}" for v in pre] + ["x kr", "x kf " + " ".join(f2h(v) for v in ref)] + [f"x ku {f2h(v)}" for v in post]
    res = run_driver(lines)[len(pre) + 4:]
    for j, (g, want) in enumerate(zip(res, impl)):
        rep = {"class": "IncrementalKSTest", "window": w, "ref": list(map(float, ref)), "pre": pre, "post": post, "post_index": j}
        if want is None or g == "-":
            if (want is None) != (g == "-"):
                out.mismatch(f"IncrementalKSTest: model returns {g} where the implementation returns {want} at post-reset update {j}", rep)
                return
            continue
        ms, mh, mp = g.split(" ")
        if abs(h2f(ms[1:]) - want[0]) > 1e-12 or abs(h2f(mp[1:]) - want[1]) > 1e-9 + 1e-7 * want[1] + (1e-3 if h2f(mp[1:]) == 1.0 else 0):
            out.mismatch(f"IncrementalKSTest: model (statistic, p)=({h2f(ms[1:])!r}, {h2f(mp[1:])!r}) vs implementation {want} at post-reset update {j}", rep)
            return
    out.traces_validated += 1


PE_CASE = [0]


def data_drift_cases(out: Outcome, rng, n_cases: int) -> None:
    from frouros.detectors.data_drift.streaming import IncrementalKSTest, MMD as MMDStreaming
    from frouros.metrics import PrequentialError
    for _ in range(n_cases):
        w = rng.choice([1, 2, 3, 5, 8])
        ref = np.array([rng.gauss(0, 1) for _ in range(rng.randint(2, 20))])
        pre = [rng.gauss(0.5, 1) for _ in range(rng.randint(0, 3 * w))]
        post = [rng.gauss(0.2, 1.5) for _ in range(rng.randint(w, 4 * w + 2))]
        for name, mk in (("IncrementalKSTest", lambda: IncrementalKSTest(window_size=w)),
                         ("MMDStreaming", lambda: MMDStreaming(window_size=w, chunk_size=rng.choice([None, 1, 2, 3])))):
            if name == "MMDStreaming" and (w < 2 or len(ref) < 2):
                continue
            cs_state = rng.getstate()
            a = mk()
            rng.setstate(cs_state)
            b = mk()
            a.fit(X=ref if name == "IncrementalKSTest" else ref.reshape(-1, 1))
            for v in pre:
                a.update(value=v if name == "IncrementalKSTest" else np.array([v]))
            a.reset()
            rep = {"class": name, "window": w, "ref": list(map(float, ref)), "pre": pre, "post": post}
            if a.num_instances != 0 or a.X_ref is not None:
                out.violation(f"{name}: counters/reference not cleared by reset()", rep)
            a.fit(X=ref if name == "IncrementalKSTest" else ref.reshape(-1, 1))
            b.fit(X=ref if name == "IncrementalKSTest" else ref.reshape(-1, 1))
            impl = []
            for j, v in enumerate(post):
                vv = v if name == "IncrementalKSTest" else np.array([v])
                ra, _ = a.update(value=vv)
                impl.append(None if ra is None or name != "IncrementalKSTest" else (float(ra.statistic), float(ra.p_value)))
                rb, _ = b.update(value=vv)
                ta = None if ra is None else tuple(f2h(x) for x in ((ra.statistic, ra.p_value) if name == "IncrementalKSTest" else (ra.distance,)))
                tb = None if rb is None else tuple(f2h(x) for x in ((rb.statistic, rb.p_value) if name == "IncrementalKSTest" else (rb.distance,)))
                if ta != tb:
                    out.violation(f"{name}: output after reset()+fit differs from a fresh fitted instance at update {j}: {ta} vs {tb}", {**rep, "post_index": j})
                    break
            if name == "IncrementalKSTest" and len(impl) == len(post):
                incks_model(out, w, ref, pre, post, impl)
            out.case({"class": name, "window": w, "pre_len": len(pre), "post_len": len(post)}, nontrivial=len(pre) > 0)
        alpha = rng.choice([1.0, 0.999, 0.9, 0.5])
        n_pre = rng.choice([rng.randint(1, 30), rng.randint(300, 1200), 2500])      # also far beyond the point where the fading sums have converged
        PE_CASE[0] += 1
        if PE_CASE[0] % 4 == 1:
            alpha, n_pre = [(0.5, 300), (0.9, 1200)][(PE_CASE[0] // 4) % 2]          # (in every run: fading sums that have CONVERGED in double precision before the reset)
        m1, m2 = PrequentialError(alpha=alpha), PrequentialError(alpha=alpha)
        for _ in range(n_pre):
            m1(error_value=rng.choice([0, 1, 0.3]))
        m1.reset()
        if rng.random() < 0.3:
            m1.reset()
        try:
            if snap_val(vars(m1)) != snap_val(vars(PrequentialError(alpha=alpha))):
                out.count("structural_state_differs_after_reset:PrequentialError")
        except Exception:  # noqa: BLE001
            pass
        errs = [rng.choice([0, 1, 0.25]) for _ in range(rng.choice([rng.randint(1, 30), rng.randint(200, 700)]))]
        try:
            o1 = [f2h(m1(error_value=e)) for e in errs]
        except Exception as e:  # noqa: BLE001
            out.violation(f"PrequentialError(alpha={alpha}): a call after {n_pre} calls and reset() raises {type(e).__name__}: {e}", {"alpha": alpha, "pre_calls": n_pre, "errors": errs})
            continue
        o2 = [f2h(m2(error_value=e)) for e in errs]
        if o1 != o2:
            out.violation("PrequentialError: outputs after reset() differ from a fresh metric", {"alpha": alpha, "pre_calls": n_pre, "errors": errs})
        out.case({"class": "PrequentialError", "alpha": alpha, "n": len(errs)})


def user_model_class(in_place: bool):
    """a user's BOCD model deriving from the abstract base directly (the documented extension point).  `in_place`: it keeps its statistics in containers it UPDATES
    in place (Python lists, a counter) - as a model with sufficient statistics in pre-allocated buffers or a running Welford state does - instead of re-binding new arrays"""
    from scipy.stats import norm
    from frouros.detectors.concept_drift.streaming.change_detection.bocd import BaseBOCDModel

    class UserModel(BaseBOCDModel):
        def __init__(self, prior_mean=0.0, prior_var=1.0, data_var=1.0):
            super().__init__()
            self.mu = [float(prior_mean)]
            self.prec = [1.0 / prior_var]
            self.dv = float(data_var)
            self.seen = {"n": 0}

        def log_pred_prob(self, idx, value):
            mu, prec = np.array(self.mu[:idx]), np.array(self.prec[:idx])
            return norm(mu, np.sqrt(1 / prec + self.dv)).logpdf(value)

        def update(self, value, **kwargs):
            new_prec = [q + 1 / self.dv for q in self.prec]
            new_mu = [(m * q + value / self.dv) / nq for m, q, nq in zip(self.mu, self.prec, new_prec)]
            if in_place:
                self.prec[1:] = new_prec
                self.mu[1:] = new_mu
                self.seen["n"] += 1
            else:
                self.prec = [self.prec[0]] + new_prec
                self.mu = [self.mu[0]] + new_mu
                self.seen = {"n": self.seen["n"] + 1}

        @property
        def mean_params(self):
            return np.array(self.mu)

        @property
        def var_params(self):
            return 1 / np.array(self.prec) + self.dv

    return UserModel


def bocd_user_model_cases(out: Outcome, rng) -> None:
    """BOCD with a USER-DEFINED model: after any pre-history and reset() the detector continues exactly like a new one built from a new configuration, and the model object
    the configuration holds is never touched by the detector (it is the prototype every reset starts from)"""
    import frouros.detectors.concept_drift as cd
    for in_place in (True, False):
        UM = user_model_class(in_place)
        pm, pv, dv = rng.choice([0.0, 1.5]), rng.choice([1.0, 4.0]), rng.choice([1.0, 0.25])
        pre = [rng.gauss(3.0, 1.0) for _ in range(rng.randint(5, 60))]
        post = [rng.gauss(0.0, 1.0) for _ in range(25)] + [rng.gauss(4.0, 1.0) for _ in range(25)]
        rep = {"class": "BOCD", "model": "user-defined, " + ("updates its containers in place" if in_place else "re-binds new containers"), "pre": pre, "post": post,
               "prior_mean": pm, "prior_var": pv, "data_var": dv}
        try:
            proto = UM(pm, pv, dv)
            a = cd.BOCD(config=cd.BOCDConfig(model=proto, min_num_instances=rng.choice([5, 20])))
            mn = a.config.min_num_instances
            for v in pre:
                a.update(value=v)
            if (proto.mu, proto.prec, proto.seen) != ([float(pm)], [1.0 / pv], {"n": 0}):
                out.violation("BOCD: the model object held by the configuration was modified by the detector's updates (a reset or a second detector would start from it)", rep)
                continue
            a.reset()
            b = cd.BOCD(config=cd.BOCDConfig(model=UM(pm, pv, dv), min_num_instances=mn))
            for t, v in enumerate(post, 1):
                a.update(value=v)
                b.update(value=v)
                ra, rb = np.asarray(a.log_r)[t, : t + 1], np.asarray(b.log_r)[t, : t + 1]
                if bool(a.drift) != bool(b.drift) or a.predicted_mean != b.predicted_mean or a.predicted_var != b.predicted_var or not np.array_equal(ra, rb):
                    out.violation(f"BOCD with a user-defined model: after reset() update {t} gives drift={bool(a.drift)}, predicted_mean={a.predicted_mean!r}; a new detector "
                                  f"gives drift={bool(b.drift)}, predicted_mean={b.predicted_mean!r}", rep)
                    break
        except Exception as e:  # noqa: BLE001
            out.violation(f"BOCD with a user-defined model raised {type(e).__name__}: {e}", rep)
        out.case({"class": "BOCD", "user_model_in_place": in_place, "n_pre": len(pre)})


def run(out: Outcome) -> None:
    rng = rng_for(out.seed, "C02")
    thorough = out.tier == "thorough"
    n_cases = 80 if thorough else 16
    out.rule = ("per class: (pre-history, reset, post-stream) vs fresh instance fed post-stream, bit-exact on all public observables; "
                "targeted reset points arise from short warm-ups; non-trivial = non-empty pre-history")
    runners: list = []
    for cls in dets.CLASSES:
        for _ in range(n_cases):
            p = gen.rand_params(rng, cls)
            pre = gen.stream_for(rng, cls, rng.randint(1, 120 if not thorough else 300))
            r0 = rng.random()
            if r0 < 0.08:
                pre = []                      # reset() of a detector that has not seen anything
            elif r0 < 0.25 and len(pre) > 4:  # earlier resets inside the pre-history
                for _ in range(rng.randint(1, 2)):
                    pre.insert(rng.randint(1, len(pre) - 1), "r")
            post = gen.stream_for(rng, cls, rng.randint(5, 120 if not thorough else 300))
            # targeted reset points: cut the pre-history right after its last flag when there is one
            if rng.random() < 0.5:
                probe = dets.Runner("a", cls, p)
                if probe.det is not None:
                    last = None
                    for i, v in enumerate(pre):
                        if v == "r":
                            probe.reset()
                            continue
                        probe.update(v)
                        if probe.err is not None:
                            break
                        if probe.det.drift or getattr(probe.det, "warning", False):
                            last = i
                    if last is not None:
                        pre = pre[: last + 1]
            one_case(out, rng, cls, p, pre, post, runners)
    for cls in dets.CLASSES:
        for _ in range(3 if thorough else 1):
            reset_from_callback_case(out, rng, cls)
    data_drift_cases(out, rng, 40 if thorough else 10)
    bocd_user_model_cases(out, rng)
    corr.compare_batch(out, runners)


def replay(out: Outcome, payload: dict) -> None:
    rng = rng_for(out.seed, "C02-replay")
    runners: list = []
    if payload.get("class") in dets.CLASSES:
        one_case(out, rng, payload["class"], payload["params"], payload["pre"], payload["post"], runners)
        corr.compare_batch(out, runners)
    else:
        data_drift_cases(out, rng, 20)
