"""C20 — synthetic generators follow their concept; download falls through mirrors."""
from __future__ import annotations

import itertools
import os
import tempfile

from common import Outcome, f2h, np, rng_for, run_driver

RULE_ADDENDA = ('13 network failure modes + stall (requests without timeout are recorded); download/load histories with pre-filled targets; object lifetime; Elec2 end to end on a tiny ARFF; whole datasets and interleaved next() schedules replayed through the tape model; seeds 0, 1, 2^32-1')
LEVEL = "proof"
EXPLANATION = ("Theorems (Lean): SEA/Dummy label rules and argument decision tables; download = first successful mirror's bytes, mirrors after it are not contacted, "
               "DownloadError iff none succeeds. This run reproduces NumPy's draws for many seeds/blocks/noise levels and compares labels with the model, and drives "
               "download() through a scripted fake of requests.head/get for EVERY assignment of 5 failure modes to 1-3 mirrors (exhaustive).")
ASSUMPTIONS = ["the network is a scripted fake (requests.Session.request replaced in the harness - every entry point of the requests library ends there; no repo hook)", "arff parsing (scipy) is library code"]

import requests  # noqa: E402
from frouros.datasets.base import BaseDatasetDownload  # noqa: E402
from frouros.datasets.exceptions import DownloadError, InvalidBlockError  # noqa: E402
from frouros.datasets.real import Elec2  # noqa: E402
from frouros.datasets.synthetic import SEA, Dummy  # noqa: E402

THR = {1: 8.0, 2: 9.0, 3: 7.0, 4: 9.5}


EDGE_SEEDS = [0, 1, 2**32 - 1]


def sea_cases(out: Outcome, rng, n_cases: int, lines, expect) -> None:
    for case in range(n_cases):
        seed, block, noise, n = rng.randint(0, 2**31 - 1), rng.choice([1, 2, 3, 4]), rng.choice([0.0, 0.0, 0.1, 0.5, 1.0]), rng.randint(1, 60)
        if case < len(EDGE_SEEDS):       # the falsy seed and the ends of NumPy's seed range are seeds like any other
            seed = EDGE_SEEDS[case]
        gen1 = SEA(seed=seed)
        data = list(gen1.generate_dataset(block=block, noise=noise, num_samples=n))
        rep = {"generator": "SEA", "seed": seed, "block": block, "noise": noise, "num_samples": n}
        if len(data) != n:
            out.violation(f"SEA: {len(data)} samples generated for num_samples={n}", rep)
            continue
        # reproduce the tape
        np.random.seed(seed)
        tape_ok = True
        for i, (X, y) in enumerate(data):
            u = np.random.uniform(low=0.0, high=10.0, size=(3,))
            r = np.random.random()
            coin = int(np.random.randint(2)) if r < noise else 0
            if len(X) != 3 or not all(0 <= v < 10 for v in X):
                out.violation(f"SEA: features {X!r} of sample {i} are not three numbers in [0,10)", rep)
                break
            if noise == 0 and int(y) != (1 if X[0] + X[1] <= THR[block] else 0):
                out.violation(f"SEA(block={block}, noise=0): sample {i} with x0+x1={X[0] + X[1]!r} has label {y}", rep)
                break
            if int(y) not in (0, 1):
                out.violation(f"SEA: label {y!r} of sample {i}", rep)
                break
            if tape_ok and not np.array_equal(u, X):
                # HOW the generator consumes NumPy's stream (which calls, in which order) is the model's tie to this code, not a clause of the property; the
                # property's own clauses (range, label rule) go on being checked for EVERY sample of the data set
                tape_ok = False
                out.mismatch(f"SEA: features of sample {i} are not the draws `uniform(size=3)` at the position of the global generator where the model reads them "
                             "(the generator consumes its random stream in another way than the model)", rep)
            if tape_ok:
                lines.append(f"sea label {block} {f2h(noise)} {f2h(X[0])} {f2h(X[1])} {f2h(r)} {coin}")
                expect.append((str(int(y)), rep))
        else:
          if tape_ok:
            # the whole dataset on the recorded draws through the generator model (`Synth2.seaDataset`): every label, and the tape consumed exactly
            np.random.seed(seed)
            floats, coins = [], []
            for _ in range(n):
                u = np.random.uniform(low=0.0, high=10.0, size=(3,))
                r = np.random.random()
                floats += [float(u[0]), float(u[1]), float(u[2]), float(r)]
                if r < noise:
                    coins.append(int(np.random.randint(2)))
            lines.append(f"sea ds {block} {f2h(noise)} {n} {len(floats)} " + " ".join(f2h(v) for v in floats) + (" " + " ".join(map(str, coins)) if coins else ""))
            expect.append((" ".join(str(int(y)) for _, y in data) + " | 0 0", rep))
        np.random.random(rng.randint(0, 5))
        again = list(SEA(seed=seed).generate_dataset(block=block, noise=noise, num_samples=n))
        if any(not np.array_equal(a[0], b[0]) or a[1] != b[1] for a, b in zip(data, again)):
            out.violation("SEA: two generators with equal seeds produce different datasets", rep)
        out.case(rep)
    # data sets of thousands of samples KEPT by the caller (`list(...)`, append-then-`np.array`): every sample handed out stays what it was when it was handed out, and the
    # label rule holds on the kept data
    for case in range(2):
        seed, block, noise = rng.randint(0, 2**31 - 1), rng.choice([1, 2, 3, 4]), (0.0 if case == 0 else rng.choice([0.0, 0.1]))
        n = rng.choice([1025, 1500, 2100, 3000, 4100])
        rep = {"generator": "SEA", "seed": seed, "block": block, "noise": noise, "num_samples": n, "kind": "kept samples"}
        kept, copies = [], []
        for X, y in SEA(seed=seed).generate_dataset(block=block, noise=noise, num_samples=n):
            kept.append((X, y))
            copies.append((np.array(X, copy=True), y))
        if len(kept) != n:
            out.violation(f"SEA: {len(kept)} samples generated for num_samples={n}", rep)
        changed = next((i for i, ((X, y), (Xc, yc)) in enumerate(zip(kept, copies)) if not np.array_equal(X, Xc) or y != yc), None)
        if changed is not None:
            out.violation(f"SEA: sample {changed} of {n}, kept by the caller, is no longer what it was when the generator handed it out (was {copies[changed][0]!r}, "
                          f"reads {kept[changed][0]!r} after the data set was consumed)", rep)
        elif noise == 0:
            bad = next((i for i, (X, y) in enumerate(kept) if int(y) != (1 if X[0] + X[1] <= THR[block] else 0)), None)
            if bad is not None:
                out.violation(f"SEA(block={block}, noise=0): kept sample {bad} with x0+x1={kept[bad][0][0] + kept[bad][0][1]!r} has label {kept[bad][1]}", rep)
        if any(len(X) != 3 or not all(0 <= v < 10 for v in X) for X, _ in kept):
            out.violation("SEA: a kept sample has features outside [0,10)", rep)
        again = list(SEA(seed=seed).generate_dataset(block=block, noise=noise, num_samples=n))
        if any(not np.array_equal(a[0], b[0]) or a[1] != b[1] for a, b in zip(copies, again[:n])) and changed is None:
            out.violation("SEA: two generators with equal seeds produce different data sets (thousands of samples)", rep)
        out.case(rep)
    # two datasets requested from one generator before the first is consumed: each keeps its own block
    for b1, b2 in ((1, 3), (3, 4), (2, 1)):
        g = SEA(seed=rng.randint(0, 10**6))
        d1 = g.generate_dataset(block=b1, noise=0.0, num_samples=40)
        d2 = g.generate_dataset(block=b2, noise=0.0, num_samples=40)
        for name, d, b in (("first", d1, b1), ("second", d2, b2)):
            for X, y in d:
                if int(y) != (1 if X[0] + X[1] <= THR[b] else 0):
                    out.violation(f"SEA: the {name} of two datasets requested from one generator (blocks {b1}, {b2}) is not labelled with its own block threshold", {"blocks": [b1, b2]})
                    break
        out.case({"generator": "SEA", "two_datasets": [b1, b2]})
    # ... and each keeps its own NOISE level: a noise-free data set requested first and consumed after a fully noisy one was requested from the same generator still
    # follows the label rule at every sample (at noise 0 the rule is exact, so 300 samples decide)
    for b1 in (2, 4):
        g = SEA(seed=rng.randint(0, 10**6))
        d1 = g.generate_dataset(block=b1, noise=0.0, num_samples=300)
        d2 = g.generate_dataset(block=rng.choice([1, 3]), noise=1.0, num_samples=5)
        bad = next((i for i, (X, y) in enumerate(d1) if int(y) != (1 if X[0] + X[1] <= THR[b1] else 0)), None)
        list(d2)
        if bad is not None:
            out.violation(f"SEA: a data set requested with noise=0 (block {b1}) and consumed after another one was requested with noise=1.0 from the same generator has sample {bad} "
                          "labelled against the threshold rule", {"generator": "SEA", "block": b1, "kind": "two datasets, two noise levels"})
        out.case({"generator": "SEA", "two_noise_levels": b1})
    # two live datasets of one generator pulled in an arbitrary interleaving: each `next()` consumes the global generator where it stands
    # (the model's `Synth2.seaPulls` on the recorded draws)
    for _ in range(4):
        seed = rng.randint(0, 10**6)
        specs = [(rng.choice([1, 2, 3, 4]), rng.choice([0.0, 0.3, 0.7]), rng.randint(2, 8)) for _ in range(2)]
        g = SEA(seed=seed)
        its = [g.generate_dataset(block=b, noise=z, num_samples=k) for (b, z, k) in specs]
        sched = [0] * specs[0][2] + [1] * specs[1][2]
        rng.shuffle(sched)
        labels = [int(next(its[i])[1]) for i in sched]
        np.random.seed(seed)
        floats, coins = [], []
        for i in sched:
            u = np.random.uniform(low=0.0, high=10.0, size=(3,))
            r = np.random.random()
            floats += [float(u[0]), float(u[1]), float(u[2]), float(r)]
            if r < specs[i][1]:
                coins.append(int(np.random.randint(2)))
        lines.append(f"sea pulls {len(sched)} {len(floats)} " + " ".join(f"{specs[i][0]} {f2h(specs[i][1])}" for i in sched) + " " +
                     " ".join(f2h(v) for v in floats) + (" " + " ".join(map(str, coins)) if coins else ""))
        expect.append((" ".join(map(str, labels)) + " | 0 0", {"generator": "SEA", "interleaved": specs, "schedule": sched, "seed": seed}))
        out.case({"generator": "SEA", "interleaved": specs, "seed": seed})
    for case in range(n_cases // 2 + 1):
        seed, cls, n = rng.randint(0, 2**31 - 1), rng.choice([0, 1]), rng.randint(1, 40)
        if case < len(EDGE_SEEDS):
            seed = EDGE_SEEDS[case]
        data = list(Dummy(seed=seed).generate_dataset(class_=cls, num_samples=n))
        rep = {"generator": "Dummy", "seed": seed, "class": cls, "num_samples": n}
        if len(data) != n:
            out.violation(f"Dummy: {len(data)} samples for num_samples={n}", rep)
        for X, y in data:
            if int(y) != (cls if X[0] + X[1] < 10.0 else 1 - cls) or not all(0 <= v < 10 for v in X):
                out.violation(f"Dummy(class_={cls}): sample with x0+x1={X[0] + X[1]!r} has label {y}", rep)
                break
            lines.append(f"sea dummy {cls} {f2h(X[0])} {f2h(X[1])}")
            expect.append((str(int(y)), rep))
        # identically for equal seeds: a second generator object with the same seed, created later in the same process (other draws from NumPy in between)
        np.random.random(rng.randint(0, 5))
        again = list(Dummy(seed=seed).generate_dataset(class_=cls, num_samples=n))
        if len(again) != len(data) or any(not np.array_equal(a[0], b[0]) or a[1] != b[1] for a, b in zip(data, again)):
            out.violation("Dummy: two generators with equal seeds produce different datasets", rep)
        out.case(rep)
    # argument validation
    for block, n, noise in itertools.product([0, 1, 4, 5, -1], [-1, 0, 1, 5], [-0.1, 0.0, 0.5, 1.0, 1.1]):
        try:
            SEA(seed=1).generate_dataset(block=block, noise=noise, num_samples=n)
            k = "ok"
        except InvalidBlockError:
            k = "err:InvalidBlock"
        except ValueError:
            k = "err:Value"
        stated = block in (1, 2, 3, 4) and n >= 1 and 0 <= noise <= 1
        if (k == "ok") != stated:
            out.violation(f"SEA.generate_dataset(block={block}, noise={noise}, num_samples={n}) {'accepted' if k == 'ok' else 'rejected'}", {"block": block, "n": n, "noise": noise})
        if block >= 0:
            lines.append(f"sea check {block} {n} {f2h(noise)}")
            # with several invalid arguments the property does not say which one is reported: any rejection agrees with the model's
            several = (block not in (1, 2, 3, 4)) + (n < 1) + (not 0 <= noise <= 1) > 1
            expect.append(("err:*" if several and k != "ok" else k, {"generator": "SEA-args", "block": block, "n": n, "noise": noise}))
    for cls, n in itertools.product([-1, 0, 1, 2], [-1, 0, 1, 3]):
        try:
            Dummy(seed=1).generate_dataset(class_=cls, num_samples=n)
            k = "ok"
        except ValueError:
            k = "err:Value"
        if (k == "ok") != (cls in (0, 1) and n >= 1):
            out.violation(f"Dummy.generate_dataset(class_={cls}, num_samples={n}) {'accepted' if k == 'ok' else 'rejected'}", {"class": cls, "n": n})
        lines.append(f"sea dcheck {cls} {n}")
        expect.append((k, {"generator": "Dummy-args", "class": cls, "n": n}))
    for bad in (-1, "a"):
        try:
            SEA(seed=bad)
            out.violation(f"SEA(seed={bad!r}) accepted", {"seed": repr(bad)})
        except (ValueError, TypeError):
            pass


class FakeRaw:
    """urllib3's response object as far as a download needs it: `read` / `stream` deliver the WIRE bytes (compressed, when the server compressed them) unless the caller
    asks for decoding - `raw.decode_content = True` or `read(decode_content=True)`, the documented idiom - in which case they deliver the file"""

    def __init__(self, wire: bytes, content: bytes, encoded: bool, error=None):
        self._wire, self._content, self._encoded = wire, content, encoded
        self._error = error          # the body breaks off in transit: half of it is delivered, then the error is raised
        self.decode_content = False
        self._pos = 0
        self._mode = None
        self.headers = {}

    def _data(self, decode_content):
        d = self.decode_content if decode_content is None else decode_content
        mode = bool(d) and self._encoded
        if self._mode is None:
            self._mode = mode
        return self._content if self._mode else self._wire

    def read(self, amt=None, decode_content=None, cache_content=False):
        data = self._data(decode_content)
        if self._error is not None:
            cut = max(1, len(data) // 2)
            if self._pos >= cut or amt is None or amt < 0:
                raise self._error
            data = data[:cut]
        if amt is None or amt < 0:
            out, self._pos = data[self._pos:], len(data)
        else:
            out, self._pos = data[self._pos: self._pos + amt], min(len(data), self._pos + amt)
        return out

    def stream(self, amt=2 ** 16, decode_content=None):
        while True:
            chunk = self.read(amt, decode_content=decode_content)
            if not chunk:
                return
            yield chunk

    def readinto(self, b):
        chunk = self.read(len(b))
        b[: len(chunk)] = chunk
        return len(chunk)

    def close(self):
        pass

    def release_conn(self):
        pass

    def __iter__(self):
        return self.stream()


class FakeResponse:
    """a scripted `requests.Response`: everything a reasonable implementation may use to read the body or the status (content, iter_content, text, raw,
    status_code, reason, headers, url, close, context manager), so that a harmless rewrite of the download code is not mistaken for a defect"""

    def __init__(self, ok, status_ok=True, content=b"", content_error=None, url=""):
        self._status_ok, self._content, self._content_error = status_ok, content, content_error
        # ONE fact about the answer - its status code - behind every accessor an implementation may use (`ok`, `status_code`, `raise_for_status()`, `reason`)
        self.status_code = 200 if (ok and status_ok) else 503
        self.reason = "OK" if self.status_code == 200 else "Service Unavailable"
        # how the body travels differs from mirror to mirror, as it does between real servers: announced length / chunked (no Content-Length) / gzip
        # (Content-Length is the COMPRESSED size and `raw` delivers the compressed bytes; `content`, `iter_content` and `text` deliver the file)
        self.transfer = ("plain", "chunked", "gzip")[sum(url.encode()) % 3] if url else "plain"
        import gzip
        from requests.structures import CaseInsensitiveDict
        self._wire = gzip.compress(content, mtime=0) if self.transfer == "gzip" else content
        self.headers = CaseInsensitiveDict({"Content-Type": "application/octet-stream"})
        if self.transfer == "chunked":
            self.headers["Transfer-Encoding"] = "chunked"
        else:
            self.headers["Content-Length"] = str(len(self._wire))
        if self.transfer == "gzip":
            self.headers["Content-Encoding"] = "gzip"
        self.url = url
        self.encoding = None if content and not content.isascii() else "utf-8"
        self.history, self.is_redirect = [], False

    @property
    def content(self):
        if self._content_error is not None:
            raise self._content_error
        return self._content

    @property
    def text(self):
        return self.content.decode(self.encoding or "utf-8", "replace")

    @property
    def apparent_encoding(self):
        return "utf-8" if self.encoding else "Windows-1252"

    def json(self, **kw):
        import json
        return json.loads(self.text)

    def iter_lines(self, chunk_size=512, decode_unicode=False, delimiter=None):
        yield from self.content.splitlines()

    def iter_content(self, chunk_size=1, decode_unicode=False):
        if self._content_error is not None:
            # a body that breaks off IN TRANSIT: whoever streams it has received part of it when the error surfaces (whoever asks for `.content` gets the error at once)
            data = self._content
            cut = max(1, len(data) // 2)
            step = chunk_size or cut
            for i in range(0, cut, step):
                yield data[i: min(i + step, cut)]
            raise self._content_error
        data = self.content
        step = chunk_size or len(data) or 1
        for i in range(0, len(data), step):
            yield data[i: i + step]

    @property
    def raw(self):
        if getattr(self, "_raw", None) is None:
            self._raw = FakeRaw(self._wire, self._content, self.transfer == "gzip", self._content_error)
        return self._raw

    def close(self):
        pass

    def __enter__(self):
        return self

    def __exit__(self, *a):
        return False

    @property
    def ok(self):
        return self.status_code < 400

    def raise_for_status(self):
        if self.status_code >= 400:
            raise requests.exceptions.HTTPError(f"{self.status_code} {self.reason}", response=self)


# further ways a mirror can be unreachable: every one is a requests.exceptions.RequestException and must fall through
# to the next mirror exactly like a connection error (the model's alphabet maps them all to `c`)
STALL_AT = ["get"]
EXTRA_MODES = {
    "r": ("head", requests.exceptions.TooManyRedirects("loop")),
    "R": ("get", requests.exceptions.TooManyRedirects("loop")),
    "s": ("head", requests.exceptions.SSLError("cert")),
    "x": ("get", requests.exceptions.RequestException("generic")),
    "T": ("get", requests.exceptions.ReadTimeout("slow body")),
    "k": ("content", requests.exceptions.ChunkedEncodingError("dropped mid-download")),
    "d": ("content", requests.exceptions.ContentDecodingError("bad gzip")),
    "y": ("head", requests.exceptions.ProxyError("proxy")),
}


NO_TIMEOUT: list = []      # requests issued WITHOUT a timeout: a mirror that accepts the connection and stalls would block such a call for ever


def body(url: str) -> bytes:
    """what a mirror serves: for every other mirror a body of ~100 kB (several chunks for anybody who streams it), otherwise a short one"""
    # bytes, not text: NUL, bytes that are not UTF-8, both line-ending conventions, a byte-order mark in the middle
    tag = b"DATA-" + url.encode() + b"\x00\xff\xfe\r\n\x80\n\r\xef\xbb\xbf\xe9"
    return tag + (b"#" * 100000 + tag if (sum(url.encode()) % 2) else b"")


_REAL_REQUEST = requests.Session.request
_REAL_SEND = requests.Session.send


def install_network(head, get) -> None:
    """route EVERY request of the `requests` library to the scripted mirrors: `requests.head/get`, `from requests import get`, `requests.request` and the methods of a
    `requests.Session` all end in `Session.request(method, url, **kw)`, which is what is replaced (not the two module attributes the current code happens to call)"""
    def request(self, method, url, **kw):
        for k in ("params", "data", "headers", "cookies", "files", "auth", "proxies", "hooks", "verify", "cert", "json"):
            kw.pop(k, None)
        return (head if str(method).upper() == "HEAD" else get)(url, **kw)

    def send(self, request, **kw):
        # prepared requests (`session.send(session.prepare_request(Request(...)))`, adapters, requests-toolbelt) do not pass through `Session.request`
        for k in ("proxies", "verify", "cert", "allow_redirects"):
            kw.pop(k, None)
        return (head if str(request.method).upper() == "HEAD" else get)(request.url, **kw)
    requests.Session.request = request
    requests.Session.send = send


def uninstall_network() -> None:
    requests.Session.request = _REAL_REQUEST
    requests.Session.send = _REAL_SEND


def no_timeout(timeout) -> bool:
    """no limit on the wait for the connection or for the answer: None, or a (connect, read) pair with a None in it"""
    return timeout is None or (isinstance(timeout, (tuple, list)) and any(t is None for t in timeout))


def fake_network(plan):
    """scripted requests.head / requests.get for the mirror plan {url: mode}.  Mode "S" (stall): the mirror accepts and never answers - a request that carries a
    timeout ends with `requests.exceptions.Timeout`, one without would never return (recorded in NO_TIMEOUT, reported by the caller)."""
    contacted = []

    def stalls(url, timeout, what):
        if no_timeout(timeout):
            NO_TIMEOUT.append((what, url))
        raise requests.exceptions.ReadTimeout("stalled")

    def head(url, timeout=None, **kw):
        contacted.append(url)
        m = plan[url]
        if no_timeout(timeout):
            NO_TIMEOUT.append(("HEAD", url))
        if m == "S" and STALL_AT[0] == "head":
            stalls(url, timeout, "HEAD")
        if m == "c":
            raise requests.exceptions.ConnectionError("down")
        if m == "t":
            raise requests.exceptions.Timeout("slow")
        if m in EXTRA_MODES and EXTRA_MODES[m][0] == "head":
            raise EXTRA_MODES[m][1]
        r = FakeResponse(ok=(m != "h"))
        if m != "h" and (len(contacted) + sum(url.encode())) % 3 == 0 and not kw.get("allow_redirects"):
            r.status_code, r.reason = 302, "Found"          # requests.head does not follow redirects unless asked to: `ok` is True for every status below 400
        return r

    def get(url, stream=None, timeout=None, **kw):
        m = plan[url]
        if not contacted or contacted[-1] != url:
            contacted.append(url)           # an implementation that asks with GET only has contacted the mirror too
        if no_timeout(timeout):
            NO_TIMEOUT.append(("GET", url))
        if m == "S":
            stalls(url, timeout, "GET")
        # the state of a mirror is the mirror's, not the request method's: one that is down, times out or answers 503 does so to a GET as well
        if m == "c":
            raise requests.exceptions.ConnectionError("down")
        if m == "t":
            raise requests.exceptions.Timeout("slow")
        if m in EXTRA_MODES and EXTRA_MODES[m][0] == "head":
            raise EXTRA_MODES[m][1]
        if m == "h":
            return FakeResponse(ok=False, content=b"ERROR PAGE " + url.encode(), url=url)
        if m in EXTRA_MODES and EXTRA_MODES[m][0] == "get":
            raise EXTRA_MODES[m][1]
        cerr = EXTRA_MODES[m][1] if m in EXTRA_MODES and EXTRA_MODES[m][0] == "content" else None
        return FakeResponse(ok=True, status_ok=(m != "g"), content=(b"ERROR PAGE " + url.encode()) if m == "g" else body(url), content_error=cerr, url=url)

    return head, get, contacted


class ThreeMirrors(BaseDatasetDownload):
    def read_file(self, **kwargs):
        with open(self.file_path, "rb") as f:
            return f.read()


def download_cases(out: Outcome, lines, expect, kmax: int) -> None:
    modes = ["c", "h", "g", "t", "ok"]
    try:
        for k in range(1, kmax + 1):
            urls = [f"https://mirror{i}.example.org/data.bin" for i in range(k)]
            for assign in itertools.product(modes, repeat=k):
                contacted = []
                plan = dict(zip(urls, assign))

                def head(url, timeout=None, **kw):
                    contacted.append(url)
                    m = plan[url]
                    if m == "c":
                        raise requests.exceptions.ConnectionError("down")
                    if m == "t":
                        raise requests.exceptions.Timeout("slow")
                    return FakeResponse(ok=(m != "h"))

                def get(url, stream=None, timeout=None, **kw):
                    m = plan[url]
                    if not contacted or contacted[-1] != url:
                        contacted.append(url)
                    if m == "c":
                        raise requests.exceptions.ConnectionError("down")
                    if m == "t":
                        raise requests.exceptions.Timeout("slow")
                    if m == "h":
                        return FakeResponse(ok=False, content=b"ERROR PAGE " + url.encode(), url=url)
                    return FakeResponse(ok=True, status_ok=(m != "g"), content=(b"ERROR PAGE " + url.encode()) if m == "g" else body(url), url=url)

                install_network(head, get)
                fd, path = tempfile.mkstemp(dir="/tmp")
                os.close(fd)
                os.unlink(path)
                ds = ThreeMirrors(url=urls, file_path=path)
                rep = {"mirrors": k, "assignment": list(assign)}
                try:
                    ds.download()
                    err = False
                except DownloadError:
                    err = True
                except Exception as e:  # noqa: BLE001
                    out.violation(f"download() raised {type(e).__name__} for the assignment {assign}", rep)
                    continue
                first_ok = next((i for i, m in enumerate(assign) if m == "ok"), None)
                content = open(path, "rb").read() if os.path.exists(path) else b""
                if err != (first_ok is None):
                    out.violation(f"download(): DownloadError {'raised' if err else 'not raised'} for the assignment {assign}", rep)
                elif first_ok is not None:
                    if content != body(urls[first_ok]):
                        out.violation(f"download(): target file holds {content[:40]!r}, expected exactly the bytes of mirror {first_ok} for the assignment {assign}", rep)
                    if contacted != urls[: first_ok + 1]:
                        out.violation(f"download(): contacted {len(contacted)} mirrors for the assignment {assign}, expected the first {first_ok + 1} in order", rep)
                    data = ds.load()
                    if data != content or os.path.exists(path):
                        out.violation("load(): did not return the file's data and remove the temporary file", rep)
                    elif ds.file_path is not None:      # the model's state machine forgets the path at load(); the property only says that the FILE is removed
                        out.mismatch("load(): the dataset object keeps its file_path after load() (the model's state machine sets it to None)", rep)
                elif content not in (b"",):
                    # every mirror failed: the property fixes the target file for a download that SUCCEEDS, not for one that fails
                    out.count("file_not_empty_after_total_failure")
                if os.path.exists(path):
                    os.unlink(path)
                lines.append("dl " + " ".join("ok:" + str(i) if m == "ok" else m for i, m in enumerate(assign)))
                expect.append((f"{int(err)} {0 if False else (len(contacted))} " + ("[" + str(first_ok) + "]" if first_ok is not None else "[]"), rep))
                out.case(rep)
        # Elec2's own mirror list (2 mirrors)
        e = Elec2()
        if len(e.url) != 2:
            out.notes.append(f"Elec2 has {len(e.url)} mirrors")
        if e.file_path and os.path.exists(e.file_path):
            os.unlink(e.file_path)
    finally:
        uninstall_network()


class HistMirrors(BaseDatasetDownload):
    bad_read = False

    def read_file(self, **kwargs):
        with open(self.file_path, "rb") as f:
            data = f.read()
        if self.bad_read:
            raise IndexError("malformed")
        return data


def history_cases(out: Outcome, rng, lines, expect, n_cases: int) -> None:
    """histories of download()/load() on ONE dataset object, with the target file missing, empty or already holding
    bytes: a successful download must leave exactly the first reachable mirror's bytes (nothing appended, nothing kept)"""
    modes = ["c", "h", "g", "t", "ok"] + list(EXTRA_MODES) + ["S"]
    old = b"OLD-CONTENT"
    del NO_TIMEOUT[:]
    try:
        for case in range(n_cases):
            k = rng.randint(1, 3)
            urls = [f"https://mirror{i}.example.org/data.bin" for i in range(k)]
            plan = {}

            head, get, _ = fake_network(plan)
            install_network(head, get)
            init = rng.choice(["none", "empty", "old", "old"]) if case >= 3 else ["none", "empty", "old"][case]
            fd, path = tempfile.mkstemp(dir="/tmp")
            os.close(fd)
            if init == "none":
                os.unlink(path)
            elif init == "old":
                with open(path, "wb") as f:
                    f.write(old)
            ds = HistMirrors(url=urls, file_path=path)
            ops = []
            for _ in range(rng.randint(1, 5) if case >= 3 else 2):
                r = rng.random()
                if r < 0.6 or case < 3:
                    ops.append(("d", [rng.choice(modes + ["ok"]) for _ in range(k)]))
                else:
                    ops.append(("l", rng.random() < 0.7))
            rep = {"mirrors": k, "initial_file": init, "ops": [[o, a] for o, a in ops]}
            outs = []
            # oracle state: what the property says the file must hold
            want_file = {"none": None, "empty": b"", "old": old}[init]
            loaded = False
            for o, a in ops:
                if o == "d":
                    plan.update(zip(urls, a))
                    first_ok = next((i for i, m in enumerate(a) if m == "ok"), None)
                    try:
                        ds.download()
                        outs.append("ok")
                        if first_ok is None:
                            out.violation(f"download(): no DownloadError although every mirror failed ({a})", rep)
                        want_file = body(urls[first_ok]) if first_ok is not None else want_file
                    except DownloadError:
                        outs.append("DownloadError")
                        if first_ok is not None and not loaded:
                            out.violation(f"download(): DownloadError although mirror {first_ok} was reachable ({a})", rep)
                    except Exception as e:  # noqa: BLE001
                        outs.append(type(e).__name__)
                        if not loaded:
                            out.violation(f"download() raised {type(e).__name__} in the history {rep['ops']}", rep)
                    if not loaded:
                        have = open(path, "rb").read() if os.path.exists(path) else None
                        if outs[-1] == "DownloadError" and first_ok is None:
                            # every mirror failed: what the target file holds then is not fixed by the property ("ends with exactly the first reachable mirror's bytes" speaks
                            # of a download that reaches one) - an implementation that streams to the file has written a part, one that cleans up has removed it; the
                            # history goes on from whatever it holds
                            if have != want_file:
                                out.count("file_changed_by_a_download_that_failed_entirely")
                            want_file = have
                        if have != want_file:
                            out.violation(f"download(): after the history {rep['ops'][:len(outs)]} (target file initially {init}) the file holds {have!r}, "
                                          f"expected exactly {want_file!r}", rep)
                else:
                    ds.bad_read = not a
                    try:
                        data = ds.load()
                        outs.append("data" + tok(data, urls, old))
                        if data != want_file or os.path.exists(path):
                            out.violation(f"load(): returned {data!r} (expected {want_file!r}) or did not remove the temporary file", rep)
                        loaded, want_file = True, None
                    except FileNotFoundError:
                        outs.append("FileNotFoundError")
                        if want_file is not None and not loaded:
                            out.violation("load(): FileNotFoundError although the file exists", rep)
                    except Exception as e:  # noqa: BLE001
                        outs.append(type(e).__name__)
                        if a and not loaded:
                            out.violation(f"load() raised {type(e).__name__}", rep)
            have = open(path, "rb").read() if os.path.exists(path) else None
            final = f"{int(ds.file_path is not None)} {tok(have, urls, old)}"
            # object lifetime: what was downloaded to the caller's own path belongs to the caller - it is still there when the dataset object is gone
            if have is not None and not loaded:
                import gc
                del ds
                gc.collect()
                if not os.path.exists(path) or open(path, "rb").read() != have:
                    out.violation(f"download(): the file downloaded to the caller's path is gone or changed once the dataset object has been collected (history {rep['ops']})", rep)
            if os.path.exists(path):
                os.unlink(path)
            lines.append("dh " + {"none": "none", "empty": "f:", "old": "f:99"}[init] + " " +
                         " ".join(("d:" + ",".join("ok:" + str(i) if m == "ok" else (m if m in ("c", "h", "g", "t") else "c") for i, m in enumerate(a))) if o == "d" else ("l:" + str(int(a)))
                                  for o, a in ops))
            expect.append((" ".join(outs) + " | " + final, rep))
            out.case(rep)
        if NO_TIMEOUT:
            what, url = NO_TIMEOUT[0]
            out.violation(f"download(): a {what} request is issued without a timeout ({len(NO_TIMEOUT)} such requests): a mirror that accepts the connection and stalls "
                          "blocks the download for ever and the next mirror is never tried", {"kind": "no timeout", "request": what})
    finally:
        uninstall_network()


def tok(data, urls, old) -> str:
    """file content as the model's token list: mirror i's bytes = [i], the pre-existing bytes = [99]"""
    if data is None:
        return "none"
    if data == b"":
        return "[]"
    if data == old:
        return "[99]"
    for i, u in enumerate(urls):
        if data == body(u):
            return f"[{i}]"
    return "raw:" + data[:60].hex()


ARFF = b"""@relation tiny
@attribute date numeric
@attribute day {1,2,3}
@attribute price numeric
@attribute class {UP,DOWN}
@data
0.0,2,0.056443,UP
0.1,3,0.051699,UP
0.2,1,0.385004,DOWN
0.9158,2,0.288753,DOWN
"""


def elec2_cases(out: Outcome) -> None:
    """the real dataset class end to end on a scripted network: default (temporary) target files are per object, a single URL string is one
    mirror, `load()` returns the parsed records (all of them, in order) and removes the file, a bad index is a ReadFileError and keeps the file"""
    from frouros.datasets.exceptions import ReadFileError
    try:
        served = {}

        def head(url, timeout=None, **kw):
            return FakeResponse(ok=True)

        def get(url, stream=None, timeout=None, **kw):
            return FakeResponse(ok=True, content=served[url])

        install_network(head, get)
        a, b = Elec2(), Elec2()
        rep = {"scenario": "two Elec2 objects with default file_path"}
        if a.file_path is None or b.file_path is None or str(a.file_path) == str(b.file_path):
            out.violation(f"Elec2: two objects created with the default file_path share the target {a.file_path}", rep)
        else:
            for u in a.url:
                served[u] = ARFF
            a.download()
            for u in b.url:
                served[u] = ARFF.replace(b"0.9158,2,0.288753,DOWN\n", b"")
            b.download()
            pa, pb = a.file_path, b.file_path
            da, db = a.load(), b.load()
            if len(da) != 4 or len(db) != 3:
                out.violation(f"Elec2: two objects with default targets: {len(da)} and {len(db)} records loaded, expected 4 and 3 (each its own download)", rep)
            elif [float(r[0]) for r in da] != [0.0, 0.1, 0.2, 0.9158] or [bytes(r[3]) for r in da] != [b"UP", b"UP", b"DOWN", b"DOWN"]:
                out.violation(f"Elec2.load(): parsed records {da!r} are not the records of the downloaded file, in order", rep)
            if any(p is not None and os.path.exists(str(p)) for p in (pa, pb)):
                out.violation("Elec2.load(): the temporary file is still there after load()", rep)
            elif a.file_path is not None or b.file_path is not None:
                out.mismatch("Elec2.load(): the dataset object keeps its file_path after load() (the model's state machine sets it to None)", rep)
        out.case(rep)
        # a bad index: ReadFileError, file kept
        c = Elec2()
        for u in c.url:
            served[u] = ARFF
        c.download()
        path = str(c.file_path)
        try:
            c.load(index=2)
            out.violation("Elec2.load(index=2) returned something instead of raising ReadFileError", {"scenario": "bad index"})
        except ReadFileError:
            if not os.path.exists(path):
                out.violation("Elec2.load(index=2): ReadFileError but the downloaded file is gone", {"scenario": "bad index"})
        except Exception as e:  # noqa: BLE001
            out.violation(f"Elec2.load(index=2) raised {type(e).__name__} instead of ReadFileError", {"scenario": "bad index"})
        if os.path.exists(path):
            os.unlink(path)
        out.case({"scenario": "bad index"})
        # a single URL given as a string is one mirror
        fd, path = tempfile.mkstemp(dir="/tmp")
        os.close(fd)
        url = "https://single.example.org/data.bin"
        served[url] = b"SINGLE"
        ds = ThreeMirrors(url=url, file_path=path)
        rep = {"scenario": "url given as str"}
        try:
            ds.download()
            if open(path, "rb").read() != b"SINGLE":
                out.violation("download() with a single URL string: the target file does not hold that URL's bytes", rep)
        except Exception as e:  # noqa: BLE001
            out.violation(f"download() with a single URL string raised {type(e).__name__}: {e}", rep)
        if os.path.exists(path):
            os.unlink(path)
        out.case(rep)
    finally:
        uninstall_network()


def generators_across_processes(out: Outcome, rng) -> None:
    """"identically for equal seeds" - also from one run of a script to the next: two fresh interpreters started with DIFFERENT string-hash salts (PYTHONHASHSEED) and
    this process must produce the same data sets"""
    import hashlib
    import json
    import subprocess
    import sys
    from common import REPO
    seed, n = rng.randint(0, 10**6), rng.randint(5, 30)
    code = ("import sys, json, hashlib; sys.path.insert(0, %r)\n"
            "import numpy as np\n"
            "from frouros.datasets.synthetic import SEA, Dummy\n"
            "req = json.loads(sys.stdin.read())\n"
            "def dig(it): return hashlib.sha256(b''.join(np.asarray(X, dtype=float).tobytes() + bytes([int(y)]) for X, y in it)).hexdigest()\n"
            "print(json.dumps([dig(SEA(seed=req['seed']).generate_dataset(block=2, noise=0.2, num_samples=req['n'])),"
            " dig(Dummy(seed=req['seed']).generate_dataset(class_=1, num_samples=req['n']))]))\n") % str(REPO)
    outs = []
    for salt in ("1", "987654"):
        r = subprocess.run([sys.executable, "-c", code], input=json.dumps({"seed": seed, "n": n}), capture_output=True, text=True, timeout=300,
                           env={**os.environ, "PYTHONHASHSEED": salt})
        if r.returncode != 0:
            out.notes.append("fresh-interpreter generator run failed: " + r.stderr[-200:])
            return
        outs.append(json.loads(r.stdout.strip().splitlines()[-1]))

    def dig(it):
        return hashlib.sha256(b"".join(np.asarray(X, dtype=float).tobytes() + bytes([int(y)]) for X, y in it)).hexdigest()
    here = [dig(SEA(seed=seed).generate_dataset(block=2, noise=0.2, num_samples=n)), dig(Dummy(seed=seed).generate_dataset(class_=1, num_samples=n))]
    for k, name in enumerate(("SEA", "Dummy")):
        if not (outs[0][k] == outs[1][k] == here[k]):
            out.violation(f"{name}: generators constructed with seed={seed} in different interpreter processes produce different data sets",
                          {"generator": name, "seed": seed, "num_samples": n, "kind": "processes"})
    out.case({"generators_across_processes": True, "seed": seed})


def run(out: Outcome) -> None:
    rng = rng_for(out.seed, "C20")
    thorough = out.tier == "thorough"
    out.rule = ("SEA/Dummy: random (seed, block, noise, num_samples) with the generator's draws reproduced; argument grid; download: ALL 5^k assignments of "
                "{connection error, non-OK HEAD, GET error status, timeout, success} to k = 1..3 mirrors (exhaustive); random histories of "
                "download()/load() calls on one object with the target file missing, empty or pre-filled")
    lines, expect = [], []
    sea_cases(out, rng, 60 if thorough else 15, lines, expect)
    generators_across_processes(out, rng)
    download_cases(out, lines, expect, 3)
    history_cases(out, rng, lines, expect, 400 if thorough else 80)
    elec2_cases(out)
    out.stats["download_assignments_exhaustive"] = True
    got = run_driver(lines)
    for g, (want, rep) in zip(got, expect):
        if g != want and not (want == "err:*" and g.startswith("err:")):
            out.mismatch(f"model output '{g}' differs from implementation '{want}' for {rep}", rep)
        else:
            out.traces_validated += 1


def replay(out: Outcome, payload: dict) -> None:
    run(out)
