"""C20 — synthetic generators follow their concept; download falls through mirrors."""
from __future__ import annotations

import itertools
import os
import tempfile

from common import Outcome, f2h, np, rng_for, run_driver

LEVEL = "proof"
EXPLANATION = ("Theorems (Lean): SEA/Dummy label rules and argument decision tables; download = first successful mirror's bytes, mirrors after it are not contacted, "
               "DownloadError iff none succeeds. This run reproduces NumPy's draws for many seeds/blocks/noise levels and compares labels with the model, and drives "
               "download() through a scripted fake of requests.head/get for EVERY assignment of 5 failure modes to 1-3 mirrors (exhaustive).")
ASSUMPTIONS = ["the network is a scripted fake (requests.head/get monkey-patched in the harness, no repo hook)", "arff parsing (scipy) is library code"]

import requests  # noqa: E402
from frouros.datasets.base import BaseDatasetDownload  # noqa: E402
from frouros.datasets.exceptions import DownloadError, InvalidBlockError  # noqa: E402
from frouros.datasets.real import Elec2  # noqa: E402
from frouros.datasets.synthetic import SEA, Dummy  # noqa: E402

THR = {1: 8.0, 2: 9.0, 3: 7.0, 4: 9.5}


def sea_cases(out: Outcome, rng, n_cases: int, lines, expect) -> None:
    for _ in range(n_cases):
        seed, block, noise, n = rng.randint(0, 2**31 - 1), rng.choice([1, 2, 3, 4]), rng.choice([0.0, 0.0, 0.1, 0.5, 1.0]), rng.randint(1, 60)
        gen1 = SEA(seed=seed)
        data = list(gen1.generate_dataset(block=block, noise=noise, num_samples=n))
        rep = {"generator": "SEA", "seed": seed, "block": block, "noise": noise, "num_samples": n}
        if len(data) != n:
            out.violation(f"SEA: {len(data)} samples generated for num_samples={n}", rep)
            continue
        # reproduce the tape
        np.random.seed(seed)
        for i, (X, y) in enumerate(data):
            u = np.random.uniform(low=0.0, high=10.0, size=(3,))
            r = np.random.random()
            coin = int(np.random.randint(2)) if r < noise else 0
            if not np.array_equal(u, X) or not all(0 <= v < 10 for v in X):
                out.violation(f"SEA: features of sample {i} are not the generator's uniform draws in [0,10)", rep)
                break
            if noise == 0 and int(y) != (1 if X[0] + X[1] <= THR[block] else 0):
                out.violation(f"SEA(block={block}, noise=0): sample {i} with x0+x1={X[0] + X[1]!r} has label {y}", rep)
                break
            lines.append(f"sea label {block} {f2h(noise)} {f2h(X[0])} {f2h(X[1])} {f2h(r)} {coin}")
            expect.append((str(int(y)), rep))
        again = list(SEA(seed=seed).generate_dataset(block=block, noise=noise, num_samples=n))
        if any(not np.array_equal(a[0], b[0]) or a[1] != b[1] for a, b in zip(data, again)):
            out.violation("SEA: two generators with equal seeds produce different datasets", rep)
        out.case(rep)
    # two datasets requested from one generator before the first is consumed: each keeps its own block
    for b1, b2 in ((1, 3), (3, 4), (2, 1)):
        g = SEA(seed=rng.randint(0, 10**6))
        d1 = g.generate_dataset(block=b1, noise=0.0, num_samples=40)
        d2 = g.generate_dataset(block=b2, noise=0.0, num_samples=40)
        for name, d, b in (("first", d1, b1), ("second", d2, b2)):
            for X, y in d:
                if int(y) != (1 if X[0] + X[1] <= THR[b] else 0):
                    out.violation(f"SEA: the {name} of two datasets requested from one generator (blocks {b1}, {b2}) is not labelled with its own block threshold", {"blocks": [b1, b2]})
                    break
        out.case({"generator": "SEA", "two_datasets": [b1, b2]})
    for _ in range(n_cases // 2 + 1):
        seed, cls, n = rng.randint(0, 2**31 - 1), rng.choice([0, 1]), rng.randint(1, 40)
        data = list(Dummy(seed=seed).generate_dataset(class_=cls, num_samples=n))
        rep = {"generator": "Dummy", "seed": seed, "class": cls, "num_samples": n}
        if len(data) != n:
            out.violation(f"Dummy: {len(data)} samples for num_samples={n}", rep)
        for X, y in data:
            if int(y) != (cls if X[0] + X[1] < 10.0 else 1 - cls) or not all(0 <= v < 10 for v in X):
                out.violation(f"Dummy(class_={cls}): sample with x0+x1={X[0] + X[1]!r} has label {y}", rep)
                break
            lines.append(f"sea dummy {cls} {f2h(X[0])} {f2h(X[1])}")
            expect.append((str(int(y)), rep))
        out.case(rep)
    # argument validation
    for block, n, noise in itertools.product([0, 1, 4, 5, -1], [-1, 0, 1, 5], [-0.1, 0.0, 0.5, 1.0, 1.1]):
        try:
            SEA(seed=1).generate_dataset(block=block, noise=noise, num_samples=n)
            k = "ok"
        except InvalidBlockError:
            k = "err:InvalidBlock"
        except ValueError:
            k = "err:Value"
        stated = block in (1, 2, 3, 4) and n >= 1 and 0 <= noise <= 1
        if (k == "ok") != stated:
            out.violation(f"SEA.generate_dataset(block={block}, noise={noise}, num_samples={n}) {'accepted' if k == 'ok' else 'rejected'}", {"block": block, "n": n, "noise": noise})
        if block >= 0:
            lines.append(f"sea check {block} {n} {f2h(noise)}")
            expect.append((k, {"generator": "SEA-args", "block": block, "n": n, "noise": noise}))
    for cls, n in itertools.product([-1, 0, 1, 2], [-1, 0, 1, 3]):
        try:
            Dummy(seed=1).generate_dataset(class_=cls, num_samples=n)
            k = "ok"
        except ValueError:
            k = "err:Value"
        if (k == "ok") != (cls in (0, 1) and n >= 1):
            out.violation(f"Dummy.generate_dataset(class_={cls}, num_samples={n}) {'accepted' if k == 'ok' else 'rejected'}", {"class": cls, "n": n})
        lines.append(f"sea dcheck {cls} {n}")
        expect.append((k, {"generator": "Dummy-args", "class": cls, "n": n}))
    for bad in (-1, "a"):
        try:
            SEA(seed=bad)
            out.violation(f"SEA(seed={bad!r}) accepted", {"seed": repr(bad)})
        except (ValueError, TypeError):
            pass


class FakeResponse:
    def __init__(self, ok, status_ok=True, content=b""):
        self.ok, self._status_ok, self.content = ok, status_ok, content

    def raise_for_status(self):
        if not self._status_ok:
            raise requests.exceptions.HTTPError("status")


class ThreeMirrors(BaseDatasetDownload):
    def read_file(self, **kwargs):
        with open(self.file_path, "rb") as f:
            return f.read()


def download_cases(out: Outcome, lines, expect, kmax: int) -> None:
    modes = ["c", "h", "g", "t", "ok"]
    real_head, real_get = requests.head, requests.get
    try:
        for k in range(1, kmax + 1):
            urls = [f"https://mirror{i}.example.org/data.bin" for i in range(k)]
            for assign in itertools.product(modes, repeat=k):
                contacted = []
                plan = dict(zip(urls, assign))

                def head(url, timeout=None, **kw):
                    contacted.append(url)
                    m = plan[url]
                    if m == "c":
                        raise requests.exceptions.ConnectionError("down")
                    if m == "t":
                        raise requests.exceptions.Timeout("slow")
                    return FakeResponse(ok=(m != "h"))

                def get(url, stream=None, timeout=None, **kw):
                    m = plan[url]
                    return FakeResponse(ok=True, status_ok=(m != "g"), content=(b"ERROR PAGE " if m == "g" else b"DATA-") + url.encode())

                requests.head, requests.get = head, get
                fd, path = tempfile.mkstemp(dir="/tmp")
                os.close(fd)
                os.unlink(path)
                ds = ThreeMirrors(url=urls, file_path=path)
                rep = {"mirrors": k, "assignment": list(assign)}
                try:
                    ds.download()
                    err = False
                except DownloadError:
                    err = True
                except Exception as e:  # noqa: BLE001
                    out.violation(f"download() raised {type(e).__name__} for the assignment {assign}", rep)
                    continue
                first_ok = next((i for i, m in enumerate(assign) if m == "ok"), None)
                content = open(path, "rb").read() if os.path.exists(path) else b""
                if err != (first_ok is None):
                    out.violation(f"download(): DownloadError {'raised' if err else 'not raised'} for the assignment {assign}", rep)
                elif first_ok is not None:
                    if content != b"DATA-" + urls[first_ok].encode():
                        out.violation(f"download(): target file holds {content[:40]!r}, expected exactly the bytes of mirror {first_ok} for the assignment {assign}", rep)
                    if contacted != urls[: first_ok + 1]:
                        out.violation(f"download(): contacted {len(contacted)} mirrors for the assignment {assign}, expected the first {first_ok + 1} in order", rep)
                    data = ds.load()
                    if data != content or os.path.exists(path) or ds.file_path is not None:
                        out.violation("load(): did not return the file's data and remove the temporary file", rep)
                elif content not in (b"",):
                    out.violation(f"download(): every mirror failed but the target file holds {content[:40]!r}", rep)
                if os.path.exists(path):
                    os.unlink(path)
                lines.append("dl " + " ".join("ok:" + str(i) if m == "ok" else m for i, m in enumerate(assign)))
                expect.append((f"{int(err)} {0 if False else (len(contacted))} " + ("[" + str(first_ok) + "]" if first_ok is not None else "[]"), rep))
                out.case(rep)
        # Elec2's own mirror list (2 mirrors)
        e = Elec2()
        if len(e.url) != 2:
            out.notes.append(f"Elec2 has {len(e.url)} mirrors")
        if e.file_path and os.path.exists(e.file_path):
            os.unlink(e.file_path)
    finally:
        requests.head, requests.get = real_head, real_get


def run(out: Outcome) -> None:
    rng = rng_for(out.seed, "C20")
    thorough = out.tier == "thorough"
    out.rule = ("SEA/Dummy: random (seed, block, noise, num_samples) with the generator's draws reproduced; argument grid; download: ALL 5^k assignments of "
                "{connection error, non-OK HEAD, GET error status, timeout, success} to k = 1..3 mirrors (exhaustive)")
    lines, expect = [], []
    sea_cases(out, rng, 60 if thorough else 15, lines, expect)
    download_cases(out, lines, expect, 3)
    out.stats["download_assignments_exhaustive"] = True
    got = run_driver(lines)
    for g, (want, rep) in zip(got, expect):
        if g != want:
            out.mismatch(f"model output '{g}' differs from implementation '{want}' for {rep}", rep)
        else:
            out.traces_validated += 1


def replay(out: Outcome, payload: dict) -> None:
    run(out)
