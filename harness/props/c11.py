"""C11 — KS detectors report the exact KS statistic and p-value; incremental = batch."""
from __future__ import annotations

import itertools
import math

from common import Outcome, f2h, h2f, np, rng_for, run_driver

RULE_ADDENDA = ("state-machine histories fit|update|reset incl. unfitted updates; references and windows above 10 000; retained result objects; caller's (read-only) arrays untouched")
LEVEL = "proof"
EXPLANATION = ("Theorems (Lean): the lattice-path DP the model runs equals the number of interleavings staying inside the band, for all n, m "
               "(so the model's p-value IS the exact null probability at any size); statistic = sup|F_ref - F_test|; permutation invariance "
               "(incremental = batch). This run compares KSTest and IncrementalKSTest with the model and with a brute-force enumeration of all "
               "interleavings for small n+m, and batch vs incremental at every step incl. references above 10 000 values.")
ASSUMPTIONS = ["when the exact probability is 1 the library's guarded numerical fallback may report a value within 1e-3 of it (as the property allows)",
               "asymptotic branch (> 10 000 values): batch and incremental compared with each other only"]

from frouros.detectors.data_drift.batch import KSTest  # noqa: E402
from frouros.detectors.data_drift.streaming import IncrementalKSTest  # noqa: E402


def brute(ref: list, test: list) -> tuple[float, float]:
    """sup-statistic and exact P(D >= d) by enumerating every interleaving of the pooled sample (ties handled through ranks)"""
    n, m = len(ref), len(test)
    pooled = sorted(ref + test)

    def D(a, b):
        return max(abs(sum(1 for x in a if x <= z) / len(a) - sum(1 for x in b if x <= z) / len(b)) for z in pooled)

    d = D(ref, test)
    # null distribution for continuous data: all C(n+m, n) label assignments on distinct ranks
    cnt = tot = 0
    g = math.gcd(n, m)
    lcm = n * m // g
    h = round(d * lcm)
    for comb in itertools.combinations(range(n + m), n):
        s = set(comb)
        i = j = 0
        worst = 0
        for r in range(n + m):
            if r in s:
                i += 1
            else:
                j += 1
            worst = max(worst, abs(i * (m // g) - j * (n // g)))
        tot += 1
        if worst >= h:
            cnt += 1
    return d, cnt / tot


VALUE_TYPES = [("float", float), ("np.float64", np.float64), ("int", lambda v: int(v)), ("np.float32", np.float32), ("np.int64", lambda v: np.int64(v)),
               ("float", float), ("np.int32", lambda v: np.int32(v)), ("np.float16", np.float16)]


def sample(rng, n: int):
    kind = rng.choice(["gauss", "gauss", "ties", "int", "shift"])
    if kind == "gauss":
        return [rng.gauss(0, 1) for _ in range(n)]
    if kind == "shift":
        return [rng.gauss(rng.choice([0.5, 1.5, 3]), 1) for _ in range(n)]
    if kind == "ties":
        return [rng.choice([0.0, 0.5, 1.0, 2.0]) for _ in range(n)]
    return [float(rng.randint(0, 6)) for _ in range(n)]


def pclose(a: float, b: float, exact_one: bool) -> bool:
    if exact_one:
        return abs(a - 1.0) <= 1e-3
    return abs(a - b) <= 1e-9 + 1e-7 * abs(b)


def histories(out: Outcome, rng, n_cases: int, thorough: bool):
    """random fit / update / reset histories of ONE IncrementalKSTest, mirrored op by op on the model's state machine
    (`x kn/kf/ku/kr`): updates on an unfitted detector must raise MissingFitError and leave no trace; every accepted update from
    the w-th on must equal the batch test on the last w accepted values since the last reset"""
    from frouros.detectors.data_drift.exceptions import MissingFitError
    lines, expect = [], []
    for case in range(n_cases):
        w = rng.choice([1, 2, 3, 4, 6, 9, 40, 120] if thorough else [1, 2, 3, 4, 6, 9, 40])
        big = case == 0
        inc = IncrementalKSTest(window_size=w)
        lines.append(f"x kn {w}")
        expect.append(None)
        ops = []
        kept = []
        ref, accepted = None, []
        since_fit = 0
        n_ops = rng.randint(w + 2, 3 * w + 12)
        for _ in range(n_ops):
            r = rng.random()
            if ref is None:
                op = "fit" if r < 0.45 else ("update" if r < 0.9 else "reset")
            else:
                op = "update" if r < 0.88 else ("reset" if r < 0.95 else "fit")
            rep = {"window": w, "kind": "history", "ops": ops + [op]}
            if op == "fit":
                n = 10001 if big and ref is None else rng.choice([2, 5, 10, 30, 64, 300, 1500] if thorough else [2, 5, 10, 30, 64, 300])
                ref = sample(rng, n) if n < 10001 else [rng.gauss(0, 1) for _ in range(n)]
                given = np.array(ref)
                given.flags.writeable = rng.random() < 0.5          # the caller's array may be read-only; either way it is the caller's
                before = given.tobytes()
                try:
                    inc.fit(X=given)
                except Exception as e:  # noqa: BLE001
                    out.violation(f"IncrementalKSTest.fit raised {type(e).__name__}: {e} on a {'writable' if given.flags.writeable else 'read-only'} 1-D array", rep)
                    break
                if given.tobytes() != before:
                    out.violation("IncrementalKSTest.fit modified the caller's reference array in place", rep)
                    break
                ops.append(["fit", n if n > 64 else ref])
                since_fit = 0
                lines.append("x kf " + " ".join(f2h(x) for x in ref))
                expect.append(None)
            elif op == "reset":
                inc.reset()
                ref, accepted = None, []
                ops.append(["reset"])
                lines.append("x kr")
                expect.append(None)
            else:
                v = sample(rng, 1)[0]
                ops.append(["update", v])
                lines.append(f"x ku {f2h(v)}")
                try:
                    res, _ = inc.update(value=v)
                except MissingFitError:
                    expect.append(("err:MissingFit", rep))
                    if ref is not None:
                        out.violation("IncrementalKSTest.update raised MissingFitError on a fitted detector", rep)
                    continue
                except Exception as e:  # noqa: BLE001
                    out.violation(f"IncrementalKSTest.update raised {type(e).__name__}: {e}", rep)
                    break
                if ref is None:
                    out.violation("IncrementalKSTest.update on an unfitted detector did not raise MissingFitError", rep)
                    break
                accepted.append(v)
                since_fit += 1
                if len(accepted) < w:
                    expect.append(("-", rep))
                    if res is not None:
                        out.violation(f"IncrementalKSTest returned a result after {len(accepted)} < window_size={w} accepted values", rep)
                        break
                    continue
                if res is None and since_fit < w:
                    # a second fit() on a running detector: whether the window keeps sliding (the current code, the model) or starts again with the new reference is not
                    # fixed by the property ("returns nothing until window_size values have arrived") - a detector that restarts differs from the model, no more
                    out.mismatch(f"IncrementalKSTest returned nothing {since_fit} < window_size={w} values after a second fit(): it restarts its window at fit(), the model keeps it sliding", rep)
                    expect.append(None)
                    break
                if res is None:
                    out.violation(f"IncrementalKSTest returned nothing after {len(accepted)} >= window_size={w} accepted values", rep)
                    expect.append(None)
                    break
                bat = KSTest()
                bat.fit(X=np.array(ref))
                b, _ = bat.compare(X=np.array(accepted[-w:]))
                if abs(float(res.statistic) - float(b.statistic)) > 1e-12 or abs(float(res.p_value) - float(b.p_value)) > 1e-9 + 1e-3 * (float(b.p_value) > 0.999):
                    out.violation(f"IncrementalKSTest (statistic, p)=({float(res.statistic)!r}, {float(res.p_value)!r}) differs from the batch test "
                                  f"({float(b.statistic)!r}, {float(b.p_value)!r}) on the last {w} values accepted since fit/reset", rep)
                    break
                rep = dict(rep, asymptotic=max(len(ref), w) > 10000)
                expect.append(((float(res.statistic), float(res.p_value)), rep))
                kept.append((res, float(res.statistic), float(res.p_value)))
        # results handed out earlier still say what they said when they were returned (no object shared between the outputs of successive calls)
        for j, (robj, s0, p0) in enumerate(kept):
            if float(robj.statistic) != s0 or float(robj.p_value) != p0:
                out.violation(f"IncrementalKSTest: result number {j + 1} of {len(kept)} read ({s0!r}, {p0!r}) when it was returned and reads "
                              f"({float(robj.statistic)!r}, {float(robj.p_value)!r}) after later updates", {"window": w, "kind": "history", "ops": ops})
                break
        out.case({"history": True, "window": w, "ops": len(ops), "rejected": sum(1 for e in expect if e and e[0] == "err:MissingFit"),
                  "h": hash(repr(ops)) & 0xFFFFFF})
    return lines, expect


def run(out: Outcome) -> None:
    rng = rng_for(out.seed, "C11")
    thorough = out.tier == "thorough"
    out.rule = ("(reference, test/stream) pairs: continuous, tied, integer, equal/unequal sizes; brute-force enumeration for n+m <= 12 (14 thorough); "
                "DP model for sizes up to a few hundred; incremental vs batch at every step; perfectly interleaved and identical samples; references > 10 000")
    lines, expect = [], []
    n_small = 120 if thorough else 40
    for _ in range(n_small):
        n, m = rng.randint(1, 7 if thorough else 6), rng.randint(1, 7 if thorough else 6)
        ref, test = sample(rng, n), sample(rng, m)
        if rng.random() < 0.15:
            test = list(ref)[:m] + sample(rng, max(0, m - n))
        det = KSTest()
        det.fit(X=np.array(ref))
        res, _ = det.compare(X=np.array(test))
        d, p = brute(ref, test)
        rep = {"ref": ref, "test": test, "kind": "batch"}
        has_ties = len(set(ref + test)) < n + m
        if abs(float(res.statistic) - d) > 1e-12:
            out.violation(f"KSTest: statistic {float(res.statistic)!r} differs from sup|F_ref - F_test| = {d!r}", rep)
        elif not pclose(float(res.p_value), p, p == 1.0):
            out.violation(f"KSTest: p-value {float(res.p_value)!r} differs from the exact P(D >= d) = {p!r} over all interleavings (n={n}, m={m})", rep)
        if not (0.0 <= float(res.p_value) <= 1.0) or math.isnan(float(res.p_value)):
            out.violation(f"KSTest: p-value {float(res.p_value)!r} outside [0,1]", rep)
        lines.append(f"ks {n} {m} " + " ".join(f2h(v) for v in ref + test))
        expect.append(("KSTest", float(res.statistic), float(res.p_value), rep, p == 1.0))
        out.case({"n": n, "m": m, "ties": has_ties, "h": hash(tuple(ref + test)) & 0xFFFFFF})
    # incremental vs batch (all sizes) and vs model
    n_inc = 60 if thorough else 20
    for i in range(n_inc):
        w = rng.choice([1, 2, 3, 5, 8, 13, 30])
        n = rng.choice([2, 5, 10, 30, 64, 100, 257])
        if i % 7 == 3:       # larger references and windows (still the exact p-value: both sizes <= 10 000)
            w, n = rng.choice([48, 64, 120] if thorough else [48, 64]), rng.choice([600, 1200, 2500] if thorough else [600, 900])
        if i == 0:
            n, w = 5, 5
        ref = sample(rng, n)
        stream = sample(rng, w + rng.randint(0, 30))
        if i == 0:   # perfectly interleaved equal-size samples: exact p is 1 (was a crash before the repair)
            ref, stream = [1.0, 3.0, 5.0, 7.0, 9.0], [2.0, 4.0, 6.0, 8.0, 10.0]
        if i == 1:
            stream = list(ref)[:w] + stream
        # value TYPE of the stream: Python floats, Python ints, NumPy scalars of several widths (elements of `scores.astype(np.float32)`, of an array of counts ...);
        # the numbers are made exactly representable in the type, the expected results are those of the same numbers as Python floats
        vt, cast = VALUE_TYPES[i % len(VALUE_TYPES)] if i >= 2 else VALUE_TYPES[0]
        if vt in ("int", "np.int64", "np.int32"):
            stream = [float(round(v)) for v in stream]
        elif vt in ("np.float32", "np.float16"):
            stream = [max(-200.0, min(200.0, round(v * 8) / 8.0)) for v in stream]
        inc = IncrementalKSTest(window_size=w)
        refit = None
        if i >= 2 and rng.random() < 0.5:
            # the detector was first fitted on another reference (other size => other gcd), then reset()+fit or re-fit
            other = sample(rng, rng.choice([3, 4, 6, 9, 12, 16]))
            inc.fit(X=np.array(other))
            for v in sample(rng, rng.randint(0, w + 2)):
                inc.update(value=v)
            refit = "reset+fit"
            inc.reset()
        inc.fit(X=np.array(ref))
        bat = KSTest()
        bat.fit(X=np.array(ref))
        for t, v in enumerate(stream, 1):
            rep = {"ref": ref, "stream": stream[:t], "window": w, "kind": "incremental", "refit": refit, "value_type": vt}
            try:
                r, _ = inc.update(value=cast(v))
            except Exception as e:  # noqa: BLE001
                out.violation(f"IncrementalKSTest.update raised {type(e).__name__}: {e}", rep)
                break
            if t < w:
                if r is not None:
                    out.violation(f"IncrementalKSTest returned a result after {t} < window_size={w} values", rep)
                    break
                continue
            if r is None:
                out.violation(f"IncrementalKSTest returned nothing at step {t} >= window_size={w}", rep)
                break
            win = stream[t - w: t]
            b, _ = bat.compare(X=np.array(win))
            if abs(float(r.statistic) - float(b.statistic)) > 1e-12 or abs(float(r.p_value) - float(b.p_value)) > 1e-9 + 1e-3 * (float(b.p_value) > 0.999):
                out.violation(f"IncrementalKSTest (statistic, p)=({float(r.statistic)!r}, {float(r.p_value)!r}) differs from the batch test "
                              f"({float(b.statistic)!r}, {float(b.p_value)!r}) on the last {w} values at step {t}", rep)
                break
            if t % 3 == 0 or t == w:
                lines.append(f"ks {n} {w} " + " ".join(f2h(x) for x in ref + win))
                expect.append(("IncrementalKSTest", float(r.statistic), float(r.p_value), rep, False))
        out.case({"incremental": True, "n": n, "window": w, "steps": len(stream), "value_type": vt, "h": hash(tuple(ref + stream)) & 0xFFFFFF})
    # a second fit() on a running detector (no reset): the reference is replaced, the window keeps sliding
    for _ in range(30 if thorough else 14):
        w = rng.choice([2, 4, 6, 8])
        ref1, ref2 = sample(rng, rng.choice([6, 8, 12])), sample(rng, rng.choice([5, 9, 10, 15]))
        stream = sample(rng, 5 * w + 8)
        cut = rng.randint(1, 2 * w) if _ % 2 else rng.randint(2 * w, 3 * w + 2)      # (half of the cases: the first reference has been TESTED against many windows before the second fit)
        inc = IncrementalKSTest(window_size=w)
        inc.fit(X=np.array(ref1))
        for v in stream[:cut]:
            inc.update(value=v)
        inc.fit(X=np.array(ref2))
        bat = KSTest()
        bat.fit(X=np.array(ref2))
        for t in range(cut + 1, len(stream) + 1):
            r, _ = inc.update(value=stream[t - 1])
            rep = {"ref": ref2, "first_ref": ref1, "stream": stream[:t], "window": w, "kind": "refit", "refit_after": cut}
            if t >= w and r is not None:
                b, _ = bat.compare(X=np.array(stream[t - w: t]))
                if abs(float(r.statistic) - float(b.statistic)) > 1e-12 or abs(float(r.p_value) - float(b.p_value)) > 1e-9 + 1e-3 * (float(b.p_value) > 0.999):
                    out.violation(f"IncrementalKSTest after a second fit: (statistic, p)=({float(r.statistic)!r}, {float(r.p_value)!r}) differs from the batch test "
                                  f"({float(b.statistic)!r}, {float(b.p_value)!r}) on the new reference and the last {w} values", rep)
                    break
        out.case({"refit_without_reset": True, "window": w, "n1": len(ref1), "n2": len(ref2), "h": hash(tuple(stream)) & 0xFFFFFF})
    # a second fit() ACROSS the size branch (exact distribution up to 10 000 values, asymptotic above): small -> large and large -> small, no reset in between;
    # whatever the first fit decided or cached must not survive the second
    for n1, n2 in ((rng.choice([200, 300]), rng.choice([10007, 10450])), (10003, rng.choice([150, 400]))):
        w = rng.choice([20, 30])
        ref1, ref2 = [rng.gauss(0, 1) for _ in range(n1)], [rng.gauss(0.1, 1) for _ in range(n2)]
        stream = [rng.gauss(0.2, 1) for _ in range(2 * w + 6)]
        cut = rng.randint(1, w + 3)
        rep = {"first_ref_size": n1, "ref_size": n2, "window": w, "kind": "refit across the 10 000 branch", "refit_after": cut, "stream": stream}
        try:
            inc = IncrementalKSTest(window_size=w)
            inc.fit(X=np.array(ref1))
            for v in stream[:cut]:
                inc.update(value=v)
            inc.fit(X=np.array(ref2))
            bat = KSTest()
            bat.fit(X=np.array(ref2))
            for t in range(cut + 1, len(stream) + 1):
                r, _ = inc.update(value=stream[t - 1])
                if t >= w and r is not None:
                    b, _ = bat.compare(X=np.array(stream[t - w: t]))
                    if abs(float(r.statistic) - float(b.statistic)) > 1e-12 or abs(float(r.p_value) - float(b.p_value)) > 1e-9 + 1e-3 * (float(b.p_value) > 0.999):
                        out.violation(f"IncrementalKSTest fitted on {n1} values and then on {n2}: (statistic, p)=({float(r.statistic)!r}, {float(r.p_value)!r}) differs from the "
                                      f"batch test ({float(b.statistic)!r}, {float(b.p_value)!r}) on the new reference and the last {w} values", rep)
                        break
        except Exception as e:  # noqa: BLE001
            out.violation(f"IncrementalKSTest fitted on {n1} values and then on {n2}: {type(e).__name__}: {e}", rep)
        out.case({"refit_across_size_branch": (n1, n2), "window": w})
    # references above 10 000 values: asymptotic branch, batch vs incremental
    # window_size == len(reference) in the hundreds / thousands (scipy's equal-sizes branch of the exact distribution), and n * m beyond 10^6
    for n, w in (((600, 600), (1100, 1100), (1500, 800)) if thorough else ((rng.choice([560, 700]), None), (1500, 800))):
        w = w or n
        ref = [rng.gauss(0, 1) for _ in range(n)]
        stream = [rng.gauss(rng.choice([0.0, 0.05]), 1) for _ in range(w + 2)]
        inc = IncrementalKSTest(window_size=w)
        inc.fit(X=np.array(ref))
        bat = KSTest()
        bat.fit(X=np.array(ref))
        rep = {"ref_size": n, "window": w, "kind": "equal / large sizes", "stream_seeded": True}
        for t, v in enumerate(stream, 1):
            try:
                r, _ = inc.update(value=v)
            except Exception as e:  # noqa: BLE001
                out.violation(f"IncrementalKSTest.update raised {type(e).__name__}: {e} at update {t} (reference {n}, window {w})", rep)
                break
            if t < w:
                continue
            b, _ = bat.compare(X=np.array(stream[t - w: t]))
            if r is None or abs(float(r.statistic) - float(b.statistic)) > 1e-12 or not (abs(float(r.p_value) - float(b.p_value)) <= 1e-9):
                out.violation(f"IncrementalKSTest result {None if r is None else (float(r.statistic), float(r.p_value))} differs from the batch test "
                              f"({float(b.statistic)!r}, {float(b.p_value)!r}) for reference {n}, window {w}", rep)
                break
            if t == w:
                win = stream[t - w: t]
                lines.append(f"ks {n} {w} " + " ".join(f2h(x) for x in ref + win))
                expect.append(("KSTest/IncrementalKSTest", float(b.statistic), float(b.p_value), rep, False))
        out.case({"equal_or_large_sizes": (n, w)})
    # a WINDOW above 10 000 values (small reference): the asymptotic branch as well, decided by max(n, w)
    for n, w in ((40, 10001),):
        ref = [rng.gauss(0, 1) for _ in range(n)]
        stream = [rng.gauss(0.1, 1) for _ in range(w + 2)]
        inc = IncrementalKSTest(window_size=w)
        inc.fit(X=np.array(ref))
        bat = KSTest()
        bat.fit(X=np.array(ref))
        rep = {"ref_size": n, "window": w, "kind": "large window", "stream_seeded": True}
        for t, v in enumerate(stream, 1):
            try:
                r, _ = inc.update(value=v)
            except Exception as e:  # noqa: BLE001
                out.violation(f"IncrementalKSTest.update raised {type(e).__name__}: {e} at update {t} with window_size={w}", rep)
                break
            if t < w:
                if r is not None:
                    out.violation(f"IncrementalKSTest returned a result after {t} < window_size={w} values", rep)
                    break
                continue
            if r is None:
                out.violation(f"IncrementalKSTest returned nothing at update {t} >= window_size={w}", rep)
                break
            b, _ = bat.compare(X=np.array(stream[t - w: t]))
            if abs(float(r.statistic) - float(b.statistic)) > 1e-12 or abs(float(r.p_value) - float(b.p_value)) > 1e-9:
                out.violation(f"IncrementalKSTest (statistic, p)=({float(r.statistic)!r}, {float(r.p_value)!r}) differs from the batch test "
                              f"({float(b.statistic)!r}, {float(b.p_value)!r}) with window_size={w}", rep)
                break
        out.case({"large_window": w, "ref": n})
    for n, w in ([(10001, 3), (10000, 4), (12000, 7)] if thorough else [(10001, 3), (10000, 4)]):
        ref = [rng.gauss(0, 1) for _ in range(n)]
        stream = [rng.gauss(0.3, 1) for _ in range(w + 3)]
        inc = IncrementalKSTest(window_size=w)
        inc.fit(X=np.array(ref))
        bat = KSTest()
        bat.fit(X=np.array(ref))
        for t, v in enumerate(stream, 1):
            rep = {"ref_size": n, "ref_seeded": True, "stream": stream[:t], "window": w, "kind": "large"}
            try:
                r, _ = inc.update(value=v)
            except Exception as e:  # noqa: BLE001
                out.violation(f"IncrementalKSTest.update raised {type(e).__name__}: {e} with a reference of {n} values", rep)
                break
            if t >= w:
                b, _ = bat.compare(X=np.array(stream[t - w: t]))
                if abs(float(r.statistic) - float(b.statistic)) > 1e-12 or abs(float(r.p_value) - float(b.p_value)) > 1e-9:
                    out.violation(f"IncrementalKSTest p={float(r.p_value)!r} differs from batch p={float(b.p_value)!r} with a reference of {n} values", rep)
                    break
        out.case({"large_reference": n, "window": w})
    hist_lines, hist_expect = histories(out, rng, 40 if thorough else 12, thorough)
    res = run_driver(lines)
    hres = run_driver(hist_lines)
    for got, exp in zip(hres, hist_expect):
        if exp is None:
            continue
        want, rep = exp
        toks = got.split(" ")
        if isinstance(want, str):
            if got != want:
                out.mismatch(f"IncrementalKSTest history: model answers '{got}' where the implementation gave '{want}'", rep)
        elif len(toks) != 3 or not toks[0].startswith("x"):
            out.mismatch(f"IncrementalKSTest history: model answers '{got}' where the implementation returned a result", rep)
        else:
            stat, p = want
            if abs(h2f(toks[0][1:]) - stat) > 1e-12:
                out.mismatch(f"IncrementalKSTest history: model statistic {h2f(toks[0][1:])!r} vs implementation {stat!r}", rep)
            elif toks[2] == "asym":
                if rep.get("asymptotic") is not True:
                    out.mismatch("IncrementalKSTest history: the model takes the asymptotic branch where max(n, w) <= 10000", rep)
            elif rep.get("asymptotic") is True:
                out.mismatch("IncrementalKSTest history: the model takes the exact branch where max(n, w) > 10000", rep)
            elif not pclose(p, h2f(toks[2][1:]), h2f(toks[2][1:]) == 1.0):
                out.mismatch(f"IncrementalKSTest history: model exact p-value {h2f(toks[2][1:])!r} (h={toks[1]}) vs implementation {p!r}", rep)
        out.traces_validated += 1
    for got, (name, stat, p, rep, exact_one) in zip(res, expect):
        ms, mh, mp = got.split(" ")
        ms, mp = h2f(ms[1:]), h2f(mp[1:])
        if abs(ms - stat) > 1e-12:
            out.mismatch(f"{name}: model statistic {ms!r} vs implementation {stat!r}", rep)
        elif not pclose(p, mp, mp == 1.0 or exact_one):
            out.mismatch(f"{name}: model exact p-value {mp!r} (h={mh}) vs implementation {p!r}", rep)
        out.traces_validated += 1


def replay(out: Outcome, payload: dict) -> None:
    run(out)
