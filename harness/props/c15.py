"""C15 — save/load at any point yields an indistinguishable detector."""
from __future__ import annotations

import os
import pickle
import tempfile

import dets
import gen
from common import Outcome, np, rng_for
from props.c14 import snap, snap_val, res_key

RULE_ADDENDA = ('path forms (absolute, bare file name, relative with a directory); structural comparison of everything the loaded object holds; detectors saved after compare calls')
LEVEL = "other"
EXPLANATION = ("pickle itself cannot be modelled; the property is expressed over the model as 'saveload is the identity on model states' (immediate) and the decision logic "
               "of save() is proved in Lean (type test before protocol test before opening the file). The weight is on this run: at sampled prefix lengths of generated "
               "histories the real object is saved and loaded with every pickle protocol, the loaded object continues instead of the original, and its observable trace "
               "and state must stay identical to a never-saved twin; rejected inputs must not create a file.")
ASSUMPTIONS = ["CPython pickle semantics", "save points are sampled (every prefix for short histories in the thorough tier)"]

from frouros.callbacks.batch import PermutationTestDistanceBased, ResetStatisticalTest  # noqa: E402
from frouros.callbacks.streaming import HistoryConceptDrift  # noqa: E402
from frouros.detectors.data_drift.batch import (EMD, JS, KL, MMD, PSI, AndersonDarlingTest, BhattacharyyaDistance, BWSTest, ChiSquareTest,  # noqa: E402
                                                 CVMTest, EnergyDistance, HellingerDistance, HINormalizedComplement, KSTest, KuiperTest,
                                                 MannWhitneyUTest, WelchTTest)
from frouros.detectors.data_drift.exceptions import MissingFitError  # noqa: E402
from frouros.detectors.data_drift.streaming import MMD as MMDStreaming, IncrementalKSTest  # noqa: E402
from frouros.utils.persistence import load, save  # noqa: E402

DIST = [PSI, HellingerDistance, BhattacharyyaDistance, HINormalizedComplement, JS, KL, EMD, EnergyDistance, MMD]
STAT = [AndersonDarlingTest, BWSTest, ChiSquareTest, CVMTest, KSTest, KuiperTest, MannWhitneyUTest, WelchTTest]


PATH_FORM = [0]


PATH_LIKE_REJECTED = [0]


def roundtrip(obj, protocol):
    """save + load through a file name whose FORM rotates: absolute path, bare file name relative to the working directory, relative path with a directory part"""
    fd, path = tempfile.mkstemp(suffix=".pkl", dir="/tmp")
    os.close(fd)
    os.unlink(path)
    PATH_FORM[0] += 1
    form = PATH_FORM[0] % 4
    if form == 3:       # a target on ANOTHER file system than the temporary directory (a tmpfs), when the machine has one
        shm = "/dev/shm"
        if os.path.isdir(shm) and os.access(shm, os.W_OK) and os.stat(shm).st_dev != os.stat(tempfile.gettempdir()).st_dev:
            fd2, other = tempfile.mkstemp(suffix=".pkl", dir=shm)
            os.close(fd2)
            os.unlink(other)
            try:
                save(obj, filename=other, pickle_protocol=protocol)
                return load(filename=other)
            finally:
                if os.path.exists(other):
                    os.unlink(other)
        form = 0
    cwd = os.getcwd()
    try:
        if form == 0:
            name = path
        else:
            d = tempfile.mkdtemp(dir="/tmp")
            os.chdir(d)
            if form == 1:
                name = os.path.basename(path)
            else:
                os.mkdir("sub")
                name = os.path.join("sub", os.path.basename(path))
        n_rt = PATH_FORM[0] // 4
        if n_rt % 3 == 1:
            # checkpointing: the target already holds an EARLIER save (of another object) - the new save replaces it
            import frouros.detectors.concept_drift as _cd
            save(_cd.DDM(), filename=name, pickle_protocol=protocol)
        if n_rt % 2 == 1:
            # `open()` takes any path-like object: `tmp_path / "det.pkl"`, `Path("models") / "ddm.pkl"`
            import pathlib
            name = pathlib.Path(name)
        try:
            save(obj, filename=name, pickle_protocol=protocol)
            return load(filename=name)
        except TypeError as e_t:
            import traceback as _tb
            last = _tb.extract_tb(e_t.__traceback__)[-1]
            # only a DELIBERATE rejection (an explicit `raise TypeError(...)` statement of the library): a TypeError that falls out of an expression (`"..." + filename`) is a
            # path-like name breaking code that was written for strings
            if isinstance(name, str) or not (last.line or "").strip().startswith("raise"):
                raise
            # the documented type of `filename` is str: an implementation that rejects a path-like object with TypeError rejects a wrong type (no clause of the property is
            # about the FORM of the file name); the round trip is then made through the same name as a string
            PATH_LIKE_REJECTED[0] += 1
            save(obj, filename=str(name), pickle_protocol=protocol)
            return load(filename=str(name))
    finally:
        if form != 0:
            import shutil
            os.chdir(cwd)
            shutil.rmtree(d, ignore_errors=True)
        if os.path.exists(path):
            os.unlink(path)


def concept_case(out: Outcome, rng, cls: str, with_cb: bool, protocol: int, thorough: bool, fixed=None) -> None:
    p = gen.rand_params(rng, cls)
    xs = gen.stream_for(rng, cls, rng.randint(8, 80))
    ks = sorted(set([0, len(xs) // 2, len(xs) - 1] + ([rng.randint(0, len(xs) - 1) for _ in range(4)] if thorough else [])))
    if fixed is not None:
        p, xs, ks = fixed
    for k in ks:
        cb = [HistoryConceptDrift(name="h")] if with_cb else None
        a = dets.Runner("a", cls, p, callbacks=cb)
        if a.det is None:
            return
        for x in xs[:k]:
            a.update(x)
        rep = {"class": cls, "params": p, "stream": xs, "save_point": k, "protocol": protocol, "history_callback": with_cb}
        try:
            loaded = roundtrip(a.det, protocol)
        except Exception as e:  # noqa: BLE001
            out.violation(f"{cls}: save/load raised {type(e).__name__}: {e}", rep)
            return
        if type(loaded) is not type(a.det):
            out.violation(f"{cls}: loaded object has type {type(loaded).__name__}", rep)
            return
        if dets.obs(cls, loaded) != dets.obs(cls, a.det) or loaded.status != a.det.status:
            out.violation(f"{cls}: observable state of the loaded detector differs from the original right after load", rep)
            return
        # everything the object holds (private attributes, whole arrays and tables - BOCD's run-length table, queues, buckets), structurally
        from props.c14 import snap_val
        keep = lambda d: {kk: vv for kk, vv in vars(d).items() if kk not in ("_callbacks",)}  # noqa: E731
        try:
            if snap_val(keep(loaded)) != snap_val(keep(a.det)):
                # a PRIVATE difference (derived data left out of the pickle and recomputed, a cache) is not a verdict: the property speaks of the observable state and of the
                # continuation, both judged here (observation right after load above, every output of the continuation below); the difference is counted
                out.count("private_state_differs_after_load")
        except RecursionError:
            pass
        # ... but everything the class exposes PUBLICLY (by enumeration of its public properties: BOCD's whole run-length table, ADWIN's buckets, counters) is observable state
        try:
            pa, pl = dets.public_reads(a.det), dets.public_reads(loaded)
            diff = [nm for nm in sorted(pa) if nm in pl and pa[nm] != pl[nm] and nm != "callbacks"]
            if diff and dets.public_reads(roundtrip(a.det, protocol)).get(diff[0]) == pl[diff[0]]:
                out.violation(f"{cls}: the public attribute `{diff[0]}` of the loaded detector reads {str(pl[diff[0]])[:100]}, the saved one's {str(pa[diff[0]])[:100]}", rep)
                return
        except Exception:  # noqa: BLE001
            out.count("public_attribute_comparison_after_load_failed")
        if with_cb and (loaded.callbacks[0].detector is not loaded):
            out.violation(f"{cls}: the loaded callback no longer refers to the loaded detector", rep)
            return
        if with_cb:
            # the history recorded so far is part of the saved state: every list, whole (length and entries), and the logs the callback exposes
            def hist_of(d):
                c = d.callbacks[0]
                return ({kk: [repr(e) for e in v] for kk, v in c.history.items() if all(isinstance(e, (bool, int, float, type(None), np.generic)) for e in v)},
                        sorted(c.logs.keys()) if isinstance(c.logs, dict) else repr(type(c.logs)))
            if hist_of(loaded) != hist_of(a.det):
                ha, hl = hist_of(a.det)[0], hist_of(loaded)[0]
                out.violation(f"{cls}: the history recorded before save ({ {kk: len(v) for kk, v in ha.items()} } entries) is not what the loaded "
                              f"callback holds ({ {kk: len(v) for kk, v in hl.items()} })", rep)
                return
        st = np.random.get_state()
        outs = []
        for d in (a.det, loaded):
            np.random.set_state(st)
            o = []
            for x in xs[k:]:
                try:
                    logs = d.update(value=x)
                except Exception as e:  # noqa: BLE001
                    o.append(("raised", type(e).__name__))
                    break
                o.append((dets.obs(cls, d), None if not with_cb else {kk: (len(v), repr(v[-1])) for kk, v in logs["h"].items() if v and isinstance(v[-1], (bool, int, float, type(None), np.generic))} ))
            outs.append(o)
        if outs[0] != outs[1]:
            j = next((i for i, (u, v) in enumerate(zip(*outs)) if u != v), min(len(outs[0]), len(outs[1])))
            out.violation(f"{cls}: after save/load at update {k} the continuation diverges from the original at update {k + j + 1}", rep)
            return
    out.case({"class": cls, "params": p, "n": len(xs), "save_points": ks, "protocol": protocol, "history_callback": with_cb})


def batch_case(out: Outcome, rng, cls, protocol: int) -> None:
    chi = cls is ChiSquareTest
    mk = (lambda n: np.array([rng.choice(["a", "b", "c"]) for _ in range(n)])) if chi else (lambda n: np.array([rng.gauss(0, 1) for _ in range(n)]))
    shape = (lambda a: a.reshape(-1, 1)) if cls is MMD else (lambda a: a)
    ref, t1, t2 = shape(mk(8)), shape(mk(6)), shape(mk(7))
    for cb_kind in (None, "cb"):
        if cb_kind and cls in DIST:
            cb = [PermutationTestDistanceBased(num_permutations=6, random_state=5, num_jobs=1, name="perm")]
        elif cb_kind:
            cb = [ResetStatisticalTest(alpha=1.0, name="reset")]     # alpha 1: every comparison resets
        else:
            cb = None
        det = cls(callbacks=cb)
        rep = {"detector": cls.__name__, "protocol": protocol, "callback": None if cb is None else type(cb[0]).__name__}
        for stage in ("unfitted", "fitted"):
            if stage == "fitted":
                det.fit(X=ref)
            try:
                loaded = roundtrip(det, protocol)
            except Exception as e:  # noqa: BLE001
                out.violation(f"{cls.__name__}: save/load raised {type(e).__name__}: {e}", rep)
                return
            if type(loaded) is not type(det) or dets.public_reads(loaded) != dets.public_reads(det):
                out.violation(f"{cls.__name__}: loaded {stage} detector differs from the original (type / what its public attributes read)", rep)
                return
            if snap(loaded) != snap(det):
                # a PRIVATE attribute differs (derived data left out of the pickle and recomputed on first use ...): not a violation by itself - the continuation
                # below (results, logs, reference) decides whether anything observable was lost
                out.count("private_state_differs_after_load")
            if cb and loaded.callbacks[0].detector is not loaded:
                out.violation(f"{cls.__name__}: the loaded callback no longer refers to the loaded detector", rep)
                return
        outs = []
        for d in (det, loaded):
            o = []
            for t in (t1, t2):
                try:
                    r, logs = d.compare(X=t)
                    o.append((res_key(r), None if not cb or cls not in DIST else (logs["perm"]["p_value"], tuple(map(float, logs["perm"]["permuted_statistics"])))))
                except MissingFitError:
                    o.append("MissingFit")
                o.append(d.X_ref is None)
            outs.append(o)
        if outs[0] != outs[1]:
            out.violation(f"{cls.__name__}: after save/load the continuation (two compare calls{' with ' + type(cb[0]).__name__ if cb else ''}) differs from the original", rep)
            return
        # a detector that has already been USED (compare calls, callbacks that ran) is saved and loaded like any other
        if det.X_ref is None:
            det.fit(X=ref)
        try:
            det.compare(X=t1)
            used = roundtrip(det, protocol)
        except Exception as e:  # noqa: BLE001
            out.violation(f"{cls.__name__}: save/load of a detector after compare calls raised {type(e).__name__}: {e}", rep)
            return
        if type(used) is not type(det) or (used.X_ref is None) != (det.X_ref is None):
            out.violation(f"{cls.__name__}: a detector saved after compare calls is loaded in a different state", rep)
            return
        if cb and dets.canon_public(getattr(used.callbacks[0], "logs", None)) != dets.canon_public(getattr(det.callbacks[0], "logs", None)):
            # what a callback that has RUN holds (the outcome of the permutation test: statistics, p-value) is part of what is saved
            out.violation(f"{cls.__name__}: the logs of its {type(cb[0]).__name__} (which ran before the save) are not what the loaded callback holds", rep)
            return
        if det.X_ref is not None and not (cls is BWSTest):
            try:
                a, b = det.compare(X=t2)[0], used.compare(X=t2)[0]
                if res_key(a) != res_key(b):
                    out.violation(f"{cls.__name__}: a detector saved after compare calls gives {res_key(b)} where the original gives {res_key(a)}", rep)
                    return
            except MissingFitError:
                pass
        out.case({"detector": cls.__name__, "protocol": protocol, "callback": rep["callback"]})


def streaming_case(out: Outcome, rng, protocol: int) -> None:
    for name, mk, val in (("IncrementalKSTest", lambda: IncrementalKSTest(window_size=4), lambda: rng.gauss(0, 1)),
                          ("MMDStreaming", lambda: MMDStreaming(window_size=4, chunk_size=2), lambda: np.array([rng.gauss(0, 1)]))):
        det = mk()
        ref = np.array([rng.gauss(0, 1) for _ in range(9)])
        det.fit(X=ref if name == "IncrementalKSTest" else ref.reshape(-1, 1))
        vals = [val() for _ in range(12)]
        k = rng.randint(0, 8)
        for v in vals[:k]:
            det.update(value=v)
        rep = {"detector": name, "protocol": protocol, "save_point": k}
        try:
            loaded = roundtrip(det, protocol)
        except Exception as e:  # noqa: BLE001
            out.violation(f"{name}: save/load raised {type(e).__name__}: {e}", rep)
            continue
        if type(loaded) is not type(det) or dets.public_reads(loaded) != dets.public_reads(det):
            out.violation(f"{name}: loaded detector differs from the original (type / what its public attributes read)", rep)
            continue
        if snap(loaded) != snap(det):
            out.count("private_state_differs_after_load")        # the continuation below decides
        for t, v in enumerate(vals[k:]):
            a, _ = det.update(value=v)
            b, _ = loaded.update(value=v)
            if (a is None) != (b is None) or (a is not None and snap_val(a) != snap_val(b)):
                out.violation(f"{name}: after save/load at update {k} the continuation diverges at update {k + t + 1}", rep)
                break
        out.case({"detector": name, "protocol": protocol, "save_point": k})


# --- classes and functions written by a USER at the library's extension points (module level, so that pickle can name them): a streaming callback, a batch callback,
# a kernel function, a BOCD model
from frouros.callbacks.streaming.base import BaseCallbackStreaming  # noqa: E402
from frouros.callbacks.batch.base import BaseCallbackBatch  # noqa: E402
from frouros.detectors.concept_drift.streaming.change_detection.bocd import BaseBOCDModel  # noqa: E402


class UserDriftCounter(BaseCallbackStreaming):
    def __init__(self, name="counter"):
        super().__init__(name=name)
        self.drifts = 0
        self.updates = 0

    def on_update_end(self, value):
        self.updates += 1
        self.drifts += int(bool(self.detector.drift))
        self.logs = {"drifts": self.drifts, "updates": self.updates}

    def reset(self):
        self.drifts = 0


class UserCompareCounter(BaseCallbackBatch):
    def __init__(self, name="compares"):
        super().__init__(name=name)
        self.n = 0

    def on_compare_end(self, result, X_ref, X_test):  # noqa: N803
        self.n += 1
        self.logs = {"n": self.n}

    def reset(self):
        self.n = 0


def user_kernel(X, Y):  # noqa: N803
    d = ((X[:, None, :] - Y[None, :, :]) ** 2).sum(-1)
    return 1.0 / (1.0 + d)


class UserGaussianModel(BaseBOCDModel):
    def __init__(self, prior_mean=0.0, prior_var=1.0, data_var=1.0):
        super().__init__()
        self.mu = np.array([prior_mean])
        self.prec = np.array([1 / prior_var])
        self.dv = data_var

    def log_pred_prob(self, idx, value):
        from scipy.stats import norm
        return norm(self.mu[:idx], np.sqrt(1 / self.prec[:idx] + self.dv)).logpdf(value)

    def update(self, value, **kwargs):
        new_prec = self.prec + 1 / self.dv
        new_mu = (self.mu * self.prec + value / self.dv) / new_prec
        self.mu = np.append(self.mu[:1], new_mu)
        self.prec = np.append(self.prec[:1], new_prec)

    @property
    def mean_params(self):
        return self.mu

    @property
    def var_params(self):
        return 1 / self.prec + self.dv


def user_defined_cases(out: Outcome, rng) -> None:
    """"for every detector and callback": the population `save()` itself defines is "an instance that inherits from BaseDetector or BaseCallback" - subclasses written by
    a user, and detectors that carry a user's callback, kernel or model, are saved AND loaded, and continue like the original"""
    import frouros.detectors.concept_drift as cd
    cases = []
    try:
        d1 = cd.DDM(callbacks=[UserDriftCounter()])
        cases.append(("DDM with a user-defined streaming callback", d1, [int(rng.random() < 0.3) for _ in range(80)], "stream"))
        d2 = cd.BOCD(config=cd.BOCDConfig(model=UserGaussianModel(), min_num_instances=5))
        cases.append(("BOCD with a user-defined model class", d2, [rng.gauss(0, 1) for _ in range(20)] + [rng.gauss(4, 1) for _ in range(15)], "stream"))
        d3 = MMD(kernel=user_kernel, callbacks=[UserCompareCounter()])
        cases.append(("MMD with a user-defined kernel function and batch callback", d3, None, "batch"))
        cases.append(("a user-defined streaming callback on its own", UserDriftCounter(name="c2"), None, "callback"))
    except Exception as e:  # noqa: BLE001
        out.notes.append(f"user-defined extension classes could not be constructed: {type(e).__name__}: {e}")
        return
    for what, obj, xs, kind in cases:
        rep = {"object": what, "kind": "user-defined classes"}
        try:
            if kind == "stream":
                k = len(xs) // 2
                for v in xs[:k]:
                    obj.update(value=v)
                loaded = roundtrip(obj, pickle.HIGHEST_PROTOCOL if rng.random() < 0.5 else 2)
                a = [(bool(obj.update(value=v) is None or obj.drift), canon_logs(obj)) for v in xs[k:]]
                b = [(bool(loaded.update(value=v) is None or loaded.drift), canon_logs(loaded)) for v in xs[k:]]
                if type(loaded) is not type(obj) or a != b:
                    out.violation(f"{what}: after save/load the continuation differs from the original's", rep)
            elif kind == "batch":
                ref, t1 = np.array([[rng.gauss(0, 1)] for _ in range(8)]), np.array([[rng.gauss(0.5, 1)] for _ in range(7)])
                obj.fit(X=ref)
                obj.compare(X=t1)
                loaded = roundtrip(obj, pickle.HIGHEST_PROTOCOL)
                ra, rb = obj.compare(X=t1), loaded.compare(X=t1)
                if res_key(ra[0]) != res_key(rb[0]) or dets.canon_public(ra[1]) != dets.canon_public(rb[1]):
                    out.violation(f"{what}: after save/load the next compare differs from the original's", rep)
            else:
                loaded = roundtrip(obj, 0)
                if type(loaded) is not type(obj) or loaded.name != obj.name:
                    out.violation(f"{what}: loaded object differs", rep)
        except Exception as e:  # noqa: BLE001
            out.violation(f"{what}: save/load raised {type(e).__name__}: {e}", rep)
        out.case({"user_defined": what})


def canon_logs(det):
    return tuple(dets.canon_public(getattr(c, "logs", None)) for c in (det.callbacks or []))


def rejections(out: Outcome) -> None:
    from frouros.detectors.concept_drift import DDM
    for obj, what in ((object(), "plain object"), ({"a": 1}, "dict"), ("DDM", "str"), (DDM, "a detector class (not an instance)")):
        path = tempfile.mktemp(suffix=".pkl", dir="/tmp")
        try:
            save(obj, filename=path)
            out.violation(f"save() accepted {what}", {"object": what})
        except TypeError:
            pass
        except Exception as e:  # noqa: BLE001
            out.violation(f"save() of {what} raised {type(e).__name__} instead of TypeError", {"object": what})
        if os.path.exists(path):
            out.violation(f"save() of {what} left a file behind", {"object": what})
            os.unlink(path)
        out.case({"reject": what})
    for proto in (-1, -2, pickle.HIGHEST_PROTOCOL + 1, 99):
        path = tempfile.mktemp(suffix=".pkl", dir="/tmp")
        try:
            save(DDM(), filename=path, pickle_protocol=proto)
            out.violation(f"save() accepted pickle_protocol={proto}", {"protocol": proto})
        except ValueError:
            pass
        except Exception as e:  # noqa: BLE001
            out.violation(f"save() with pickle_protocol={proto} raised {type(e).__name__} instead of ValueError", {"protocol": proto})
        if os.path.exists(path):
            out.violation(f"save() with invalid pickle_protocol={proto} left a file behind", {"protocol": proto})
            os.unlink(path)
        out.case({"reject_protocol": proto})


def ring_state_cases(out: Outcome, rng, protos: list, thorough: bool) -> None:
    """detectors that keep recent values in a RING (RDDM's stored predictions, STEPD's accuracy window, KSWIN's window): saved while the ring has wrapped, while it is being
    refilled after an event cut it back (first slot not 0, fewer items than slots), and right after events - and continued long enough for the ring to be read again"""
    def zero_one(pr, n):
        return [1 if rng.random() < pr else 0 for _ in range(n)]
    rd_p = {"warning_level": rng.choice([0.9, 1.3]), "drift_level": rng.choice([2.0, 2.5]), "min_num_instances": rng.choice([8, 30]), "min_concept_size": rng.choice([20, 60]),
            "max_concept_size": rng.choice([150, 40000]), "max_num_instances_warning": rng.choice([10, 1400])}
    rd_xs = zero_one(0.05, 140) + zero_one(0.6, 90) + zero_one(0.1, 160) + zero_one(0.7, 80) + zero_one(0.05, 130) + zero_one(0.5, 100)
    st_p = {"alpha_d": 0.003, "alpha_w": 0.05, "min_num_instances": rng.choice([7, 30])}
    st_xs = [1 - v for v in zero_one(0.1, 100) + zero_one(0.6, 60) + zero_one(0.1, 90)]
    ks_p = {"alpha": 0.01, "min_num_instances": 24, "num_test_instances": 6}
    ks_xs = [rng.gauss(0, 1) for _ in range(70)] + [rng.gauss(2.5, 1) for _ in range(50)]
    for k_c, (cls, p, xs) in enumerate((("RDDM", rd_p, rd_xs), ("STEPD", st_p, st_xs), ("KSWIN", ks_p, ks_xs))):
        n_pts = 24 if thorough else 12
        ks = sorted(set(rng.randint(1, len(xs) - 30) for _ in range(n_pts)))
        concept_case(out, rng, cls, with_cb=False, protocol=protos[(k_c + out.seed) % len(protos)], thorough=thorough, fixed=(p, xs, ks))
        out.count("ring_state_save_points", len(ks))


def run(out: Outcome) -> None:
    rng = rng_for(out.seed, "C15")
    thorough = out.tier == "thorough"
    out.rule = ("13 concept-drift detectors (with and without a history callback), 17 batch detectors (with the permutation / reset callback), 2 streaming data-drift "
                "detectors, callbacks saved on their own; save points: start, middle, end (+ random, thorough); protocols 0..HIGHEST rotated (all, thorough); rejections")
    protos = list(range(pickle.HIGHEST_PROTOCOL + 1))
    i = 0
    for cls in dets.CLASSES:
        for with_cb in (False, True):
            # quick tier: every class meets BOTH families of pickle protocols in every run - the old-style ones (0, 1: no `__reduce_ex__(2)`, classes with
            # `__slots__` need their own `__getstate__`) and the new-style ones (2 .. HIGHEST); which member of the family rotates with the seed
            fam = [q for q in protos if (q < 2) != with_cb]
            for proto in (protos if thorough else [fam[(i + out.seed) % len(fam)]]):
                concept_case(out, rng, cls, with_cb, proto, thorough)
            i += 1
    for cls in DIST + STAT:
        fam = [q for q in protos if (q < 2) == ((i + out.seed) % 2 == 0)]
        for proto in (protos if thorough else [fam[((i + out.seed) // 2) % len(fam)]]):
            batch_case(out, rng, cls, proto)
        i += 1
    for proto in (protos if thorough else [protos[(i + out.seed) % len(protos)], pickle.HIGHEST_PROTOCOL]):
        streaming_case(out, rng, proto)
    # callbacks on their own
    for cb in (HistoryConceptDrift(name="h"), PermutationTestDistanceBased(num_permutations=7, random_state=1, name="p"), ResetStatisticalTest(alpha=0.05, name="r")):
        for proto in (protos if thorough else [0, pickle.HIGHEST_PROTOCOL]):
            try:
                l = roundtrip(cb, proto)
            except Exception as e:  # noqa: BLE001
                out.violation(f"{type(cb).__name__}: save/load of a callback raised {type(e).__name__}: {e}", {"callback": type(cb).__name__, "protocol": proto})
                continue
            if type(l) is not type(cb) or snap(l) != snap(cb):
                out.violation(f"{type(cb).__name__}: loaded callback differs from the original", {"callback": type(cb).__name__, "protocol": proto})
            out.case({"callback": type(cb).__name__, "protocol": proto})
    ring_state_cases(out, rng, protos, thorough)
    user_defined_cases(out, rng)
    rejections(out)
    out.traces_validated = out.evaluations


def replay(out: Outcome, payload: dict) -> None:
    run(out)
