"""C08 — BOCD maintains the exact Bayesian run-length posterior."""
from __future__ import annotations

import itertools
import math

import corr
import dets
import gen
from common import Outcome, np, rng_for

RULE_ADDENDA = ('variances 1e-4 ... 50; a 1 100-1 400 update stream vs a renormalised forward recursion; the table read only after the stream / after an unread prefix + reset; BOCD() with every default')
LEVEL = "proof"
SHRINK_KEYS = ("stream",)
EXPLANATION = ("Theorems (Lean, reals): closed-form sufficient statistics, forward recursion, equality with the sum over all changepoint configurations, "
               "row normalisation, MAP rule, predictions as posterior-weighted mixtures. This run recomputes the posterior in linear space "
               "non-incrementally (and by enumerating every changepoint configuration for short streams) and compares every row, the predictions and the verdict.")
ASSUMPTIONS = ["tolerance 1e-9 on probabilities; argmax ties (two run lengths within 1e-12) are skipped"]


def gauss_pdf(x, mu, var):
    return math.exp(-(x - mu) ** 2 / (2 * var)) / math.sqrt(2 * math.pi * var)


def params(fp, vals):
    """posterior (mean, predictive variance) after absorbing `vals`"""
    prec = 1 / fp["prior_var"] + len(vals) / fp["data_var"]
    mean = (fp["prior_mean"] / fp["prior_var"] + sum(vals) / fp["data_var"]) / prec
    return mean, 1 / prec + fp["data_var"]


def posterior_enum(fp, xs):
    """P(r_t = r | x_1..t) by summing over all 2^t changepoint indicator vectors (b_i = changepoint right before x_i)"""
    t = len(xs)
    h = fp["hazard"]
    joint = [0.0] * (t + 1)
    for bits in itertools.product([False, True], repeat=t):
        w, seg = 1.0, []
        for x, b in zip(xs, bits):
            if b:
                seg = []
            w *= (h if b else 1 - h)
            mu, var = params(fp, seg)
            w *= gauss_pdf(x, mu, var)
            seg.append(x)
        # run length after t observations: 0 if the *last event* was a changepoint ... frouros/Adams-MacKay convention:
        # r_t = number of observations since (and including) ... here r counts observations absorbed by the current run
        joint[len(seg) if not bits[-1] else 0] += 0.0  # placeholder (see posterior_forward for the convention actually used)
    return joint


EPSC = 1e-14                  # 45 units in the last place per unit of log-magnitude: generous for `norm.logpdf`, `logsumexp` and the additions between them
ORIGIN = [0]
STEP_TOL: list = []           # filled by posterior_forward: per step, the tolerances of the forward error analysis below (per entry, and for the row sum)
LOG_MAGNITUDE: list = []      # filled by posterior_forward: per step, the accumulated magnitude of the exact log-joints (the ORACLE's, not an attribute of the detector)


def posterior_forward(fp, xs):
    """linear-space forward recursion written from the generative model, in 60-digit decimal arithmetic with an unbounded exponent
    (so that hypotheses whose likelihood is e^-1000 are kept - they can win later):
    M_0 = [1];  M_t[0] = sum_r M_{t-1}[r] pi_t(r) h ;  M_t[r+1] = M_{t-1}[r] pi_t(r) (1-h), pi_t(r) = predictive density of a run of length r"""
    from decimal import Decimal, getcontext, MAX_EMAX, MIN_EMIN
    ctx = getcontext()
    ctx.prec, ctx.Emax, ctx.Emin = 60, MAX_EMAX, MIN_EMIN
    h = Decimal(repr(fp["hazard"]))
    D = lambda v: Decimal(repr(float(v)))  # noqa: E731
    two_pi = Decimal("6.283185307179586476925286766559005768394338798750211641949889")
    M = [Decimal(1)]
    rows = []
    LOG_MAGNITUDE.clear()
    STEP_TOL.clear()
    acc = 0.0
    lh = max(abs(math.log(fp["hazard"])), abs(math.log1p(-fp["hazard"]))) if 0 < fp["hazard"] < 1 else 0.0
    budget, origin = [0.0], [0]
    ORIGIN[0] = 0
    for t, x in enumerate(xs, 1):
        pis = []
        lpi = []
        big = 0.0
        for r in range(t):
            vals = xs[t - 1 - r: t - 1]
            prec = 1 / D(fp["prior_var"]) + Decimal(len(vals)) / D(fp["data_var"])
            mu = (D(fp["prior_mean"]) / D(fp["prior_var"]) + sum((D(v) for v in vals), Decimal(0)) / D(fp["data_var"])) / prec
            var = 1 / prec + D(fp["data_var"])
            pis.append((-(D(x) - mu) ** 2 / (2 * var)).exp() / (two_pi * var).sqrt())
            lpi.append(float((D(x) - mu) ** 2 / (2 * var)) + abs(0.5 * math.log(float(two_pi * var))))
            big = max(big, lpi[-1])
        # magnitude of the log-joints any log-space implementation handles up to this step: the largest |log predictive density| of every step so far plus the
        # hazard terms, accumulated (an unnormalised message carries the sum, a normalised one only the last term: the bound covers both)
        acc += big + lh
        LOG_MAGNITUDE.append(acc)
        new = [sum((M[r] * pis[r] * h for r in range(t)), Decimal(0))] + [M[r] * pis[r] * (1 - h) for r in range(t)]
        tot = sum(new, Decimal(0))
        # --- what a float64 LOG-SPACE implementation that passes on the NORMALISED posterior can achieve (forward error analysis of that algorithm):
        # every lineage (run-length hypothesis) accumulates the magnitudes of the log quantities added along it; an absolute error EPSC * magnitude of a log-joint
        # is a relative error of the probability.  The changepoint entry inherits the contribution-weighted budget of its parents.  The normalisation subtracts a
        # log-evidence of magnitude |log p(x_t | past)|: a factor common to the row.
        # ILL-CONDITIONED steps: an observation so far from a hypothesis that the spacing of doubles at the magnitude of its log-density (EPSC * magnitude > 1e-3)
        # exceeds what separates the hypotheses.  The errors made there are arbitrary but each is ONE factor on ONE lineage: it cancels in every later normalisation
        # as soon as all hypotheses that still carry mass descend from a single lineage of that step.  Lineages therefore carry an `origin`: a new one for every
        # lineage touched by an ill-conditioned step (budget restarted), inherited otherwise; while hypotheses of more than one origin carry mass (> 1e-12) the step
        # belongs to the domain of the recorded finding KF-C08-1, afterwards the ordinary analysis applies again - an implementation whose rows stay wrong after the
        # posterior has forgotten the outlier (an unnormalised message does) is reported.
        if tot > 0:
            contrib = [M[r] * pis[r] for r in range(t)]
            csum = sum(contrib, Decimal(0))
            share = [float(contrib[r] / csum) if csum > 0 else 0.0 for r in range(t)]
            prev_lp = [min(float(-M[r].ln()) if M[r] > 0 else 1e4, 1e4) for r in range(t)]
            ill = [EPSC * lpi[r] > 1e-3 for r in range(t)]
            grown_b, grown_o = [], []
            for r in range(t):
                if ill[r]:
                    ORIGIN[0] += 1
                    grown_b.append(0.0); grown_o.append(ORIGIN[0])
                else:
                    grown_b.append(budget[r] + lpi[r] + prev_lp[r] + lh); grown_o.append(origin[r])
            parents = [r for r in range(t) if share[r] > 1e-12]
            if parents and not any(ill[r] for r in parents) and len({origin[r] for r in parents}) == 1:
                cp_b, cp_o = sum(share[r] * grown_b[r] for r in parents), origin[parents[0]]
            else:
                ORIGIN[0] += 1
                cp_b, cp_o = 0.0, ORIGIN[0]
            budget, origin = [cp_b] + grown_b, [cp_o] + grown_o
            pf = [float(v / tot) for v in new]
            lse = abs(float(tot.ln()))
            w = [pf[r] * math.expm1(min(EPSC * budget[r], 700.0)) if pf[r] > 1e-300 else 0.0 for r in range(t + 1)]
            S = sum(w)
            common = math.expm1(min(EPSC * (lse + lh), 700.0))
            alive = {origin[r] for r in range(t + 1) if pf[r] > 1e-12}
            STEP_TOL.append({"entry": [min(1.0, 1e-9 + w[r] + pf[r] * (S + common)) for r in range(t + 1)], "sum": 1e-9 + 2 * S + common,
                             "ill_conditioned": len(alive) > 1})
        else:
            STEP_TOL.append(None)
        M = [v / tot for v in new] if tot > 0 else new
        rows.append([float(v) for v in M] if tot > 0 else None)
    return rows


def posterior_configs(fp, xs):
    """the same posterior as an explicit sum over changepoint configurations (t <= 10): a configuration assigns to each step i
    'changepoint' (run length becomes 0 after the step, prior weight h) or 'growth' (run length + 1, weight 1-h); the value x_i is
    predicted from the run before the step.  60-digit decimals with an unbounded exponent, as in `posterior_forward`: with tiny variances the
    likelihoods are e^-5000 and a float sum would lose every configuration but one."""
    from decimal import Decimal, getcontext, MAX_EMAX, MIN_EMIN
    ctx = getcontext()
    ctx.prec, ctx.Emax, ctx.Emin = 60, MAX_EMAX, MIN_EMIN
    D = lambda v: Decimal(repr(float(v)))  # noqa: E731
    two_pi = Decimal("6.283185307179586476925286766559005768394338798750211641949889")
    t = len(xs)
    h = D(fp["hazard"])
    pm, pv, dv = D(fp["prior_mean"]), D(fp["prior_var"]), D(fp["data_var"])
    joint = [Decimal(0)] * (t + 1)
    for bits in itertools.product([False, True], repeat=t):
        w, run = Decimal(1), []
        for x, cp in zip(xs, bits):
            prec = 1 / pv + Decimal(len(run)) / dv
            mu = (pm / pv + sum((D(v) for v in run), Decimal(0)) / dv) / prec
            var = 1 / prec + dv
            w *= (-(D(x) - mu) ** 2 / (2 * var)).exp() / (two_pi * var).sqrt() * (h if cp else 1 - h)
            run = [] if cp else run + [x]
        joint[len(run)] += w
    s = sum(joint, Decimal(0))
    return [float(v / s) for v in joint] if s > 0 else None


def check(out: Outcome, p: dict, xs: list, runners: list, enum: bool = False, cast=None) -> None:
    fp = dets.full_params("BOCD", p)
    r = dets.Runner("a", "BOCD", p)
    if r.det is None:
        return
    if cast is not None:
        r.cast = cast
    d = r.det
    rows = posterior_forward(fp, xs)
    steps = list(STEP_TOL)
    fired = False
    ill_steps = 0
    tols = {0: 1e-9}
    for t, x in enumerate(xs, 1):
        r.update(x)
        rep = {"class": "BOCD", "params": p, "stream": xs[:t], "step": t}
        if r.err is not None:
            out.violation(f"BOCD: update raised {type(r.err).__name__}: {r.err}", rep)
            break
        want = rows[t - 1]
        if want is None:
            break
        got = [float(v) for v in np.exp(d.log_r[t, : t + 1])]
        # tolerances: the forward error analysis of `posterior_forward` (what float64 log-space arithmetic on a NORMALISED message can achieve at this step - derived
        # from the exact computation, never from an attribute of the detector), plus: the posterior means are stored at the magnitude of the data - an absolute rounding
        # error of about |x| * 2^-52 per update, which moves the densities by (x - mu) * error / variance (at level 3e9 a few 1e-9 in the probabilities)
        st = steps[t - 1]
        # (in units of the smaller standard deviation, so that the term is the same for a problem and its rescaled copies)
        data_term = 1e-14 * max(abs(v) for v in xs[:t]) / math.sqrt(min(fp["data_var"], fp["prior_var"])) + 2e-15 * max(1.0, max(fp["data_var"], fp["prior_var"]) / min(fp["data_var"], fp["prior_var"]))
        tol = st["sum"] + data_term
        tols[t] = tol
        bad = None
        if any(math.isnan(v) for v in got) or abs(sum(got) - 1) > min(tol, 0.5):
            bad = f"BOCD: run-length row at step {t} sums to {sum(got)!r}"
        elif max(abs(a - b) - e for a, b, e in zip(got, want, st["entry"])) > data_term:
            bad = f"BOCD: run-length distribution at step {t} differs from the exact posterior (max abs diff {max(abs(a - b) for a, b in zip(got, want)):.3e})"
        if bad:
            if st["ill_conditioned"] and "KF-C08-1" in out.findings:
                # hypotheses of more than one origin of an ill-conditioned step still carry mass: the domain of the recorded finding; the run goes on, the rows must
                # be right again once the posterior has forgotten the observation
                out.findings["KF-C08-1"].hits += 1
                ill_steps += 1
                continue
            out.violation(bad, rep)
            break
        if st["ill_conditioned"]:
            ill_steps += 1
            continue
        if enum and t <= 9:
            cfgs = posterior_configs(fp, xs[:t])
            if cfgs is not None and max(abs(a - b) for a, b in zip(got, cfgs)) > tol:
                out.violation(f"BOCD: run-length distribution at step {t} differs from the sum over all changepoint configurations", rep)
                break
        # predictions: mixture over the current posterior of the per-run-length posterior parameters
        pm = sum(w * params(fp, xs[t - rl: t])[0] for rl, w in enumerate(want))
        pv = sum(w * params(fp, xs[t - rl: t])[1] for rl, w in enumerate(want))
        sc = max([math.sqrt(max(fp["data_var"], fp["prior_var"])), abs(fp["prior_mean"])] + [abs(v) for v in xs])     # scale of the problem (no floor at 1)
        if abs(float(d.predicted_mean) - pm) > (1e-8 + 10 * tol) * sc or abs(float(d.predicted_var) - pv) > (1e-8 + 10 * tol) * (fp["prior_var"] + fp["data_var"]):
            out.violation(f"BOCD: predicted (mean, var)=({float(d.predicted_mean)!r}, {float(d.predicted_var)!r}) differ from the posterior-weighted mixtures ({pm!r}, {pv!r}) at step {t}", rep)
            break
        if t >= fp["min_num_instances"]:
            top = sorted(want, reverse=True)
            if top[0] - top[1] < 1e-12:
                continue
            if tol > 1e-6:
                # log-joints of magnitude > 1e8 (observations millions of standard deviations from every hypothesis): the spacing of doubles at that
                # magnitude exceeds the differences that decide the arg-max - the verdict is rounding noise, not judged (ill-conditioned, not a tie)
                out.count("ill_conditioned_decisions_skipped")
                continue
            wd = max(range(t + 1), key=lambda i: want[i]) != t
            fired = fired or wd
            if bool(d.drift) != wd:
                out.violation(f"BOCD: drift={bool(d.drift)} at step {t} but the most probable run length is {max(range(t + 1), key=lambda i: want[i])}", rep)
                break
        elif d.drift:
            out.violation(f"BOCD: drift before min_num_instances (step {t})", rep)
            break
    # the whole run-length table: row t keeps the posterior after t updates (t+1 entries summing to one), everything beyond it is impossible (probability 0)
    if r.err is None and rows and all(w is not None for w in rows[: d.num_instances]):
        T = d.num_instances
        tab = np.exp(np.asarray(d.log_r, dtype=float))
        rep = {"class": "BOCD", "params": p, "stream": xs[:T], "step": T, "kind": "table"}
        if tab.shape != (T + 1, T + 1):
            out.violation(f"BOCD: log_r has shape {tab.shape} after {T} updates", rep)
        else:
            for t in range(T + 1):
                if t > 0 and (steps[t - 1] is None or steps[t - 1]["ill_conditioned"]):
                    continue
                want = [1.0] if t == 0 else rows[t - 1]
                tl = max(1e-6, 10 * tols.get(t, 1e-9))       # same scaling with the magnitude of the log-joints as the per-step comparison
                if np.any(tab[t, t + 1:] != 0.0) or abs(float(tab[t, : t + 1].sum()) - 1.0) > tl or max(abs(a - b) for a, b in zip(tab[t, : t + 1], want)) > tl:
                    out.violation(f"BOCD: row {t} of the run-length table is not the posterior after {t} updates any more (at the end of a run of {T} updates)", rep)
                    break
    runners.append(r)
    out.case({"class": "BOCD", "params": p, "n": len(xs), "h": hash(tuple(xs)) & 0xFFFFFF}, nontrivial=fired)


def check_long(out: Outcome, p: dict, xs: list, runners: list) -> None:
    """streams of more than a thousand updates (run lengths beyond 2^10): the exact posterior by a renormalised linear-space forward
    recursion in float64 with prefix sums (O(t) per step), compared with the detector's row and MAP decision at every step"""
    fp = dets.full_params("BOCD", p)
    r = dets.Runner("a", "BOCD", p)
    if r.det is None:
        return
    d = r.det
    h, pm0, pv0, dv = fp["hazard"], fp["prior_mean"], fp["prior_var"], fp["data_var"]
    S = np.concatenate([[0.0], np.cumsum(np.asarray(xs, dtype=float))])
    M = np.array([1.0])
    fired = False
    for t, x in enumerate(xs, 1):
        r.update(x)
        rep = {"class": "BOCD", "params": p, "stream_seeded": True, "n": t, "step": t, "kind": "long"}
        if r.err is not None:
            out.violation(f"BOCD: update raised {type(r.err).__name__}: {r.err} at step {t} of a long stream", rep)
            break
        rl = np.arange(t)                                  # run length r uses the r values before x
        sums = S[t - 1] - S[t - 1 - rl]
        prec = 1.0 / pv0 + rl / dv
        mu = (pm0 / pv0 + sums / dv) / prec
        var = 1.0 / prec + dv
        pi = np.exp(-((x - mu) ** 2) / (2 * var)) / np.sqrt(2 * math.pi * var)
        new = np.concatenate([[h * float(np.dot(M, pi))], (1 - h) * M * pi])
        tot = float(new.sum())
        if not tot > 0:
            break
        M = new / tot
        got = np.exp(np.asarray(d.log_r[t, : t + 1], dtype=float))
        if not np.all(np.isfinite(got)) or abs(float(got.sum()) - 1) > 1e-6 or float(np.max(np.abs(got - M))) > 1e-6:
            out.violation(f"BOCD: run-length distribution at step {t} of a long stream differs from the exact posterior "
                          f"(max abs diff {float(np.max(np.abs(got - M))):.3e}, sum {float(got.sum())!r})", rep)
            break
        if t >= fp["min_num_instances"]:
            top = np.sort(M)[-2:]
            if top[1] - top[0] < 1e-9:
                continue
            wd = int(np.argmax(M)) != t
            fired = fired or wd
            if bool(d.drift) != wd:
                out.violation(f"BOCD: drift={bool(d.drift)} at step {t} of a long stream but the most probable run length is {int(np.argmax(M))}", rep)
                break
    runners.append(r)
    out.case({"class": "BOCD", "params": p, "n": len(xs), "long": True}, nontrivial=fired)


def check_table_unread(out: Outcome, p: dict, xs: list) -> None:
    """the usual way to use the table: feed the whole stream, THEN look at exp(log_r) - nothing is read in between (and, in a second instance,
    a reset() happens while nothing has been read): every row t must still be the posterior after t updates"""
    fp = dets.full_params("BOCD", p)
    rows = posterior_forward(fp, xs)
    if any(w is None for w in rows):
        return
    for pre in ([], xs[: len(xs) // 3]):
        d = dets.make("BOCD", p)
        for x in pre:                   # a first stretch, then reset() with the table never read
            d.update(value=x)
        if pre:
            d.reset()
        for x in xs:
            d.update(value=x)
        tab = np.exp(np.asarray(d.log_r, dtype=float))
        T = len(xs)
        rep = {"class": "BOCD", "params": p, "stream": xs, "kind": "table-unread", "unread_prefix_then_reset": len(pre)}
        if tab.shape != (T + 1, T + 1):
            out.violation(f"BOCD: log_r has shape {tab.shape} after {T} updates during which it was never read", rep)
            continue
        for t in range(T + 1):
            want = [1.0] if t == 0 else rows[t - 1]
            if np.any(tab[t, t + 1:] != 0.0) or abs(float(tab[t, : t + 1].sum()) - 1.0) > 1e-6 or max(abs(a - b) for a, b in zip(tab[t, : t + 1], want)) > 1e-6:
                out.violation(f"BOCD: row {t} of the run-length table, first read after {T} updates, is not the posterior after {t} updates "
                              f"(row sum {float(tab[t].sum())!r})", rep)
                break
    out.case({"class": "BOCD", "table_unread": True, "n": len(xs)})


def run(out: Outcome) -> None:
    rng = rng_for(out.seed, "C08")
    thorough = out.tier == "thorough"
    out.rule = ("random (prior mean, prior/data variance, hazard, min_num_instances) x Gaussian streams with shifts, transient outliers and far outliers; "
                "every row vs linear-space recomputation; short streams vs explicit enumeration of all 2^t changepoint configurations; non-trivial = drift raised")
    runners: list = []
    n = 80 if thorough else 24
    for i in range(n):
        p = gen.rand_params(rng, "BOCD")
        L = rng.randint(5, 120 if thorough else 60)
        xs = gen.real_stream(rng, L)
        if i % 4 == 1:        # transient outlier followed by more data
            xs = [rng.gauss(0, 0.5) for _ in range(L)]
            xs[rng.randint(2, L - 1)] += rng.choice([6.0, -8.0, 15.0])
        if i % 4 == 3:        # isolated outliers in a stationary stream: the MAP run length collapses for one step and then recovers
            p = {**p, "min_num_instances": rng.choice([1, 2, 5]), "hazard": rng.choice([0.1, 0.3, 0.01])}
            xs = [rng.gauss(p.get("prior_mean", 0.0), 0.3) for _ in range(L)]
            for _ in range(rng.randint(1, 3)):
                xs[rng.randint(3, L - 2)] += rng.choice([5.0, -6.0, 9.0])
        if i % 4 == 2:        # a far outlier (predictive densities underflow in linear space but not in log space)
            xs = [rng.gauss(0, 0.3) for _ in range(L)]
            xs[rng.randint(2, L - 1)] = rng.choice([45.0, 100.0, -60.0])
        if i % 3 == 0 and i % 4 != 2:
            # the whole problem at another scale (a latency of 5 ns in seconds; counts of bytes): values and prior mean by s, variances by s^2 - the conjugate Gaussian
            # model is scale-equivariant, the exact posterior is the same
            fp0 = dets.full_params("BOCD", p)
            sc = rng.choice([1e-9, 2.0 ** -30, 1e-6, 1e3, 1e6])
            p = {**p, "prior_mean": fp0["prior_mean"] * sc, "prior_var": fp0["prior_var"] * sc * sc, "data_var": fp0["data_var"] * sc * sc}
            xs = [v * sc for v in xs]
            out.count("rescaled_problems")
        check(out, p, xs, runners)
    for _ in range(12 if thorough else 5):
        p = gen.rand_params(rng, "BOCD")
        p["min_num_instances"] = rng.choice([1, 2, 3])
        check(out, p, [rng.gauss(rng.choice([0, 2]), 1) for _ in range(9)], runners, enum=True)
    check(out, {}, [rng.gauss(0, 1) for _ in range(45)] + [rng.gauss(4, 1) for _ in range(25)], runners)     # BOCD() with every default (configuration AND model)
    if "KF-C08-1" in out.findings:      # witness of the recorded finding: one observation of 1e9 in unit-variance data; the rows AFTER it must be right again
        import json
        from common import VERIF
        w = json.loads((VERIF / "corpus" / "findings" / "KF-C08-1.json").read_text())
        check(out, w["params"], w["stream"], [])
    # the same kind of stream, generated: an outlier of 1e7 .. 1e12 standard deviations, then ordinary data - the posterior forgets it, the rows are exact again
    for _ in range(3 if thorough else 2):
        pre, post = rng.randint(5, 40), rng.randint(15, 50)
        xs = [rng.gauss(0, 1) for _ in range(pre)] + [rng.choice([-1, 1]) * rng.choice([1e7, 1e8, 1e9, 1e12])] + [rng.gauss(rng.choice([0, 3]), 1) for _ in range(post)]
        check(out, {"hazard": rng.choice([0.01, 0.1]), "min_num_instances": rng.choice([5, 30])}, xs, [])
        out.count("outlier_recovery_streams")
    # cancellation probes: a well-specified model far from the origin (level 1e6 ... 1e9, noise 1): the densities depend on x - mu only, the posterior is
    # that of the centred data; and integer-valued observations of that size handed over as np.int64 (squares beyond 2^63 must not wrap)
    for level in ((1e6, 1e8, 3e9) if thorough else (rng.choice([1e6, 1e8]), 3e9)):
        ints = level == 3e9
        xs = [level + rng.gauss(0, 1) for _ in range(40)] + [level + 4 + rng.gauss(0, 1) for _ in range(25)]
        if ints:
            xs = [float(round(v)) for v in xs]
        check(out, {"prior_mean": level, "prior_var": 1.0, "data_var": 1.0, "hazard": 0.05, "min_num_instances": 5}, xs, runners, cast="int64" if ints else None)
    for _ in range(6 if thorough else 2):
        check_table_unread(out, gen.rand_params(rng, "BOCD"), [rng.gauss(0, 1) for _ in range(rng.randint(10, 45))] + [rng.gauss(3, 1) for _ in range(rng.randint(5, 30))])
    for _ in range(2 if thorough else 1):
        n1 = rng.randint(1080, 1250)
        xs = [rng.gauss(0.0, 1.0) for _ in range(n1)] + [rng.gauss(rng.choice([3.0, -4.0]), 1.0) for _ in range(rng.randint(40, 120))]
        check_long(out, {"hazard": rng.choice([0.01, 0.002]), "min_num_instances": rng.choice([1, 30])}, xs, runners)
    corr.compare_batch(out, runners, rtol=1e-8)


def replay(out: Outcome, payload: dict) -> None:
    runners: list = []
    check(out, payload["params"], payload["stream"], runners, enum=len(payload["stream"]) <= 9)
    corr.compare_batch(out, runners, rtol=1e-8)
