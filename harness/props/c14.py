"""C14 — batch detectors: compare is pure, misuse is rejected, reset unfits."""
from __future__ import annotations

import copy

from common import Outcome, np, rng_for, run_driver

RULE_ADDENDA = ("the caller's sample byte-identical after fit/compare; column-vector samples = flat samples (KF-C14-1); multi-column mismatch table")
LEVEL = "proof"
EXPLANATION = ("Theorems (Lean): compare returns the state unchanged, its result is a function of (reference, test, parameters) so any reordering/repetition gives the "
               "same results, the error decision tables of fit/compare, reset unfits. This run drives all 17 batch detectors and both streaming data-drift detectors "
               "through random fit/compare/reset/update histories with deep state snapshots, and compares the error decisions with the model.")
ASSUMPTIONS = ["exceptions raised by scipy for shapes that pass the repo's own checks are library rejections, not judged",
               "BWS is compared in its exact regime (n+m <= 12)"]

from frouros.detectors.data_drift.batch import (EMD, JS, KL, MMD, PSI, AndersonDarlingTest, BhattacharyyaDistance, BWSTest,  # noqa: E402
                                                 ChiSquareTest, CVMTest, EnergyDistance, HellingerDistance, HINormalizedComplement,
                                                 KSTest, KuiperTest, MannWhitneyUTest, WelchTTest)
from frouros.detectors.data_drift.exceptions import DimensionError, InsufficientSamplesError, MismatchDimensionError, MissingFitError  # noqa: E402
from frouros.detectors.data_drift.streaming import MMD as MMDStreaming, IncrementalKSTest  # noqa: E402

UNIV = [PSI, HellingerDistance, BhattacharyyaDistance, HINormalizedComplement, JS, KL, EMD, EnergyDistance, AndersonDarlingTest, BWSTest,
        ChiSquareTest, CVMTest, KSTest, KuiperTest, MannWhitneyUTest, WelchTTest]
MULTI = [MMD]
# options of ONE compare call (accepted by the named test): they must not stick to the detector, to its class or to other detectors
CALL_OPTIONS = {KSTest: [{"alternative": "less"}, {"alternative": "greater", "method": "asymp"}], BWSTest: [{"alternative": "less"}],
                MannWhitneyUTest: [{"alternative": "less"}, {"use_continuity": False}], WelchTTest: [{"alternative": "less"}],
                CVMTest: [{"method": "asymptotic"}], AndersonDarlingTest: [{"midrank": False}]}
KIND = {MissingFitError: "MissingFit", MismatchDimensionError: "MismatchDimension", DimensionError: "Dimension", InsufficientSamplesError: "InsufficientSamples"}


def snap_val(v, depth=0):
    if isinstance(v, np.ndarray):
        return ("nd", v.shape, v.dtype.str, v.tobytes())
    from collections import deque
    if isinstance(v, (list, tuple, deque)):
        return tuple(snap_val(x, depth + 1) for x in v)
    if isinstance(v, (np.generic, float, int, bool, str, type(None))):
        return repr(v)
    if isinstance(v, dict):
        return tuple(sorted((str(k), snap_val(x, depth + 1)) for k, x in v.items()))
    if callable(v):
        return "callable"
    if hasattr(v, "__dict__") and depth < 10:
        return ("obj", type(v).__name__, snap_val({k: x for k, x in vars(v).items() if k not in ("_callbacks", "detector")}, depth + 1))
    # objects without a __dict__ (NumPy generators, slotted classes ...): never their repr(), which may hold an address - their pickled state when they have one
    if isinstance(v, (np.random.Generator, np.random.RandomState)):
        st = v.bit_generator.state if isinstance(v, np.random.Generator) else v.get_state(legacy=False)
        return ("rng", type(v).__name__, snap_val(st, depth + 1))
    try:
        red = v.__reduce_ex__(2)
        return ("reduced", type(v).__name__, snap_val(red[1:3] if isinstance(red, tuple) else red, depth + 1)) if depth < 10 else ("opaque", type(v).__name__)
    except Exception:  # noqa: BLE001
        return ("opaque", type(v).__name__)


def snap(det):
    return snap_val({k: v for k, v in vars(det).items() if k != "_callbacks"})


def res_key(r):
    try:
        return tuple(np.asarray(x, dtype=float).tobytes() for x in r)
    except Exception:  # noqa: BLE001
        return repr(r)


def make_array(rng, shape):
    return np.array([rng.gauss(0, 1) for _ in range(int(np.prod(shape)) if shape else 1)]).reshape(shape)


def shape_word(x):
    return "na" if not isinstance(x, np.ndarray) else "s:" + ",".join(map(str, x.shape))


def history(out: Outcome, rng, cls, lines, expect, well_formed: bool = False) -> None:
    """well_formed: every sample has a shape the detector accepts, so that every detector gets several successful compare calls in every run"""
    det = cls()
    uni = cls not in MULTI
    lines.append(f"x bn {'u' if uni else 'm'} {2 if cls is CVMTest else 0}")
    expect.append(None)
    fitted_shape = None
    good = [(rng.randint(4, 6),), (rng.randint(4, 6),)]
    ops_done = []
    results = {}
    fit_no = 0
    for step in range(rng.randint(6, 14)):
        r = rng.random()
        shape = rng.choice([(), (5,), (4,), (5, 1), (4, 1), (5, 2), (4, 3), (4, 1, 2)]) if (rng.random() < 0.45 and not well_formed) else rng.choice(good)
        if well_formed and cls in MULTI:
            shape = (shape[0], 2)
        x = make_array(rng, shape) if (rng.random() > 0.1 or well_formed) else rng.choice([[1.0, 2.0, 3.0], 3.5, None])
        if cls is ChiSquareTest and isinstance(x, np.ndarray) and x.ndim == 1:
            x = np.array([rng.choice(["a", "b", "c"]) for _ in range(max(3, x.shape[0]))])
        op = "fit" if (r < 0.3 or (well_formed and step == 0)) else ("reset" if (r < 0.4 and not well_formed) else "compare")
        before = snap(det)
        ref_bytes = None if det.X_ref is None else det.X_ref.tobytes()
        arg_bytes = x.tobytes() if isinstance(x, np.ndarray) else None
        rep = {"detector": cls.__name__, "ops": ops_done + [(op, shape_word(x))]}
        err = None
        try:
            if op == "fit":
                det.fit(X=x)
            elif op == "reset":
                det.reset()
            else:
                res = det.compare(X=x)[0]
        except Exception as e:  # noqa: BLE001
            err = e
        if op != "reset" and arg_bytes is not None and x.tobytes() != arg_bytes:
            out.violation(f"{cls.__name__}: {op} modified the caller's sample in place (a pure call leaves its argument as it was)", rep)
            return
        ops_done.append((op, shape_word(x)))
        kind = None if err is None else next((k for t, k in KIND.items() if isinstance(err, t)), "Other" if not isinstance(x, np.ndarray) else "Library")      # (subclasses count)
        if op == "compare":
            if snap(det) != before:
                # a private attribute changed (e.g. something computed lazily at the first compare and kept): not a violation by itself - what the property forbids is a
                # change that shows: the public reference, and results that depend on earlier calls (both checked below, on every compare, also against a fresh detector)
                out.count("private_state_changed_by_compare")
            if det.X_ref is not None and det.X_ref.tobytes() != ref_bytes:
                out.violation(f"{cls.__name__}: compare modified the reference sample", rep)
                return
            if fitted_shape is None and kind != "MissingFit":
                if not isinstance(x, np.ndarray) and isinstance(err, (TypeError, ValueError)):
                    # the call is wrong twice (no fit, not an array): the property names a rejection for each and does not say which is reported first
                    out.count("two_clauses_apply_either_rejection_accepted")
                    continue
                out.violation(f"{cls.__name__}: compare before fit gives {kind or 'a result'} instead of MissingFitError", rep)
                return
            if fitted_shape is not None and not isinstance(x, np.ndarray) and err is None:
                out.violation(f"{cls.__name__}: compare accepted a non-array input", rep)
                return
            if err is None:
                # purity: repeat now and later; results must be identical
                again = det.compare(X=x)[0]
                if res_key(again) != res_key(res):
                    out.violation(f"{cls.__name__}: repeating compare on the same sample gives a different result", rep)
                    return
                # the result depends only on (reference, test sample, parameters): a fresh detector fitted once on the same reference agrees
                if not (cls is BWSTest and x.shape[0] + det.X_ref.shape[0] > 12):
                    fresh = cls()
                    fresh.fit(X=det.X_ref.copy())
                    if res_key(fresh.compare(X=x)[0]) != res_key(res):
                        out.violation(f"{cls.__name__}: result differs from a fresh detector fitted on the same reference (history-dependent compare)", rep)
                        return
                if cls in CALL_OPTIONS and rng.random() < (0.7 if well_formed else 0.3):
                    # a call WITH options in between (its own result is C12's business): the plain call before it and the plain call after it are the same call
                    try:
                        det.compare(X=x, **rng.choice(CALL_OPTIONS[cls]))
                    except Exception:  # noqa: BLE001
                        pass
                    out.count("compare_calls_with_options_in_between")
                    try:
                        after_opt = res_key(det.compare(X=x)[0])
                    except Exception as e:  # noqa: BLE001
                        out.violation(f"{cls.__name__}: after a compare call with options the plain compare raises {type(e).__name__}: {e}", rep)
                        return
                    if after_opt != res_key(res):
                        out.violation(f"{cls.__name__}: the same plain compare gives another result after a compare call with options (the options of one call changed the detector)", rep)
                        return
                    other = cls()
                    other.fit(X=det.X_ref.copy())
                    if not (cls is BWSTest and x.shape[0] + det.X_ref.shape[0] > 12) and res_key(other.compare(X=x)[0]) != res_key(res):
                        out.violation(f"{cls.__name__}: a NEW detector gives another result after a compare call with options on a different instance (state shared through the class)", rep)
                        return
                results.setdefault(fit_no, []).append((x, res_key(res)))
                for (xo, ko) in results[fit_no][:-1][-2:]:
                    if res_key(det.compare(X=xo)[0]) != ko:
                        out.violation(f"{cls.__name__}: an earlier compare gives a different result after other compare calls", rep)
                        return
        if op == "fit":
            if err is None:
                fitted_shape = x.shape
                fit_no += 1
            else:
                # the property does not require a rejected fit to be atomic (MMD assigns X_ref before scipy rejects a 3-D sample):
                # what the detector holds afterwards is unspecified, so the history ends here
                break
            if not isinstance(x, np.ndarray) and err is None:
                out.violation(f"{cls.__name__}: fit accepted a non-array input", rep)
                return
        if op == "reset":
            fitted_shape = None
            if det.X_ref is not None:
                out.violation(f"{cls.__name__}: reset did not return the detector to the unfitted state", rep)
                return
        if kind in ("Library", "Other") and well_formed and op == "compare" and fitted_shape is not None and isinstance(x, np.ndarray):
            # a fitted detector, a 1-D (MMD: 2-column) sample of 4-6 finite values of the fitted width: nothing to reject
            out.violation(f"{cls.__name__}: compare on a well-formed sample after a successful fit raised {type(err).__name__}: {err}", rep)
            return
        if kind == "Library":
            break       # scipy rejected a shape the repo's checks let through: not judged, stop the history here
        lines.append({"fit": "x bf ", "compare": "x bc ", "reset": "x br"}[op] + ("" if op == "reset" else f"{shape_word(x)} {step}"))
        expect.append((kind, rep))
    out.case({"detector": cls.__name__, "ops": ops_done})


def dimension_table(out: Outcome, rng) -> None:
    for cls in UNIV + MULTI:
        for ref_shape, test_shape, want in [((6,), (5, 2), MismatchDimensionError), ((6, 1), (5, 2), MismatchDimensionError),
                                            ((6,), (5, 1), MismatchDimensionError), ((6, 1), (5,), MismatchDimensionError)]:
            if cls is ChiSquareTest:
                continue
            det = cls()
            try:
                det.fit(X=make_array(rng, ref_shape))
            except Exception:  # noqa: BLE001
                continue
            try:
                det.compare(X=make_array(rng, test_shape))
                got = None
            except Exception as e:  # noqa: BLE001
                got = type(e)
            # a multi-column test sample handed to a UNIVARIATE detector falls under two clauses of the property ("differs from the reference: MismatchDimensionError",
            # "univariate detectors reject multi-column input with DimensionError"): either of the two named errors is the rejection the property asks for
            both = cls in UNIV and len(test_shape) == 2 and test_shape[1] > 1
            if got is None and cls in UNIV and (ref_shape, test_shape) in (((6,), (5, 1)), ((6, 1), (5,))):
                # a flat sample against a COLUMN VECTOR: both are one feature - the array rank differs, the dimensionality (number of columns) does not.  The current code
                # rejects the pair (its fall-back compares `ndim`), the model's table has that row; a detector that treats (n, 1) as (n,) - the repair KF-C14-1 names - answers
                # it: that is a difference from the model, not a rejection the property demands
                out.mismatch(f"{cls.__name__}: reference {ref_shape} vs test {test_shape} gives a result; the model (and the current code) reject a flat sample against a column vector",
                             {"detector": cls.__name__, "ref_shape": ref_shape, "test_shape": test_shape})
                continue
            if not (got is not None and (issubclass(got, want) or (both and issubclass(got, DimensionError)))):
                out.violation(f"{cls.__name__}: reference {ref_shape} vs test {test_shape} gives {got.__name__ if got else 'a result'} instead of {want.__name__}",
                              {"detector": cls.__name__, "ref_shape": ref_shape, "test_shape": test_shape})
        if cls in MULTI:
            # multivariate detectors: the number of columns must agree (and does not matter otherwise)
            for ref_shape, test_shape, want in [((6, 2), (5, 3), MismatchDimensionError), ((6, 3), (5, 2), MismatchDimensionError),
                                                ((7, 4), (3, 1), MismatchDimensionError), ((6, 2), (5, 2), None), ((4, 3), (9, 3), None)]:
                det = cls()
                det.fit(X=make_array(rng, ref_shape))
                try:
                    det.compare(X=make_array(rng, test_shape))
                    got = None
                except Exception as e:  # noqa: BLE001
                    got = type(e)
                if not ((got is None and want is None) or (got is not None and want is not None and issubclass(got, want))):
                    out.violation(f"{cls.__name__}: reference {ref_shape} vs test {test_shape} gives {got.__name__ if got else 'a result'} instead of "
                                  f"{want.__name__ if want else 'a result'}", {"detector": cls.__name__, "ref_shape": ref_shape, "test_shape": test_shape})
        if cls not in MULTI:
            det = cls()
            try:
                det.fit(X=make_array(rng, (6, 2)))
                got = None
            except Exception as e:  # noqa: BLE001
                got = type(e)
            if not (got is not None and issubclass(got, DimensionError)):
                out.violation(f"{cls.__name__}: univariate detector fit on a 2-column sample gives {got.__name__ if got else 'success'} instead of DimensionError",
                              {"detector": cls.__name__})
        out.case({"detector": cls.__name__, "dimension_table": True})


def streaming(out: Outcome, rng) -> None:
    for name, mk, val in (("IncrementalKSTest", lambda: IncrementalKSTest(window_size=3), lambda: rng.gauss(0, 1)),
                          ("MMDStreaming", lambda: MMDStreaming(window_size=3), lambda: np.array([rng.gauss(0, 1)]))):
        det = mk()
        ref = make_array(rng, (8,)) if name == "IncrementalKSTest" else make_array(rng, (8, 1))
        twin = mk()
        twin.fit(X=ref)
        rep = {"detector": name}
        for phase in range(3):
            for _ in range(rng.randint(1, 3)):          # updates while unfitted
                before = snap(det)
                try:
                    det.update(value=val())
                    out.violation(f"{name}: update before fit did not raise MissingFitError", rep)
                    return
                except MissingFitError:
                    pass
                except Exception as e:  # noqa: BLE001
                    out.violation(f"{name}: update before fit raised {type(e).__name__} instead of MissingFitError", rep)
                    return
                if snap(det) != before:
                    out.violation(f"{name}: a rejected update (before fit) changed the detector's state", rep)
                    return
            det.fit(X=ref)
            twin.reset()
            twin.fit(X=ref)
            for t in range(rng.randint(4, 8)):
                v = val()
                a, _ = det.update(value=v)
                b, _ = twin.update(value=v)
                ka = None if a is None else tuple(np.float64(getattr(a, f)).tobytes() for f in (("statistic", "p_value") if name == "IncrementalKSTest" else ("distance",)))
                kb = None if b is None else tuple(np.float64(getattr(b, f)).tobytes() for f in (("statistic", "p_value") if name == "IncrementalKSTest" else ("distance",)))
                if ka != kb:
                    out.violation(f"{name}: outputs after (rejected updates, fit) differ from a detector that was only fitted, at update {t + 1}", rep)
                    return
            det.reset()
            if det.X_ref is not None or det.num_instances != 0:
                out.violation(f"{name}: reset did not return the detector to the unfitted state", rep)
                return
        out.case({"detector": name, "streaming": True})


COLUMN_KF = {"PSI", "HellingerDistance", "BhattacharyyaDistance", "AndersonDarlingTest", "BWSTest", "ChiSquareTest"}


def column_vector_cases(out: Outcome, rng) -> None:
    """a univariate sample may be given as a column vector (n, 1): `fit` and the dimension checks accept it, so compare has to work on it and the result is
    the result for the same values as a flat array (the shape is not part of (reference, test sample, parameters))"""
    for cls in UNIV:
        for (n, m) in ((7, 7), (9, 6)):
            if cls is ChiSquareTest:
                a, b = np.array([rng.randint(0, 2) for _ in range(n)]), np.array([rng.randint(0, 2) for _ in range(m)])
            else:
                a, b = np.array([rng.gauss(0, 1) for _ in range(n)]), np.array([rng.gauss(0.4, 1) for _ in range(m)])
            rep = {"detector": cls.__name__, "ref": a.tolist(), "test": b.tolist(), "kind": "column vector"}
            kw = {"method": st_method()} if cls is BWSTest else {}
            d1 = cls()
            d1.fit(X=a)
            flat = res_key(d1.compare(X=b, **kw)[0])
            d2 = cls()
            try:
                d2.fit(X=a.reshape(-1, 1))
                col = res_key(d2.compare(X=b.reshape(-1, 1), **kw)[0])
            except Exception as e:  # noqa: BLE001
                if cls.__name__ in COLUMN_KF and isinstance(e, (ValueError, TypeError)) and "KF-C14-1" in out.findings:
                    out.findings["KF-C14-1"].hits += 1
                else:
                    out.violation(f"{cls.__name__}: samples of shape ({n},1) / ({m},1) are accepted by fit but compare raises {type(e).__name__}: {e}", rep)
                continue
            if col != flat:
                out.violation(f"{cls.__name__}: column-vector samples give {col}, the same values as flat arrays give {flat}", rep)
        out.case({"detector": cls.__name__, "column_vector": True})


def st_method():
    import scipy.stats as st
    return st.PermutationMethod(n_resamples=99, random_state=7)


def layout_cases(out: Outcome, rng) -> None:
    """each result depends only on (reference, test sample, parameters) - on the VALUES of the samples, not on how the arrays lie in memory: strided views, read-only
    arrays, Fortran order / column slices (multivariate detectors) give what a fresh contiguous copy gives"""
    for cls in UNIV + MULTI:
        if cls is ChiSquareTest or cls.__name__ == "BWSTest":      # (BWS above 9 999 arrangements is a random resampling estimate: two calls differ by design, C12's carve-out)
            continue
        multi = cls in MULTI
        n, m = rng.randint(6, 12), rng.randint(6, 12)
        A = np.array([[rng.gauss(0, 1) for _ in range(2)] for _ in range(2 * n)]) if multi else np.array([rng.gauss(0, 1) for _ in range(2 * n)])
        B = np.array([[rng.gauss(0.4, 1) for _ in range(2)] for _ in range(2 * m)]) if multi else np.array([rng.gauss(0.4, 1) for _ in range(2 * m)])
        views = {"strided": (A[::2], B[::2]), "reversed twice": (A[::-1][1::2][::-1], B[::-1][1::2][::-1])}
        ro_a, ro_b = A[::2].copy(), B[::2].copy()
        ro_a.setflags(write=False); ro_b.setflags(write=False)
        views["read-only"] = (ro_a, ro_b)
        if multi:
            views["fortran"] = (np.asfortranarray(A[::2]), np.asfortranarray(B[::2]))
            wide_a, wide_b = np.concatenate([A[::2], A[::2]], axis=1), np.concatenate([B[::2], B[::2]], axis=1)
            views["column slice"] = (wide_a[:, :2], wide_b[:, :2])
        for name, (xa, xb) in views.items():
            rep = {"detector": cls.__name__, "layout": name, "ref": np.asarray(xa).tolist(), "test": np.asarray(xb).tolist()}
            try:
                d0 = cls()
                d0.fit(X=np.ascontiguousarray(xa).copy())
                want = res_key(d0.compare(X=np.ascontiguousarray(xb).copy())[0])
            except Exception:  # noqa: BLE001
                continue
            try:
                d1 = cls()
                d1.fit(X=xa)
                got = res_key(d1.compare(X=xb)[0])
            except Exception as e:  # noqa: BLE001
                out.violation(f"{cls.__name__}: fit/compare on {name} arrays raised {type(e).__name__}: {e} (contiguous copies of the same values are accepted)", rep)
                continue
            if got != want:
                out.violation(f"{cls.__name__}: the result on {name} arrays differs from the result on contiguous copies of the same values", rep)
        out.case({"detector": cls.__name__, "layouts": sorted(views)})


def run(out: Outcome) -> None:
    rng = rng_for(out.seed, "C14")
    thorough = out.tier == "thorough"
    out.rule = ("all 17 batch detectors: random histories of fit/compare/reset over shapes (), (n,), (n,1), (n,k), (n,1,k) and non-array inputs with deep state "
                "snapshots around every call; dimension decision table; both streaming detectors: updates before fit / after reset")
    lines, expect = [], []
    for cls in UNIV + MULTI:
        for _ in range(6 if thorough else 2):
            history(out, rng, cls, lines, expect)
        history(out, rng, cls, lines, expect, well_formed=True)
    dimension_table(out, rng)
    column_vector_cases(out, rng)
    layout_cases(out, rng)
    streaming(out, rng)
    got = run_driver(lines)
    for g, e in zip(got, expect):
        if e is None:
            continue
        kind, rep = e
        mk = None if not g.startswith("err:") else g[4:]
        if mk in ("Index",):
            mk = "Other"
        if (kind or None) != mk and not (kind == "Other" and mk == "Other"):
            out.mismatch(f"{rep['detector']}: model decision {mk} differs from implementation {kind} for {rep['ops'][-1]}", rep)
        else:
            out.traces_validated += 1


def replay(out: Outcome, payload: dict) -> None:
    run(out)
