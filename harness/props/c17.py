"""C17 — history callback records faithfully, never interferes; reset fires iff p <= alpha."""
from __future__ import annotations

import dets
import gen
from common import Outcome, np, rng_for, run_driver

RULE_ADDENDA = ('two history callbacks on one detector; 10 300+ updates with a callback; logs right after reset()')
LEVEL = "proof"
EXPLANATION = ("Theorems (Lean): every tracked list gets exactly one entry per update and entry j is the snapshot of its own variable, names are registered once, reset "
               "empties, the observer never feeds back into the detector (frame lemma), the reset callback resets iff p <= alpha and hands back the pre-reset result. "
               "This run compares, for all 13 detectors, runs with and without the callback, every scalar entry with the detector's attributes right after each update "
               "(also across detector.reset()), and the reset callback for p below / equal / above alpha.")
ASSUMPTIONS = ["object-valued tracked variables (queues, test objects, bucket deques) are excluded: the property speaks of flags and scalar statistics"]

from frouros.callbacks.batch import ResetStatisticalTest  # noqa: E402
from frouros.callbacks.streaming import HistoryConceptDrift  # noqa: E402
from frouros.detectors.data_drift.batch import AndersonDarlingTest, CVMTest, KSTest, MannWhitneyUTest, WelchTTest  # noqa: E402
from frouros.detectors.data_drift.exceptions import MissingFitError  # noqa: E402
from frouros.utils.stats import BaseStat  # noqa: E402

SCALAR = (bool, int, float, type(None), np.generic)


def current(det, var):
    v = det.additional_vars[var]
    return v.get() if isinstance(v, BaseStat) else v


def same(a, b):
    if isinstance(a, float) or isinstance(b, float) or isinstance(a, np.floating) or isinstance(b, np.floating):
        try:
            return (a != a and b != b) or float(a) == float(b)
        except Exception:  # noqa: BLE001
            return False
    return a is b or a == b


def concept_case(out: Outcome, rng, cls: str, lines, expect) -> None:
    p = gen.rand_params(rng, cls)
    xs = gen.stream_for(rng, cls, rng.randint(10, 150))
    resets = sorted(rng.sample(range(1, len(xs)), k=min(len(xs) - 1, rng.choice([0, 1, 2]))))
    calls = []
    orig = HistoryConceptDrift.add_additional_vars

    def spy(self, vars_):
        calls.append(list(vars_))
        return orig(self, vars_)

    HistoryConceptDrift.add_additional_vars = spy
    try:
        cb = HistoryConceptDrift(name="h")
        with_cb = dets.make(cls, p, callbacks=[cb])
    finally:
        HistoryConceptDrift.add_additional_vars = orig
    plain = dets.make(cls, p)
    lines.append("x hn")
    expect.append(None)
    for c in calls:
        lines.append("x ha " + ",".join(c))
        expect.append(None)
    st = np.random.get_state()
    rep = {"class": cls, "params": p, "stream": xs, "resets": resets}
    n_since = 0
    last_logs = None
    full_updates, touched = 0, False
    for t, x in enumerate(xs):
        if t in resets:
            with_cb.reset()
            plain.reset()
            n_since = 0
            lines.append("x hr")
            expect.append((dict((k, len(v)) for k, v in cb.history.items()), rep))
            if any(len(v) for v in cb.history.values()):
                out.violation(f"{cls}: history is not empty after reset()", rep)
                return
            if t > 0 and (any(len(v) for v in cb.logs.values() if isinstance(v, list)) or (last_logs is not None and any(len(v) for v in last_logs["h"].values() if isinstance(v, list)))):
                # the HISTORY is empty (checked above) and the logs of the NEXT update are the new history (checked at that update); what `callback.logs`, or a dictionary handed
                # out before the reset, shows in between is fixed by the model (logs and history are one object, cleared in place), not by a clause of the property
                out.mismatch(f"{cls}: right after reset() the callback's logs (or the dictionary an earlier update() returned) still show the old history; in the model they are the history itself", rep)
                return
        s1 = np.random.get_state()
        logs = with_cb.update(value=x)
        last_logs = logs
        s2 = np.random.get_state()
        np.random.set_state(s1)
        plain.update(value=x)
        s3 = np.random.get_state()
        np.random.set_state(s2)
        if cls == "KSWIN" and len(plain.window) >= plain.config.min_num_instances:
            # has EITHER twin moved NumPy's global generator in an update with a full window?  Only a detector that never does draws from a generator of its own
            full_updates += 1
            touched = touched or any(not (s1[0] == s[0] and s1[2:] == s[2:] and bool(np.array_equal(s1[1], s[1]))) for s in (s2, s3))
        n_since += 1
        if dets.obs(cls, with_cb) != dets.obs(cls, plain):
            # the twins are fed from EQUAL states of NumPy's global generator; a KSWIN whose update leaves that generator where it was draws its sample elsewhere
            # (its own generator): the twins are then not comparable this way - a broken assumption of this check, not a verdict
            own = cls == "KSWIN" and full_updates > 0 and not touched
            (out.mismatch if own else out.violation)(
                f"{cls}: attaching the history callback changes the detector's output at update {t + 1}", {**rep, "step": t + 1})
            return
        h = cb.history
        # the logs handed out ARE the history (the same list objects, so that they go on filling); whether the dictionary around them is the callback's own or a
        # copy of it is not something the property fixes
        if set(logs["h"]) != set(cb.logs) or any(logs["h"][k] is not h[k] for k in h):
            out.violation(f"{cls}: the logs returned by update are not the callback's history", {**rep, "step": t + 1})
            return
        for k, v in h.items():
            if len(v) != n_since:
                out.violation(f"{cls}: tracked variable '{k}' has {len(v)} entries after {n_since} updates", {**rep, "step": t + 1})
                return
        want = {"value": x, "num_instances": with_cb.num_instances, "drift": with_cb.drift}
        for k in h:
            if k in want:
                w = want[k]
            else:
                w = current(with_cb, k)
                if not isinstance(w, SCALAR):
                    continue
            if not same(h[k][-1], w):
                out.violation(f"{cls}: history entry {n_since} of '{k}' is {h[k][-1]!r} but the detector's value right after that update is {w!r}", {**rep, "step": t + 1})
                return
        lines.append(f"x hu {t}")
        expect.append((dict((k, len(v)) for k, v in h.items()), rep))
    out.case({"class": cls, "params": p, "n": len(xs), "resets": resets}, nontrivial=True)


def two_callbacks_case(out: Outcome, rng, cls: str) -> None:
    """two history callbacks on one detector record the same thing: same tracked variables, same entries"""
    p = gen.rand_params(rng, cls)
    xs = gen.stream_for(rng, cls, rng.randint(10, 60))
    c1, c2 = HistoryConceptDrift(name="h"), HistoryConceptDrift(name="h2")
    det = dets.make(cls, p, callbacks=[c1, c2])
    rep = {"class": cls, "params": p, "stream": xs, "callbacks": 2}
    logs = None
    for x in xs:
        logs = det.update(value=x)
    if sorted(c1.history) != sorted(c2.history):
        out.violation(f"{cls}: the second of two history callbacks tracks {sorted(c2.history)}, the first {sorted(c1.history)}", rep)
    else:
        for k in c1.history:
            a, b = c1.history[k], c2.history[k]
            if len(a) != len(xs) or len(b) != len(xs) or any(isinstance(u, SCALAR) and not same(u, v) for u, v in zip(a, b)):
                out.violation(f"{cls}: the two history callbacks disagree on '{k}' ({len(a)} / {len(b)} entries for {len(xs)} updates)", rep)
                break
    if logs is not None and (set(logs) != {"h", "h2"} or any(logs[n][k] is not c.history[k] for n, c in (("h", c1), ("h2", c2)) for k in c.history)):
        out.violation(f"{cls}: the logs returned by update are not the two callbacks' histories", rep)
    out.case({"class": cls, "two_callbacks": True, "n": len(xs)}, nontrivial=True)


def long_history_case(out: Outcome, rng, cls: str, n: int) -> None:
    """more than ten thousand updates: entry i is still update i (nothing dropped, nothing thinned out)"""
    xs = gen.stream_for(rng, cls, 400)
    xs = (xs * (n // len(xs) + 1))[:n]
    cb = HistoryConceptDrift(name="h")
    det = dets.make(cls, {}, callbacks=[cb])
    for x in xs:
        det.update(value=x)
    h = cb.history
    rep = {"class": cls, "n": n, "kind": "long history"}
    if any(len(v) != n for v in h.values()):
        out.violation(f"{cls}: after {n} updates the tracked variables have { {k: len(v) for k, v in h.items()} } entries", rep)
    elif [float(v) for v in h["value"]] != [float(v) for v in xs] or list(h["num_instances"][:50]) != list(range(1, 51)):
        out.violation(f"{cls}: after {n} updates entry i of the history is no longer the input value / instance count of update i", rep)
    out.case({"class": cls, "long_history": n}, nontrivial=True)


def reset_case(out: Outcome, rng, cls) -> None:
    ref = np.array([rng.gauss(0, 1) for _ in range(rng.randint(8, 30))])
    test = np.array([rng.gauss(rng.choice([0, 0.5, 1.5]), 1) for _ in range(rng.randint(8, 30))])
    probe = cls()
    probe.fit(X=ref)
    p = float(probe.compare(X=test)[0].p_value)
    for alpha, should in ((p, True), (np.nextafter(p, 1.0) if p < 1 else 1.5, True), (p * 0.5 if p > 0 else None, False), (np.nextafter(p, 0.0) if p > 0 else None, False), (1.0, True)):
        if alpha is None or alpha <= 0:
            continue
        det = cls(callbacks=[ResetStatisticalTest(alpha=float(alpha), name="r")])
        det.fit(X=ref)
        res = det.compare(X=test)[0]
        rep = {"detector": cls.__name__, "alpha": float(alpha), "p_value": p, "ref": ref.tolist(), "test": test.tolist()}
        if float(res.p_value) != p or float(res.statistic) != float(probe.compare(X=test)[0].statistic):
            out.violation(f"{cls.__name__}: the result returned with the reset callback differs from the one computed before the reset", rep)
        was_reset = det.X_ref is None
        if was_reset != should:
            out.violation(f"{cls.__name__}: p-value {p!r} vs alpha {float(alpha)!r}: detector {'was' if was_reset else 'was not'} reset", rep)
        if was_reset:
            try:
                det.compare(X=test)
                out.violation(f"{cls.__name__}: compare after the callback's reset does not raise MissingFitError", rep)
            except MissingFitError:
                pass
        out.case({"detector": cls.__name__, "alpha_vs_p": "eq" if alpha == p else ("gt" if alpha > p else "lt"), "h": hash(ref.tobytes()) & 0xFFFFFF})


def nan_case(out: Outcome) -> None:
    """a NaN p-value is not <= alpha: the detector must stay fitted"""
    for cls, ref, test in ((WelchTTest, [2.0] * 6, [2.0] * 5),):
        det = cls(callbacks=[ResetStatisticalTest(alpha=0.05, name="r")])
        det.fit(X=np.array(ref))
        res = det.compare(X=np.array(test))[0]
        if np.isnan(float(res.p_value)) and det.X_ref is None:
            out.violation(f"{cls.__name__}: the reset callback reset the detector although the p-value is NaN (not <= alpha)", {"detector": cls.__name__, "ref": ref, "test": test})
        out.case({"detector": cls.__name__, "nan_p_value": bool(np.isnan(float(res.p_value)))})


def run(out: Outcome) -> None:
    rng = rng_for(out.seed, "C17")
    thorough = out.tier == "thorough"
    out.rule = ("13 detectors x random configs x streams with 0-2 detector.reset() calls, with vs without the callback, every entry of every scalar tracked variable; "
                "reset callback on 5 statistical detectors with alpha = p, just above, just below, p/2, 1")
    lines, expect = [], []
    for cls in dets.CLASSES:
        for _ in range(5 if thorough else 2):
            concept_case(out, rng, cls, lines, expect)
    for cls in (dets.CLASSES if thorough else rng.sample(dets.CLASSES, 5)):
        two_callbacks_case(out, rng, cls)
    for cls in (["DDM", "CUSUM", "EDDM"] if thorough else [rng.choice(["DDM", "CUSUM", "HDDMA"])]):
        long_history_case(out, rng, cls, rng.randint(10300, 11500))
    for cls in (KSTest, AndersonDarlingTest, CVMTest, MannWhitneyUTest, WelchTTest):
        for _ in range(4 if thorough else 1):
            reset_case(out, rng, cls)
    nan_case(out)
    got = run_driver(lines)
    for g, e in zip(got, expect):
        if e is None:
            continue
        want, rep = e
        model = dict((kv.rsplit(":", 1)[0], int(kv.rsplit(":", 1)[1])) for kv in g.split(" "))
        if model != want or list(model) != list(want):
            out.mismatch(f"{rep['class']}: history model {model} differs from implementation {want}", rep)
            break
        out.traces_validated += 1


def replay(out: Outcome, payload: dict) -> None:
    run(out)
