"""C04 — HDDM-A / HDDM-W decide by Hoeffding / McDiarmid bounds; two-sided mode is symmetric."""
from __future__ import annotations

import math

import corr
import dets
import gen
from common import Outcome, np, rng_for

RULE_ADDENDA = ('streams of 4 300-5 200 updates; positions proved for the library defaults (C04d) replayed on the implementation')
LEVEL = "proof"
SHRINK_KEYS = ("stream",)
EXPLANATION = ("Theorems: Hoeffding-test equivalence, two-sided extends one-sided, HDDM-A flip symmetry (Lean). This run evaluates "
               "the textbook tests non-incrementally on the real detectors, lock-steps one-/two-sided pairs, flip pairs and rise/drop blocks.")
ASSUMPTIONS = ["comparisons within relative margin 1e-9 of a tie end the trace",
               "HDDM-W rise/drop delay clause is a bounded evaluation (grid of n, lambda, alphas), labelled as a test"]
EPS = 1e-9


def near(a, b):
    return abs(a - b) <= EPS * max(1.0, abs(a), abs(b))


def hddma_spec(xs, ad, aw, two, m_min):
    """textbook: segment since last test reset; cut points; two-sample Hoeffding tests on (first c) vs (last n-c)."""
    seg = []
    cx = cy = 0
    ld, lw = math.log(1 / ad), math.log(1 / aw)
    eps = lambda k: math.sqrt(ld / (2 * k))  # noqa: E731
    mean = lambda a: sum(a) / len(a)  # noqa: E731
    for t, v in enumerate(xs, 1):
        seg.append(v)
        n = len(seg)
        z = mean(seg)
        if cx == 0:
            cx = n
        if two and cy == 0:
            cy = n
        lx, rx = z + eps(n), mean(seg[:cx]) + eps(cx)
        if cx != n and near(lx, rx):
            yield None
            return
        if lx <= rx:
            cx = n
        if two:
            ly, ry = mean(seg[:cy]) - eps(cy), z - eps(n)
            if cy != n and near(ly, ry):
                yield None
                return
            if ly <= ry:
                cy = n
        if t < m_min:
            yield (False, False)
            continue

        def side(c, sign):
            if c == n:
                return (False, False), False
            m = n - c
            diff = sign * (mean(seg[c:]) - mean(seg[:c]))
            bd = math.sqrt((1 / c + 1 / m) / 2 * ld)
            bw = math.sqrt((1 / c + 1 / m) / 2 * lw)
            if near(diff, bd) or near(diff, bw):
                return None, True
            if diff >= bd:
                return (True, False), False
            return (False, diff >= bw), False

        ri, tie = side(cx, +1)
        if tie:
            yield None
            return
        d, w = ri
        if two:
            rd_, tie = side(cy, -1)
            if tie:
                yield None
                return
            d, w = d or rd_[0], w or rd_[1]
        if d:
            yield (True, False)
            seg, cx, cy = [], 0, 0
        else:
            yield (False, w)


def hddmw_spec(xs, ad, aw, two, lam, m_min, cut_conf=None, init="zero"):
    """zero-initialised EWMAs; McDiarmid bound sqrt((b1+b2) ln(1/alpha)/2), strict >.  `cut_conf`: the confidence of the bound that tracks the running cut
    points - the property does not fix it (the implementation uses lambda_, the paper and MOA the drift confidence); default lambda_."""
    cc = lam if cut_conf is None else cut_conf
    if init == "first":
        yield from hddmw_spec_first(xs, ad, aw, two, lam, m_min, cc)
        return
    def fresh():
        return [0.0, 1.0]

    def upd(s, v):
        s[0] = lam * v + (1 - lam) * s[0]
        s[1] = lam * lam + (1 - lam) * (1 - lam) * s[1]

    def bound(b, a):
        return math.sqrt(b * math.log(1 / a) / 2)

    def reset():
        return fresh(), fresh(), fresh(), math.inf, fresh(), fresh(), -math.inf

    tot, i1, i2, ic, d1, d2, dc = reset()
    for t, v in enumerate(xs, 1):
        upd(tot, v)
        e = bound(tot[1], cc)
        if ic != math.inf and near(tot[0] + e, ic):
            yield None
            return
        if tot[0] + e < ic:
            ic, i1, i2 = tot[0] + e, list(tot), fresh()
        else:
            upd(i2, v)
        if two:
            if dc != -math.inf and near(tot[0] - e, dc):
                yield None
                return
            if tot[0] - e > dc:
                dc, d1, d2 = tot[0] - e, list(tot), fresh()
            else:
                upd(d2, v)
        if t < m_min:
            yield (False, False)
            continue

        def test(lo, hi, a):
            diff, b = hi[0] - lo[0], bound(lo[1] + hi[1], a)
            return None if near(diff, b) else diff > b

        r = [test(i1, i2, ad), test(i1, i2, aw)] + ([test(d2, d1, ad), test(d2, d1, aw)] if two else [False, False])
        if any(x is None for x in r):
            yield None
            return
        drift = r[0] or r[2]
        warning = (r[1] or r[3]) and not drift
        if drift:
            yield (True, False)
            tot, i1, i2, ic, d1, d2, dc = reset()
        else:
            yield (False, warning)


def hddmw_spec_first(xs, ad, aw, two, lam, m_min, cc):
    """the same rule with the estimators of Frias-Blanco et al. / MOA's HDDM_W_Test: an EWMA starts AT the first value of its sample (bound condition 1), and a
    test with an empty sample on one side of the cut point gives no evidence.  The property fixes the McDiarmid test and its confidences, not the initial value of the
    estimators (the unchanged code starts them at 0: KF-C01-1, KF-C04-1)."""
    def fresh():
        return [0.0, 1.0, 0]

    def upd(s, v):
        if s[2] == 0:
            s[0], s[1] = float(v), 1.0
        else:
            s[0] = s[0] + lam * (v - s[0])
            s[1] = lam * lam + (1 - lam) * (1 - lam) * s[1]
        s[2] += 1

    def bound(b, a):
        return math.sqrt(b * math.log(1 / a) / 2)

    def reset():
        return fresh(), fresh(), fresh(), math.inf, fresh(), fresh(), -math.inf

    tot, i1, i2, ic, d1, d2, dc = reset()
    for t, v in enumerate(xs, 1):
        upd(tot, v)
        e = bound(tot[1], cc)
        if ic != math.inf and near(tot[0] + e, ic):
            yield None
            return
        if tot[0] + e < ic:
            ic, i1, i2 = tot[0] + e, list(tot), fresh()
        else:
            upd(i2, v)
        if two:
            if dc != -math.inf and near(tot[0] - e, dc):
                yield None
                return
            if tot[0] - e > dc:
                dc, d1, d2 = tot[0] - e, list(tot), fresh()
            else:
                upd(d2, v)
        if t < m_min:
            yield (False, False)
            continue

        def test(lo, hi, a):
            if lo[2] == 0 or hi[2] == 0:
                return False
            diff, b = hi[0] - lo[0], bound(lo[1] + hi[1], a)
            return None if near(diff, b) else diff > b

        r = [test(i1, i2, ad), test(i1, i2, aw)] + ([test(d2, d1, ad), test(d2, d1, aw)] if two else [False, False])
        if any(x is None for x in r):
            yield None
            return
        drift = r[0] or r[2]
        warning = (r[1] or r[3]) and not drift
        if drift:
            yield (True, False)
            tot, i1, i2, ic, d1, d2, dc = reset()
        else:
            yield (False, warning)


def explained_by_other_cut_confidence(cls, p, xs):
    """Is the implementation's whole verdict trace on `xs` the McDiarmid rule with the running cut points tracked at the drift or the warning confidence (the choices of
    Frias-Blanco et al. / MOA) instead of lambda_?  Returns the name of that confidence or None."""
    fp = dets.full_params(cls, p)
    d = dets.make(cls, p)
    got = []
    for x in xs:
        d.update(value=x)
        got.append(dets.flags(cls, d))
    for init in ("zero", "first"):
        for name in ("lambda_", "alpha_d", "alpha_w"):
            if init == "zero" and name == "lambda_":
                continue        # the model's own variant
            want = list(hddmw_spec(xs, fp["alpha_d"], fp["alpha_w"], fp["two_sided_test"], fp["lambda_"], fp["min_num_instances"], cut_conf=fp[name], init=init))
            tied = None in want
            if tied:            # the variant's own trace meets a near-tie before the end: undecided from there on
                want = want[: want.index(None)]
            if want and want == got[: len(want)] and (len(want) == len(got) or tied):
                return name + (" with the estimators started at the first value of their sample (Frias-Blanco et al., MOA)" if init == "first" else "")
    return None


def check_spec(out, cls, p, xs, runners, label="", feed=None):
    """`feed`: the same numbers in another numeric TYPE (what the detector is given; the rule is evaluated on `xs`)"""
    fp = dets.full_params(cls, p)
    r = dets.Runner("a", cls, p)
    if r.det is None:
        return
    if cls == "HDDMA":
        spec = hddma_spec(xs, fp["alpha_d"], fp["alpha_w"], fp["two_sided_test"], fp["min_num_instances"])
    else:
        spec = hddmw_spec(xs, fp["alpha_d"], fp["alpha_w"], fp["two_sided_test"], fp["lambda_"], fp["min_num_instances"])
    flagged = False
    for t, (x, want) in enumerate(zip(xs, spec), 1):
        r.update(x if feed is None else feed[t - 1])
        if want is None:
            out.count("spec_traces_ended_at_tie")
            break
        got = dets.flags(cls, r.det)
        flagged = flagged or any(got)
        if got != want:
            rep = {"class": cls, "params": p, "stream": xs[:t], "step": t, "kind": "spec", "value_type": None if feed is None else type(feed[0]).__name__}
            other = cls == "HDDMW" and explained_by_other_cut_confidence(cls, p, xs[:t])
            if other:
                # the verdict rule of the property holds with another admissible definition of the running cut point than the model's: correspondence, not the property
                out.mismatch(f"{label}{cls}: verdicts up to step {t} follow the McDiarmid rule with the cut points tracked at confidence {other} "
                             f"(the model tracks them at lambda_; the property does not fix that confidence)", rep)
            else:
                out.violation(f"{label}{cls}: verdict at step {t} is {got}, the {'Hoeffding' if cls == 'HDDMA' else 'McDiarmid'} rule gives {want}", rep)
            break
    runners.append(r)
    out.case({"class": cls, "params": p, "n": len(xs), "h": hash(tuple(xs)) & 0xFFFFFF}, nontrivial=flagged)


def check_extends(out, cls, p, xs, runners):
    p1, p2 = {**p, "two_sided_test": False}, {**p, "two_sided_test": True}
    a, b = dets.Runner("a", cls, p1), dets.Runner("b", cls, p2)
    if a.det is None or b.det is None:
        return
    fired = False
    for t, x in enumerate(xs, 1):
        a.update(x)
        b.update(x)
        (d1, w1), (d2, w2) = dets.flags(cls, a.det), dets.flags(cls, b.det)
        fired = fired or d1 or w1
        if (d1 and not d2) or (w1 and not (d2 or w2)):
            out.violation(f"{cls}: one-sided alarm {(d1, w1)} not matched by the two-sided detector {(d2, w2)} at step {t} (before any two-sided drift)",
                          {"class": cls, "params": p, "stream": xs[:t], "step": t, "kind": "extends"})
            break
        if d2:
            break
    runners.extend([a, b])
    out.case({"class": cls, "ext": True, "params": p, "n": len(xs), "h": hash(tuple(xs)) & 0xFFFFFF}, nontrivial=fired)


def check_flip(out, p, xs, runners):
    p = {**p, "two_sided_test": True}
    a, b = dets.Runner("a", "HDDMA", p), dets.Runner("b", "HDDMA", p)
    if a.det is None:
        return
    fired = False
    for t, x in enumerate(xs, 1):
        a.update(x)
        b.update(1 - x)
        fa, fb = dets.flags("HDDMA", a.det), dets.flags("HDDMA", b.det)
        fired = fired or any(fa)
        if fa != fb:
            # a tie in either run would show up as a model tie; decide with the model below
            out.flip_candidates.append((a, b, t, {"class": "HDDMA", "params": p, "stream": xs[:t], "step": t, "kind": "flip", "got": fa, "flipped": fb}))
            break
    runners.extend([a, b])
    out.case({"class": "HDDMA", "flip": True, "params": p, "n": len(xs), "h": hash(tuple(xs)) & 0xFFFFFF}, nontrivial=fired)


def check_blocks(out, cls, p, n, runners, kmax=400):
    """two-sided detector: 0^n 1^k and 1^n 0^k must both be flagged; HDDM-A with the same delay."""
    p = {**p, "two_sided_test": True}
    delays = []
    for lo, hi in ((0.0, 1.0), (1.0, 0.0)):
        r = dets.Runner("a", cls, p)
        if r.det is None:
            return
        for _ in range(n):
            r.update(lo)
        if r.det.drift:
            delays.append(("early", None))
            runners.append(r)
            continue
        dl = None
        for k in range(1, kmax + 1):
            r.update(hi)
            if r.det.drift:
                dl = k
                break
        delays.append(("ok", dl))
        runners.append(r)
    rep = {"class": cls, "params": p, "n": n, "kind": "blocks", "delays": delays}
    (s1, d1), (s2, d2) = delays
    if s1 == "ok" and s2 == "ok":
        if cls == "HDDMW" and d1 is not None and (d2 is None or d2 > d1) and "KF-C04-1" in out.findings:
            out.findings["KF-C04-1"].hits += 1     # rise flagged, drop missed / later: zero-initialised EWMAs (recorded finding)
        elif (d1 is None) != (d2 is None):
            out.violation(f"{cls} two-sided: rise after {n} flagged with delay {d1}, drop with delay {d2} (one of them never within {kmax})", rep)
        elif cls == "HDDMA" and d1 != d2:
            out.violation(f"HDDMA two-sided: rise delay {d1} differs from drop delay {d2} after {n} stable values", rep)
    # HDDM-A: the exact delay proved in Lean (C04b.rise_delay_gen / drop_delay_gen): first j >= 1 with L (n + j) <= 2 n j, never when 2 n <= L
    if cls == "HDDMA" and s1 == "ok" and s2 == "ok":
        fp = dets.full_params(cls, p)
        L = math.log(1 / fp["alpha_d"])
        if 2 * n <= L * (1 + 1e-9):
            want = None if 2 * n < L * (1 - 1e-9) else "tie"
        else:
            x = L * n / (2 * n - L)
            want = "tie" if abs(x - round(x)) < 1e-7 else max(1, math.ceil(x), fp["min_num_instances"] - n)
        if want != "tie" and (want is None or want <= kmax) and (d1 != want or d2 != want):
            out.violation(f"HDDMA two-sided: after {n} stable values the rise is flagged with delay {d1} and the drop with delay {d2}; the Hoeffding formula gives {want}", rep)
    out.case({"class": cls, "blocks": n, "params": p}, nontrivial=(d1 is not None))


def check_default_positions(out: Outcome, runners: list) -> None:
    """positions PROVED for the model at the library defaults (`C04d.hddmw_default_rise`, `hddmw_default_drop`, `hddmw_drop_one_sided_never`): HDDM-W() on
    0^30 1^k first reports drift at value 57 (both modes); on 1^30 0^k the two-sided detector at value 55, the one-sided detector never"""
    for two_sided, first, want in ((False, 0.0, 57), (True, 0.0, 57), (True, 1.0, 55), (False, 1.0, None)):
        r = dets.Runner("a", "HDDMW", {"two_sided_test": two_sided})
        if r.det is None:
            return
        got = None
        for t, x in enumerate([first] * 30 + [1.0 - first] * 60, 1):
            r.update(x)
            if r.det.drift and got is None:
                got = t
        if got != want:
            stream = [first] * 30 + [1.0 - first] * 60
            other = explained_by_other_cut_confidence("HDDMW", {"two_sided_test": two_sided}, stream)
            (out.mismatch if other else out.violation)(
                f"HDDM-W (defaults, two_sided_test={two_sided}) on {int(first)}^30 {int(1 - first)}^60: first drift at {got}, the position proved for the model is {want}"
                + (f" (the trace is the McDiarmid rule with the cut points tracked at confidence {other}, which the property does not exclude)" if other else ""),
                {"class": "HDDMW", "params": {"two_sided_test": two_sided}, "stream": stream, "kind": "default-positions"})
        runners.append(r)
        out.case({"class": "HDDMW", "default_positions": True, "two_sided": two_sided, "first": first}, nontrivial=True)


def run(out: Outcome) -> None:
    rng = rng_for(out.seed, "C04")
    thorough = out.tier == "thorough"
    out.rule = ("random accepted configs x [0,1] streams (0/1 and dyadic), both modes: textbook rule at every step; one-/two-sided lock-step; "
                "flip pairs (x, 1-x); rise/drop blocks; non-trivial = a flag raised")
    out.flip_candidates = []
    runners: list = []
    n_rand = 150 if thorough else 40
    for cls in ("HDDMA", "HDDMW"):
        for _ in range(n_rand):
            p = gen.rand_params(rng, cls, small=rng.random() < 0.7)
            xs = gen.unit_stream(rng, rng.randint(10, 500 if thorough else 200))
            check_spec(out, cls, p, xs, runners)
            check_extends(out, cls, gen.rand_params(rng, cls), gen.unit_stream(rng, rng.randint(10, 300)), runners)
        for _ in range(30 if thorough else 10):
            p = gen.rand_params(rng, cls)
            p["min_num_instances"] = rng.choice([1, 5, 30])
            check_blocks(out, cls, p, rng.choice([p["min_num_instances"], 1, 2, 3, 30, 57, 100, p["min_num_instances"] // 2 + 1]), runners)
    for _ in range(2 * n_rand):
        check_flip(out, gen.rand_params(rng, "HDDMA"), gen.unit_stream(rng, rng.randint(10, 300)), runners)
    # long streams (thousands of updates): means with step sizes 1/t far below any fixed floor, counters beyond 2^12
    for cls in ("HDDMA", "HDDMW"):
        for _ in range(3 if thorough else 1):
            p = gen.rand_params(rng, cls, small=False)
            n_long = rng.randint(4300, 5200)
            cut = rng.randint(n_long // 2, n_long - 300)
            p0, p1 = rng.choice([0.05, 0.2, 0.5]), rng.choice([0.1, 0.4, 0.9])
            check_spec(out, cls, p, [float(rng.random() < p0) for _ in range(cut)] + [float(rng.random() < p1) for _ in range(n_long - cut)], runners)
    # 0/1 error indicators as they come out of a compact array (`np.uint8`, `np.int8`), over runs with MORE ones than the type can count (hundreds): the rule is about the
    # values, whatever their numeric type
    for k_t, cls in enumerate(("HDDMA", "HDDMA", "HDDMW")):
        for dt in (np.uint8, np.int8):
            p = gen.rand_params(rng, cls, small=False)
            p = {**dets.full_params(cls, p), "two_sided_test": bool((k_t + out.seed) % 2) if cls == "HDDMA" and k_t == 0 else not bool((k_t + out.seed) % 2)}
            p0 = rng.choice([0.3, 0.5, 0.7])
            xs = [float(rng.random() < p0) for _ in range(rng.randint(700, 1000))] + [float(rng.random() < min(0.95, p0 + 0.3)) for _ in range(150)]
            check_spec(out, cls, p, xs, runners, label=f"{np.dtype(dt).name}:", feed=[dt(int(v)) for v in xs])
            out.count("narrow_dtype_long_runs")
    check_default_positions(out, runners)
    if "KF-C04-1" in out.findings:
        check_blocks(out, "HDDMW", {"alpha_d": 0.2, "alpha_w": 0.5, "lambda_": 0.1, "min_num_instances": 5}, 5, [])
    validated = corr.compare_batch(out, runners)
    # a flip difference counts only when neither run hit a near-tie before it (decided by the model's tie detector)
    idx = {id(r): v for r, v in zip(runners, validated)}
    for a, b, t, rep in out.flip_candidates:
        if all((getattr(x, "tie_at", None) is None or x.tie_at > t) and (getattr(x, "mismatch_at", None) is None or x.mismatch_at > t) and id(x) in idx for x in (a, b)):
            out.violation(f"HDDMA two-sided: verdicts change under x -> 1-x at step {t}: {rep['got']} vs {rep['flipped']}", rep)
        else:
            out.count("flip_differences_excluded_as_near_tie")


def replay(out: Outcome, payload: dict) -> None:
    runners: list = []
    out.flip_candidates = []
    k = payload.get("kind", "spec")
    if k == "spec":
        check_spec(out, payload["class"], payload["params"], payload["stream"], runners)
    elif k == "extends":
        check_extends(out, payload["class"], payload["params"], payload["stream"], runners)
    elif k == "flip":
        check_flip(out, payload["params"], payload["stream"], runners)
    else:
        check_blocks(out, payload["class"], payload["params"], payload["n"], runners)
    validated = corr.compare_batch(out, runners)
    idx = {id(r): v for r, v in zip(runners, validated)}
    for a, b, t, rep in out.flip_candidates:
        if all((getattr(x, "tie_at", None) is None or x.tie_at > t) and (getattr(x, "mismatch_at", None) is None or x.mismatch_at > t) and id(x) in idx for x in (a, b)):
            out.violation(f"HDDMA two-sided: verdicts change under x -> 1-x at step {t}", rep)
