"""Shared machinery of the correspondence harness (see DESIGN.md §3, §4)."""
from __future__ import annotations

import hashlib
import json
import os
import random
import struct
import subprocess
import sys
import time
import warnings
from pathlib import Path

VERIF = Path(__file__).resolve().parent.parent
REPO = Path(os.environ.get("FROUROS_REPO", "/repo"))
LEAN = VERIF / "lean"
DRIVER = Path(os.environ.get("VERIF_DRIVER") or (LEAN / ".lake" / "build" / "bin" / "driver"))      # (override: trying a model change before it is merged)
# the committed evidence comes from runs against /repo itself: a run pointed at another tree (FROUROS_REPO, used by tools/ for seeded changes) writes its evidence to a scratch directory
# (VERIF_EVIDENCE_DIR when given, otherwise nowhere)
EVIDENCE = Path(os.environ["VERIF_EVIDENCE_DIR"]) if os.environ.get("VERIF_EVIDENCE_DIR") else ((VERIF / "evidence") if str(REPO) == "/repo" else None)
REPLAYS = VERIF / "replays"
FINDINGS_FILE = VERIF / "known_findings.txt"

# the harness always imports the working tree of the repository under test
sys.path.insert(0, str(REPO))
# The library runs in the environment a user's process has: NumPy's default floating-point error state (warnings, not silence - code that turns
# a RuntimeWarning into behaviour must see it) and no environment variable announcing the harness (no source hook exists, MANIFEST.hooks).
# The warning FILTERS and the library's logger LEVEL are left as a user's process has them (code that records warnings or asks
# `logger.isEnabledFor(INFO)` must see the default answers); only the OUTPUT is kept off the terminal: warnings are not displayed, log records
# of the library are dropped by a filter (the level stays what `frouros.utils.logger` sets: INFO).
warnings.showwarning = lambda *a, **k: None      # noqa: E731

import numpy as np  # noqa: E402

import logging  # noqa: E402

logging.getLogger("frouros").addFilter(lambda record: False)

RTOL = 1e-9


class Infra(Exception):
    """Infrastructure failure (exit 2, never a violation)."""


# ---------------------------------------------------------------- doubles on the wire
def f2h(x) -> str:
    x = float(x)
    if x != x:
        return "7ff8000000000000"
    return struct.pack(">d", x).hex()


def h2f(h: str) -> float:
    return struct.unpack(">d", bytes.fromhex(h))[0]


def close(a: float, b: float, rtol: float = RTOL, floor: float = 1.0) -> bool:
    """relative closeness; `floor` is the magnitude below which differences are compared absolutely (1 by default; the scale of the data where the
    compared quantity is proportional to it - otherwise data of magnitude 1e-13 would always compare equal)"""
    if a != a or b != b:
        return (a != a) and (b != b)
    if a == b:
        return True
    if a in (float("inf"), float("-inf")) or b in (float("inf"), float("-inf")):
        return False
    return abs(a - b) <= rtol * max(floor, abs(a), abs(b))


# ---------------------------------------------------------------- driver
def ensure_driver() -> None:
    if not DRIVER.exists():
        import fcntl
        (LEAN / ".audit").mkdir(exist_ok=True)
        with open(LEAN / ".audit" / "lock", "w") as lk:
            fcntl.flock(lk, fcntl.LOCK_EX)
            r = subprocess.run(["lake", "build", "driver"], cwd=LEAN, capture_output=True, text=True)
            fcntl.flock(lk, fcntl.LOCK_UN)
        if r.returncode != 0 or not DRIVER.exists():
            raise Infra("cannot build Lean driver:\n" + r.stdout + r.stderr)


def run_driver(lines: list[str], timeout: int = 3600) -> list[str]:
    """Pipe operation lines to the compiled Lean model; one output line per input line."""
    ensure_driver()
    if not lines:
        return []
    data = "\n".join(lines) + "\n"
    r = subprocess.run([str(DRIVER)], input=data, capture_output=True, text=True, timeout=timeout)
    if r.returncode != 0:
        raise Infra(f"driver exited {r.returncode}: {r.stderr[-2000:]}")
    out = r.stdout.split("\n")
    if out and out[-1] == "":
        out.pop()
    if len(out) != len(lines):
        raise Infra(f"driver produced {len(out)} lines for {len(lines)} operations")
    return out


# ---------------------------------------------------------------- tokens
def tok_i(n) -> str:
    return str(int(n))


def tok_b(b) -> str:
    return "1" if bool(b) else "0"


def tok_f(x) -> str:
    if x is None:
        return "-"
    x = float(x)
    if x == float("inf") or x == float("-inf"):
        return "-"  # the model uses `none` for the ±inf initial values
    return "x" + f2h(x)


def cmp_tokens(a: list[str], b: list[str], rtol: float = RTOL, floor: float = 1.0, floors: dict | None = None) -> tuple[bool, str]:
    """Compare two observation token lists. Returns (equal, description of first difference).  `floors`: token index -> floor of that token."""
    if len(a) != len(b):
        return False, f"token count {len(a)} vs {len(b)}"
    for k, (x, y) in enumerate(zip(a, b)):
        if x == y:
            continue
        if {x, y} <= {"-", "x7ff0000000000000", "xfff0000000000000"}:
            continue        # the implementation side prints +-inf as `-` (the model's `none`)
        if x.startswith("x") and y.startswith("x") and len(x) == 17 and len(y) == 17:
            if close(h2f(x[1:]), h2f(y[1:]), rtol, (floors or {}).get(k, floor)):
                continue
            return False, f"token {k}: float {h2f(x[1:])!r} vs {h2f(y[1:])!r}"
        return False, f"token {k}: {x} vs {y}"
    return True, ""


def discrete(a: list[str]) -> list[str]:
    return ["f" if (t.startswith("x") and len(t) == 17) else t for t in a]


# ---------------------------------------------------------------- results
class Outcome:
    """Accumulates what one check run found."""

    def __init__(self, prop: str, tier: str, seed: int):
        self.prop, self.tier, self.seed = prop, tier, seed
        self.t0 = time.time()
        self.evaluations = 0
        self.nontrivial: set[str] = set()
        self.samples: list = []
        self.violations: list[dict] = []       # genuine: property fails on the implementation
        self.mismatches: list[dict] = []       # model vs implementation disagree
        self.known: list[dict] = []            # attributed to a listed finding
        self.excluded_near_tie = 0
        self.traces_validated = 0
        self.stats: dict = {}
        self.branches: dict = {}               # model branch tag -> number of updates of compared traces that took it (lean/FrourosModel/Branch.lean)
        self.rule = ""
        self.notes: list[str] = []

    def count(self, key: str, n: int = 1) -> None:
        self.stats[key] = self.stats.get(key, 0) + n

    def case(self, desc, nontrivial: bool = True) -> None:
        self.evaluations += 1
        if nontrivial:
            self.nontrivial.add(hashlib.sha1(json.dumps(desc, sort_keys=True, default=str).encode()).hexdigest())
        if len(self.samples) < 5:
            self.samples.append(desc)

    def violation(self, what: str, replay: dict) -> None:
        self.violations.append({"what": what, "replay": replay})

    def mismatch(self, what: str, replay: dict) -> None:
        self.mismatches.append({"what": what, "replay": replay})


def write_replay(prop: str, kind: str, payload: dict) -> Path:
    REPLAYS.mkdir(exist_ok=True)
    blob = json.dumps(payload, sort_keys=True, default=str)
    h = hashlib.sha1(blob.encode()).hexdigest()[:12]
    p = REPLAYS / f"{prop}-{kind}-{h}.json"
    p.write_text(json.dumps(payload, indent=1, sort_keys=True, default=str))
    return p


def rng_for(seed: int, salt: str) -> random.Random:
    return random.Random(f"{seed}:{salt}")
