"""Correspondence: run traces on the implementation (dets.Runner) and on the Lean model, diff them."""
from __future__ import annotations

import dets
from common import Outcome, cmp_tokens, h2f, run_driver

SCALE_PROPORTIONAL = ("CUSUM", "PageHinkley", "GeometricMovingAverage", "ADWIN")


def run_ops(cls: str, params: dict, ops: list[tuple], inst: str = "a", callbacks=None, config=None) -> dets.Runner:
    r = dets.Runner(inst, cls, params, callbacks=callbacks, config=config)
    if r.det is None:
        return r
    for op in ops:
        if op[0] == "u":
            r.update(op[1])
            if r.err is not None:
                break
        elif op[0] == "r":
            r.reset()
    return r


class AdwinBudget:
    """A-priori bound on the rounding error of ADWIN's running `total` (forward error analysis of what the algorithm does, whatever the association inside it):
    every value is added once (error <= half an ulp of the sum at that moment) and leaves inside a bucket whose own total was formed by at most log2(size)+1
    additions; the subtraction rounds once more.  For histories WITHOUT deletions this is a theorem about the model (`Props/C05r.lean`: `total_within_harness_tolerance`,
    `totalErr_le_two_budget`: the model's error is within 2 x this budget for t*u <= 1/2; `totalErr_tight_witness`: 1 x the first-order budget is NOT a bound); with
    deletions `C05r.total_err` bounds the model's error by its own recursion `traceErr`, whose comparison with this budget is not proved.  The error made while LARGE values were in the window stays when they have left - and nothing more than that:
    after a drop of the level by many orders of magnitude the total is known to about ulp(old level) * (number of operations), not to 1e-9 of the old level."""
    U = 1.1102230246251565e-16

    def __init__(self, m: int = 5):
        self.m = max(1, int(m))     # buckets per row: up to m buckets of one size can be deleted in one step (proof agent U10: `log2(dropped+1)+1` subtractions was not a bound for m >= 2)
        self.budget = 0.0
        self.budget_var = 0.0       # the same for the variance: sums of squares of the size sum(x^2) over the window are added and removed
        self.hist: list = []
        self.abs_sum = 0.0          # sum of |x| over the current window
        self.sq_sum = 0.0           # sum of x^2 over the current window

    def step(self, x: float, width_after: int) -> float:
        import math
        x = abs(float(x))
        self.hist.append(x)
        self.abs_sum += x
        self.sq_sum += x * x
        self.budget += self.U * self.abs_sum
        self.budget_var += 8 * self.U * self.sq_sum
        w_before = len(self.hist) if not hasattr(self, "w") else self.w + 1
        dropped = max(0, w_before - int(width_after))
        if dropped:
            start = len(self.hist) - w_before
            gone = math.fsum(self.hist[start: start + dropped])
            n_sub = min(dropped, (self.m + 1) * (math.log2(dropped + 1) + 1))       # number of buckets that can hold `dropped` values: at most m + 1 per size
            self.budget += self.U * (math.log2(dropped + 1) + 2) * gone + self.U * self.abs_sum * n_sub
            self.budget_var += 16 * self.U * self.sq_sum * (n_sub + 1)
            self.abs_sum = math.fsum(self.hist[len(self.hist) - int(width_after):]) if width_after > 0 else 0.0
            self.sq_sum = math.fsum(v * v for v in self.hist[len(self.hist) - int(width_after):]) if width_after > 0 else 0.0
        self.w = int(width_after)
        return 2.0 * self.budget


LINEAR = ("CUSUM", "PageHinkley", "GeometricMovingAverage")


def pow2_shift(r) -> int:
    """The statistics of the CUSUM family are LINEAR in (values, delta, lambda_), and binary floating point is exactly invariant under multiplication of all of them
    by a power of two (no overflow, no subnormals involved): a problem of magnitude 1e-10 or 1e9 is sent to the model multiplied by 2^k so that its magnitude is
    about 1 - where the model's tie margin (which has an absolute floor of 1e-9) means what it says - and the model's floats are divided by 2^k again.
    Returns k (0: no rescaling)."""
    import math
    if r.cls not in LINEAR or not r.lines:
        return 0
    fp = dets.full_params(r.cls, r.params)
    mags = [abs(h2f(l.split(" ")[2])) for l in r.lines if l[:2] in ("u ", "uq") and len(l.split(" ")) > 2] + [abs(float(fp.get("delta", 0.0))), abs(float(fp["lambda_"]))]
    mags = [m for m in mags if m > 0 and math.isfinite(m)]
    if not mags:
        return 0
    top, low = max(mags), min(mags)
    # only SMALL problems are rescaled: the carriers' margin is relative above magnitude 1 already, and scaling a large problem down would push its small
    # quantities (an unscaled `delta`) below the absolute floor of the margin
    if top >= 2.0 ** -20:
        return 0
    k = -int(math.floor(math.log2(top)))
    # exactness needs every scaled quantity (and the intermediate differences) to stay far from the subnormal range and from overflow
    if not (-900 < math.log2(low) + k and math.log2(top) + k < 900 and math.log2(low) > -900 and math.log2(top) < 900):
        return 0
    return k


def rescale_line(line: str, k: int) -> str:
    from common import f2h
    f = 2.0 ** k
    toks = line.split(" ")
    if toks[0] == "n":
        return " ".join(t.split("=")[0] + "=" + f2h(h2f(t.split("=")[1]) * f) if t.startswith(("lambda_=", "delta=")) else t for t in toks)
    if toks[0] in ("u", "uq") and len(toks) > 2:
        toks[2] = f2h(h2f(toks[2]) * f)
        return " ".join(toks)
    return line


def unscale_obs(obs_line: str, k: int) -> str:
    from common import f2h
    f = 2.0 ** -k
    return " ".join("x" + f2h(h2f(t[1:]) * f) if (t.startswith("x") and len(t) == 17) else t for t in obs_line.split(" "))


def compare_batch(out: Outcome, runners: list[dets.Runner], rtol: float = 1e-9, label: str = "") -> list[int]:
    """Run all runners' lines through the driver (one call) and diff.  Returns, per runner, the number of steps
    validated (up to the first near-tie).  Model/implementation disagreements go to out.mismatches."""
    lines, spans, shifts = [], [], []
    for r in runners:
        spans.append((len(lines), len(lines) + len(r.lines)))
        k = pow2_shift(r)
        shifts.append(k)
        lines.extend(r.lines if k == 0 else [rescale_line(l, k) for l in r.lines])
        if r.lines:
            lines.append("bc " + r.inst)      # branch tags this trace hit in the MODEL (measurement only: `model_branches` in the evidence)
    res = run_driver(lines)
    for r, (a, b) in zip(runners, spans):
        if r.lines and b < len(res) and res[b].startswith("bc"):
            for t in res[b].split(" ")[1:]:
                tag, _, c = t.rpartition("=")
                if tag and c.isdigit():
                    out.branches[tag] = out.branches.get(tag, 0) + int(c)
    for (a, b), k in zip(spans, shifts):
        if k:
            res[a:b] = [unscale_obs(o, k) for o in res[a:b]]
    validated = []
    for r, (a, b) in zip(runners, spans):
        ok_steps = tied_steps = 0
        r.mismatch_at = r.tie_at = None
        # statistics of the CUSUM family and of ADWIN are proportional to the data (and to delta): compare them relative to THAT scale
        floor = 1.0
        if r.cls in SCALE_PROPORTIONAL:
            vals = [abs(h2f(l.split(" ")[2])) for l in r.lines if l.startswith("u") and len(l.split(" ")) > 2]
            fp = dets.full_params(r.cls, r.params)
            floor = min(1.0, max([1e-300, abs(float(fp.get("delta", 0.0))) if r.cls != "ADWIN" else 0.0] + vals))
        # ADWIN's variance (token 5) is a sum of SQUARED deviations kept by updates and downdates: after a cut what is left of it is the rounding residue of
        # numbers of size max|x|^2 (and of max|x| for the total, token 4), and any re-association of the same formula changes that residue
        floors = None
        ab = AdwinBudget(dets.full_params("ADWIN", r.params)["m"]) if r.cls == "ADWIN" else None
        if r.cls == "BOCD":
            # predicted mean (token 3) at the scale of the data, predicted variance (token 4) at the scale of the configured variances: a problem stated in
            # nanoseconds-as-seconds has both far below 1
            fp = dets.full_params("BOCD", r.params)
            vals = [abs(h2f(l.split(" ")[2])) for l in r.lines if l[:2] in ("u ", "uq") and len(l.split(" ")) > 2]
            floors = {3: max([abs(float(fp["prior_mean"])), float(fp["prior_var"]) ** 0.5, 1e-300] + vals), 4: max(float(fp["prior_var"]) + float(fp["data_var"]), 1e-300)}
        for k, (impl, modl) in enumerate(zip(r.obs, res[a:b])):
            if ab is not None and k >= 1:
                ln = r.lines[k].split(" ")
                if ln[0] == "r":
                    ab = AdwinBudget(ab.m)
                elif ln[0] in ("u", "uq") and impl is not None and len(impl) > 5 and impl[3].lstrip("-").isdigit():
                    # total (token 4) and variance (token 5) are compared relative to what the window holds NOW, never finer than the rounding error the
                    # algorithm may have accumulated (see AdwinBudget); the variance as the square of that scale
                    tb = ab.step(h2f(ln[2]), int(impl[3]))
                    wmax = max(ab.hist[len(ab.hist) - ab.w:], default=0.0) if ab.w > 0 else 0.0
                    ft = max(wmax, 4.0 * tb / rtol)
                    floors = {4: ft, 5: max(wmax * wmax, 8.0 * ab.budget_var / rtol, 1e-300)}
                elif impl is None:
                    ab = None       # an unobserved update: the width is unknown, fall back to the scale of the whole stream
                    m = max([0.0] + vals)
                    floors = {4: max(floor, m), 5: max(floor * floor, m * m)}
            if impl is None:          # an update after which nothing was read (see Runner.update(observe=False))
                ok_steps += 1
                continue
            toks = modl.split(" ")
            tie = toks[-1] == "tie=1"
            toks = toks[:-1]
            if tie:
                # the model's three carriers disagree at this operation: a comparison within the tie margin decided something that is still visible.  The operation is
                # not compared; the trace is compared again when the carriers coincide again (after a reset, or when a later strict comparison re-selects the same
                # values) - a discrete disagreement is sticky in the driver, so such a trace stays excluded to its end or to its next reset
                if r.tie_at is None:
                    r.tie_at = k
                    out.excluded_near_tie += 1
                    out.count("traces_with_a_tie")
                tied_steps += 1
                continue
            same, why = cmp_tokens(impl, toks, rtol, floor, floors)
            if not same:
                r.mismatch_at = k
                out.mismatch(f"{label}{r.cls}: model and implementation differ at operation {k}: {why}",
                             {"class": r.cls, "params": r.params, "lines": r.lines[: k + 1], "impl_obs": impl,
                              "model_obs": toks, "operation_index": k})
                break
            ok_steps += 1
        validated.append(ok_steps)
        # a trace counts as validated against the implementation only when most of it was compared
        if 2 * ok_steps >= len(r.obs):
            out.traces_validated += 1
        else:
            out.count("traces_mostly_excluded_by_ties")
        out.count("steps_compared", ok_steps)
        out.count("steps_excluded_at_ties", tied_steps)
    return validated
