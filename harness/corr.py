"""Correspondence: run traces on the implementation (dets.Runner) and on the Lean model, diff them."""
from __future__ import annotations

import dets
from common import Outcome, cmp_tokens, h2f, run_driver

SCALE_PROPORTIONAL = ("CUSUM", "PageHinkley", "GeometricMovingAverage", "ADWIN")


def run_ops(cls: str, params: dict, ops: list[tuple], inst: str = "a", callbacks=None, config=None) -> dets.Runner:
    r = dets.Runner(inst, cls, params, callbacks=callbacks, config=config)
    if r.det is None:
        return r
    for op in ops:
        if op[0] == "u":
            r.update(op[1])
            if r.err is not None:
                break
        elif op[0] == "r":
            r.reset()
    return r


LINEAR = ("CUSUM", "PageHinkley", "GeometricMovingAverage")


def pow2_shift(r) -> int:
    """The statistics of the CUSUM family are LINEAR in (values, delta, lambda_), and binary floating point is exactly invariant under multiplication of all of them
    by a power of two (no overflow, no subnormals involved): a problem of magnitude 1e-10 or 1e9 is sent to the model multiplied by 2^k so that its magnitude is
    about 1 - where the model's tie margin (which has an absolute floor of 1e-9) means what it says - and the model's floats are divided by 2^k again.
    Returns k (0: no rescaling)."""
    import math
    if r.cls not in LINEAR or not r.lines:
        return 0
    fp = dets.full_params(r.cls, r.params)
    mags = [abs(h2f(l.split(" ")[2])) for l in r.lines if l[:2] in ("u ", "uq") and len(l.split(" ")) > 2] + [abs(float(fp.get("delta", 0.0))), abs(float(fp["lambda_"]))]
    mags = [m for m in mags if m > 0 and math.isfinite(m)]
    if not mags:
        return 0
    top, low = max(mags), min(mags)
    # only SMALL problems are rescaled: the carriers' margin is relative above magnitude 1 already, and scaling a large problem down would push its small
    # quantities (an unscaled `delta`) below the absolute floor of the margin
    if top >= 2.0 ** -20:
        return 0
    k = -int(math.floor(math.log2(top)))
    # exactness needs every scaled quantity (and the intermediate differences) to stay far from the subnormal range and from overflow
    if not (-900 < math.log2(low) + k and math.log2(top) + k < 900 and math.log2(low) > -900 and math.log2(top) < 900):
        return 0
    return k


def rescale_line(line: str, k: int) -> str:
    from common import f2h
    f = 2.0 ** k
    toks = line.split(" ")
    if toks[0] == "n":
        return " ".join(t.split("=")[0] + "=" + f2h(h2f(t.split("=")[1]) * f) if t.startswith(("lambda_=", "delta=")) else t for t in toks)
    if toks[0] in ("u", "uq") and len(toks) > 2:
        toks[2] = f2h(h2f(toks[2]) * f)
        return " ".join(toks)
    return line


def unscale_obs(obs_line: str, k: int) -> str:
    from common import f2h
    f = 2.0 ** -k
    return " ".join("x" + f2h(h2f(t[1:]) * f) if (t.startswith("x") and len(t) == 17) else t for t in obs_line.split(" "))


def compare_batch(out: Outcome, runners: list[dets.Runner], rtol: float = 1e-9, label: str = "") -> list[int]:
    """Run all runners' lines through the driver (one call) and diff.  Returns, per runner, the number of steps
    validated (up to the first near-tie).  Model/implementation disagreements go to out.mismatches."""
    lines, spans, shifts = [], [], []
    for r in runners:
        spans.append((len(lines), len(lines) + len(r.lines)))
        k = pow2_shift(r)
        shifts.append(k)
        lines.extend(r.lines if k == 0 else [rescale_line(l, k) for l in r.lines])
    res = run_driver(lines)
    for (a, b), k in zip(spans, shifts):
        if k:
            res[a:b] = [unscale_obs(o, k) for o in res[a:b]]
    validated = []
    for r, (a, b) in zip(runners, spans):
        ok_steps = tied_steps = 0
        r.mismatch_at = r.tie_at = None
        # statistics of the CUSUM family and of ADWIN are proportional to the data (and to delta): compare them relative to THAT scale
        floor = 1.0
        if r.cls in SCALE_PROPORTIONAL:
            vals = [abs(h2f(l.split(" ")[2])) for l in r.lines if l.startswith("u") and len(l.split(" ")) > 2]
            fp = dets.full_params(r.cls, r.params)
            floor = min(1.0, max([1e-300, abs(float(fp.get("delta", 0.0))) if r.cls != "ADWIN" else 0.0] + vals))
        # ADWIN's variance (token 5) is a sum of SQUARED deviations kept by updates and downdates: after a cut what is left of it is the rounding residue of
        # numbers of size max|x|^2 (and of max|x| for the total, token 4), and any re-association of the same formula changes that residue
        floors = None
        if r.cls == "ADWIN":
            m = max([0.0] + vals)
            floors = {4: max(floor, m), 5: max(floor * floor, m * m)}
        for k, (impl, modl) in enumerate(zip(r.obs, res[a:b])):
            if impl is None:          # an update after which nothing was read (see Runner.update(observe=False))
                ok_steps += 1
                continue
            toks = modl.split(" ")
            tie = toks[-1] == "tie=1"
            toks = toks[:-1]
            if tie:
                # the model's three carriers disagree at this operation: a comparison within the tie margin decided something that is still visible.  The operation is
                # not compared; the trace is compared again when the carriers coincide again (after a reset, or when a later strict comparison re-selects the same
                # values) - a discrete disagreement is sticky in the driver, so such a trace stays excluded to its end or to its next reset
                if r.tie_at is None:
                    r.tie_at = k
                    out.excluded_near_tie += 1
                    out.count("traces_with_a_tie")
                tied_steps += 1
                continue
            same, why = cmp_tokens(impl, toks, rtol, floor, floors)
            if not same:
                r.mismatch_at = k
                out.mismatch(f"{label}{r.cls}: model and implementation differ at operation {k}: {why}",
                             {"class": r.cls, "params": r.params, "lines": r.lines[: k + 1], "impl_obs": impl,
                              "model_obs": toks, "operation_index": k})
                break
            ok_steps += 1
        validated.append(ok_steps)
        # a trace counts as validated against the implementation only when most of it was compared
        if 2 * ok_steps >= len(r.obs):
            out.traces_validated += 1
        else:
            out.count("traces_mostly_excluded_by_ties")
        out.count("steps_compared", ok_steps)
        out.count("steps_excluded_at_ties", tied_steps)
    return validated
