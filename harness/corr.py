"""Correspondence: run traces on the implementation (dets.Runner) and on the Lean model, diff them."""
from __future__ import annotations

import dets
from common import Outcome, cmp_tokens, h2f, run_driver

SCALE_PROPORTIONAL = ("CUSUM", "PageHinkley", "GeometricMovingAverage", "ADWIN")


def run_ops(cls: str, params: dict, ops: list[tuple], inst: str = "a", callbacks=None, config=None) -> dets.Runner:
    r = dets.Runner(inst, cls, params, callbacks=callbacks, config=config)
    if r.det is None:
        return r
    for op in ops:
        if op[0] == "u":
            r.update(op[1])
            if r.err is not None:
                break
        elif op[0] == "r":
            r.reset()
    return r


def compare_batch(out: Outcome, runners: list[dets.Runner], rtol: float = 1e-9, label: str = "") -> list[int]:
    """Run all runners' lines through the driver (one call) and diff.  Returns, per runner, the number of steps
    validated (up to the first near-tie).  Model/implementation disagreements go to out.mismatches."""
    lines, spans = [], []
    for r in runners:
        spans.append((len(lines), len(lines) + len(r.lines)))
        lines.extend(r.lines)
    res = run_driver(lines)
    validated = []
    for r, (a, b) in zip(runners, spans):
        ok_steps = 0
        r.mismatch_at = r.tie_at = None
        # statistics of the CUSUM family and of ADWIN are proportional to the data (and to delta): compare them relative to THAT scale
        floor = 1.0
        if r.cls in SCALE_PROPORTIONAL:
            vals = [abs(h2f(l.split(" ")[2])) for l in r.lines if l.startswith("u") and len(l.split(" ")) > 2]
            fp = dets.full_params(r.cls, r.params)
            floor = min(1.0, max([1e-300, abs(float(fp.get("delta", 0.0))) if r.cls != "ADWIN" else 0.0] + vals))
        # ADWIN's variance (token 5) is a sum of SQUARED deviations kept by updates and downdates: after a cut what is left of it is the rounding residue of
        # numbers of size max|x|^2 (and of max|x| for the total, token 4), and any re-association of the same formula changes that residue
        floors = None
        if r.cls == "ADWIN":
            m = max([0.0] + vals)
            floors = {4: max(floor, m), 5: max(floor * floor, m * m)}
        for k, (impl, modl) in enumerate(zip(r.obs, res[a:b])):
            if impl is None:          # an update after which nothing was read (see Runner.update(observe=False))
                ok_steps += 1
                continue
            toks = modl.split(" ")
            tie = toks[-1] == "tie=1"
            toks = toks[:-1]
            if tie:
                r.tie_at = k
                out.excluded_near_tie += 1
                out.count("traces_truncated_at_tie")
                break
            same, why = cmp_tokens(impl, toks, rtol, floor, floors)
            if not same:
                r.mismatch_at = k
                out.mismatch(f"{label}{r.cls}: model and implementation differ at operation {k}: {why}",
                             {"class": r.cls, "params": r.params, "lines": r.lines[: k + 1], "impl_obs": impl,
                              "model_obs": toks, "operation_index": k})
                break
            ok_steps += 1
        validated.append(ok_steps)
        out.traces_validated += 1
        out.count("steps_compared", ok_steps)
    return validated
