"""Proof-obligation audit (DESIGN §4 step 1): build, source grep, `#print axioms` per theorem."""
from __future__ import annotations

import hashlib
import json
import re
import subprocess
from pathlib import Path

from common import LEAN, Infra

ALLOWED_AXIOMS = {"propext", "Classical.choice", "Quot.sound"}
FORBIDDEN = re.compile(r"\bsorry\b|\badmit\b|^\s*axiom\s|native_decide|bv_decide|implemented_by|\bunsafe\s|maxHeartbeats\s+0\b",
                       re.M)
AUDIT_DIR = LEAN / ".audit"


def _strip_comments(src: str) -> str:
    src = re.sub(r"/-.*?-/", "", src, flags=re.S)
    return re.sub(r"--.*", "", src)


def source_hash() -> str:
    h = hashlib.sha256()
    for p in sorted(list(LEAN.glob("Frouros*/**/*.lean")) + [LEAN / "lakefile.toml", LEAN / "obligations.json"]):
        h.update(str(p.relative_to(LEAN)).encode())
        h.update(p.read_bytes())
    return h.hexdigest()


def build(clean: bool = False) -> float:
    import time
    t0 = time.time()
    if clean:
        subprocess.run(["lake", "clean"], cwd=LEAN, capture_output=True, text=True)
    r = subprocess.run(["lake", "build"], cwd=LEAN, capture_output=True, text=True)
    if r.returncode != 0:
        raise Infra("lake build failed:\n" + (r.stdout + r.stderr)[-4000:])
    return time.time() - t0


def obligations(prop: str) -> dict:
    return json.loads((LEAN / "obligations.json").read_text()).get(prop, {"modules": [], "theorems": []})


def grep_forbidden() -> list[str]:
    hits = []
    for p in sorted(LEAN.glob("FrourosProofs/**/*.lean")):
        for m in FORBIDDEN.finditer(_strip_comments(p.read_text())):
            hits.append(f"{p.relative_to(LEAN)}: {m.group(0).strip()}")
    return hits


def audit(prop: str, force: bool = False, leanchecker: bool = False) -> dict:
    """Returns {obligations, discharged, theorems:[{name, axioms, ok}], cached, checker_cmd}.  Checks may run concurrently: building and reading the compiled
    proofs happens under an exclusive file lock (a build by one process while another reads half-written .olean files would look like missing theorems)."""
    import fcntl
    AUDIT_DIR.mkdir(exist_ok=True)
    with open(AUDIT_DIR / "lock", "w") as lk:
        fcntl.flock(lk, fcntl.LOCK_EX)
        try:
            res = _audit(prop, force, leanchecker)
            if res.get("obligations") and res.get("discharged") != res.get("obligations") and not res.get("forbidden_hits"):
                res = _audit(prop, True, leanchecker)        # once more from a settled build before believing a missing theorem
            return res
        finally:
            fcntl.flock(lk, fcntl.LOCK_UN)


def _audit(prop: str, force: bool = False, leanchecker: bool = False) -> dict:
    ob = obligations(prop)
    names = [t["name"] for t in ob["theorems"]]
    AUDIT_DIR.mkdir(exist_ok=True)
    build_s = build()
    key = source_hash()
    cache = AUDIT_DIR / f"{prop}.json"
    if cache.exists() and not force:
        c = json.loads(cache.read_text())
        if c.get("key") == key:
            c["cached"] = True
            c["build_s"] = build_s
            return c
    hits = grep_forbidden()
    res = {"key": key, "cached": False, "build_s": build_s, "forbidden_hits": hits, "theorems": [],
           "checker_cmd": "cd lean && lake build && lake env lean .audit/Audit_%s.lean  (#print axioms per theorem)" % prop}
    if names:
        f = AUDIT_DIR / f"Audit_{prop}.lean"
        src = "".join(f"import {m}\n" for m in ob["modules"]) + "".join(f"#print axioms {n}\n" for n in names)
        f.write_text(src)
        r = subprocess.run(["lake", "env", "lean", str(f)], cwd=LEAN, capture_output=True, text=True)
        out = r.stdout + r.stderr
        for n in names:
            m = re.search(r"'" + re.escape(n) + r"' (depends on axioms: \[(.*?)\]|does not depend on any axioms)", out, re.S)
            if not m:
                res["theorems"].append({"name": n, "ok": False, "axioms": None, "why": "not found in environment"})
                continue
            axs = [a.strip() for a in (m.group(2) or "").replace("\n", " ").split(",") if a.strip()]
            bad = [a for a in axs if a not in ALLOWED_AXIOMS]
            res["theorems"].append({"name": n, "ok": not bad, "axioms": axs, "why": ("uses " + ",".join(bad)) if bad else ""})
        if r.returncode != 0 and not all(t["ok"] for t in res["theorems"]):
            res["lean_output"] = out[-3000:]
    if leanchecker and ob["modules"]:
        r = subprocess.run(["lake", "env", "leanchecker"] + ob["modules"], cwd=LEAN, capture_output=True, text=True)
        res["leanchecker"] = {"rc": r.returncode, "tail": (r.stdout + r.stderr)[-500:]}
    if res.get("leanchecker") and res["leanchecker"]["rc"] != 0:
        for t in res["theorems"]:
            t["ok"] = False
            t["why"] = "leanchecker rejected the module"
    res["obligations"] = len(names)
    res["discharged"] = sum(1 for t in res["theorems"] if t["ok"]) if not hits else 0
    cache.write_text(json.dumps(res, indent=1))
    return res
