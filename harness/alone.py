"""Run ONE detector alone in a fresh interpreter: reads {class, params, stream, seed, history_callback} from stdin, prints its observation tokens as JSON."""
import json
import sys
from pathlib import Path

sys.path.insert(0, str(Path(__file__).resolve().parent))
import common  # noqa: E402,F401
import dets  # noqa: E402
from common import np  # noqa: E402

req = json.loads(sys.stdin.read())
cb = None
if req.get("history_callback"):
    from frouros.callbacks.streaming import HistoryConceptDrift
    cb = [HistoryConceptDrift(name="h")]
if req.get("seed") is not None:
    np.random.seed(req["seed"])
r = dets.Runner("a", req["class"], req["params"], callbacks=cb)
for x in req["stream"]:
    r.update(x)
print(json.dumps(r.obs))
