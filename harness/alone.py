"""Run detectors alone in a fresh interpreter: reads {class, params, stream, seed, history_callback} - or {"batch": [such requests]} - from stdin,
prints the observation tokens (a list per request) as JSON."""
import json
import sys
from pathlib import Path

sys.path.insert(0, str(Path(__file__).resolve().parent))
import common  # noqa: E402,F401
import dets  # noqa: E402
from common import np  # noqa: E402


def one(req):
    cb = None
    if req.get("history_callback"):
        from frouros.callbacks.streaming import HistoryConceptDrift
        cb = [HistoryConceptDrift(name="h")]
    if req.get("seed") is not None:
        np.random.seed(req["seed"])
    r = dets.Runner("a", req["class"], req["params"], callbacks=cb)
    for x in req["stream"]:
        if x == "r":
            r.reset()
        else:
            r.update(x)
    return r.obs


req = json.loads(sys.stdin.read())
print(json.dumps([one(q) for q in req["batch"]] if "batch" in req else one(req)))
