"""Registry of the 13 streaming concept-drift detectors: construction on both sides and observables.

`obs_*` must list the same tokens, in the same order, as `Det.obs` in lean/FrourosModel/Dets.lean.
"""
from __future__ import annotations

import zlib

from common import np, f2h, tok_b, tok_f, tok_i

import frouros.detectors.concept_drift as cd
from frouros.detectors.concept_drift.streaming.change_detection.bocd import GaussianUnknownMean
from frouros.utils.data_structures import EmptyQueueError

# parameter kinds: f = float, n = natural, b = bool
PARAMS = {
    "DDM": [("warning_level", "f", 2.0), ("drift_level", "f", 3.0), ("min_num_instances", "n", 30)],
    "RDDM": [("warning_level", "f", 1.773), ("drift_level", "f", 2.258), ("min_num_instances", "n", 129),
             ("max_concept_size", "n", 40000), ("min_concept_size", "n", 7000),
             ("max_num_instances_warning", "n", 1400)],
    "EDDM": [("alpha", "f", 0.95), ("beta", "f", 0.9), ("level", "f", 2.0),
             ("min_num_misclassified_instances", "n", 30)],
    "ECDDWT": [("lambda_", "f", 0.2), ("average_run_length", "n", 400), ("warning_level", "f", 0.5),
               ("min_num_instances", "n", 30)],
    "HDDMA": [("alpha_d", "f", 0.001), ("alpha_w", "f", 0.005), ("two_sided_test", "b", False),
              ("min_num_instances", "n", 30)],
    "HDDMW": [("alpha_d", "f", 0.001), ("alpha_w", "f", 0.005), ("two_sided_test", "b", False),
              ("lambda_", "f", 0.05), ("min_num_instances", "n", 30)],
    "ADWIN": [("clock", "n", 32), ("delta", "f", 0.002), ("m", "n", 5), ("min_window_size", "n", 5),
              ("min_num_instances", "n", 10)],
    "KSWIN": [("alpha", "f", 0.0001), ("min_num_instances", "n", 100), ("num_test_instances", "n", 30)],
    "STEPD": [("alpha_d", "f", 0.003), ("alpha_w", "f", 0.05), ("min_num_instances", "n", 30)],
    "CUSUM": [("lambda_", "f", 50.0), ("delta", "f", 0.005), ("min_num_instances", "n", 30)],
    "PageHinkley": [("lambda_", "f", 50.0), ("delta", "f", 0.005), ("alpha", "f", 0.9999),
                    ("min_num_instances", "n", 30)],
    "GeometricMovingAverage": [("lambda_", "f", 1.0), ("alpha", "f", 0.99), ("min_num_instances", "n", 30)],
    "BOCD": [("prior_mean", "f", 0.0), ("prior_var", "f", 1.0), ("data_var", "f", 1.0), ("hazard", "f", 0.01),
             ("min_num_instances", "n", 30)],
}
CLASSES = list(PARAMS)
ERROR_BASED = ["DDM", "RDDM", "EDDM", "ECDDWT", "HDDMA", "HDDMW", "STEPD"]   # 0/1 (or [0,1]) inputs
BINARY_ONLY = ["DDM", "RDDM", "EDDM", "ECDDWT", "STEPD"]
UNIT_INTERVAL = ["HDDMA", "HDDMW"]
REAL_VALUED = ["ADWIN", "KSWIN", "CUSUM", "PageHinkley", "GeometricMovingAverage", "BOCD"]
HAS_WARNING = ["DDM", "RDDM", "EDDM", "ECDDWT", "HDDMA", "HDDMW", "STEPD"]


BOCD_VIA_SETTER = [0]


def full_params(cls: str, params: dict) -> dict:
    out = {}
    for name, _, dflt in PARAMS[cls]:
        out[name] = params.get(name, dflt)
    return out


def make_config(cls: str, params: dict):
    """Build the real configuration object (raises what the real constructor raises)."""
    p = dict(params)
    if cls == "BOCD":
        pm, pv, dv = p.pop("prior_mean", 0.0), p.pop("prior_var", 1.0), p.pop("data_var", 1.0)
        if zlib.crc32(repr(sorted((k, repr(v)) for k, v in params.items())).encode()) % 3 == 0:
            # a deterministic third of the BOCD configurations set the data variance through the model's public, validated setter AFTER construction
            # (the configured data variance is whatever the model object says when the detector copies it - anything derived from it at construction must follow)
            model = GaussianUnknownMean(prior_mean=pm, prior_var=pv)
            try:
                model.data_var = dv
                BOCD_VIA_SETTER[0] += 1
            except AttributeError:      # a model whose data variance can only be given at construction
                model = GaussianUnknownMean(prior_mean=pm, prior_var=pv, data_var=dv)
        else:
            model = GaussianUnknownMean(prior_mean=pm, prior_var=pv, data_var=dv)
        return cd.BOCDConfig(model=model, **p)
    if p and zlib.crc32(repr(sorted((k, repr(v)) for k, v in params.items())).encode()) % 4 == 1:
        # a deterministic quarter of the configurations is built with the defaults and then given its values through the configuration's public, validating
        # setters (in the constructor's own order, so that ordering constraints meet the same partner values): `cfg = XConfig(); cfg.alpha = 0.5` configures what
        # `XConfig(alpha=0.5)` configures - anything a configuration derives from a value at construction must follow the setter
        try:
            cfg = getattr(cd, cls + "Config")()
            # (only values behind a validating SETTER of the class: a plain attribute - ECDD-WT's `average_run_length`, which the constructor turns into a control-limit
            # polynomial - offers no such entry point, and assigning to it is not configuring)
            if not all(isinstance(getattr(type(cfg), name, None), property) and getattr(type(cfg), name).fset is not None for name in p):
                raise LookupError("no setter")
            for name, _, _ in PARAMS[cls]:
                if name in p:
                    setattr(cfg, name, p[name])
            if all(getattr(cfg, name) == p[name] for name in p):
                CONFIG_VIA_SETTERS[0] += 1
                return cfg
        except Exception:  # noqa: BLE001
            pass        # (a pair that is only valid together, a read-only attribute ...: the constructor decides)
    return getattr(cd, cls + "Config")(**p)


CONFIG_VIA_SETTERS = [0]


def make(cls: str, params: dict, callbacks=None, config=None):
    if config is None and not params:
        # the `config=None` path of the constructors: the detector builds its own default configuration (for BOCD: `BOCDConfig()` with its default
        # model `GaussianUnknownMean()`); the model line carries the documented defaults
        return getattr(cd, cls)(config=None, callbacks=callbacks)
    cfg = config if config is not None else make_config(cls, params)
    return getattr(cd, cls)(config=cfg, callbacks=callbacks)


def new_line(inst: str, cls: str, params: dict) -> str:
    parts = ["n", inst, cls]
    fp = full_params(cls, params)
    for name, kind, _ in PARAMS[cls]:
        v = fp[name]
        if kind == "f":
            parts.append(f"{name}={f2h(v)}")
        elif kind == "n":
            # the model's naturals: negative limits (RDDM's unvalidated max_concept_size / max_num_instances_warning) behave exactly like 0
            # in the Python comparisons `counter >= limit`, so they are sent as 0
            parts.append(f"{name}={max(0, int(v))}")
        else:
            parts.append(f"{name}={1 if v else 0}")
    return " ".join(parts)


ERR_KIND = [(EmptyQueueError, "EmptyQueue"), (ZeroDivisionError, "ZeroDivision"), (ValueError, "Value"),
            (TypeError, "Type"), (IndexError, "Index"), (AttributeError, "Attribute")]


def err_kind(e: BaseException) -> str:
    for klass, name in ERR_KIND:
        if isinstance(e, klass):
            return name
    return "Other"


def _pair(d):
    return [tok_f(d.min_error_rate), tok_f(d.min_std)]


def qcount(q) -> int:
    """number of items a queue-like object holds: its `count` attribute (the library's circular queues), or its length (a deque / list subclass, whose `count` is a method)"""
    c = getattr(q, "count", None)
    return int(c) if isinstance(c, (int, np.integer)) else len(q)


def obs(cls: str, d) -> list[str]:
    """the observation compared with the model's; an attribute that cannot be read (renamed, removed) makes the observation `unreadable:<what>` - a broken
    correspondence for the comparison to report, not a crash of the check"""
    try:
        return _obs(cls, d)
    except (AttributeError, TypeError, ValueError, KeyError, IndexError) as e:
        return ["unreadable:" + type(e).__name__ + ":" + str(e).replace(" ", "_")[:80]]


def _obs(cls: str, d) -> list[str]:
    head = [tok_i(d.num_instances), tok_b(d.drift)]
    if cls == "DDM":
        return head + [tok_b(d.warning), tok_f(d.error_rate.mean), tok_i(d.error_rate.num_values)] + _pair(d)
    if cls == "RDDM":
        return head + [tok_b(d.warning), tok_f(d.error_rate.mean), tok_i(d.error_rate.num_values)] + _pair(d) + [
            tok_i(d.num_warnings), tok_b(d.rddm_drift), tok_i(qcount(d.predictions))]
    if cls == "EDDM":
        return head + [tok_b(d.warning), tok_f(d.mean_distance_error), tok_f(d.std_distance_error),
                       tok_f(d.variance_distance_error), tok_f(d.max_distance_threshold),
                       tok_i(d.num_misclassified_instances), tok_i(d.last_distance_error)]
    if cls == "ECDDWT":
        return head + [tok_b(d.warning), tok_f(d.p.mean), tok_f(d.z.mean)]
    if cls == "HDDMA":
        t = d.test_type
        out = head + [tok_b(d.warning), tok_f(t.x.mean), tok_i(t.x.num_values), tok_f(t.z.mean), tok_i(t.z.num_values)]
        if d.config.two_sided_test:
            out += [tok_f(t.y.mean), tok_i(t.y.num_values)]
        return out
    if cls == "HDDMW":
        t = d.test_type
        out = head + [tok_b(d.warning), tok_f(t.total.ewma.mean), tok_f(t.total.independent_bound_condition),
                      tok_f(t.sample_increase_1.ewma.mean), tok_f(t.sample_increase_2.ewma.mean),
                      tok_f(t.increase_cut_point)]
        if d.config.two_sided_test:
            out += [tok_f(t.sample_decrease_1.ewma.mean), tok_f(t.sample_decrease_2.ewma.mean),
                    tok_f(t.decrease_cut_point)]
        return out
    if cls == "ADWIN":
        return head + ["-", tok_i(d.width), tok_f(d.total), tok_f(d.variance),
                       "rows=" + ",".join(str(b.idx) for b in d.buckets), tok_i(d.num_buckets), tok_i(d.num_max_buckets)]
    if cls == "KSWIN":
        return head + ["-", tok_i(len(d.window))]
    if cls == "STEPD":
        return head + [tok_b(d.warning), tok_i(d.correct_total), tok_i(qcount(d.window_accuracy)),
                       tok_i(d.window_accuracy.num_true)]
    if cls in ("CUSUM", "PageHinkley", "GeometricMovingAverage"):
        return head + ["-", tok_f(d.sum_), tok_f(d.mean_error_rate.mean)]
    if cls == "BOCD":
        n = d.num_instances
        return head + ["-", tok_f(d.predicted_mean), tok_f(d.predicted_var)] + [tok_f(x) for x in d.log_r[n, : n + 1]]
    raise KeyError(cls)


def flags(cls: str, d) -> tuple[bool, bool]:
    return bool(d.drift), bool(getattr(d, "warning", False))


TYPED_INPUTS = True
# Runners are only ever built from configurations the generators mean to be valid: a constructor that raises is not a case to skip silently
FAILED_CONSTRUCTIONS: list = []


def typed(value, cast):
    """the same number as a NumPy scalar: integers (0/1 error indicators) as np.int64, anything else as np.float64"""
    if cast is None or isinstance(value, (bool, np.generic)):      # a value that already has a NumPy type (a case about THAT type) is fed as it is
        return value
    if cast == "int64" and float(value) == int(value) and abs(value) < 2**53:
        return np.int64(int(value))
    if cast in ("uint8", "int8") and value in (0, 1):        # 0/1 error indicators as stored in a compact array (`.astype(np.uint8)`)
        return (np.uint8 if cast == "uint8" else np.int8)(int(value))
    return np.float64(value)


# KSWIN hands the sample it drew and the newest values to `scipy.stats.ks_2samp`: the call is observed at that library boundary (like the scripted `requests` of C20),
# so that WHICH values were tested is known whatever random generator the detector draws from.  The spy forwards to the real function.
KS_CALLS: list = []
try:
    import frouros.detectors.concept_drift.streaming.window_based.kswin as _kswin_mod
    if hasattr(_kswin_mod, "ks_2samp") and not getattr(_kswin_mod.ks_2samp, "_verif_spy", False):
        _real_ks_2samp = _kswin_mod.ks_2samp

        def _ks_spy(*a, **kw):
            try:
                d1 = a[0] if len(a) > 0 else kw.get("data1")
                d2 = a[1] if len(a) > 1 else kw.get("data2")
                KS_CALLS.append(([float(v) for v in d1], [float(v) for v in d2]))
            except Exception:  # noqa: BLE001
                KS_CALLS.append(None)
            return _real_ks_2samp(*a, **kw)
        _ks_spy._verif_spy = True
        _kswin_mod.ks_2samp = _ks_spy
except Exception:  # noqa: BLE001
    pass


class Runner:
    """Runs one real detector, recording the model's operation lines and the implementation's
    observation after every operation."""

    @property
    def own_generator(self) -> bool:
        """KSWIN only: the window has been full for some updates and NONE of them moved NumPy's global generator - the detector draws from a generator of its own.
        Only then are comparisons that start two instances from equal states of the GLOBAL generator meaningless (a broken assumption of the check, not a verdict);
        a detector that does touch the global generator - in whatever way - is a deterministic function of that state and IS comparable."""
        return self.cls == "KSWIN" and self.full_updates > 0 and not self.global_touched

    def __init__(self, inst: str, cls: str, params: dict, callbacks=None, config=None):
        self.inst, self.cls, self.params = inst, cls, dict(params)
        self.lines: list[str] = []
        self.obs: list[list[str]] = []
        self.err = None
        self.det = None
        self.tape_ok = True
        self.global_touched, self.full_updates, self.ks_call = False, 0, None
        # value TYPE: most runs feed Python numbers, a deterministic 1 in 3 feeds the NumPy scalars detectors see in practice
        # (elements of `(y_pred != y_true).astype(int)` or of a float64 array); the model line is the same number either way
        h = zlib.crc32(repr((cls, sorted((k, repr(v)) for k, v in params.items()))).encode()) % 12
        self.cast = {0: "int64", 1: "float64", 2: "uint8", 3: "int8"}.get(h) if TYPED_INPUTS else None
        if cls == "KSWIN":
            self._rng_state = np.random.get_state()
        try:
            self.det = make(cls, params, callbacks=callbacks, config=config)
        except Exception as e:  # noqa: BLE001
            self.err = e
            FAILED_CONSTRUCTIONS.append((cls, dict(params), f"{type(e).__name__}: {e}"))
            return
        self.lines.append(new_line(inst, cls, params))
        self.obs.append(obs(cls, self.det))

    def _record(self):
        self.obs.append(obs(self.cls, self.det))

    def update(self, value, observe: bool = True, **kw):
        """Returns the callbacks' logs (or None when the update raised).  `observe=False`: no attribute of the detector is read after this update
        (state that is only materialised when somebody looks must still be right when it is looked at later); the model line is `uq`."""
        d = self.det
        tape = None
        if self.cls == "KSWIN":
            full = len(d.window) + 1 >= d.config.min_num_instances
            st = np.random.get_state() if full else None
            del KS_CALLS[:]
            self.ks_call = None
        try:
            logs = d.update(value=typed(value, self.cast), **kw)
        except Exception as e:  # noqa: BLE001
            self.err = e
            self.lines.append(f"u {self.inst} {f2h(value)}")
            self.obs.append(["err:" + err_kind(e)])
            return None
        if self.cls == "KSWIN":
            self.ks_call = KS_CALLS[-1] if len(KS_CALLS) == 1 else None      # the (sample, newest) pair of THIS update, when the detector made exactly one KS test
        if self.cls == "KSWIN" and st is not None:
            after = np.random.get_state()
            # did this update leave NumPy's global generator where it was?  (a detector with its own generator never touches it)
            self.global_touched = self.global_touched or not (st[0] == after[0] and st[2:] == after[2:] and bool(np.array_equal(st[1], after[1])))
            self.full_updates += 1
            np.random.set_state(st)
            n_old = len(d.window) - d.config.num_test_instances
            tape = np.random.choice(n_old, d.config.num_test_instances, replace=False)
            replayed = np.random.get_state()
            # does the code draw exactly this from NumPy's GLOBAL generator (as the unchanged tree does)?  If the global state did not advance the way this replay
            # advances it, the tape is not what the detector used: expectations built on it are then a broken correspondence, not a verdict on the detector
            self.tape_ok = self.tape_ok and replayed[0] == after[0] and replayed[2:] == after[2:] and bool(np.array_equal(replayed[1], after[1]))
            np.random.set_state(after)
        line = f"{'u' if observe else 'uq'} {self.inst} {f2h(value)}"
        if tape is not None:
            line += " t=" + ",".join(str(int(i)) for i in tape)
        self.lines.append(line)
        if observe:
            self._record()
        else:
            self.obs.append(None)
        return logs

    def reset(self):
        self.det.reset()
        self.lines.append(f"r {self.inst}")
        self._record()


def model_raises_at_end(cls: str, params: dict, xs: list) -> bool:
    """Does the MODEL end the history `xs` (fed to a new `cls(params)`) with an error at its last update and at no earlier one?  Used to attribute an exception of the
    implementation to a recorded finding by the history that fails (the model carries the recorded behaviour) instead of by the wording of its message."""
    from common import f2h, run_driver
    r = Runner("k", cls, params)
    if r.det is None:
        return False
    lines = [r.lines[0]] + [("r k" if x is None else f"u k {f2h(float(x))}") for x in xs]     # `None` = reset()
    res = run_driver(lines)
    return len(res) == len(lines) and res[-1].startswith("err:") and not any(o.startswith("err:") for o in res[:-1])


def canon_public(v, depth=0):
    """canonical form of a value read from a detector: numbers by value (a Python 0 and a NumPy 0.0 read the same), containers by content"""
    from collections import deque
    if isinstance(v, np.ndarray):
        try:
            return ("arr", v.shape, tuple(repr(float(x)) for x in v.ravel()))
        except Exception:  # noqa: BLE001
            return ("arr", v.shape, repr(v.tolist()))
    if isinstance(v, (list, tuple, deque)):
        return tuple(canon_public(x, depth + 1) for x in v)
    if isinstance(v, (bool, np.bool_)):
        return ("b", bool(v))
    if isinstance(v, (int, float, np.number)):
        return ("n", repr(float(v)))
    if isinstance(v, (str, type(None))):
        return v
    if isinstance(v, dict):
        return tuple(sorted((str(k), canon_public(x, depth + 1)) for k, x in v.items()))
    if callable(v):
        return "callable"
    if isinstance(v, (np.random.Generator, np.random.RandomState)):
        return ("rng", type(v).__name__)
    if hasattr(v, "__dict__") and depth < 10:
        # an object handed out by a public property (a running mean, a test object ...) is read the way the detector is: through ITS public properties and public
        # instance attributes - its private fields (a memo table of bounds, a cache) are not observations
        pub = {}
        for name in dir(type(v)):
            if not name.startswith("_") and isinstance(getattr(type(v), name, None), property):
                try:
                    pub[name] = getattr(v, name)
                except Exception as e:  # noqa: BLE001
                    pub[name] = "raises:" + type(e).__name__
        pub.update({k: x for k, x in vars(v).items() if not k.startswith("_") and k not in ("detector", "callbacks")})
        return ("obj", type(v).__name__, canon_public(pub, depth + 1))
    return ("opaque", type(v).__name__)


def public_reads(det) -> dict:
    """everything a user can read from the detector without touching a private name: every public property of its class (whatever it is called - no list to
    forget a variable in), plus `drift`"""
    out = {}
    for name in dir(type(det)):
        if name.startswith("_") or name in ("config", "callbacks"):
            continue
        if isinstance(getattr(type(det), name, None), property):
            try:
                v = getattr(det, name)
            except Exception as e:  # noqa: BLE001
                v = "raises:" + type(e).__name__
            out[name] = canon_public(v)
    # public plain ATTRIBUTES of the instance (a property turned into an attribute is still something a user reads)
    for name, v in vars(det).items():
        if not name.startswith("_") and name not in out and name not in ("config", "callbacks"):
            out[name] = canon_public(v)
    if hasattr(det, "drift"):
        out["drift"] = canon_public(det.drift)
    return out
