"""Known findings: parsed from /verif/known_findings.txt; their *domains* are code, keyed by KF id.

A failure of the property on the implementation is attributed to a finding iff the case lies in the finding's
domain and has its failure kind (DESIGN §4).  The file is never written at run time.
"""
from __future__ import annotations

import re

from common import FINDINGS_FILE


class Finding:
    def __init__(self, prop, key, replay, theorem, what):
        self.prop, self.key, self.replay, self.theorem, self.what = prop, key, replay, theorem, what
        self.hits = 0


def load() -> dict[str, Finding]:
    out = {}
    if not FINDINGS_FILE.exists():
        return out
    for line in FINDINGS_FILE.read_text().splitlines():
        line = line.strip()
        if not line.startswith("finding:"):
            continue
        m = re.match(r"finding:\s+property=(\S+)\s+key=(\S+)\s+replay=(\S+)\s+theorem=(\S+)\s+(.*)", line)
        if m:
            out[m.group(2)] = Finding(*m.groups())
    return out


def fixed_entries() -> list[str]:
    if not FINDINGS_FILE.exists():
        return []
    return [l.strip() for l in FINDINGS_FILE.read_text().splitlines() if l.strip().startswith("fixed:")]
