"""Universe of the model's branch tags (lean/FrourosModel/Branch.lean) - every tag `Det.branch` / `Det.resetTag` can print, per class key.
Used only to REPORT which paths of the model's `step` the compared traces of a run took and which they did not (evidence: `model_branches`).
Some listed tags may be unreachable from `init` (the list is the syntactic product of the guard outcomes); they then show up as unhit in every run."""
from __future__ import annotations

FLAGS = ["D", "W", "N"]
RESET = ["reset.fresh", "reset.indrift", "reset.inwarning", "reset.incontrol"]
RESET_NW = ["reset.fresh", "reset.indrift", "reset.incontrol"]


def _hddm(cut_i: str, cut_d: str, two: bool) -> list[str]:
    cuts = [f"cut{cut_i}", f"keep{cut_i}"]
    if two:
        cuts = [a + "+" + b for a in cuts for b in (f"cut{cut_d}", f"keep{cut_d}")]
    verd = ["Di", "Wi", "Ni"]
    if two:
        verd = [a + b for a in verd for b in ("Dd", "Wd", "Nd")]
    return [c + "." + v for c in cuts for v in verd + ["warm"]]


UNIVERSE: dict[str, list[str]] = {
    "DDM": ["warm"] + [m + "." + f for m in ("min", "keep") for f in FLAGS] + RESET,
    "RDDM": [r + v + c for r in ("", "rebuild.") for v in ("D.keeplast", "D.afterwarn", "D.warnlimit", "W", "N") for c in ("", ".maxconcept")
             if not (c and v.startswith("D")) and not (c and v == "W")] + ["warm", "rebuild.warm", "err"] + RESET,
    "EDDM": ["ok", "err.warm", "err.newmax", "err.few", "err.D", "err.W", "err.N"] + RESET,
    "ECDDWT": ["warm"] + FLAGS + RESET,
    "HDDMA1": _hddm("x", "y", False) + RESET,
    "HDDMA2": _hddm("x", "y", True) + RESET,
    "HDDMW1": _hddm("i", "d", False) + RESET,
    "HDDMW2": _hddm("i", "d", True) + RESET,
    "ADWIN": [f"merge{k}.{c}{r}" for k in range(4) for c in ("nocheck", "check.nocut", "check.cut1", "check.cutmany") for r in ("", ".rowsdropped")
              if not (r and c in ("nocheck", "check.nocut"))] + ["err"] + RESET_NW,
    "KSWIN": ["fill", "D", "N"] + RESET_NW,
    "STEPD": ["warm", "err"] + [p + f for p in ("", "novar.") for f in FLAGS] + RESET,
    "CUSUMFAM": [k + "." + v + c for k in ("cusum", "ph", "gma") for v in ("warm", "D", "N") for c in ("", ".clipped") if not (c and k != "cusum")] + RESET_NW,
    "BOCD": ["warm", "N", "D.changepoint", "D.shortrun"] + RESET_NW,
}


def report(hit: dict) -> dict:
    """{class: {"hit": {tag: count}, "unhit": [...], "outside_universe": [...]}} for the classes this run touched"""
    out: dict = {}
    for full, c in sorted(hit.items()):
        cls, _, tag = full.partition(":")
        e = out.setdefault(cls, {"hit": {}, "unhit": [], "outside_universe": []})
        e["hit"][tag] = c
        if tag not in UNIVERSE.get(cls, []):
            e["outside_universe"].append(tag)
    for cls, e in out.items():
        e["unhit"] = [t for t in UNIVERSE.get(cls, []) if t not in e["hit"]]
        e["hit_of_universe"] = f"{len([t for t in e['hit'] if t in UNIVERSE.get(cls, [])])}/{len(UNIVERSE.get(cls, []))}"
    return out
