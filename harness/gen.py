"""Generators: accepted configurations and input streams per detector class (DESIGN §3.2).
Every random choice comes from the `random.Random` passed in (derived from VERIF_SEED)."""
from __future__ import annotations

import math
import random

import dets


def rand_params(rng: random.Random, cls: str, small: bool = True) -> dict:
    """A random accepted configuration; `small` keeps warm-ups short so every branch is reachable in short traces."""
    mn = rng.choice([1, 2, 3, 5, 8, 12]) if small else rng.choice([10, 30, 50])
    if rng.random() < 0.15:
        return {}  # defaults
    if cls == "DDM":
        w = rng.uniform(0.3, 2.5)
        return {"warning_level": w, "drift_level": w + rng.uniform(0.1, 2.0), "min_num_instances": mn}
    if cls == "RDDM":
        w = rng.uniform(0.3, 2.0)
        mc = rng.choice([1, 2, 3, 5, 9, 20, 70, 130])
        return {"warning_level": w, "drift_level": w + rng.uniform(0.1, 1.5), "min_num_instances": mn,
                "min_concept_size": mc, "max_concept_size": rng.choice([mc, mc + 3, 15, 40, 100, -1, 0]),
                "max_num_instances_warning": rng.choice([0, 1, 2, 4, 10, -1])}
    if cls == "EDDM":
        a = rng.uniform(0.5, 1.0)
        return {"alpha": a, "beta": a * rng.uniform(0.5, 0.98), "level": rng.uniform(0.5, 3.0),
                "min_num_misclassified_instances": rng.choice([0, 1, 2, 3, 5, 8, 8, 35, 50])}
    if cls == "ECDDWT":
        return {"lambda_": rng.choice([0.05, 0.1, 0.2, 0.35, 0.5, 1.0, rng.uniform(0.01, 1.0)]),
                "average_run_length": rng.choice([100, 400, 1000]), "warning_level": rng.uniform(0.05, 0.95),
                "min_num_instances": mn}
    if cls in ("HDDMA", "HDDMW"):
        ad = rng.choice([0.001, 0.01, 0.05, 0.2, rng.uniform(0.0005, 0.4)])
        p = {"alpha_d": ad, "alpha_w": rng.choice([min(1.0, ad * rng.uniform(1.5, 6.0)), 1.0, 0.9]), "two_sided_test": rng.random() < 0.5,
             "min_num_instances": mn}
        if p["alpha_w"] <= ad:
            p["alpha_w"] = min(1.0, ad + 0.05)
        if cls == "HDDMW":
            p["lambda_"] = rng.choice([0.05, 0.1, 0.3, 0.6, 1.0, rng.uniform(0.01, 1.0)])
        return p
    if cls == "ADWIN":
        return {"clock": rng.choice([1, 1, 2, 3, 8, 32]), "delta": rng.choice([0.002, 0.05, 0.3, 0.8, 1e-4, 1e-7, 0.999, rng.uniform(0.001, 0.99)]),
                "m": rng.choice([1, 2, 3, 5]), "min_window_size": rng.choice([1, 2, 5]),
                "min_num_instances": rng.choice([1, 2, 5, 10, 20])}
    if cls == "KSWIN":
        n = rng.choice([4, 6, 10, 16, 24, 40])
        if rng.random() < 0.2:      # windows of the default size and larger, test samples beyond 50 values (still the exact KS distribution)
            n = rng.choice([100, 104, 120, 140])
            return {"alpha": rng.choice([0.005, 0.01, 0.05, 0.2, 0.5]), "min_num_instances": n,
                    "num_test_instances": rng.choice([30, 50] if n == 100 else [30, 51, 52, rng.randint(51, n // 2)])}
        return {"alpha": rng.choice([0.0001, 0.01, 0.05, 0.2, 0.5]), "min_num_instances": n,
                "num_test_instances": rng.randint(1, n // 2)}
    if cls == "STEPD":
        ad = rng.choice([0.003, 0.01, 0.05, rng.uniform(0.001, 0.3)])
        return {"alpha_d": ad, "alpha_w": ad * rng.uniform(1.5, 10), "min_num_instances": mn}
    if cls == "CUSUM":
        return {"lambda_": rng.choice([0.0, 0.5, 2.0, 10.0, rng.uniform(0, 30)]), "delta": rng.choice([0.0, 0.005, 0.1, 1.0]),
                "min_num_instances": mn}
    if cls == "PageHinkley":
        return {"lambda_": rng.choice([0.0, 0.5, 2.0, 10.0, rng.uniform(0, 30)]), "delta": rng.choice([0.0, 0.005, 0.1, 1.0]),
                "alpha": rng.choice([0.0, 0.5, 0.9, 0.9999, 1.0]), "min_num_instances": mn}
    if cls == "GeometricMovingAverage":
        return {"lambda_": rng.choice([0.0, 0.05, 0.3, 1.0, rng.uniform(0, 2)]), "alpha": rng.choice([0.0, 0.5, 0.9, 0.99, 1.0]),
                "min_num_instances": mn}
    if cls == "BOCD":
        return {"prior_mean": rng.choice([0.0, 1.0, -2.5]), "prior_var": rng.choice([1.0, 0.5, 4.0, 0.02, 1e-3, 50.0]),
                "data_var": rng.choice([1.0, 0.5, 2.0, 0.01, 1e-4, 30.0]), "hazard": rng.choice([0.01, 0.1, 0.3, 0.5, 0.9]),
                "min_num_instances": mn}
    raise KeyError(cls)


def bernoulli_stream(rng: random.Random, n: int) -> list[int]:
    """piecewise-stationary 0/1 stream with abrupt, gradual or recurring shifts, rises and drops"""
    kind = rng.choice(["stationary", "abrupt", "gradual", "recurring", "blocks", "nearperfect", "nearworst", "hill", "hill"])
    p2 = rng.choice([0.05, 0.3, 0.5, 0.7, 0.95])
    cut = rng.randint(1, max(1, n - 1))
    cut2 = rng.randint(cut, max(cut, n))
    p0 = rng.choice([0.02, 0.1, 0.2, 0.35, 0.5, 0.7, 0.9])
    p1 = rng.choice([0.02, 0.1, 0.3, 0.5, 0.8, 0.95])
    out = []
    for t in range(n):
        if kind == "stationary":
            p = p0
        elif kind == "hill":          # three levels: e.g. high, low, middle (one side at drift level while the other is at warning level)
            p = p0 if t < cut else (p1 if t < cut2 else p2)
        elif kind == "abrupt":
            p = p0 if t < cut else p1
        elif kind == "gradual":
            p = p0 + (p1 - p0) * min(1.0, t / max(1, cut))
        elif kind == "recurring":
            p = p0 if (t // max(3, cut // 3)) % 2 == 0 else p1
        elif kind == "blocks":
            p = 0.0 if t < cut else 1.0
            if p0 > 0.5:
                p = 1.0 - p
        elif kind == "nearperfect":
            p = 0.001 if t < cut else p1
        else:
            p = 0.999 if t < cut else p1
        out.append(1 if rng.random() < p else 0)
    return out


def unit_stream(rng: random.Random, n: int) -> list[float]:
    """values in [0,1]: either 0/1 or dyadic fractions (so that 1-(1-x)=x exactly)"""
    if rng.random() < 0.6:
        return [float(v) for v in bernoulli_stream(rng, n)]
    b = bernoulli_stream(rng, n)
    return [min(1.0, max(0.0, (v * 0.5 + rng.randint(0, 128) / 256.0))) for v in b]


def real_stream(rng: random.Random, n: int, nonneg: bool = False) -> list[float]:
    kind = rng.choice(["gauss", "shift", "shift", "uniform", "integer", "tied", "scaled", "huge", "tiny"])
    big = rng.choice([1e7, 1e9, 1e12])
    small = rng.choice([1e-9, 1e-13, 1e-16])
    mu0, mu1 = rng.choice([0.0, 1.0, 5.0]), rng.choice([0.5, 2.0, 4.0, 9.0])
    sd = rng.choice([0.1, 0.5, 1.0, 2.0])
    cut = rng.randint(1, max(1, n - 1))
    out = []
    for t in range(n):
        if kind == "gauss":
            v = rng.gauss(mu0, sd)
        elif kind == "shift":
            v = rng.gauss(mu0 if t < cut else mu1, sd)
        elif kind == "uniform":
            v = rng.uniform(0, 1) if t < cut else rng.uniform(0.5, 2)
        elif kind == "integer":
            v = float(rng.randint(0, 3) if t < cut else rng.randint(2, 6))
        elif kind == "tied":
            v = rng.choice([0.0, 0.5, 1.0, 1.0, 2.0])
        elif kind == "tiny":       # quantities in SI units (seconds per operation, probabilities of rare events): everything far below 1e-9
            v = rng.gauss(mu0 if t < cut else mu1, sd) * small
        elif kind == "huge":       # counters, byte counts, nanosecond timestamps: magnitudes far beyond 1e4
            v = rng.gauss(mu0 if t < cut else mu1, sd) * big
        else:
            v = rng.gauss(mu0 if t < cut else mu1, sd) * 1e3
        out.append(abs(v) if nonneg else v)
    return out


def float_stress_stream(rng: random.Random, n: int, scale=None) -> list[float]:
    """non-dyadic positives followed by exact zeros, large/small magnitudes (cancellation probes)"""
    k = rng.randint(1, max(1, n - 1))
    scale = scale if scale is not None else rng.choice([1.0, 1e-3, 1e3, 1e-8, 1e8])
    return [rng.choice([0.1, 0.3, 0.7, 1.1, 2.3]) * scale for _ in range(k)] + [0.0] * (n - k)


def stream_for(rng: random.Random, cls: str, n: int) -> list:
    if cls in dets.BINARY_ONLY:
        return bernoulli_stream(rng, n)
    if cls in dets.UNIT_INTERVAL:
        return unit_stream(rng, n)
    if cls == "ADWIN":
        return real_stream(rng, n, nonneg=True)
    return real_stream(rng, n)


def with_resets(rng: random.Random, values: list, p_reset: float = 0.02) -> list[tuple]:
    ops = []
    for v in values:
        ops.append(("u", v))
        if rng.random() < p_reset:
            ops.append(("r",))
    return ops
