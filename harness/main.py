"""Entry point of every registered check:  ./check <id> [--tier quick|thorough] [--replay file]."""
from __future__ import annotations

import argparse
import importlib
import json
import os
import sys
import time
import traceback
from pathlib import Path

sys.path.insert(0, str(Path(__file__).resolve().parent))

import common  # noqa: E402
from common import EVIDENCE, Infra, Outcome, write_replay  # noqa: E402
import audit as audit_mod  # noqa: E402
import findings as findings_mod  # noqa: E402
import branches  # noqa: E402

TRUSTED_BASE = [
    "Lean 4.33.0 kernel; Mathlib v4.33.0 as compiled on this image",
    "axioms: propext, Classical.choice, Quot.sound only (audited with #print axioms); no sorry/admit/native_decide/bv_decide/own axioms",
    "statements of the property theorems in lean/FrourosProofs/Props/ and the registry lean/obligations.json",
    "model fidelity: the hand-written Lean model is validated, not verified, against /repo by this run's correspondence check",
    "Lean compiler + Float runtime for the native model driver; CPython/numpy/scipy semantics of the constructs used",
    "arithmetic theorems are over the reals; IEEE rounding is outside them (control-flow theorems hold for every carrier)",
]


def _kind(what: str) -> str:
    import re
    head, _, tail = what.partition(":")
    return head.strip() + ":" + " ".join(re.sub(r"[-+]?\d[\d.e+-]*", "#", tail).split()[:4])


def shrink(mod, prop: str, seed: int, out: Outcome, v: dict, budget_s: float = 20.0, max_evals: int = 200) -> dict:
    """delta-debugging (ddmin) on the list-valued input of a violation: keep a reduction whenever the same kind of violation is still reported"""
    payload = dict(v["replay"])
    key = next((k for k in mod.SHRINK_KEYS if isinstance(payload.get(k), list) and len(payload[k]) > 1), None)
    if key is None:
        return v
    want = _kind(v["what"])
    t0, evals = time.time(), 0

    def fails(cand: list):
        nonlocal evals
        evals += 1
        o = Outcome(prop, "quick", seed)
        o.findings = {k: f for k, f in getattr(out, "findings", {}).items()}
        try:
            mod.replay(o, {**payload, key: cand})
        except Exception:  # noqa: BLE001
            return None
        for w in o.violations:
            if _kind(w["what"]) == want:
                return w
        return None

    cur, best = list(payload[key]), None
    if fails(cur) is None:
        return v          # not reproducible through replay(): keep the original
    n = 2
    while len(cur) >= 2 and time.time() - t0 < budget_s and evals < max_evals:
        chunk = max(1, len(cur) // n)
        reduced = False
        for i in range(0, len(cur), chunk):
            cand = cur[:i] + cur[i + chunk:]
            if not cand:
                continue
            w = fails(cand)
            if w is not None:
                cur, best, reduced = cand, w, True
                n = max(n - 1, 2)
                break
            if time.time() - t0 > budget_s or evals >= max_evals:
                break
        if not reduced:
            if chunk == 1:
                break
            n = min(len(cur), n * 2)
    if best is None:
        return v
    best["replay"]["shrunk_from_length"] = len(payload[key])
    best["replay"]["shrink_evaluations"] = evals
    return best


def run_guarded(mod, out) -> None:
    """`mod.run(out)`; an exception that the LIBRARY under test raised on an input this harness built as a valid one (some frame of the traceback is inside the repository,
    and the harness had no handler for it because the unchanged tree never raises there) is what the run found - a violation with the traceback as its replay - not a
    failure of the infrastructure.  Exceptions of the harness's own code (no frame in the repository) still end the check with exit 2."""
    try:
        mod.run(out)
    except Infra:
        raise
    except Exception as e:  # noqa: BLE001
        frames = traceback.extract_tb(e.__traceback__)
        repo = str(common.REPO.resolve())
        lib = [f for f in frames if str(Path(f.filename).resolve()).startswith(repo + os.sep)]
        if not lib:
            raise
        where = [f"{Path(f.filename).name}:{f.lineno} {f.name}" for f in frames if "harness" in f.filename][-3:]
        out.violation(f"the library raised {type(e).__name__}: {e} on an input the check builds as a valid one (raised in {Path(lib[-1].filename).name}:{lib[-1].lineno} {lib[-1].name}; "
                      f"check at {' <- '.join(reversed(where))}); the unchanged tree does not raise there",
                      {"kind": "exception-in-library", "exception": type(e).__name__, "message": str(e), "traceback": traceback.format_exception(type(e), e, e.__traceback__)[-12:]})


def main() -> int:
    ap = argparse.ArgumentParser()
    ap.add_argument("prop")
    ap.add_argument("--tier", default=os.environ.get("VERIF_TIER", "quick"), choices=["quick", "thorough"])
    ap.add_argument("--replay", default=None)
    a = ap.parse_args()
    prop = a.prop.upper()
    seed = int(os.environ.get("VERIF_SEED", "0") or 0)
    t0 = time.time()
    out = Outcome(prop, a.tier, seed)
    try:
        mod = importlib.import_module("props." + prop.lower())
        au = audit_mod.audit(prop, force=(a.tier == "thorough"), leanchecker=(a.tier == "thorough"))
        common.ensure_driver()
        known = findings_mod.load()
        out.findings = {k: f for k, f in known.items() if f.prop == prop}
        if a.replay:
            mod.replay(out, json.loads(Path(a.replay).read_text()))
        else:
            # corpus first: minimised inputs that distinguished a past breaking change from the unchanged tree
            cdir = common.VERIF / "corpus" / prop
            if cdir.is_dir() and hasattr(mod, "SHRINK_KEYS"):
                for f in sorted(cdir.glob("*.json")):
                    try:
                        mod.replay(out, json.loads(f.read_text()))
                        out.count("corpus_entries_replayed")
                    except Exception:  # noqa: BLE001
                        out.count("corpus_entries_unreadable")
            run_guarded(mod, out)
            # thorough tier: further rounds of the same exploration with derived seeds (VERIF_ROUNDS, default 3 in the thorough tier, 1 in quick);
            # everything accumulates in the same outcome, a violation ends the rounds
            rounds = int(os.environ.get("VERIF_ROUNDS", "3" if a.tier == "thorough" else "1") or 1)
            for k in range(1, rounds):
                if out.violations or out.mismatches or time.time() - t0 > 1500:
                    break
                out.seed = seed * 7919 + 104729 * k
                run_guarded(mod, out)
                out.count("extra_rounds")
            out.seed = seed
            if getattr(mod, "RULE_ADDENDA", None):
                out.rule += "; also: " + mod.RULE_ADDENDA
            import dets as dets_mod
            domain_rejections = [f for f in dets_mod.FAILED_CONSTRUCTIONS if f[2].startswith("ValueError:") and not (not f[1])]
            if domain_rejections and prop != "C19":
                # a generated configuration REJECTED WITH A ValueError (the library's way of saying "outside the accepted domain"): this property is quantified over accepted
                # configurations, so the case is skipped; whether the rejection agrees with the stated domain is C19's question, and C19 asks it
                out.stats["generated_configurations_rejected_by_the_constructor"] = len(domain_rejections)
                out.notes.append("generated configurations rejected by the constructor with ValueError (skipped here, judged by C19): "
                                 + "; ".join(f"{c}{p_}: {w}" for c, p_, w in domain_rejections[:3]))
            for cls_f, params_f, why_f in [f for f in dets_mod.FAILED_CONSTRUCTIONS if prop == "C19" or f not in domain_rejections][:5]:
                out.violation(f"{cls_f}: a configuration meant to be valid (defaults or generated inside the documented domains) was rejected by the constructor: {why_f}",
                              {"class": cls_f, "params": params_f, "kind": "constructor"})
        # The tie between model and code is broken but the property's own oracle found nothing: search harder for a failing input on the
        # implementation (thorough budget, other seeds) before reporting `no-failing-input-found` (DESIGN §4 step 3).
        if out.mismatches and not out.violations and not a.replay and a.tier == "quick" and not os.environ.get("VERIF_NO_SEARCH"):
            for extra in (1, 2):
                srch = Outcome(prop, "thorough", seed + 1000 * extra)
                srch.findings = out.findings
                try:
                    mod.run(srch)
                except Exception:  # noqa: BLE001
                    break
                out.evaluations += srch.evaluations
                out.nontrivial |= srch.nontrivial
                out.stats["failing_input_search_runs"] = extra
                if srch.violations:
                    out.violations.extend(srch.violations)
                    break
                if time.time() - t0 > 900:
                    break
    except Infra as e:
        print(f"INFRA-FAILURE property={prop}: {e}")
        return 2
    except Exception:  # noqa: BLE001
        traceback.print_exc()
        print(f"INFRA-FAILURE property={prop}: harness exception")
        return 2

    # shrink the first violation's input (ddmin over its stream / operation list) when the module can replay a payload
    if out.violations and not a.replay and hasattr(mod, "SHRINK_KEYS") and not os.environ.get("VERIF_NO_SHRINK"):
        try:
            out.violations[0] = shrink(mod, prop, seed, out, out.violations[0])
        except Exception:  # noqa: BLE001
            pass

    rc = 0
    lines = []
    # proof obligations
    proof_broken = [t for t in au["theorems"] if not t["ok"]] or au.get("forbidden_hits")
    if proof_broken:
        p = write_replay(prop, "proof", {"kind": "proof-obligation", "broken": au["theorems"], "forbidden": au.get("forbidden_hits")})
        lines.append(f"VIOLATION property={prop} replay={p} no-failing-input-found")
        rc = 1
    seen = set()
    for v in out.violations[:40]:
        p = write_replay(prop, "violation", {"kind": "violation", "property": prop, "what": v["what"], **v["replay"]})
        if v["what"] in seen or len(seen) >= 5:
            continue
        seen.add(v["what"])
        lines.append(f"VIOLATION property={prop} replay={p}")
        rc = 1
    if out.mismatches and not out.violations:
        m = out.mismatches[0]
        p = write_replay(prop, "correspondence", {"kind": "correspondence", "property": prop, "what": m["what"],
                                                  "n_mismatches": len(out.mismatches), **m["replay"]})
        lines.append(f"VIOLATION property={prop} replay={p} no-failing-input-found")
        rc = 1
    for k, f in getattr(out, "findings", {}).items():
        if f.hits:
            lines.append(f"KNOWN-FINDING: property={prop} {k} {f.what} (reproduced {f.hits}x this run)")
    wall = time.time() - t0
    ev = {
        "property_id": prop, "tier": a.tier, "seed": seed, "level": getattr(mod, "LEVEL", "proof"),
        "coverage": {
            "obligations": au["obligations"], "discharged": au["discharged"], "checker_cmd": au["checker_cmd"],
            "trusted_base": TRUSTED_BASE + getattr(mod, "TRUSTED_EXTRA", []),
            "theorems": [{"name": t["name"], "axioms": t["axioms"], "ok": t["ok"]} for t in au["theorems"]],
            "audit_cached": au.get("cached", False), "forbidden_token_hits": au.get("forbidden_hits", []),
            "leanchecker": au.get("leanchecker"), "lean_sources_sha256": au.get("key"),
            "evaluations": out.evaluations, "distinct_nontrivial": len(out.nontrivial), "rule": out.rule,
            "samples": out.samples, "traces_validated_against_impl": out.traces_validated,
            "excluded_near_tie": out.excluded_near_tie, "model_impl_mismatches": len(out.mismatches),
            "known_findings_reproduced": {k: f.hits for k, f in getattr(out, "findings", {}).items()},
            "stats": out.stats, "explanation": getattr(mod, "EXPLANATION", ""),
            # which paths of the MODEL's step functions the traces compared with the implementation took (tags: lean/FrourosModel/Branch.lean; universe: harness/branches.py)
            "model_branches": branches.report(out.branches),
        },
        "assumptions": getattr(mod, "ASSUMPTIONS", []) + out.notes,
        "wall_s": round(wall, 2), "violations": len(out.violations) + (1 if (out.mismatches and not out.violations) else 0) + (1 if proof_broken else 0),
    }
    if au["obligations"] == 0:
        # no theorem registered for this property yet: claim only what was measured
        ev["coverage"].pop("obligations"); ev["coverage"].pop("discharged")
    if EVIDENCE is not None:
        EVIDENCE.mkdir(exist_ok=True)
        (EVIDENCE / f"{prop}.json").write_text(json.dumps(ev, indent=1, default=str))
    for l in lines:
        print(l)
    print(f"{prop} tier={a.tier} seed={seed} evaluations={out.evaluations} nontrivial={len(out.nontrivial)} "
          f"mismatches={len(out.mismatches)} violations={len(out.violations)} theorems={au['discharged']}/{au['obligations']} "
          f"wall={wall:.1f}s rc={rc}")
    return rc


if __name__ == "__main__":
    sys.exit(main())
