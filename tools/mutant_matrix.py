#!/usr/bin/env python3
"""Apply every seeded change to /repo in turn, run ALL checks (quick tier) against it, undo it; write seeded/matrix.json.
/repo must be clean and nothing else may use it while this runs."""
import json, subprocess, sys, os
from concurrent.futures import ThreadPoolExecutor
from pathlib import Path
V = Path('/verif')
props = [f"C{i:02d}" for i in range(1, 21)]
seed = os.environ.get("VERIF_SEED", "5")
def run(p):
    r = subprocess.run(["./check", p], cwd=V, capture_output=True, text=True, env={**os.environ, "VERIF_SEED": seed})
    out = r.stdout
    kind = "none"
    if r.returncode == 1:
        kind = "violation-with-input" if any(l.startswith("VIOLATION") and "no-failing-input-found" not in l for l in out.splitlines()) else "no-failing-input-found"
    elif r.returncode != 0:
        kind = "infra"
    return p, r.returncode, kind
assert not subprocess.run(["git", "-C", "/repo", "status", "--short"], capture_output=True, text=True).stdout.strip(), "/repo not clean"
only = sys.argv[1:]
matrix = json.loads((V / "seeded" / "matrix.json").read_text()) if (V / "seeded" / "matrix.json").exists() else {}
for d in sorted((V / "seeded").iterdir()):
    if not d.is_dir() or (only and d.name not in only):
        continue
    subprocess.run(["git", "-C", "/repo", "apply", str(d / "patch.diff")], check=True)
    try:
        with ThreadPoolExecutor(8) as ex:
            res = list(ex.map(run, props))
    finally:
        subprocess.run(["git", "-C", "/repo", "checkout", "--", "."], check=True)
    own = [x for x in d.name.split("-") if x.startswith("C")][0]
    caught = {p: k for p, rc, k in res if rc == 1}
    matrix[d.name] = {"own_property": own, "caught_by": caught, "own_check": caught.get(own, "MISSED"), "seed": seed,
                      "infra": [p for p, rc, k in res if rc not in (0, 1)]}
    print(d.name, "own:", caught.get(own, "MISSED"), "| others:", ",".join(p for p in caught if p != own), "| infra:", matrix[d.name]["infra"], flush=True)
    (V / "seeded" / "matrix.json").write_text(json.dumps(matrix, indent=1))
