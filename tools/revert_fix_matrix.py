#!/usr/bin/env python3
"""For every `fixed:` entry of known_findings.txt: re-introduce the defect (reverse-apply the fix commit) in a scratch worktree of /repo, run the check of the
property it is filed under (plus the ones named '(also Cxx)'), undo.  A repaired defect that returns must be reported again."""
import json, os, re, subprocess
from pathlib import Path
V = Path('/verif')
WT = "/tmp/revfix-wt"      # scratch worktree: /repo itself is never touched; the checks read it through FROUROS_REPO
subprocess.run(["git", "-C", "/repo", "worktree", "remove", "--force", WT], capture_output=True)
subprocess.run(["git", "-C", "/repo", "worktree", "add", "--detach", WT, "HEAD", "-q"], check=True)
res = {}
for line in (V / "known_findings.txt").read_text().splitlines():
    m = re.match(r"fixed: property=(C\d+) ([0-9a-f]{7}) (.*)", line)
    if not m:
        continue
    prop, commit, what = m.groups()
    props = [prop] + re.findall(r"also (C\d+)", what)
    diff = subprocess.run(["git", "-C", "/repo", "diff", commit, commit + "^"], capture_output=True, text=True).stdout
    p = subprocess.run(["git", "-C", WT, "apply", "-"], input=diff, capture_output=True, text=True)
    if p.returncode:        # a later fix touches neighbouring lines: three-way merge of the reverse patch
        p = subprocess.run(["git", "-C", WT, "apply", "--3way", "-"], input=diff, capture_output=True, text=True)
    if p.returncode:
        res[commit] = {"props": props, "result": "reverse patch does not apply (later fix touches the same lines)", "what": what}
        print(commit, res[commit]["result"]); continue
    try:
        out = {}
        for q in props:
            r = subprocess.run(["./check", q], cwd=V, capture_output=True, text=True, env={**os.environ, "FROUROS_REPO": WT, "VERIF_SEED": os.environ.get("VERIF_SEED", "4")})
            kind = "not reported" if r.returncode == 0 else ("infra" if r.returncode != 1 else ("violation-with-input" if any(l.startswith("VIOLATION") and "no-failing-input-found" not in l for l in r.stdout.splitlines()) else "no-failing-input-found"))
            out[q] = kind
    finally:
        subprocess.run(["git", "-C", WT, "checkout", "--", "."], check=True)
    res[commit] = {"props": out, "what": what}
    print(commit, out, what[:70], flush=True)
(V / "seeded" / "reverted_fixes.json").write_text(json.dumps(res, indent=1))
subprocess.run(["git", "-C", "/repo", "worktree", "remove", "--force", WT], capture_output=True)
subprocess.run(["git", "-C", "/repo", "worktree", "prune"], capture_output=True)
