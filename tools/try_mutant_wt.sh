#!/bin/sh
# usage: tools/try_mutant_wt.sh <patch.diff> <prop> [more props...]
# like try_mutant.sh but never touches /repo: the patch is applied to a scratch worktree (/tmp/mm-$$) and the checks read it through FROUROS_REPO
patch="$1"; shift
wt=/tmp/mm-$$
git -C /repo worktree add --detach "$wt" HEAD -q || exit 2
trap 'git -C /repo worktree remove --force "$wt" >/dev/null 2>&1; git -C /repo worktree prune' EXIT
git -C "$wt" apply "$patch" || { echo "patch does not apply"; exit 2; }
for p in "$@"; do
  (cd /verif && FROUROS_REPO="$wt" VERIF_SEED=${VERIF_SEED:-3} ./check "$p" 2>&1 | grep -E "VIOLATION|rc=|INFRA" | cut -c1-200 | tail -2)
done
