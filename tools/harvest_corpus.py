#!/usr/bin/env python3
"""For every seeded change whose own check can replay payloads: apply it to /repo, run the check, store the first (shrunk) violation replay as
corpus/<prop>/<change>.json, undo.  Afterwards every corpus entry is replayed on the clean tree and must be silent (else it is deleted)."""
import json, os, re, subprocess, sys
from pathlib import Path
V = Path('/verif')
REPLAYABLE = {"C01", "C03", "C04", "C05", "C06", "C07", "C08"}
assert not subprocess.run(["git", "-C", "/repo", "status", "--short"], capture_output=True, text=True).stdout.strip(), "/repo not clean"
env = {**os.environ, "VERIF_NO_SEARCH": "1", "VERIF_SEED": os.environ.get("VERIF_SEED", "6")}
for d in sorted((V / "seeded").iterdir()):
    if not d.is_dir():
        continue
    prop = [x for x in d.name.split("-") if x.startswith("C")][0]
    if prop not in REPLAYABLE:
        continue
    subprocess.run(["git", "-C", "/repo", "apply", str(d / "patch.diff")], check=True)
    try:
        r = subprocess.run(["./check", prop], cwd=V, capture_output=True, text=True, env=env)
    finally:
        subprocess.run(["git", "-C", "/repo", "checkout", "--", "."], check=True)
    m = re.search(r"VIOLATION property=\S+ replay=(\S+violation\S+)", r.stdout)
    if not m:
        print(d.name, "no violation replay"); continue
    payload = json.loads(Path(m.group(1)).read_text())
    (V / "corpus" / prop).mkdir(parents=True, exist_ok=True)
    payload["found_with_seeded_change"] = d.name
    (V / "corpus" / prop / f"{d.name}.json").write_text(json.dumps(payload))
    print(d.name, "->", payload.get("what", "")[:90])
# clean-tree validation of the corpus
for f in sorted((V / "corpus").glob("C*/*.json")):
    prop = f.parent.name
    r = subprocess.run(["./check", prop, "--replay", str(f)], cwd=V, capture_output=True, text=True, env=env)
    if r.returncode != 0:
        print("corpus entry not silent on the clean tree, removed:", f, r.stdout[-200:]); f.unlink()
