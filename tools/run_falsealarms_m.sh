#!/bin/sh
# tools/run_falsealarms_m.sh : re-run the property-preserving changes of the fourth false-alarm hunt (seeded/falsealarms/m-*.diff) against the check each of them once made cry
# (scratch worktrees, FROUROS_REPO); prints what each check does with it now
cd /verif
while read name props; do
  f=seeded/falsealarms/$name.diff
  [ -f "$f" ] || continue
  for p in $props; do
    r=$(VERIF_NO_SEARCH=1 VERIF_NO_SHRINK=1 VERIF_SEED=${VERIF_SEED:-3} tools/try_mutant_wt.sh /verif/$f $p 2>&1 | tr '\n' ' ')
    case "$r" in
      *INFRA*) k="exit 2";;
      *no-failing-input-found*) k="correspondence (no-failing-input-found)";;
      *VIOLATION*) k="VIOLATION with input";;
      *rc=0*) k="silent";;
      *) k="?";;
    esac
    echo "$name $p: $k"
  done
done <<'LIST'
m-A-fa-1 C01 C03
m-A-fa-2 C05
m-A-fa-3 C05
m-A-fa-4 C03 C01
m-A-fa-5 C04
m-A-fa-6 C02
m-B-fa-1 C09
m-B-fa-2 C10
m-B-fa-3 C10
m-B-fa-4 C10
m-C-fa-1 C15
m-C-fa-2 C14
m-C-fa-3 C11
m-C-fa-4 C15
m-C-fa-5 C12
m-D-fa-1 C20
m-D-fa-1b C20
m-D-fa-2 C20
m-D-fa-3 C20
m-D-fa-4 C20
m-D-fa-5 C07 C16
m-D-fa-6 C18
m-D-fa-7 C17
m-D-fa-8 C19
m-D-fa-9 C19
m-D-fa-10 C16
LIST
