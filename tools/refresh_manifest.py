#!/usr/bin/env python3
"""tools/refresh_manifest.py: rewrite the leading theorem count of every check's level text in MANIFEST.json from lean/obligations.json
(the texts themselves are edited by hand)."""
import json, re
from pathlib import Path
V = Path('/verif')
ob = json.loads((V / 'lean' / 'obligations.json').read_text())
m = json.loads((V / 'MANIFEST.json').read_text())
for c in m['checks']:
    n = len(ob.get(c['property_id'], {}).get('theorems', []))
    t = c['level_claimed']['text']
    c['level_claimed']['text'] = re.sub(r"^\d+ kernel-checked Lean theorems", f"{n} kernel-checked Lean theorems", t)
(V / 'MANIFEST.json').write_text(json.dumps(m, indent=1, ensure_ascii=False) + "\n")
print({c['property_id']: len(ob.get(c['property_id'], {}).get('theorems', [])) for c in m['checks']})
