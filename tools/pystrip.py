#!/usr/bin/env python3
"""Print python files without docstrings/blank lines, with original line numbers (reading aid)."""
import ast, sys
def strip(src):
    out=[]
    tree=ast.parse(src)
    lines=src.split('\n')
    kill=set()
    for node in ast.walk(tree):
        if isinstance(node,(ast.FunctionDef,ast.ClassDef,ast.Module,ast.AsyncFunctionDef)):
            b=node.body
            if b and isinstance(b[0],ast.Expr) and isinstance(getattr(b[0],'value',None),ast.Constant) and isinstance(b[0].value.value,str):
                for i in range(b[0].lineno,b[0].end_lineno+1): kill.add(i)
    for i,l in enumerate(lines,1):
        if i in kill or l.strip()=='' or l.strip().startswith('#'): continue
        out.append(f"{i:4d} {l}")
    return '\n'.join(out)
for f in sys.argv[1:]:
    print('#####',f); print(strip(open(f).read()))
