#!/usr/bin/env python3
"""tools/branch_coverage.py: union, over the evidence files of the last run of every check, of the MODEL branch tags (lean/FrourosModel/Branch.lean) that the traces compared with the
implementation took; per class: hit / universe and the tags of the universe (harness/branches.py, a syntactic product: some are unreachable) that no check's traces took."""
import glob, json, sys
sys.path.insert(0, "/verif/harness")
import branches
hit = {}
for f in sorted(glob.glob("/verif/evidence/C*.json")):
    for cls, e in json.load(open(f))["coverage"].get("model_branches", {}).items():
        for t, c in e["hit"].items():
            hit.setdefault(cls, {})[t] = hit.get(cls, {}).get(t, 0) + c
for cls in sorted(branches.UNIVERSE):
    u, h = branches.UNIVERSE[cls], hit.get(cls, {})
    un = [t for t in u if t not in h]
    print(f"{cls}: {len(u) - len(un)}/{len(u)} updates={sum(h.values())} unhit={un}")
