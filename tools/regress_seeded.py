#!/usr/bin/env python3
"""tools/regress_seeded.py [name-prefix ...]: re-run EVERY stored breaking change (seeded/Cxx-k/patch.diff, seeded/redteam/*.diff) against the check(s) of the
property it breaks, each on its own scratch worktree of /repo (FROUROS_REPO; /repo itself is never touched), several at a time; evidence of these runs goes to a
scratch directory.  Prints one line per change and writes seeded/regress.json.  A change whose own check exits 0 is a REGRESSION of the machinery."""
import json, os, subprocess, sys, shutil
from concurrent.futures import ThreadPoolExecutor
from pathlib import Path
V = Path("/verif")
OWN5 = {"k-evasive1": ["C05"], "k-evasive2": ["C08"], "l-evasive1": ["C19"], "l-evasive2": ["C19"], "l-evasive3": ["C15"], "l-evasive4": ["C12"], "l-evasive5": ["C20"], "l-evasive6": ["C09", "C14"], "l-evasive7": ["C15"], "l-evasive8": ["C18"],
        "t-evasive4": ["C19"], "t-evasive1": ["C06"], "t-evasive2": ["C06"], "t-evasive3": ["C06"],
        "i-evasive1": ["C07"], "i-evasive2": ["C06"], "i-evasive3": ["C02"], "j-evasive1": ["C20"], "j-evasive2": ["C20"], "j-evasive3": ["C20"], "j-evasive4": ["C09"],
        "j-evasive5": ["C13"], "j-evasive6": ["C20"], "j-evasive7": ["C19"], "j-evasive8": ["C13"], "j-evasive9": ["C20"], "j-evasive10": ["C15"], "j-evasive11": ["C11"]}
OWN_OVERRIDE = {"r2-C08-1": ["C16"]}       # BOCD aliasing its configuration's model at construction: an isolation defect, reported by C16 (DESIGN 11.7)
OUT_OF_SCOPE = {"e-evasive4", "e-evasive5", "f-evasive13"}
jobs = []
old = json.loads((V / "seeded/redteam/matrix.json").read_text())
for d in sorted((V / "seeded").iterdir()):
    if d.is_dir() and (d / "patch.diff").exists():
        jobs.append((d.name, d / "patch.diff", OWN_OVERRIDE.get(d.name) or [x for x in d.name.split("-") if x.startswith("C")][:1]))
for f in sorted((V / "seeded/redteam").glob("*.diff")):
    name = f.stem
    if name in OUT_OF_SCOPE:
        continue
    key = name.replace("-evasive", "")
    props = OWN5.get(name) or [p for p, r in old.get(key, {}).items() if isinstance(r, dict) and r.get("rc") == 1][:2]
    if props:
        jobs.append((name, f, props))
    else:
        print("no recorded property for", name)
only = sys.argv[1:]
jobs = [j for j in jobs if not only or any(j[0].startswith(o) for o in only)]
seed = os.environ.get("VERIF_SEED", "3")

def run(job):
    k, (name, diff, props) = job
    wt, ev = f"/tmp/rg-{os.getpid()}-{k}", f"/tmp/rg-ev-{os.getpid()}-{k}"
    subprocess.run(["git", "-C", "/repo", "worktree", "add", "--detach", wt, "HEAD", "-q"], check=True)
    res = {}
    try:
        if subprocess.run(["git", "-C", wt, "apply", str(diff)]).returncode != 0:
            return name, {"error": "does not apply"}
        for p in props:
            r = subprocess.run(["./check", p], cwd=V, capture_output=True, text=True,
                               env={**os.environ, "FROUROS_REPO": wt, "VERIF_SEED": seed, "VERIF_NO_SEARCH": "1", "VERIF_NO_SHRINK": "1", "VERIF_EVIDENCE_DIR": ev})
            kind = "silent"
            if r.returncode == 1:
                kind = "violation-with-input" if any(l.startswith("VIOLATION") and "no-failing-input-found" not in l for l in r.stdout.splitlines()) else "no-failing-input-found"
            elif r.returncode != 0:
                kind = "infra"
            res[p] = kind
    finally:
        subprocess.run(["git", "-C", "/repo", "worktree", "remove", "--force", wt], capture_output=True)
        shutil.rmtree(ev, ignore_errors=True)
    print(name, res, flush=True)
    return name, res

with ThreadPoolExecutor(int(os.environ.get("JOBS", "5"))) as ex:
    results = dict(ex.map(run, enumerate(jobs)))
subprocess.run(["git", "-C", "/repo", "worktree", "prune"])
prev = json.loads((V / "seeded/regress.json").read_text()).get("results", {}) if only and (V / "seeded/regress.json").exists() else {}
(V / "seeded/regress.json").write_text(json.dumps({"seed": seed, "results": {**prev, **results}}, indent=1, sort_keys=True))
missed = [n for n, r in results.items() if not any(v in ("violation-with-input", "no-failing-input-found") for v in r.values())]
print("MISSED:", missed)
