#!/usr/bin/env python3
"""tools/register.py <prop> <Props file> <theorem> [...]: append `#print axioms` lines for the named theorems (namespace of the
file assumed) to a Props file edited in place and register them under <prop> in lean/obligations.json."""
import json, re, sys
from pathlib import Path
prop, f, names = sys.argv[1], Path(sys.argv[2]), sys.argv[3:]
text = f.read_text()
ns = re.findall(r"^namespace\s+(\S+)", text, re.M)[0]
full = [n if n.startswith("Frouros.") else f"{ns}.{n}" for n in names]
add = [n for n in full if f"#print axioms {n}\n" not in text + "\n"]
if add:
    f.write_text(text.rstrip("\n") + "\n" + "".join(f"#print axioms {n}\n" for n in add))
ob_path = Path("/verif/lean/obligations.json")
ob = json.loads(ob_path.read_text())
e = ob.setdefault(prop, {"modules": [], "theorems": []})
mod = "FrourosProofs." + ".".join(f.resolve().relative_to("/verif/lean/FrourosProofs").with_suffix("").parts)
if mod not in e["modules"]:
    e["modules"].append(mod)
have = {t["name"] for t in e["theorems"]}
for n in full:
    if n not in have:
        e["theorems"].append({"name": n, "strength": "partial" if n.endswith("_partial") else ("witness" if n.endswith("_witness") else "full")})
ob_path.write_text(json.dumps(ob, indent=1))
print(prop, "now has", len(e["theorems"]), "theorems")
