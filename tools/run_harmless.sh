#!/bin/sh
# usage: tools/run_harmless.sh <refactoring.diff>...   -- negative controls: apply each behaviour-preserving diff to a scratch worktree of /repo and run ALL 20 checks
# against it (FROUROS_REPO); prints every check that does not exit 0 (there should be none).  e.g. tools/run_harmless.sh seeded/harmless/*.diff seeded/harmless2/*.diff
for f in "$@"; do
  f=$(readlink -f "$f")
  wt=/tmp/hm-$$
  git -C /repo worktree add --detach $wt HEAD -q || exit 2
  git -C $wt apply "$f" || { echo "$f does not apply"; git -C /repo worktree remove --force $wt; continue; }
  for i in 01 02 03 04 05 06 07 08 09 10 11 12 13 14 15 16 17 18 19 20; do echo C$i; done | xargs -P 8 -I{} sh -c "cd /verif && FROUROS_REPO=$wt VERIF_NO_SEARCH=1 VERIF_SEED=${VERIF_SEED:-4} ./check {} > /tmp/hm_$$_{}.log 2>&1; rc=\$?; [ \$rc -ne 0 ] && { echo \"$(basename $f) {} rc=\$rc\"; grep -E 'VIOLATION|INFRA' /tmp/hm_$$_{}.log | head -2 | cut -c1-200; }; rm -f /tmp/hm_$$_{}.log"
  git -C /repo worktree remove --force $wt
  echo "done $(basename $f)"
done
git -C /repo worktree prune
