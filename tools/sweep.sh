#!/bin/sh
# tools/sweep.sh "<seeds>" [tier] : run every check for each seed on the current tree; print the summary line of every run that did not exit 0
cd /verif
tier=${2:-quick}
for s in $1; do
  for i in 01 02 03 04 05 06 07 08 09 10 11 12 13 14 15 16 17 18 19 20; do echo "$s C$i"; done
done | xargs -P 6 -L 1 sh -c 'VERIF_SEED=$0 ./check $1 --tier '"$tier"' > /tmp/sweep_$0_$1.log 2>&1; rc=$?; [ $rc -ne 0 ] && { echo "rc=$rc seed=$0 $1"; grep -E "VIOLATION|INFRA|Traceback" /tmp/sweep_$0_$1.log | head -3; }; rm -f /tmp/sweep_$0_$1.log'
echo sweep-done
