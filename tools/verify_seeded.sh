#!/bin/sh
# tools/verify_seeded.sh Cxx : verify both seeded changes of property Cxx in its scratch worktree /tmp/wt/Cxx
P="$1"; W=/tmp/wt/$P; O=/tmp/wt/$P-out; R=/tmp/wt/$P-verify.txt
: > "$R"
cd "$W" || exit 2
git checkout -q -- . 
for k in 1 2; do
  [ -f "$O/patch$k.diff" ] || { echo "$P $k: no patch" >> "$R"; continue; }
  PYTHONPATH=$W /venv/bin/python "$O/demo$k.py" > /dev/null 2>&1; clean_rc=$?
  git apply "$O/patch$k.diff" || { echo "$P $k: patch does not apply" >> "$R"; continue; }
  /venv/bin/python -m pytest -q -p no:cacheprovider --timeout=900 --junitxml=/tmp/wt/$P-junit$k.xml > /dev/null 2>&1
  npass=$(python3 - "$k" "$P" <<'PY'
import json, sys, xml.etree.ElementTree as ET
k, P = sys.argv[1], sys.argv[2]
base = set(json.load(open('/root/.vp/BASELINE.json'))['stable_pass'])
ok = set()
for tc in ET.parse(f'/tmp/wt/{P}-junit{k}.xml').iter('testcase'):
    if not any(c.tag in ('failure', 'error', 'skipped') for c in tc):
        ok.add(tc.get('classname') + '::' + tc.get('name'))
print(len(base & ok), len(base - ok))
PY
)
  PYTHONPATH=$W /venv/bin/python "$O/demo$k.py" > /dev/null 2>&1; mut_rc=$?
  git checkout -q -- .
  echo "$P $k: baseline_pass/missing=$npass demo_clean_rc=$clean_rc demo_mutant_rc=$mut_rc" >> "$R"
  rm -f /tmp/wt/$P-junit$k.xml
done
cat "$R"
