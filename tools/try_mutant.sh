#!/bin/sh
# usage: tools/try_mutant.sh <patch.diff> <prop> [more props...]   -- applies the patch to /repo, runs the checks, reverts
patch="$1"; shift
cd /repo || exit 2
[ -z "$(git status --porcelain)" ] || { echo "/repo is not clean: commit or stash first"; exit 2; }
git apply "$patch" || { echo "patch does not apply"; exit 2; }
for p in "$@"; do
  (cd /verif && VERIF_SEED=${VERIF_SEED:-3} ./check "$p" 2>&1 | grep -E "VIOLATION|KNOWN|rc=|INFRA" | cut -c1-260)
done
git -C /repo checkout -- .
git -C /repo status --short | head -3
