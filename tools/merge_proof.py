#!/usr/bin/env python3
"""tools/merge_proof.py <sandbox id> <prop> [file ...]: copy proof files from /tmp/proofs/<id>/lean/FrourosProofs into
/verif/lean/FrourosProofs, build, and register the theorems named in `#print axioms` lines under <prop> in obligations.json."""
import json, re, shutil, subprocess, sys
from pathlib import Path
sid, prop = sys.argv[1], sys.argv[2]
src = Path(f"/tmp/proofs/{sid}/lean/FrourosProofs")
dst = Path("/verif/lean/FrourosProofs")
files = [Path(f) for f in sys.argv[3:]] or [p.relative_to(src) for p in src.rglob("*.lean")
                                            if not (dst / p.relative_to(src)).exists() or (dst / p.relative_to(src)).read_text() != p.read_text()]
# existing model files must be untouched; NEW model files (allowed for some tasks) are copied over
r = subprocess.run(["diff", "-rq", f"/tmp/proofs/{sid}/lean/FrourosModel", "/verif/lean/FrourosModel"], capture_output=True, text=True)
for line in r.stdout.strip().splitlines():
    m = re.match(r"Only in /tmp/proofs/[^/]+/lean/FrourosModel: (\S+\.lean)", line)
    if m:
        shutil.copy(f"/tmp/proofs/{sid}/lean/FrourosModel/{m.group(1)}", f"/verif/lean/FrourosModel/{m.group(1)}")
        print("copied NEW model file", m.group(1))
    else:
        print("MODEL DIFFERS:", line)
mods, names = [], []
for f in files:
    (dst / f).parent.mkdir(parents=True, exist_ok=True)
    shutil.copy(src / f, dst / f)
    print("copied", f)
    if f.parts[0] == "Props":
        mods.append("FrourosProofs." + ".".join(f.with_suffix("").parts))
        text = (src / f).read_text()
        ns = re.findall(r"^namespace\s+(\S+)", text, re.M)
        for n in re.findall(r"^#print axioms\s+(\S+)", text, re.M):
            names.append(n if n.startswith("Frouros.") else (ns[0] + "." + n if ns else n))
r = subprocess.run(["lake", "build"] + mods, cwd="/verif/lean", capture_output=True, text=True)
print((r.stdout + r.stderr)[-1500:] if r.returncode else "build ok")
ob_path = Path("/verif/lean/obligations.json")
ob = json.loads(ob_path.read_text())
e = ob.setdefault(prop, {"modules": [], "theorems": []})
for m in mods:
    if m not in e["modules"]:
        e["modules"].append(m)
have = {t["name"] for t in e["theorems"]}
for n in names:
    if n not in have:
        e["theorems"].append({"name": n, "strength": "partial" if n.endswith("_partial") else ("witness" if n.endswith("_witness") else "full")})
ob_path.write_text(json.dumps(ob, indent=1))
print(prop, "now has", len(e["theorems"]), "theorems")
