#!/bin/sh
# tools/verify_round.sh <dir> <Cxx> : verify the seeded changes <dir>/<Cxx>-out/patch{1,2}.diff in the scratch worktree <dir>/<Cxx>:
# the patch applies to a clean checkout, the demonstration passes without it and fails with it, every baseline test still passes with it
D="$1"; P="$2"; W=$D/$P; O=$D/$P-out; R=$D/$P-verify.txt
: > "$R"
cd "$W" || exit 2
git checkout -q -- .
for k in 1 2; do
  [ -f "$O/patch$k.diff" ] || { echo "$P $k: no patch" >> "$R"; continue; }
  (cd "$O" && PYTHONPATH=$W timeout 300 /venv/bin/python "$O/demo$k.py" > /dev/null 2>&1); clean_rc=$?
  git apply "$O/patch$k.diff" || { echo "$P $k: patch does not apply" >> "$R"; continue; }
  /venv/bin/python -m pytest -q -p no:cacheprovider --timeout=900 --continue-on-collection-errors --junitxml=$D/$P-junit$k.xml > /dev/null 2>&1
  npass=$(python3 - "$k" "$P" "$D" <<'PY'
import json, sys, xml.etree.ElementTree as ET
k, P, D = sys.argv[1], sys.argv[2], sys.argv[3]
base = set(json.load(open('/root/.vp/BASELINE.json'))['stable_pass'])
ok = set()
for tc in ET.parse(f'{D}/{P}-junit{k}.xml').iter('testcase'):
    if not any(c.tag in ('failure', 'error', 'skipped') for c in tc):
        ok.add(tc.get('classname') + '::' + tc.get('name'))
print(len(base & ok), len(base - ok))
PY
)
  (cd "$O" && PYTHONPATH=$W timeout 300 /venv/bin/python "$O/demo$k.py" > /dev/null 2>&1); mut_rc=$?
  git checkout -q -- .
  echo "$P $k: baseline_pass/missing=$npass demo_clean_rc=$clean_rc demo_mutant_rc=$mut_rc files=$(grep -c '^diff --git' $O/patch$k.diff)" >> "$R"
  rm -f $D/$P-junit$k.xml
done
cat "$R"
