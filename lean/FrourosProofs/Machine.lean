/-
  Generic operational semantics shared by the property theorems: a detector is a machine with
  `init`, `step`, `reset`; a history is a list of operations; `run` folds it from `init`.
-/
namespace Frouros

inductive Op (V : Type) where
  | update (v : V)
  | reset

structure Machine (S V : Type) where
  init : S
  step : S → V → S
  reset : S → S

namespace Machine
variable {S V : Type} (M : Machine S V)

def apply (s : S) : Op V → S
  | .update v => M.step s v
  | .reset => M.reset s

/-- state after a history started from `s` -/
def runFrom (s : S) (ops : List (Op V)) : S := ops.foldl M.apply s
def run (ops : List (Op V)) : S := M.runFrom M.init ops

/-- states reachable from `init` by any history -/
inductive Reachable : S → Prop where
  | init : Reachable M.init
  | step {s} (v : V) : Reachable s → Reachable (M.step s v)
  | reset {s} : Reachable s → Reachable (M.reset s)

theorem reachable_runFrom {s : S} (h : M.Reachable s) (ops : List (Op V)) : M.Reachable (M.runFrom s ops) := by
  induction ops generalizing s with
  | nil => exact h
  | cons op ops ih =>
    cases op with
    | update v => exact ih (Reachable.step v h)
    | reset => exact ih (Reachable.reset h)

theorem reachable_run (ops : List (Op V)) : M.Reachable (M.run ops) := M.reachable_runFrom Reachable.init ops

theorem reachable_iff_run (s : S) : M.Reachable s ↔ ∃ ops, M.run ops = s := by
  constructor
  · intro h
    induction h with
    | init => exact ⟨[], rfl⟩
    | step v _ ih =>
      obtain ⟨ops, rfl⟩ := ih
      exact ⟨ops ++ [.update v], by simp [run, runFrom, List.foldl_append, apply]⟩
    | reset _ ih =>
      obtain ⟨ops, rfl⟩ := ih
      exact ⟨ops ++ [.reset], by simp [run, runFrom, List.foldl_append, apply]⟩
  · rintro ⟨ops, rfl⟩; exact M.reachable_run ops

/-- an invariant that holds initially and is preserved by `step` and `reset` holds in every reachable state -/
theorem invariant {P : S → Prop} (h0 : P M.init) (hs : ∀ s v, P s → P (M.step s v)) (hr : ∀ s, P s → P (M.reset s))
    {s : S} (h : M.Reachable s) : P s := by
  induction h with
  | init => exact h0
  | step v _ ih => exact hs _ v ih
  | reset _ ih => exact hr _ ih

/-- If `reset` of any reachable state is `init`, then what happens after a reset does not depend on
what happened before it: the run `pre ++ [reset] ++ post` ends in the same state as `post` alone,
and so does every prefix of `post` (take `post := post.take k`). -/
theorem run_after_reset (hreset : ∀ s, M.Reachable s → M.reset s = M.init)
    (pre post : List (Op V)) : M.run (pre ++ [.reset] ++ post) = M.run post := by
  have h1 : M.runFrom M.init (pre ++ [Op.reset]) = M.init := by
    simp only [runFrom, List.foldl_append, List.foldl_cons, List.foldl_nil, apply]
    exact hreset _ (M.reachable_run pre)
  simp only [run, runFrom, List.foldl_append] at h1 ⊢
  rw [h1]

end Machine
end Frouros
