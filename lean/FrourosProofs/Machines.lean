/- The detector models packaged as `Machine`s (for every carrier). -/
import FrourosModel.SPC
import FrourosModel.Window
import FrourosModel.Change
import FrourosProofs.Machine
namespace Frouros
variable {α : Type} [Num α]

def DDM.machine (c : DDM.Cfg α) : Machine (DDM.State α) α := ⟨DDM.init, DDM.step c, DDM.reset⟩
def RDDM.machine (c : RDDM.Cfg α) : Machine (RDDM.State α) α := ⟨RDDM.init c, RDDM.step c, RDDM.reset⟩
def EDDM.machine (c : EDDM.Cfg α) : Machine (EDDM.State α) α := ⟨EDDM.init, EDDM.step c, EDDM.reset⟩
def ECDD.machine (c : ECDD.Cfg α) : Machine (ECDD.State α) α := ⟨ECDD.init c, ECDD.step c, ECDD.reset c⟩
def HDDMA.machine (c : HDDMA.Cfg α) : Machine (HDDMA.State α) α := ⟨HDDMA.init, HDDMA.step c, HDDMA.reset⟩
def HDDMW.machine (c : HDDMW.Cfg α) : Machine (HDDMW.State α) α := ⟨HDDMW.init c, HDDMW.step c, HDDMW.reset c⟩
def ADWIN.machine (c : ADWIN.Cfg α) : Machine (ADWIN.State α) α := ⟨ADWIN.init, ADWIN.step c, ADWIN.reset⟩
/-- KSWIN consumes a value together with the indices drawn by `np.random.choice` -/
def KSWIN.machine (ksP : List α → List α → α) (c : KSWIN.Cfg α) : Machine (KSWIN.State α) (α × List Nat) :=
  ⟨KSWIN.init, fun s vt => KSWIN.step ksP c s vt.1 vt.2, KSWIN.reset⟩
def STEPD.machine (sf : α → α) (c : STEPD.Cfg α) : Machine STEPD.State Bool :=
  ⟨STEPD.init c, STEPD.step sf c, STEPD.reset⟩
def CUSUMFam.machine (c : CUSUMFam.Cfg α) : Machine (CUSUMFam.State α) α := ⟨CUSUMFam.init, CUSUMFam.step c, CUSUMFam.reset⟩
def BOCD.machine (f : BOCD.Fns α) (c : BOCD.Cfg α) : Machine (BOCD.State α) α := ⟨BOCD.init c, BOCD.step f c, BOCD.reset c⟩
end Frouros
