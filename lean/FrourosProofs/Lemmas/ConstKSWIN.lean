/- Constant streams: KSWIN. -/
import FrourosProofs.Lemmas.ConstCommon

namespace Frouros.C01c
open Frouros
namespace Kswin
open KSWIN

/-- `deque(maxlen = cap).append` on a constant window -/
theorem push_replicate (cap m : Nat) (x : ℝ) :
    push cap (List.replicate m x) x = List.replicate (min (m + 1) cap) x := by
  unfold push
  have : List.replicate m x ++ [x] = List.replicate (m + 1) x := by
    rw [List.replicate_succ']
  simp only [this, List.length_replicate, List.drop_replicate]
  split
  · congr 1; omega
  · congr 1; omega

/-- the indices drawn by `np.random.choice(len(older), num_test)`: `numTest` of them, all in range
(so that `older[i]` is a genuine window element, not the `getD` default) -/
def TapeOk (cfg : Cfg ℝ) (tape : List Nat) : Prop :=
  tape.length = cfg.numTest ∧ ∀ i ∈ tape, i < cfg.minN - cfg.numTest

theorem sample_replicate (k : Nat) (x : ℝ) (tape : List Nat) (h : ∀ i ∈ tape, i < k) :
    tape.map (fun i => (List.replicate k x).getD i Num.zero) = List.replicate tape.length x := by
  induction tape with
  | nil => rfl
  | cons i t ih =>
    have hi : i < k := h i List.mem_cons_self
    simp only [List.map_cons, List.length_cons, List.replicate_succ]
    rw [ih (fun j hj => h j (List.mem_cons_of_mem _ hj))]
    congr 1
    simp [List.getD_eq_getElem?_getD, hi]

/-- the window holds `min n minN` copies of `x` -/
def WInv (cfg : Cfg ℝ) (x : ℝ) (s : State ℝ) : Prop := s.window = List.replicate (min s.n cfg.minN) x

structure Inv (cfg : Cfg ℝ) (x : ℝ) (s : State ℝ) : Prop where
  window : WInv cfg x s
  drift : s.drift = false

theorem winv_init (cfg : Cfg ℝ) (x : ℝ) : WInv cfg x (init : State ℝ) := by simp [WInv, init]
theorem winv_reset (cfg : Cfg ℝ) (x : ℝ) (s : State ℝ) : WInv cfg x (reset s) := by simp [WInv, reset]
theorem inv_init (cfg : Cfg ℝ) (x : ℝ) : Inv cfg x (init : State ℝ) := ⟨winv_init cfg x, rfl⟩
theorem inv_reset (cfg : Cfg ℝ) (x : ℝ) (s : State ℝ) : Inv cfg x (reset s) := ⟨winv_reset cfg x s, rfl⟩

theorem step_n (ksP : List ℝ → List ℝ → ℝ) (cfg : Cfg ℝ) (s : State ℝ) (v : ℝ) (tape : List Nat) :
    (step ksP cfg s v tape).n = s.n + 1 := by
  unfold step; simp only []; split <;> rfl

/-- what `step` computes on the constant stream: once the window is full the p-value is that of two
constant samples of `numTest` values each -/
theorem step_const_eq (ksP : List ℝ → List ℝ → ℝ) {cfg : Cfg ℝ} (hnt : cfg.numTest ≤ cfg.minN) {x : ℝ}
    {s : State ℝ} {m : Nat} (hm : m ≤ cfg.minN) (hw : s.window = List.replicate m x)
    {tape : List Nat} (ht : TapeOk cfg tape) :
    step ksP cfg s x tape =
      { n := s.n + 1, window := List.replicate (min (m + 1) cfg.minN) x,
        drift := decide (cfg.minN ≤ m + 1) &&
          Num.le (ksP (List.replicate cfg.numTest x) (List.replicate cfg.numTest x)) cfg.alpha } := by
  unfold step
  simp only [hw, push_replicate, List.length_replicate]
  by_cases hfull : cfg.minN ≤ m + 1
  · have h1 : min (m + 1) cfg.minN = cfg.minN := by omega
    simp only [h1, List.take_replicate, List.drop_replicate]
    have h3 : min (cfg.minN - cfg.numTest) cfg.minN = cfg.minN - cfg.numTest := by omega
    have h4 : cfg.minN - (cfg.minN - cfg.numTest) = cfg.numTest := by omega
    rw [h3, h4, sample_replicate _ _ _ ht.2, ht.1]
    simp [hfull]
  · have h2 : ¬ cfg.minN ≤ min (m + 1) cfg.minN := by omega
    simp [h2, hfull]

/-- the state after one more `x`, in terms of `n` -/
theorem step_winv_eq (ksP : List ℝ → List ℝ → ℝ) {cfg : Cfg ℝ} (hnt : cfg.numTest ≤ cfg.minN) {x : ℝ}
    {s : State ℝ} (h : WInv cfg x s) {tape : List Nat} (ht : TapeOk cfg tape) :
    step ksP cfg s x tape =
      { n := s.n + 1, window := List.replicate (min (s.n + 1) cfg.minN) x,
        drift := decide (cfg.minN ≤ s.n + 1) &&
          Num.le (ksP (List.replicate cfg.numTest x) (List.replicate cfg.numTest x)) cfg.alpha } := by
  rw [step_const_eq ksP hnt (Nat.min_le_right _ _) h ht]
  have h1 : min (min s.n cfg.minN + 1) cfg.minN = min (s.n + 1) cfg.minN := by omega
  have h2 : decide (cfg.minN ≤ min s.n cfg.minN + 1) = decide (cfg.minN ≤ s.n + 1) := by
    congr 1; apply propext; omega
  rw [h1, h2]

theorem winv_step (ksP : List ℝ → List ℝ → ℝ) {cfg : Cfg ℝ} (hnt : cfg.numTest ≤ cfg.minN) {x : ℝ}
    {s : State ℝ} (h : WInv cfg x s) {tape : List Nat} (ht : TapeOk cfg tape) :
    WInv cfg x (step ksP cfg s x tape) := by
  rw [step_winv_eq ksP hnt h ht]; rfl

theorem inv_step (ksP : List ℝ → List ℝ → ℝ) {cfg : Cfg ℝ} (hnt : cfg.numTest ≤ cfg.minN) {x : ℝ}
    (hks : ksP (List.replicate cfg.numTest x) (List.replicate cfg.numTest x) = 1) (ha : cfg.alpha < 1)
    {s : State ℝ} (h : Inv cfg x s) {tape : List Nat} (ht : TapeOk cfg tape) :
    Inv cfg x (step ksP cfg s x tape) := by
  refine ⟨winv_step ksP hnt h.window ht, ?_⟩
  rw [step_winv_eq ksP hnt h.window ht, hks]
  have : Num.le (1 : ℝ) cfg.alpha = false := by rw [RealNum.le_false_iff]; exact not_le.mpr ha
  simp [this]

/-- **finding**: `alpha ≥ 1` is accepted (`Config.kswin` checks `alpha > 0` only) and then the p-value
`1` of identical samples is "significant": drift as soon as the window is full -/
theorem drift_step (ksP : List ℝ → List ℝ → ℝ) {cfg : Cfg ℝ} (hnt : cfg.numTest ≤ cfg.minN) {x : ℝ}
    (hks : ksP (List.replicate cfg.numTest x) (List.replicate cfg.numTest x) = 1) (ha : 1 ≤ cfg.alpha)
    {s : State ℝ} (h : WInv cfg x s) {tape : List Nat} (ht : TapeOk cfg tape) (hfull : cfg.minN ≤ s.n + 1) :
    (step ksP cfg s x tape).drift = true := by
  rw [step_winv_eq ksP hnt h ht, hks]
  have : Num.le (1 : ℝ) cfg.alpha = true := by rw [RealNum.le_iff]; exact ha
  simp [this, hfull]

end Kswin
end Frouros.C01c
