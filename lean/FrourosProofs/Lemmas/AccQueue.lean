/-
  Helper lemmas for C18: `AccQ` (AccuracyQueue) keeps `numTrue` equal to the number of `some true` entries.
-/
import FrourosProofs.Lemmas.CircQueue

namespace Frouros
namespace AccQ
open CQ

/-- number of `True` / `False` entries of the logical contents -/
def countTrue (l : List (Option Bool)) : Nat := (l.filter (· == some true)).length
def countFalse (l : List (Option Bool)) : Nat := (l.filter (· == some false)).length

theorem countTrue_cons (x : Option Bool) (l : List (Option Bool)) :
    countTrue (x :: l) = (if x == some true then 1 else 0) + countTrue l := by
  unfold countTrue
  by_cases h : x == some true <;> simp [h]; omega

theorem countTrue_append_some (l : List (Option Bool)) (v : Bool) :
    countTrue (l ++ [some v]) = countTrue l + (if v then 1 else 0) := by
  unfold countTrue
  cases v <;> simp [List.filter_append]

theorem length_eq_countTrue_add_countFalse (l : List Bool) :
    (l.map some).length = countTrue (l.map some) + countFalse (l.map some) := by
  induction l with
  | nil => rfl
  | cons b l ih =>
    unfold countTrue countFalse at ih ⊢
    cases b <;> simp at ih ⊢ <;> omega

/-- the invariant of the accuracy queue -/
structure Good (a : AccQ) : Prop where
  wf : WF a.q
  allSome : AllSome a.q
  numTrue_eq : a.numTrue = countTrue a.q.toList

/-- the common tail of `enqueue` -/
def fin (a : AccQ) (v : Bool) : AccQ := ⟨a.q.push v, a.numTrue + (if v then 1 else 0)⟩

theorem enqueue_def (a : AccQ) (v : Bool) :
    a.enqueue v = if a.q.isFull then
        (match a.dequeue with | .error e => .error e | .ok (_, a') => .ok (a'.fin v))
      else .ok (a.fin v) := rfl

theorem init_good {n : Nat} (hn : 0 < n) : Good (init n) :=
  ⟨init_WF hn, ⟨[], by simp [init, toList, CQ.init]⟩, by simp [init, toList, CQ.init, countTrue]⟩

theorem clear_good {a : AccQ} (h : Good a) : Good a.clear :=
  ⟨clear_WF h.wf, ⟨[], by simp [clear, toList_clear]⟩, by simp [clear, toList_clear, countTrue]⟩

theorem fin_good {a : AccQ} (h : Good a) (hc : a.q.count < a.q.maxLen) (v : Bool) : Good (a.fin v) := by
  refine ⟨push_WF h.wf hc v, ?_, ?_⟩
  · obtain ⟨l, hl⟩ := h.allSome
    exact ⟨l ++ [v], by simp [fin, toList_push h.wf hc, hl]⟩
  · simp only [fin, toList_push h.wf hc, countTrue_append_some, h.numTrue_eq]

theorem dequeue_good {a a' : AccQ} {e : Option Bool} (h : Good a) (hd : a.dequeue = .ok (e, a')) :
    Good a' ∧ a'.q.maxLen = a.q.maxLen ∧ a.q.toList = e :: a'.q.toList := by
  cases hemp : a.q.isEmpty
  · have hc := count_pos_of_not_empty hemp
    simp only [dequeue, dequeue_eq hemp, Except.ok.injEq, Prod.mk.injEq] at hd
    obtain ⟨rfl, rfl⟩ := hd
    have hcons := toList_eq_cons h.wf hc
    refine ⟨⟨pop_WF h.wf hc, h.allSome.tail (toList_pop hc), ?_⟩, rfl, hcons⟩
    have := h.numTrue_eq
    rw [hcons, countTrue_cons] at this
    simp only [this]
    omega
  · simp [dequeue, dequeue_empty hemp] at hd

theorem enqueue_good {a a' : AccQ} {v : Bool} (h : Good a) (he : a.enqueue v = .ok a') :
    Good a' ∧ a'.q.maxLen = a.q.maxLen := by
  have hm := h.wf.pos
  rw [enqueue_def] at he
  cases hf : a.q.isFull
  · have hc : a.q.count < a.q.maxLen := by
      have := h.wf.cnt
      simp only [isFull, beq_eq_false_iff_ne, ne_eq] at hf; omega
    simp only [hf, Bool.false_eq_true, if_false, Except.ok.injEq] at he
    subst he
    exact ⟨fin_good h hc v, rfl⟩
  · have hc : a.q.count = a.q.maxLen := by simpa [isFull] using hf
    have hemp : a.q.isEmpty = false := by simp [isEmpty]; omega
    simp only [hf, if_true] at he
    cases hd : a.dequeue with
    | error e => simp [hd] at he
    | ok p =>
      obtain ⟨e, a1⟩ := p
      simp only [hd, Except.ok.injEq] at he
      subst he
      obtain ⟨g1, g2, g3⟩ := dequeue_good h hd
      have hc1 : a1.q.count < a1.q.maxLen := by
        have := congrArg List.length g3
        simp only [List.length_cons, ← count_eq_length] at this
        omega
      exact ⟨fin_good g1 hc1 v, g2⟩

theorem keepLast_good {a a' : AccQ} (h : Good a) (hk : a.keepLast = .ok a') :
    Good a' ∧ a'.q.maxLen = a.q.maxLen := by
  unfold keepLast at hk
  cases hemp : a.q.isEmpty
  · obtain ⟨q1, h1, h2, h3, hne, h5⟩ := keepLast_nonempty h.wf hemp
    simp only [h1, Except.ok.injEq] at hk
    subst hk
    have hc1 : q1.count = 1 := by rw [count_eq_length, h5]; rfl
    have h6 := toList_count_one h2 hc1
    refine ⟨⟨h2, ?_, ?_⟩, h3⟩
    · obtain ⟨l, hl⟩ := h.allSome
      have hne' : l ≠ [] := by rintro rfl; simp [hl] at hne
      exact ⟨[l.getLast hne'], by rw [h5]; simp [hl, List.getLast_map]⟩
    · rw [h6, countTrue_cons]; simp [countTrue]
  · simp [keepLast_empty hemp] at hk

/-- every accuracy queue obtained from `init n` through the public operations -/
inductive Reach (n : Nat) : AccQ → Prop where
  | init : Reach n (init n)
  | enqueue {a a' : AccQ} {v : Bool} : Reach n a → a.enqueue v = .ok a' → Reach n a'
  | dequeue {a a' : AccQ} {e : Option Bool} : Reach n a → a.dequeue = .ok (e, a') → Reach n a'
  | clear {a : AccQ} : Reach n a → Reach n a.clear
  | keepLast {a a' : AccQ} : Reach n a → a.keepLast = .ok a' → Reach n a'

theorem Reach.good {n : Nat} (hn : 0 < n) {a : AccQ} (hr : Reach n a) : Good a ∧ a.q.maxLen = n := by
  induction hr with
  | init => exact ⟨init_good hn, rfl⟩
  | enqueue _ he ih => obtain ⟨g, m⟩ := enqueue_good ih.1 he; exact ⟨g, m.trans ih.2⟩
  | dequeue _ he ih => obtain ⟨g, m, _⟩ := dequeue_good ih.1 he; exact ⟨g, m.trans ih.2⟩
  | clear _ ih => exact ⟨clear_good ih.1, ih.2⟩
  | keepLast _ he ih => obtain ⟨g, m⟩ := keepLast_good ih.1 he; exact ⟨g, m.trans ih.2⟩

end AccQ
end Frouros
