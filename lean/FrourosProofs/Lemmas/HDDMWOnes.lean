/-
  HDDM-W on the all-ones stream.

  The EWMA statistics start at `0`, so the stream `1, 1, 1, …` looks like a ramp `0 → 1` to the test and a
  flag CAN be raised (`C01c.hddmw_const_witness`, `hddmw_ones_witness` below).  Here: an invariant that does
  not need to know WHEN the cut point moves, and closed-form conditions on `(alpha_w, lambda)` under which no
  flag is ever raised.

  Every sample `s` of the test (total / inc1 / inc2 / dec1 / dec2) has, with `u := 1 - s.mean ∈ [0, 1]`
  (`u = (1-lam)^k` after `k` updates, but `k` is not needed):
      `s.ibc · (2 - lam) = lam + 2 (1 - lam) u²`          (`SOK`)
  and once a cut point exists `u(inc1) ≤ 1 - lam`.  The increase test compares `u(inc1) - u(inc2)` with
  `sqrt((ibc1 + ibc2) · log(1/alpha) / 2)`, the decrease test `u(dec2) - u(dec1)` with the same bound.
-/
import Mathlib.Tactic.Ring
import Mathlib.Tactic.Linarith
import Mathlib.Tactic.NormNum
import Mathlib.Tactic.LinearCombination
import Mathlib.Tactic.Positivity
import FrourosProofs.RealNum
import FrourosProofs.Machines

namespace Frouros.C01d
open Frouros
namespace HddmwOnes
open HDDMW

/-- sufficient condition for the INCREASE test (one- and two-sided) to stay silent on `1, 1, 1, …`:
`(1-lam)² (2-lam) ≤ (lam + (1-lam)³) · log(1/alpha_w)`, i.e.
`alpha_w ≤ exp(-(1-lam)² (2-lam) / (lam + (1-lam)³))` (`≈ 0.1438` for `lam = 0.05`) -/
def ThrInc (aw lam : ℝ) : Prop := (1 - lam) ^ 2 * (2 - lam) ≤ (lam + (1 - lam) ^ 3) * Real.log (1 / aw)

/-- sufficient condition for the DECREASE test (two-sided only): `2 - lam ≤ log(1/alpha_w)`, i.e.
`alpha_w ≤ exp(-(2-lam))` (`≈ 0.1423` for `lam = 0.05`).  It is sharp up to the boundary: on the ones
stream `dec2` is re-initialised at every step (mean `0`, ibc `1`) while `dec1.mean → 1`,
`dec1.ibc → lam/(2-lam)`, so the test tends to `1 > sqrt(log(1/alpha)/(2-lam))`. -/
def ThrDec (aw lam : ℝ) : Prop := 2 - lam ≤ Real.log (1 / aw)

/-- the decrease condition implies the increase condition -/
theorem thrInc_of_thrDec {aw lam : ℝ} (hl0 : 0 < lam) (hl1 : lam ≤ 1) (h : ThrDec aw lam) : ThrInc aw lam := by
  unfold ThrInc; unfold ThrDec at h
  have hq : 0 ≤ 1 - lam := by linarith
  have hq1 : 1 - lam ≤ 1 := by linarith
  have hq2 : (1 - lam) ^ 2 ≤ 1 := by nlinarith
  have hq3 : 0 ≤ (1 - lam) ^ 3 := by positivity
  -- with q = 1 - lam: (lam + q³) - q² = lam (1 - q²) ≥ 0
  have h1 : (1 - lam) ^ 2 ≤ lam + (1 - lam) ^ 3 := by nlinarith
  have h2 : 0 ≤ lam + (1 - lam) ^ 3 := by linarith
  calc (1 - lam) ^ 2 * (2 - lam) ≤ (lam + (1 - lam) ^ 3) * (2 - lam) :=
        mul_le_mul_of_nonneg_right h1 (by linarith)
    _ ≤ (lam + (1 - lam) ^ 3) * Real.log (1 / aw) := mul_le_mul_of_nonneg_left h h2

/-! ### real-number core -/

theorem log_inv_mono {a b : ℝ} (ha : 0 < a) (hab : a ≤ b) : Real.log (1 / b) ≤ Real.log (1 / a) :=
  Real.log_le_log (by have : 0 < b := lt_of_lt_of_le ha hab; positivity) (one_div_le_one_div_of_le ha hab)

/-- `u1 - u2 ≤ sqrt((i1 + i2) W / 2)` from the closed form of the `ibc`s and the polynomial inequality -/
theorem core (lam W u1 u2 i1 i2 : ℝ) (hl1 : lam ≤ 1)
    (h1 : i1 * (2 - lam) = lam + 2 * (1 - lam) * u1 ^ 2) (h2 : i2 * (2 - lam) = lam + 2 * (1 - lam) * u2 ^ 2)
    (hu2 : 0 ≤ u2)
    (hmain : u2 ≤ u1 → u1 ^ 2 * (2 - lam) ≤ (lam + (1 - lam) * (u1 ^ 2 + u2 ^ 2)) * W) :
    u1 - u2 ≤ Real.sqrt ((i1 + i2) * W / 2) := by
  by_cases hle : u2 ≤ u1
  · have hD : 0 < 2 - lam := by linarith
    refine le_trans (le_abs_self _) (Real.abs_le_sqrt ?_)
    have e : ((i1 + i2) * W / 2) * (2 - lam) = (lam + (1 - lam) * (u1 ^ 2 + u2 ^ 2)) * W := by
      linear_combination (W / 2) * h1 + (W / 2) * h2
    have h3 : (u1 - u2) ^ 2 ≤ u1 ^ 2 := by nlinarith [mul_nonneg hu2 (sub_nonneg.2 hle)]
    have h4 : (u1 - u2) ^ 2 * (2 - lam) ≤ ((i1 + i2) * W / 2) * (2 - lam) := by
      rw [e]; exact le_trans (mul_le_mul_of_nonneg_right h3 hD.le) (hmain hle)
    exact le_of_mul_le_mul_right h4 hD
  · exact le_trans (by linarith) (Real.sqrt_nonneg _)

/-- polynomial inequality, increase side: `u1 ≤ 1 - lam` and `ThrInc` (at `W0 ≤ W`) -/
theorem main_inc {lam W0 W u1 u2 : ℝ} (hl0 : 0 < lam) (hl1 : lam ≤ 1)
    (hthr : (1 - lam) ^ 2 * (2 - lam) ≤ (lam + (1 - lam) ^ 3) * W0) (hW : W0 ≤ W)
    (hu1 : 0 ≤ u1) (hu1q : u1 ≤ 1 - lam) :
    u1 ^ 2 * (2 - lam) ≤ (lam + (1 - lam) * (u1 ^ 2 + u2 ^ 2)) * W := by
  have hq : 0 ≤ 1 - lam := by linarith
  have hq3 : 0 ≤ (1 - lam) ^ 3 := by positivity
  have hc : 0 < lam + (1 - lam) ^ 3 := by linarith
  have hW0 : 0 ≤ W0 := by
    by_contra hneg
    have : (lam + (1 - lam) ^ 3) * W0 < 0 := mul_neg_of_pos_of_neg hc (not_le.mp hneg)
    have : 0 ≤ (1 - lam) ^ 2 * (2 - lam) := mul_nonneg (sq_nonneg _) (by linarith)
    linarith
  have hWn : 0 ≤ W := le_trans hW0 hW
  have hthr' : (1 - lam) ^ 2 * (2 - lam) ≤ (lam + (1 - lam) ^ 3) * W :=
    le_trans hthr (mul_le_mul_of_nonneg_left hW hc.le)
  have hu1sq : u1 ^ 2 ≤ (1 - lam) ^ 2 := by nlinarith
  have hx : 0 ≤ u1 ^ 2 := sq_nonneg _
  have hy : 0 ≤ W * ((1 - lam) * u2 ^ 2) := mul_nonneg hWn (mul_nonneg hq (sq_nonneg _))
  by_cases hA : (2 - lam) ≤ W * (1 - lam)
  · have h1 : 0 ≤ u1 ^ 2 * (W * (1 - lam) - (2 - lam)) := mul_nonneg hx (by linarith)
    have h2 : 0 ≤ W * lam := mul_nonneg hWn hl0.le
    nlinarith
  · have hB : 0 ≤ (2 - lam) - W * (1 - lam) := by linarith
    have h1 : 0 ≤ ((1 - lam) ^ 2 - u1 ^ 2) * ((2 - lam) - W * (1 - lam)) := mul_nonneg (by linarith) hB
    nlinarith

/-- polynomial inequality, decrease side: `u1 ≤ 1` and `ThrDec` (at `W0 ≤ W`) -/
theorem main_dec {lam W0 W u1 u2 : ℝ} (hl0 : 0 < lam) (hl1 : lam ≤ 1)
    (hthr : 2 - lam ≤ W0) (hW : W0 ≤ W) (hu1 : 0 ≤ u1) (hu11 : u1 ≤ 1) :
    u1 ^ 2 * (2 - lam) ≤ (lam + (1 - lam) * (u1 ^ 2 + u2 ^ 2)) * W := by
  have hq : 0 ≤ 1 - lam := by linarith
  have hWn : 0 ≤ W := by linarith
  have hx : 0 ≤ u1 ^ 2 := sq_nonneg _
  have hx1 : u1 ^ 2 ≤ 1 := by nlinarith
  have hy : 0 ≤ W * ((1 - lam) * u2 ^ 2) := mul_nonneg hWn (mul_nonneg hq (sq_nonneg _))
  have h1 : 0 ≤ u1 ^ 2 * (W - (2 - lam)) := mul_nonneg hx (by linarith)
  have h2 : 0 ≤ W * (lam * (1 - u1 ^ 2)) := mul_nonneg hWn (mul_nonneg hl0.le (by linarith))
  nlinarith

/-! ### samples -/

/-- a sample of the HDDM-W test on the all-ones stream -/
structure SOK (lam : ℝ) (s : Sample ℝ) : Prop where
  a : s.ewma.alpha = lam
  o : s.ewma.oneMinus = 1 - lam
  m0 : 0 ≤ s.ewma.mean
  m1 : s.ewma.mean ≤ 1
  ibc : s.ibc * (2 - lam) = lam + 2 * (1 - lam) * (1 - s.ewma.mean) ^ 2

theorem sok_init (lam : ℝ) : SOK lam (Sample.init lam) := by
  refine ⟨rfl, ?_, ?_, ?_, ?_⟩ <;> simp [Sample.init, EWMA.init]
  ring

theorem sample_update_mean {lam : ℝ} {s : Sample ℝ} (h : SOK lam s) :
    (Sample.update lam s 1).ewma.mean = lam + (1 - lam) * s.ewma.mean := by
  simp [Sample.update, EWMA.update, h.a, h.o]

theorem sok_update {lam : ℝ} (hl0 : 0 < lam) (hl1 : lam ≤ 1) {s : Sample ℝ} (h : SOK lam s) :
    SOK lam (Sample.update lam s 1) ∧ lam ≤ (Sample.update lam s 1).ewma.mean := by
  have hm := sample_update_mean h
  have hq : 0 ≤ 1 - lam := by linarith
  have hqm : 0 ≤ (1 - lam) * s.ewma.mean := mul_nonneg hq h.m0
  have hqm1 : (1 - lam) * s.ewma.mean ≤ (1 - lam) * 1 := mul_le_mul_of_nonneg_left h.m1 hq
  refine ⟨⟨?_, ?_, ?_, ?_, ?_⟩, ?_⟩
  · simp [Sample.update, EWMA.update, h.a]
  · simp [Sample.update, EWMA.update, h.o]
  · rw [hm]; linarith
  · rw [hm]; linarith
  · rw [hm]
    have hi : (Sample.update lam s 1).ibc = lam * lam + ((1 - lam) * (1 - lam)) * s.ibc := by
      simp [Sample.update, EWMA.update, h.o]
    rw [hi]
    linear_combination ((1 - lam) * (1 - lam)) * h.ibc
  · rw [hm]; linarith

/-- the test `_check_threshold(s1, s2, alpha)` (`s2.mean - s1.mean > bound`) is negative -/
theorem thr_false {lam alpha : ℝ} {s1 s2 : Sample ℝ} (hl1 : lam ≤ 1) (h1 : SOK lam s1) (h2 : SOK lam s2)
    (hmain : 1 - s2.ewma.mean ≤ 1 - s1.ewma.mean →
      (1 - s1.ewma.mean) ^ 2 * (2 - lam) ≤
        (lam + (1 - lam) * ((1 - s1.ewma.mean) ^ 2 + (1 - s2.ewma.mean) ^ 2)) * Real.log (1 / alpha)) :
    thr s1 s2 alpha = false := by
  unfold thr mcBound
  rw [RealNum.gt_false_iff, not_lt]
  have := core lam (Real.log (1 / alpha)) (1 - s1.ewma.mean) (1 - s2.ewma.mean) s1.ibc s2.ibc hl1 h1.ibc h2.ibc
    (by linarith [h2.m1]) hmain
  simp only [RealNum.log_eq, RealNum.sqrt_eq, RealNum.one_eq, RealNum.two_eq]
  linarith

theorem thr_inc_false {lam aw alpha : ℝ} {s1 s2 : Sample ℝ} (hl0 : 0 < lam) (hl1 : lam ≤ 1)
    (hthr : ThrInc aw lam) (ha0 : 0 < alpha) (ha : alpha ≤ aw)
    (h1 : SOK lam s1) (h2 : SOK lam s2) (hcut : lam ≤ s1.ewma.mean) : thr s1 s2 alpha = false :=
  thr_false hl1 h1 h2 (fun _ => main_inc hl0 hl1 hthr (log_inv_mono ha0 ha) (by linarith [h1.m1]) (by linarith))

theorem thr_dec_false {lam aw alpha : ℝ} {s1 s2 : Sample ℝ} (hl0 : 0 < lam) (hl1 : lam ≤ 1)
    (hthr : ThrDec aw lam) (ha0 : 0 < alpha) (ha : alpha ≤ aw)
    (h1 : SOK lam s1) (h2 : SOK lam s2) : thr s1 s2 alpha = false :=
  thr_false hl1 h1 h2 (fun _ => main_dec hl0 hl1 hthr (log_inv_mono ha0 ha) (by linarith [h1.m1]) (by linarith [h1.m0]))

/-! ### the test state -/

/-- all five samples are of the `SOK` form; `cut`: once a cut point exists `inc1` has seen a value -/
structure TOK (lam : ℝ) (t : Test ℝ) : Prop where
  total : SOK lam t.total
  inc1 : SOK lam t.inc1
  inc2 : SOK lam t.inc2
  dec1 : SOK lam t.dec1
  dec2 : SOK lam t.dec2
  cut : t.incCut = none ∨ lam ≤ t.inc1.ewma.mean

theorem tok_init (lam : ℝ) : TOK lam (Test.init lam) :=
  ⟨sok_init lam, sok_init lam, sok_init lam, sok_init lam, sok_init lam, Or.inl rfl⟩

/-- after `update_stats(1)`: the invariant, and a cut point exists (`lam ≤ inc1.mean`) -/
theorem tok_update (cfg : Cfg ℝ) (hl0 : 0 < cfg.lam) (hl1 : cfg.lam ≤ 1) {t : Test ℝ} (h : TOK cfg.lam t) :
    TOK cfg.lam (updateStats cfg t 1) ∧ cfg.lam ≤ (updateStats cfg t 1).inc1.ewma.mean := by
  obtain ⟨htot, htotm⟩ := sok_update hl0 hl1 h.total
  obtain ⟨hi2, _⟩ := sok_update hl0 hl1 h.inc2
  obtain ⟨hd2, _⟩ := sok_update hl0 hl1 h.dec2
  have h0 := sok_init cfg.lam
  have hi1 := h.inc1
  have hd1 := h.dec1
  have hd2' := h.dec2
  unfold updateStats
  simp only []
  rcases hc : t.incCut with _ | cp
  · -- no cut point yet: it is set now
    simp only [if_true]
    split_ifs <;> exact ⟨⟨by assumption, by assumption, by assumption, by assumption, by assumption,
      Or.inr (by assumption)⟩, by assumption⟩
  · have hcut : cfg.lam ≤ t.inc1.ewma.mean := by
      rcases h.cut with hn | hn
      · rw [hc] at hn; cases hn
      · exact hn
    simp only []
    split_ifs <;> exact ⟨⟨by assumption, by assumption, by assumption, by assumption, by assumption,
      Or.inr (by assumption)⟩, by assumption⟩

/-- hypotheses on the configuration: `0 < lam ≤ 1`, `0 < alpha_d ≤ alpha_w` (all implied by
`Config.hddmw`), the increase condition, and for the two-sided test the decrease condition -/
structure CfgOK (cfg : Cfg ℝ) : Prop where
  lam0 : 0 < cfg.lam
  lam1 : cfg.lam ≤ 1
  ad0 : 0 < cfg.alphaD
  adw : cfg.alphaD ≤ cfg.alphaW
  inc : ThrInc cfg.alphaW cfg.lam
  dec : cfg.twoSided = true → ThrDec cfg.alphaW cfg.lam

theorem check_ones {cfg : Cfg ℝ} (hcfg : CfgOK cfg) {t : Test ℝ} (h : TOK cfg.lam t)
    (hcut : cfg.lam ≤ t.inc1.ewma.mean) : checkChanges cfg t = (false, false) := by
  have haw0 : 0 < cfg.alphaW := lt_of_lt_of_le hcfg.ad0 hcfg.adw
  have e1 := thr_inc_false hcfg.lam0 hcfg.lam1 hcfg.inc hcfg.ad0 hcfg.adw h.inc1 h.inc2 hcut
  have e2 := thr_inc_false hcfg.lam0 hcfg.lam1 hcfg.inc haw0 le_rfl h.inc1 h.inc2 hcut
  unfold checkChanges
  cases htwo : cfg.twoSided with
  | false => simp [e1, e2]
  | true =>
    have e3 := thr_dec_false hcfg.lam0 hcfg.lam1 (hcfg.dec htwo) hcfg.ad0 hcfg.adw h.dec2 h.dec1
    have e4 := thr_dec_false hcfg.lam0 hcfg.lam1 (hcfg.dec htwo) haw0 le_rfl h.dec2 h.dec1
    simp [e1, e2, e3, e4]

structure Inv (cfg : Cfg ℝ) (s : State ℝ) : Prop where
  t : TOK cfg.lam s.t
  drift : s.drift = false
  warning : s.warning = false

theorem inv_init (cfg : Cfg ℝ) : Inv cfg (init cfg) := ⟨tok_init _, rfl, rfl⟩
theorem inv_reset (cfg : Cfg ℝ) (s : State ℝ) : Inv cfg (reset cfg s) := ⟨tok_init _, rfl, rfl⟩

theorem inv_step {cfg : Cfg ℝ} (hcfg : CfgOK cfg) {s : State ℝ} (h : Inv cfg s) : Inv cfg (step cfg s 1) := by
  obtain ⟨ht, hcut⟩ := tok_update cfg hcfg.lam0 hcfg.lam1 h.t
  unfold step
  simp only [check_ones hcfg ht hcut]
  split
  · exact ⟨ht, rfl, rfl⟩
  · exact ⟨ht, rfl, rfl⟩

end HddmwOnes
end Frouros.C01d
