/-
  Ghost / reference recursion for C08: BOCD with the UNNORMALISED message.

  `BOCDU.step` is, verbatim, the step function the model had BEFORE the one-line repair of the message
  (`logMessage := joint`); the model `BOCD.step` (`FrourosModel/Change.lean`) now passes on the NORMALISED joint
  (`logMessage := row`).  `BOCDU` is NOT part of the model and is never executed: it is the textbook Adams–MacKay
  recursion against which `Props/C08.lean` states what the model's normalised message is
  (`message = unnormalised message / evidence`, `C08.sim_run`).

  Everything in this file holds for an ARBITRARY carrier `[Num α]` (no assumption on the operations):
  * `step_eq_ghost`      : the model step is the ghost step with the message replaced by the new row (definitional);
  * `ghost_row_eq`       : the ghost's row is its message minus `logSumExp` of its message (definitional);
  * `runUpd_*`           : counter, parameters and list lengths of a ghost run; they coincide with the model's
                           (they never read the message).
-/
import FrourosModel.Change

namespace Frouros
namespace BOCDU
open BOCD
variable {α : Type} [Num α]

/-- the step function with the UNNORMALISED message (`self.log_message = new_log_joint`), verbatim the model's
`BOCD.step` before the repair: the only difference to `BOCD.step` is the field `logMessage := joint`. -/
def step (f : Fns α) (c : Cfg α) (s : State α) (v : α) : State α :=
  let n := s.n + 1
  let vars := varParams c s.precs
  let logPis := List.zipWith (fun mu var => normLogPdf f mu (Num.sqrt var) v) s.means vars
  let lpm := List.zipWith (· + ·) logPis s.logMessage
  let growth := lpm.map (· + c.log1mH)
  let cp := f.logSumExp (lpm.map (· + c.logH))
  let joint := cp :: growth
  let norm := f.logSumExp joint
  let row := joint.map (· - norm)
  -- model.update
  let newPrec := s.precs.map (· + Num.one / c.dataVar)
  let precs := (s.precs.headD Num.zero) :: newPrec
  let newMean := List.zipWith (fun m pn => m / pn)
      (List.zipWith (fun mu p => mu * p + v / c.dataVar) s.means s.precs) newPrec
  let means := (s.means.headD Num.zero) :: newMean
  -- predictions (step 9): weights = exp(current row), parameters after the update
  let probs := row.map Num.exp
  let predMean := sumList (List.zipWith (· * ·) probs means)
  let predVar := sumList (List.zipWith (· * ·) probs (varParams c precs))
  let drift := if c.minN ≤ n then argmax row != n else s.drift
  { n := n, drift := drift, row := row, logMessage := joint, predMean := some predMean,
    predVar := some predVar, means := means, precs := precs }

/-- state of the ghost recursion after the updates `xs` (oldest first) from the initial state -/
def runUpd (f : Fns α) (c : Cfg α) (xs : List α) : State α := xs.foldl (step f c) (init c)

theorem runUpd_snoc (f : Fns α) (c : Cfg α) (xs : List α) (v : α) :
    runUpd f c (xs ++ [v]) = step f c (runUpd f c xs) v := by
  simp [runUpd, List.foldl_append]

/-- **the repair, definitionally (every carrier)**: from the SAME state the model step and the ghost step differ
only in the message field, which the model sets to the new row. -/
theorem step_eq_ghost (f : Fns α) (c : Cfg α) (s : State α) (v : α) :
    BOCD.step f c s v = { step f c s v with logMessage := (step f c s v).row } := rfl

/-- the ghost's row is its (new) message minus `logSumExp` of that message -/
theorem ghost_row_eq (f : Fns α) (c : Cfg α) (s : State α) (v : α) :
    (step f c s v).row = (step f c s v).logMessage.map (· - f.logSumExp (step f c s v).logMessage) := rfl

/-- the unnormalised log joint (`new_log_joint`) as a function of the parameters and the incoming message -/
def jointOf (f : Fns α) (c : Cfg α) (means precs lm : List α) (v : α) : List α :=
  let vars := varParams c precs
  let logPis := List.zipWith (fun mu var => normLogPdf f mu (Num.sqrt var) v) means vars
  let lpm := List.zipWith (· + ·) logPis lm
  f.logSumExp (lpm.map (· + c.logH)) :: lpm.map (· + c.log1mH)

/-- everything the step does once the row and the outgoing message are known (it does not read `s.logMessage`) -/
def finish (c : Cfg α) (s : State α) (v : α) (row out : List α) : State α :=
  let n := s.n + 1
  let newPrec := s.precs.map (· + Num.one / c.dataVar)
  let precs := (s.precs.headD Num.zero) :: newPrec
  let newMean := List.zipWith (fun m pn => m / pn)
      (List.zipWith (fun mu p => mu * p + v / c.dataVar) s.means s.precs) newPrec
  let means := (s.means.headD Num.zero) :: newMean
  let probs := row.map Num.exp
  let predMean := sumList (List.zipWith (· * ·) probs means)
  let predVar := sumList (List.zipWith (· * ·) probs (varParams c precs))
  let drift := if c.minN ≤ n then argmax row != n else s.drift
  { n := n, drift := drift, row := row, logMessage := out, predMean := some predMean,
    predVar := some predVar, means := means, precs := precs }

/-- the ghost step, factored: joint → row (joint minus `logSumExp` joint) → the rest; message out = joint -/
theorem step_eq_finish (f : Fns α) (c : Cfg α) (s : State α) (v : α) :
    step f c s v =
      finish c s v ((jointOf f c s.means s.precs s.logMessage v).map
          (· - f.logSumExp (jointOf f c s.means s.precs s.logMessage v)))
        (jointOf f c s.means s.precs s.logMessage v) := rfl

/-- the model step, factored in the same way: message out = row -/
theorem model_step_eq_finish (f : Fns α) (c : Cfg α) (s : State α) (v : α) :
    BOCD.step f c s v =
      finish c s v ((jointOf f c s.means s.precs s.logMessage v).map
          (· - f.logSumExp (jointOf f c s.means s.precs s.logMessage v)))
        ((jointOf f c s.means s.precs s.logMessage v).map
          (· - f.logSumExp (jointOf f c s.means s.precs s.logMessage v))) := rfl

/-- the ghost step reads its input state only through `n, drift, means, precs, logMessage` -/
theorem step_congr (f : Fns α) (c : Cfg α) (s s' : State α) (v : α) (hn : s.n = s'.n) (hd : s.drift = s'.drift)
    (hm : s.means = s'.means) (hp : s.precs = s'.precs) (hl : s.logMessage = s'.logMessage) :
    step f c s v = step f c s' v := by
  unfold step
  simp only [hn, hd, hm, hp, hl]

end BOCDU
end Frouros
