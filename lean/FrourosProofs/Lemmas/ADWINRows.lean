/-
  ADWIN bucket bookkeeping, for an arbitrary carrier `α` (no assumption on the arithmetic):
  shape invariant of `rows`, `width = Σ 2^i · |rows[i]|`, behaviour of `compress`, `deleteOldest`,
  `examined`, `checkLoop`.
-/
import Mathlib.Tactic.Ring
import Mathlib.Tactic.Linarith
import Mathlib.Data.List.Induction
import FrourosProofs.Machines

namespace Frouros.C05
open ADWIN
variable {α : Type} [Num α]

/-! ### weighted length `Σ_j 2^(i+j) · |rows[j]|` -/
def wsum {β : Type} : Nat → List (List β) → Nat
  | _, [] => 0
  | i, r :: rs => 2 ^ i * r.length + wsum (i + 1) rs

@[simp] theorem wsum_nil {β : Type} (i : Nat) : wsum i ([] : List (List β)) = 0 := rfl
@[simp] theorem wsum_cons {β : Type} (i : Nat) (r : List β) (rs : List (List β)) :
    wsum i (r :: rs) = 2 ^ i * r.length + wsum (i + 1) rs := rfl

theorem wsum_append_singleton {β : Type} (i : Nat) (rs : List (List β)) (r : List β) :
    wsum i (rs ++ [r]) = wsum i rs + 2 ^ (i + rs.length) * r.length := by
  induction rs generalizing i with
  | nil => simp
  | cons a rs ih =>
    simp only [List.cons_append, wsum_cons, ih, List.length_cons]
    have : i + 1 + rs.length = i + (rs.length + 1) := by omega
    rw [this]; omega

/-! ### "the last row is non-empty" -/
def LastNE {β : Type} : List (List β) → Prop
  | [] => True
  | [r] => r ≠ []
  | _ :: r :: rs => LastNE (r :: rs)

@[simp] theorem LastNE_nil {β : Type} : LastNE ([] : List (List β)) := trivial
@[simp] theorem LastNE_singleton {β : Type} (r : List β) : LastNE [r] ↔ r ≠ [] := Iff.rfl
@[simp] theorem LastNE_cons_cons {β : Type} (a r : List β) (rs : List (List β)) :
    LastNE (a :: r :: rs) ↔ LastNE (r :: rs) := Iff.rfl

theorem LastNE_cons_of_ne {β : Type} (a : List β) {rs : List (List β)} (h : rs ≠ []) :
    LastNE (a :: rs) ↔ LastNE rs := by
  cases rs with
  | nil => exact absurd rfl h
  | cons r rs => simp

theorem LastNE.tail {β : Type} {a : List β} {rs : List (List β)} (h : LastNE (a :: rs)) : LastNE rs := by
  cases rs with
  | nil => trivial
  | cons r rs => exact h

theorem LastNE.cons {β : Type} {a : List β} {rs : List (List β)} (ha : a ≠ []) (h : LastNE rs) :
    LastNE (a :: rs) := by
  cases rs with
  | nil => exact ha
  | cons r rs => exact h

theorem LastNE_append_singleton {β : Type} (ys : List (List β)) (l : List β) :
    LastNE (ys ++ [l]) ↔ l ≠ [] := by
  induction ys with
  | nil => simp
  | cons a ys ih => rw [List.cons_append, LastNE_cons_of_ne _ (by simp)]; exact ih

theorem LastNE_of_forall {β : Type} {ys : List (List β)} (h : ∀ r ∈ ys, r ≠ []) : LastNE ys := by
  induction ys with
  | nil => trivial
  | cons a ys ih => exact LastNE.cons (h a (by simp)) (ih (fun r hr => h r (by simp [hr])))

/-- `getLast?` form of `LastNE` -/
theorem LastNE_iff_getLast? {β : Type} (rows : List (List β)) :
    LastNE rows ↔ ∀ l, rows.getLast? = some l → l ≠ [] := by
  rcases List.eq_nil_or_concat rows with rfl | ⟨ys, l, rfl⟩
  · simp
  · simp [LastNE_append_singleton]

/-! ### `compress` -/
theorem compress_ne_nil (m i : Nat) (row : List (α × α)) (rest : List (List (α × α))) :
    compress m i row rest ≠ [] := by
  fun_cases compress m i row rest <;> simp

theorem compress_wsum (m i : Nat) (row : List (α × α)) (rest : List (List (α × α))) :
    wsum i (compress m i row rest) = wsum i (row :: rest) := by
  fun_induction compress m i row rest with
  | case1 i e1 e2 tl merged h => simp [pow_succ]; ring
  | case2 i e1 e2 tl merged nxt rest' nxt' hle h => simp [nxt', pow_succ]; ring
  | case3 i e1 e2 tl merged nxt rest' nxt' hle h ih => simp [ih, nxt', pow_succ]; ring
  | case4 i row rest h hno => rfl
  | case5 i row rest h => rfl

theorem compress_bound (m : Nat) (hm : 1 ≤ m) (i : Nat) (row : List (α × α)) (rest : List (List (α × α)))
    (hrow : row.length ≤ m + 1) (hrest : ∀ r ∈ rest, r.length ≤ m) :
    ∀ r ∈ compress m i row rest, r.length ≤ m := by
  fun_induction compress m i row rest with
  | case1 i e1 e2 tl merged h =>
    simp at h hrow ⊢; omega
  | case2 i e1 e2 tl merged nxt rest' nxt' hle h =>
    simp at h hrest hrow ⊢
    refine ⟨by omega, by simpa [nxt'] using hle, hrest.2⟩
  | case3 i e1 e2 tl merged nxt rest' nxt' hle h ih =>
    simp at h hrest
    intro r hr
    simp at hr
    rcases hr with rfl | hr
    · omega
    · refine ih ?_ hrest.2 r hr
      simp [nxt']; omega
  | case4 i row rest h hno =>
    exfalso
    simp at h
    match row, hno with
    | [], _ => simp at h
    | [_], _ => simp at h; omega
    | e1 :: e2 :: tl, hno => exact hno e1 e2 tl rfl
  | case5 i row rest h =>
    simp at h
    intro r hr
    simp at hr
    rcases hr with rfl | hr
    · omega
    · exact hrest r hr

theorem compress_lastNE (m i : Nat) (row : List (α × α)) (rest : List (List (α × α)))
    (hrow : row ≠ []) (hrest : LastNE rest) : LastNE (compress m i row rest) := by
  fun_induction compress m i row rest with
  | case1 i e1 e2 tl merged h => simp
  | case2 i e1 e2 tl merged nxt rest' nxt' hle h =>
    rw [LastNE_cons_cons]
    exact LastNE.cons (by simp [nxt']) hrest.tail
  | case3 i e1 e2 tl merged nxt rest' nxt' hle h ih =>
    rw [LastNE_cons_of_ne _ (compress_ne_nil _ _ _ _)]
    exact ih (by simp [nxt']) hrest.tail
  | case4 i row rest h hno => exact LastNE.cons hrow hrest
  | case5 i row rest h => exact LastNE.cons hrow hrest

/-- for `m ≥ 2` `compress` never produces an empty row (not needed for the invariants below) -/
theorem compress_full (m : Nat) (hm : 2 ≤ m) (i : Nat) (row : List (α × α)) (rest : List (List (α × α)))
    (hrow : row ≠ []) (hrest : ∀ r ∈ rest, r ≠ []) : ∀ r ∈ compress m i row rest, r ≠ [] := by
  fun_induction compress m i row rest with
  | case1 i e1 e2 tl merged h =>
    simp at h ⊢
    intro ht; subst ht; simp at h; omega
  | case2 i e1 e2 tl merged nxt rest' nxt' hle h =>
    simp at h hrest ⊢
    refine ⟨?_, by simp [nxt'], hrest.2⟩
    intro ht; subst ht; simp at h; omega
  | case3 i e1 e2 tl merged nxt rest' nxt' hle h ih =>
    simp at h hrest
    intro r hr
    simp at hr
    rcases hr with rfl | hr
    · intro ht; simp [ht] at h; omega
    · exact ih (by simp [nxt']) hrest.2 r hr
  | case4 i row rest h hno =>
    intro r hr
    simp at hr
    rcases hr with rfl | hr
    · exact hrow
    · exact hrest r hr
  | case5 i row rest h =>
    intro r hr
    simp at hr
    rcases hr with rfl | hr
    · exact hrow
    · exact hrest r hr


/-! ### number of entries -/
def cnt {β : Type} (rows : List (List β)) : Nat := (rows.map List.length).sum

@[simp] theorem cnt_nil {β : Type} : cnt ([] : List (List β)) = 0 := rfl
@[simp] theorem cnt_cons {β : Type} (r : List β) (rs : List (List β)) : cnt (r :: rs) = r.length + cnt rs := by
  simp [cnt]
@[simp] theorem cnt_append {β : Type} (A B : List (List β)) : cnt (A ++ B) = cnt A + cnt B := by
  simp [cnt]
omit [Num α] in
theorem numEntries_eq (s : State α) : numEntries s = cnt s.rows := rfl

theorem cnt_le_wsum {β : Type} (i : Nat) (rows : List (List β)) : cnt rows ≤ wsum i rows := by
  induction rows generalizing i with
  | nil => exact le_refl _
  | cons r rs ih =>
    have hp : 1 ≤ 2 ^ i := Nat.one_le_two_pow
    have h1 : r.length ≤ 2 ^ i * r.length := by
      calc r.length = 1 * r.length := (one_mul _).symm
        _ ≤ 2 ^ i * r.length := Nat.mul_le_mul_right _ hp
    have := ih (i + 1)
    simp only [cnt_cons, wsum_cons]; omega

/-! ### `trimRows` (pop empty rows from the top, keep at least one row) -/
omit [Num α] in
theorem trimRows_nil : trimRows ([] : List (List (α × α))) = [[]] := by simp [trimRows]

omit [Num α] in
theorem trimRows_concat (ys : List (List (α × α))) (l : List (α × α)) :
    trimRows (ys ++ [l]) = if l = [] then trimRows ys else ys ++ [l] := by
  by_cases hl : l = []
  · subst hl; simp [trimRows]
  · have : l.isEmpty = false := by simp [hl]
    simp [trimRows, this, hl]

omit [Num α] in
theorem trimRows_ne_nil (ys : List (List (α × α))) : trimRows ys ≠ [] := by
  induction ys using List.reverseRecOn with
  | nil => simp [trimRows_nil]
  | append_singleton ys l ih => rw [trimRows_concat]; split <;> simp [ih]

omit [Num α] in
theorem trimRows_mem (ys : List (List (α × α))) : ∀ r ∈ trimRows ys, r = [] ∨ r ∈ ys := by
  induction ys using List.reverseRecOn with
  | nil => simp [trimRows_nil]
  | append_singleton ys l ih =>
    rw [trimRows_concat]
    split
    · intro r hr
      rcases ih r hr with h | h
      · exact Or.inl h
      · exact Or.inr (by simp [h])
    · intro r hr; exact Or.inr hr

omit [Num α] in
theorem trimRows_last (ys : List (List (α × α))) : trimRows ys = [[]] ∨ LastNE (trimRows ys) := by
  induction ys using List.reverseRecOn with
  | nil => simp [trimRows_nil]
  | append_singleton ys l ih =>
    rw [trimRows_concat]
    split
    · exact ih
    · rename_i hl; exact Or.inr ((LastNE_append_singleton _ _).2 hl)

omit [Num α] in
theorem trimRows_wsum (i : Nat) (ys : List (List (α × α))) : wsum i (trimRows ys) = wsum i ys := by
  induction ys using List.reverseRecOn with
  | nil => simp [trimRows_nil]
  | append_singleton ys l ih =>
    rw [trimRows_concat]
    split
    · rename_i hl; subst hl; rw [ih, wsum_append_singleton]; simp
    · rfl

omit [Num α] in
theorem trimRows_cnt (ys : List (List (α × α))) : cnt (trimRows ys) = cnt ys := by
  induction ys using List.reverseRecOn with
  | nil => simp [trimRows_nil]
  | append_singleton ys l ih =>
    rw [trimRows_concat]
    split
    · rename_i hl; subst hl; rw [ih]; simp
    · rfl

/-! ### shape invariant of `rows` -/
structure RowsOK {β : Type} (m : Nat) (rows : List (List β)) : Prop where
  ne : rows ≠ []
  bound : ∀ r ∈ rows, r.length ≤ m
  last : rows = [[]] ∨ LastNE rows

theorem RowsOK_init {β : Type} (m : Nat) : RowsOK m ([[]] : List (List β)) :=
  ⟨by simp, by simp, Or.inl rfl⟩

theorem RowsOK_insert {m : Nat} (hm : 1 ≤ m) {r0 : List (α × α)} {rest : List (List (α × α))}
    (h : RowsOK m (r0 :: rest)) (x : α × α) : RowsOK m (compress m 0 (r0 ++ [x]) rest) := by
  have hrest : LastNE rest := by
    rcases h.last with heq | hl
    · simp at heq; simp [heq.2]
    · exact hl.tail
  refine ⟨compress_ne_nil _ _ _ _, ?_, Or.inr (compress_lastNE _ _ _ _ (by simp) hrest)⟩
  refine compress_bound m hm 0 _ rest ?_ (fun r hr => h.bound r (List.mem_cons_of_mem _ hr))
  have := h.bound r0 (by simp)
  simp; omega

omit [Num α] in
theorem RowsOK_delete {m : Nat} {ys : List (List (α × α))} {e : α × α} {tl : List (α × α)}
    (h : RowsOK m (ys ++ [e :: tl])) :
    RowsOK m (if tl.isEmpty then trimRows ys else ys ++ [tl]) := by
  by_cases ht : tl = []
  · subst ht
    simp only [List.isEmpty_nil, if_true]
    refine ⟨trimRows_ne_nil ys, ?_, trimRows_last ys⟩
    intro r hr
    rcases trimRows_mem ys r hr with rfl | hr
    · simp
    · exact h.bound r (by simp [hr])
  · have : tl.isEmpty = false := by simp [ht]
    simp only [this]
    refine ⟨by simp, ?_, Or.inr ((LastNE_append_singleton _ _).2 ht)⟩
    intro r hr
    simp at hr
    rcases hr with hr | rfl
    · exact h.bound r (by simp [hr])
    · have := h.bound (e :: r) (by simp)
      simp at this; omega

/-! ### `deleteOldest` -/
theorem deleteOldest_rows_nil (s : State α) (h : s.rows = []) : deleteOldest s = s := by
  unfold deleteOldest; simp [h]

theorem deleteOldest_last_nil (s : State α) (ys : List (List (α × α))) (h : s.rows = ys ++ [[]]) :
    deleteOldest s = s := by
  unfold deleteOldest; simp [h]

theorem deleteOldest_concat (s : State α) (ys : List (List (α × α))) (e : α × α) (tl : List (α × α))
    (h : s.rows = ys ++ [e :: tl]) :
    deleteOldest s =
      { s with
        rows := if tl.isEmpty then trimRows ys else ys ++ [tl]
        width := s.width - 2 ^ ys.length
        total := s.total - e.1
        variance := s.variance -
          (e.2 + (Num.ofNat (2 ^ ys.length * (s.width - 2 ^ ys.length)) : α)
              * (e.1 / (Num.ofNat (2 ^ ys.length) : α) - (s.total - e.1) / (Num.ofNat (s.width - 2 ^ ys.length) : α))
              * (e.1 / (Num.ofNat (2 ^ ys.length) : α) - (s.total - e.1) / (Num.ofNat (s.width - 2 ^ ys.length) : α))
              / Num.ofNat (2 ^ ys.length + (s.width - 2 ^ ys.length)))
        err := s.err || Num.lt (s.total - e.1) Num.zero
        numBuckets := s.numBuckets - 1 } := by
  unfold deleteOldest; simp [h]

theorem deleteOldest_width_le (s : State α) : (deleteOldest s).width ≤ s.width := by
  unfold deleteOldest
  split
  · exact le_refl _
  · split
    · exact le_refl _
    · exact Nat.sub_le _ _

theorem deleteOldest_n (s : State α) : (deleteOldest s).n = s.n := by
  unfold deleteOldest
  split
  · rfl
  · split <;> rfl

/-! ### `examined` / `scan` -/

/-- all entries in window order (oldest first) as `(bucket size, total)`; row index offset `i` -/
def entriesOf (i : Nat) : List (List (α × α)) → List (Nat × α)
  | [] => []
  | r :: rs => entriesOf (i + 1) rs ++ r.map (fun e => (2 ^ i, e.1))

omit [Num α] in
theorem entriesOf_range' (i : Nat) (rows : List (List (α × α))) :
    ((((List.range' i rows.length).zip rows).reverse.map
        (fun (p : Nat × List (α × α)) => p.2.map (fun e => (2 ^ p.1, e.1)))).flatten) = entriesOf i rows := by
  induction rows generalizing i with
  | nil => rfl
  | cons r rs ih =>
    simp only [List.length_cons, List.range'_succ, List.zip_cons_cons, List.reverse_cons, List.map_append,
      List.flatten_append, List.map_cons, List.map_nil, List.flatten_cons, List.flatten_nil, List.append_nil,
      entriesOf]
    rw [ih]

omit [Num α] in
/-- the scan visits every entry except the newest one (the last entry of row 0) -/
theorem examined_eq (rows : List (List (α × α))) : examined rows = (entriesOf 0 rows).dropLast := by
  rw [← entriesOf_range', ← List.range_eq_range']
  rfl

omit [Num α] in
theorem length_entriesOf (i : Nat) (rows : List (List (α × α))) : (entriesOf i rows).length = cnt rows := by
  induction rows generalizing i with
  | nil => rfl
  | cons r rs ih => simp [entriesOf, ih]; omega

omit [Num α] in
theorem examined_ne_nil {rows : List (List (α × α))} (h : examined rows ≠ []) : 2 ≤ cnt rows := by
  rw [examined_eq] at h
  have : (entriesOf 0 rows).dropLast.length ≠ 0 := fun h0 => h (List.length_eq_zero_iff.mp h0)
  rw [List.length_dropLast, length_entriesOf] at this
  omega

theorem scan_nil (c : Cfg α) (s : State α) (n0 n1 : Nat) (t0 t1 : α) : scan c s [] n0 n1 t0 t1 = false := rfl

/-- a cut can only be found when the window has at least two buckets -/
theorem scan_true_two {c : Cfg α} {s s' : State α} {n0 n1 : Nat} {t0 t1 : α}
    (h : scan c s (examined s'.rows) n0 n1 t0 t1 = true) : 2 ≤ numEntries s' := by
  apply examined_ne_nil
  intro h0; rw [h0, scan_nil] at h; cases h

/-! ### state invariant: shape of `rows` and `width = Σ 2^i · |rows[i]|` -/
def WF (c : Cfg α) (s : State α) : Prop := RowsOK c.m s.rows ∧ s.width = wsum 0 s.rows

theorem WF_init (c : Cfg α) : WF c (init : State α) := ⟨RowsOK_init _, by simp [init]⟩

theorem WF_reset (c : Cfg α) (s : State α) : WF c (reset s) := ⟨RowsOK_init _, by simp [reset]⟩

theorem WF_insert (c : Cfg α) (hm : 1 ≤ c.m) (s : State α) (v : α) (h : WF c s) : WF c (insert c s v) := by
  obtain ⟨hr, hw⟩ := h
  cases hrows : s.rows with
  | nil => exact absurd hrows hr.ne
  | cons r0 rest =>
    rw [hrows] at hr hw
    have hrw : (insert c s v).rows = compress c.m 0 (r0 ++ [(v, Num.zero)]) rest := by simp [ADWIN.insert, hrows]
    refine ⟨by rw [hrw]; exact RowsOK_insert hm hr _, ?_⟩
    rw [hrw, compress_wsum]
    show s.width + 1 = _
    rw [hw]; simp; ring

/-- the state `checkLoop` continues with after a cut -/
def del (s : State α) : State α := { deleteOldest s with drift := true }

/-- On a well-formed non-empty window `deleteOldest` removes exactly one entry, the subtraction
`width - 2^k` does not truncate, and the width drops by exactly `2^k` (`k` = index of the last row). -/
theorem WF_delete (c : Cfg α) (s : State α) (h : WF c s) (h1 : 1 ≤ numEntries s) :
    WF c (deleteOldest s) ∧ (deleteOldest s).width < s.width
      ∧ numEntries (deleteOldest s) + 1 = numEntries s ∧ 2 ^ (s.rows.length - 1) ≤ s.width
      ∧ (deleteOldest s).width + 2 ^ (s.rows.length - 1) = s.width := by
  obtain ⟨hr, hw⟩ := h
  rcases List.eq_nil_or_concat s.rows with h0 | ⟨ys, l, hrows⟩
  · exact absurd h0 hr.ne
  · rw [List.concat_eq_append] at hrows
    rw [numEntries_eq] at h1
    rw [hrows] at hr hw h1
    have hl : l ≠ [] := by
      rcases hr.last with heq | hl
      · rw [heq] at h1; simp at h1
      · exact (LastNE_append_singleton _ _).1 hl
    obtain ⟨e, tl, rfl⟩ := List.exists_cons_of_ne_nil hl
    have hd := deleteOldest_concat s ys e tl hrows
    have hrows' : (deleteOldest s).rows = if tl.isEmpty then trimRows ys else ys ++ [tl] := by rw [hd]
    have hwid : (deleteOldest s).width = s.width - 2 ^ ys.length := by rw [hd]
    have hlen : s.rows.length - 1 = ys.length := by simp [hrows]
    have hpos : 0 < 2 ^ ys.length := Nat.pos_of_ne_zero (by positivity)
    rw [wsum_append_singleton] at hw
    simp only [Nat.zero_add, List.length_cons] at hw
    have hw' : s.width = wsum 0 ys + 2 ^ ys.length * tl.length + 2 ^ ys.length := by rw [hw]; ring
    clear hw hd
    rw [hlen, hwid]
    refine ⟨⟨by rw [hrows']; exact RowsOK_delete hr, ?_⟩, by omega, ?_, by omega, by omega⟩
    · rw [hwid, hrows']
      by_cases ht : tl = []
      · subst ht; simp [trimRows_wsum] at hw' ⊢; omega
      · have : tl.isEmpty = false := by simp [ht]
        rw [this]
        simp only [Bool.false_eq_true, if_false, wsum_append_singleton, Nat.zero_add]
        omega
    · simp only [numEntries_eq, hrows', hrows]
      by_cases ht : tl = []
      · subst ht; simp [trimRows_cnt]
      · have : tl.isEmpty = false := by simp [ht]
        simp [this]; omega

theorem WF_deleteOldest (c : Cfg α) (s : State α) (h : WF c s) : WF c (deleteOldest s) := by
  by_cases h1 : 1 ≤ numEntries s
  · exact (WF_delete c s h h1).1
  · rcases List.eq_nil_or_concat s.rows with h0 | ⟨ys, l, hrows⟩
    · rw [deleteOldest_rows_nil s h0]; exact h
    · rw [List.concat_eq_append] at hrows
      have : l = [] := by
        rw [numEntries_eq, hrows, cnt_append, cnt_cons, cnt_nil] at h1
        exact List.length_eq_zero_iff.mp (by omega)
      subst this
      rw [deleteOldest_last_nil s ys hrows]; exact h

/-! ### `checkLoop` -/
/-- the scan over the state `s` finds a significant cut -/
def cutFound (c : Cfg α) (s : State α) : Bool := scan c s (examined s.rows) 0 s.width Num.zero s.total

theorem checkLoop_succ (c : Cfg α) (fuel : Nat) (s : State α) :
    checkLoop c (fuel + 1) s =
      if cutFound c s then (if 0 < s.width then checkLoop c fuel (del s) else { s with drift := true }) else s := rfl

theorem checkLoop_of_not_cut (c : Cfg α) (fuel : Nat) (s : State α) (h : cutFound c s = false) :
    checkLoop c fuel s = s := by
  cases fuel with
  | zero => rfl
  | succ f => rw [checkLoop_succ, h]; rfl

theorem checkLoop_width_le (c : Cfg α) (fuel : Nat) (s : State α) : (checkLoop c fuel s).width ≤ s.width := by
  induction fuel generalizing s with
  | zero => exact le_refl _
  | succ f ih =>
    rw [checkLoop_succ]
    split
    · split
      · exact le_trans (ih _) (deleteOldest_width_le s)
      · exact le_refl _
    · exact le_refl _

theorem checkLoop_drift (c : Cfg α) (fuel : Nat) (s : State α) (h : s.drift = true) :
    (checkLoop c fuel s).drift = true := by
  induction fuel generalizing s with
  | zero => exact h
  | succ f ih =>
    rw [checkLoop_succ]
    split
    · split
      · exact ih _ rfl
      · rfl
    · exact h

theorem checkLoop_n (c : Cfg α) (fuel : Nat) (s : State α) : (checkLoop c fuel s).n = s.n := by
  induction fuel generalizing s with
  | zero => rfl
  | succ f ih =>
    rw [checkLoop_succ]
    split
    · split
      · rw [ih]; exact deleteOldest_n s
      · rfl
    · rfl

theorem WF_checkLoop (c : Cfg α) (fuel : Nat) (s : State α) (h : WF c s) : WF c (checkLoop c fuel s) := by
  induction fuel generalizing s with
  | zero => exact h
  | succ f ih =>
    rw [checkLoop_succ]
    split
    · rename_i hc
      split
      · exact ih _ (WF_deleteOldest c s h)
      · exact h
    · exact h

/-- with enough fuel (`numEntries s + 1`; every iteration removes exactly one entry) the loop ends
because the scan finds no cut, never because the fuel ran out -/
theorem checkLoop_no_cut (c : Cfg α) (fuel : Nat) (s : State α) (h : WF c s) (hf : numEntries s + 1 ≤ fuel) :
    cutFound c (checkLoop c fuel s) = false := by
  induction fuel generalizing s with
  | zero => omega
  | succ f ih =>
    rw [checkLoop_succ]
    cases hc : cutFound c s with
    | false => simpa using hc
    | true =>
      obtain ⟨hwf, hlt, hne, _⟩ := WF_delete c s h (le_trans (by decide) (scan_true_two hc))
      have hpos : 0 < s.width := by omega
      simp only [if_true, hpos]
      exact ih (del s) hwf (by show numEntries (deleteOldest s) + 1 ≤ f; omega)

/-- the result does not depend on the fuel once it is at least `numEntries s + 1` -/
theorem checkLoop_fuel_irrelevant (c : Cfg α) (f1 f2 : Nat) (s : State α) (h : WF c s)
    (h1 : numEntries s + 1 ≤ f1) (h2 : numEntries s + 1 ≤ f2) : checkLoop c f1 s = checkLoop c f2 s := by
  induction f1 generalizing s f2 with
  | zero => omega
  | succ f ih =>
    obtain ⟨g, rfl⟩ : ∃ g, f2 = g + 1 := ⟨f2 - 1, by omega⟩
    rw [checkLoop_succ, checkLoop_succ]
    cases hc : cutFound c s with
    | false => rfl
    | true =>
      obtain ⟨hwf, hlt, hne, _⟩ := WF_delete c s h (le_trans (by decide) (scan_true_two hc))
      have hpos : 0 < s.width := by omega
      simp only [if_true, hpos]
      exact ih g (del s) hwf (by show numEntries (deleteOldest s) + 1 ≤ f; omega)
        (by show numEntries (deleteOldest s) + 1 ≤ g; omega)

end Frouros.C05
