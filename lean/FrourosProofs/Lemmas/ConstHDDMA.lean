/- Constant streams: HDDM-A. -/
import FrourosProofs.Lemmas.ConstCommon

namespace Frouros.C01c
open Frouros
namespace Hddma
open HDDMA

/-- `0 < alpha_d ≤ 1` (implied by `Config.hddma`): makes `log(1/alpha_d) ≥ 0`, so that the Hoeffding
bound is a genuine square root (not the junk value `√(negative) = 0`) and is antitone in `n`. -/
structure Ok (cfg : Cfg ℝ) : Prop where
  pos : 0 < cfg.alphaD
  le_one : cfg.alphaD ≤ 1

theorem log_nonneg {cfg : Cfg ℝ} (ok : Ok cfg) : 0 ≤ Real.log (1 / cfg.alphaD) :=
  Real.log_nonneg ((one_le_div ok.pos).mpr ok.le_one)

/-- the Hoeffding error bound is antitone in the number of values (for `n ≥ 1`: no division by zero) -/
theorem bound_antitone {cfg : Cfg ℝ} (ok : Ok cfg) {m n : Nat} (hm : 1 ≤ m) (hmn : m ≤ n) :
    bound cfg n ≤ bound cfg m := by
  unfold bound
  simp only [RealNum.sqrt_eq, RealNum.log_eq, RealNum.one_eq, RealNum.ofNat_eq]
  apply Real.sqrt_le_sqrt
  apply div_le_div_of_nonneg_left (log_nonneg ok)
  · exact_mod_cast (by omega : 0 < 2 * m)
  · exact_mod_cast (by omega : 2 * m ≤ 2 * n)

/-- `side` with identical cut point and sample: `m = 0` (a genuine zero, `z.n = cut.n`), no flag -/
theorem side_self (cfg : Cfg ℝ) (z : Mean ℝ) (b : Bool) : side cfg z z b = (false, false) := by
  simp [side]

structure Inv (cfg : Cfg ℝ) (c : ℝ) (s : State ℝ) : Prop where
  z : MeanConst c s.t.z
  zn : s.t.z.n = s.n
  x : s.t.x = s.t.z
  y : s.t.y = if cfg.twoSided then s.t.z else Mean.init
  drift : s.drift = false
  warning : s.warning = false

theorem inv_init (cfg : Cfg ℝ) (c : ℝ) : Inv cfg c (init : State ℝ) :=
  ⟨meanConst_init c, rfl, rfl, by simp [init, Test.init], rfl, rfl⟩
theorem inv_reset (cfg : Cfg ℝ) (c : ℝ) (s : State ℝ) : Inv cfg c (reset s) :=
  ⟨meanConst_init c, rfl, rfl, by simp [reset, Test.init], rfl, rfl⟩

/-- the cut point moves to the current sample: either it was just initialised to it, or it is the
previous sample (same mean `c`, one value fewer, hence a larger bound) -/
theorem cut_moves_x {cfg : Cfg ℝ} (ok : Ok cfg) {c : ℝ} {z x1 : Mean ℝ} (hz : MeanConst c z)
    (hx : x1 = z.update c ∨ (x1 = z ∧ 1 ≤ z.n)) :
    (if Num.le ((z.update c).mean + bound cfg (z.update c).n) (x1.mean + bound cfg x1.n)
      then z.update c else x1) = z.update c := by
  rcases hx with rfl | ⟨rfl, hn⟩
  · simp
  · have hm : x1.mean = c := by rcases hz with ⟨h0, _⟩ | ⟨_, h⟩; omega; exact h
    have : Num.le ((x1.update c).mean + bound cfg (x1.update c).n) (x1.mean + bound cfg x1.n) = true := by
      rw [RealNum.le_iff, meanConst_update_mean hz, hm, mean_update_n]
      have := bound_antitone ok hn (Nat.le_succ x1.n)
      linarith
    simp [this]

theorem cut_moves_y {cfg : Cfg ℝ} (ok : Ok cfg) {c : ℝ} {z y1 : Mean ℝ} (hz : MeanConst c z)
    (hy : y1 = z.update c ∨ (y1 = z ∧ 1 ≤ z.n)) :
    (if Num.le (y1.mean - bound cfg y1.n) ((z.update c).mean - bound cfg (z.update c).n)
      then z.update c else y1) = z.update c := by
  rcases hy with rfl | ⟨rfl, hn⟩
  · simp
  · have hm : y1.mean = c := by rcases hz with ⟨h0, _⟩ | ⟨_, h⟩; omega; exact h
    have : Num.le (y1.mean - bound cfg y1.n) ((y1.update c).mean - bound cfg (y1.update c).n) = true := by
      rw [RealNum.le_iff, meanConst_update_mean hz, hm, mean_update_n]
      have := bound_antitone ok hn (Nat.le_succ y1.n)
      linarith
    simp [this]

theorem inv_step {cfg : Cfg ℝ} (ok : Ok cfg) {c : ℝ} {s : State ℝ} (h : Inv cfg c s) :
    Inv cfg c (step cfg s c) := by
  have hz := meanConst_update h.z
  have hzn : (s.t.z.update c).n = s.n + 1 := by rw [mean_update_n, h.zn]
  -- the two cut points after `set_initial_cut_mean`
  have hx1 : ∀ x1 : Mean ℝ, x1 = (if (s.t.z.n == 0) = true then s.t.z.update c else s.t.z) →
      x1 = s.t.z.update c ∨ (x1 = s.t.z ∧ 1 ≤ s.t.z.n) := by
    intro x1 hx; subst hx
    by_cases h0 : s.t.z.n = 0
    · left; simp [h0]
    · right; simp [h0]; omega
  have hX := cut_moves_x ok h.z (hx1 _ rfl)
  have hY := cut_moves_y ok h.z (hx1 _ rfl)
  unfold step
  simp only [h.x, h.y]
  cases htwo : cfg.twoSided
  · simp only [Bool.false_and, Bool.false_eq_true, if_false, hX, checkCases, htwo, side_self]
    by_cases hmin : cfg.minN ≤ s.n + 1
    · simp only [hmin, if_true]
      exact ⟨hz, hzn, rfl, by simp [htwo], rfl, rfl⟩
    · simp only [hmin, if_false]
      exact ⟨hz, hzn, rfl, by simp [htwo], rfl, rfl⟩
  · simp only [Bool.true_and, if_true, hX, hY, checkCases, htwo, side_self]
    by_cases hmin : cfg.minN ≤ s.n + 1
    · simp only [hmin, if_true]
      exact ⟨hz, hzn, rfl, by simp [htwo], rfl, rfl⟩
    · simp only [hmin, if_false]
      exact ⟨hz, hzn, rfl, by simp [htwo], rfl, rfl⟩

end Hddma
end Frouros.C01c
