/-
  Decomposition of `RDDM.step` into `pre` (counter increment + optional `rebuild`) and `post`
  (enqueue + threshold logic), and the control-flow specification of both halves, for every
  carrier.  `pre`/`post` are verbatim copies of the two halves of the model's `step`;
  `RDDM.step_eq` proves by `rfl` that their composition IS the model's `step`.
  Core Lean only.
-/
import FrourosModel.SPC
import FrourosProofs.Lemmas.Queue
namespace Frouros
namespace RDDM
variable {α : Type} [Num α]

/-- the replay loop runs `k` iterations and increments the counter in each -/
theorem replay_n (c : Cfg α) (d : Bool) (q : CQ α) (k pos n : Nat) (er : Mean α) (m : Option (α × α)) :
    (replay c d q k pos n er m).1 = n + k := by
  induction k generalizing pos n er m with
  | zero => rfl
  | succ k ih =>
    unfold replay
    simp only []
    rw [ih]; omega

/-- `rebuild` rewinds the instance counter to the number of stored predictions -/
theorem rebuild_n (c : Cfg α) (s : State α) : (rebuild c s).n = s.preds.count := by
  unfold rebuild
  simp only [replay_n]
  omega

theorem rebuild_fields (c : Cfg α) (s : State α) :
    (rebuild c s).preds = s.preds ∧ (rebuild c s).warning = s.warning ∧ (rebuild c s).drift = false
    ∧ (rebuild c s).rddmDrift = false ∧ (rebuild c s).err = s.err ∧ (rebuild c s).numWarnings = 0 :=
  ⟨rfl, rfl, rfl, rfl, rfl, rfl⟩

/-- the state at the top of `step`, after the counter increment and the optional rebuild -/
def pre (c : Cfg α) (s0 : State α) : State α :=
  let s := { s0 with n := s0.n + 1 }
  if s.rddmDrift then rebuild c s else s

/-- the rest of `step` (text copied from the model; `step_eq` checks the copy by `rfl`) -/
def post (c : Cfg α) (s : State α) (v : α) : State α :=
  match s.preds.enqueue v with
  | .error e => { s with err := some e }
  | .ok (_, q) =>
  let s := { s with preds := q, er := s.er.update v }
  if c.minN ≤ s.n then
    let (eps, std) := DDM.epsStd s.er s.n
    let m := if DDM.belowMin eps s.minPS then some (s.er.mean, std) else s.minPS
    let s := { s with minPS := m }
    if DDM.exceeds eps m c.drift then
      let s := { s with rddmDrift := true, drift := true, warning := false }
      if s.numWarnings == 0 then keepLast s else s
    else
      let s :=
        if DDM.exceeds eps m c.warn then
          if c.maxWarn ≤ s.numWarnings then
            keepLast { s with rddmDrift := true, drift := true, warning := false }
          else
            { s with warning := true, numWarnings := s.numWarnings + 1, drift := false }
        else
          { s with drift := false, warning := false, numWarnings := 0 }
      if decide (c.maxConcept ≤ s.n) && !s.warning then { s with rddmDrift := true } else s
  else
    { s with drift := false, warning := false }

theorem step_eq (c : Cfg α) (s0 : State α) (v : α) : step c s0 v = post c (pre c s0) v := rfl

/-- `pre`: queue, warning and error flag untouched; `rddmDrift` is consumed (always `false`
afterwards); `drift` can only be switched off; the counter is either incremented or rewound to the
number of stored predictions -/
theorem pre_spec (c : Cfg α) (s0 : State α) :
    (pre c s0).preds = s0.preds ∧ (pre c s0).warning = s0.warning ∧ (pre c s0).err = s0.err
    ∧ (pre c s0).rddmDrift = false
    ∧ ((pre c s0).drift = true → s0.drift = true)
    ∧ ((pre c s0).n = s0.n + 1 ∨ (pre c s0).n = s0.preds.count) := by
  unfold pre
  simp only []
  split
  · refine ⟨rfl, rfl, rfl, rfl, ?_, Or.inr (rebuild_n _ _)⟩
    intro h; exact absurd h (by simp [rebuild_fields])
  · rename_i h
    exact ⟨rfl, rfl, rfl, by simpa using h, id, Or.inl rfl⟩

omit [Num α] in
theorem keepLast_fields (s : State α) :
    (keepLast s).n = s.n ∧ (keepLast s).drift = s.drift ∧ (keepLast s).warning = s.warning
    ∧ (keepLast s).rddmDrift = s.rddmDrift ∧ (keepLast s).preds.maxLen = s.preds.maxLen
    ∧ (1 ≤ s.preds.count → (keepLast s).preds.count ≤ s.preds.count)
    ∧ (1 ≤ s.preds.count → s.preds.last.isSome = true → (keepLast s).err = s.err) := by
  unfold keepLast
  split
  · rename_i q h
    have := CQ.keepLast_ok h
    grind
  · rename_i e h
    have := CQ.keepLast_error h
    grind

/-- `post`, from ANY state `p`: the counter is untouched; `rddmDrift` can only be raised when
`minN ≤ p.n`; below `minN` no flag is raised; both flags are never raised together; the queue
grows by at most one element and keeps its capacity; with positive capacity no queue operation
fails (`enqueue` needs capacity > 0, `keepLast` runs right after a successful `enqueue`). -/
theorem post_spec (c : Cfg α) (p : State α) (v : α) :
    (post c p v).n = p.n ∧
    ((post c p v).rddmDrift = true → p.rddmDrift = false → c.minN ≤ p.n) ∧
    (p.n < c.minN → ((post c p v).drift = true → p.drift = true) ∧ ((post c p v).warning = true → p.warning = true)) ∧
    ((post c p v).drift = true → (post c p v).warning = true → (p.drift = true ∧ p.warning = true)) ∧
    (post c p v).preds.count ≤ p.preds.count + 1 ∧
    (post c p v).preds.maxLen = p.preds.maxLen ∧
    (0 < p.preds.maxLen → (post c p v).err = p.err) := by
  unfold post
  split
  · rename_i e h
    have := CQ.enqueue_error h
    grind
  · rename_i e q h
    have := CQ.enqueue_ok h
    have hk := fun s : State α => keepLast_fields s
    grind

end RDDM
end Frouros
