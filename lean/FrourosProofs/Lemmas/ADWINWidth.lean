/-
  ADWIN bookkeeping: `width` is exactly the number of stream values summarised by the bucket rows
  (`content 0 rows = Σ_i 2^i * |row i|`).  Consequence: the truncated `Nat` subtraction
  `width - 2^k` in `deleteOldest` never truncates in a state satisfying the invariant
  (`2^k ≤ width`), so the model's `width` is the exact integer the Python code computes.
  (uses `List.reverseRecOn` from Mathlib.)
-/
import Mathlib.Data.List.Induction
import FrourosModel.Window
namespace Frouros
namespace ADWIN
variable {α : Type} [Num α]

/-- number of stream values summarised by `rows`, the first of which is bucket row `i` -/
def content {β : Type} : Nat → List (List β) → Nat
  | _, [] => 0
  | i, row :: rest => 2 ^ i * row.length + content (i + 1) rest

theorem content_append_singleton {β : Type} (i : Nat) (l : List (List β)) (row : List β) :
    content i (l ++ [row]) = content i l + 2 ^ (i + l.length) * row.length := by
  induction l generalizing i with
  | nil => simp [content]
  | cons r l ih =>
    simp only [List.cons_append, content, ih, List.length_cons]
    have : i + 1 + l.length = i + (l.length + 1) := by omega
    rw [this]; omega

/-- popping empty rows from the end does not change the content -/
theorem trimRows_content (i : Nat) (rows : List (List (α × α))) :
    content i (trimRows rows) = content i rows := by
  induction rows using List.reverseRecOn with
  | nil => simp [trimRows, content]
  | append_singleton ys row ih =>
    cases row with
    | nil =>
      have h1 : trimRows (ys ++ [([] : List (α × α))]) = trimRows ys := by
        simp [trimRows, List.reverse_append, List.dropWhile]
      rw [h1, ih, content_append_singleton]; simp
    | cons e tl =>
      have h1 : trimRows (ys ++ [e :: tl]) = ys ++ [e :: tl] := by
        simp [trimRows, List.reverse_append, List.dropWhile]
      rw [h1]

/-- `_compress_buckets` moves values between rows but never loses or invents one -/
theorem compress_content (m : Nat) (rest : List (List (α × α))) :
    ∀ (i : Nat) (row : List (α × α)), content i (compress m i row rest) = content i (row :: rest) := by
  induction rest with
  | nil =>
    intro i row
    unfold compress
    split
    · split
      · simp only [content, List.length_cons, List.length_nil, Nat.pow_succ]; grind
      · rfl
    · rfl
  | cons nxt rest' ih =>
    intro i row
    unfold compress
    split
    · split
      · simp only []
        split
        · simp only [content, List.length_cons, List.length_append, List.length_nil, Nat.pow_succ]; grind
        · simp only [content, ih, List.length_cons, List.length_append, List.length_nil, Nat.pow_succ]; grind
      · rfl
    · rfl

theorem insert_content (c : Cfg α) (s : State α) (v : α) (h : s.width = content 0 s.rows) :
    (insert c s v).width = content 0 (insert c s v).rows := by
  unfold insert
  simp only []
  cases hrows : s.rows with
  | nil => rw [h, hrows]; simp [content]
  | cons r0 rest =>
    simp only [compress_content]
    rw [h, hrows]
    simp [content]; omega

/-- `deleteOldest` preserves the invariant, and under the invariant its truncated subtraction is
exact: either nothing is deleted (`width` unchanged) or `new width + 2^k = old width` with `k` the
index of the last row -/
theorem deleteOldest_content (s : State α) (h : s.width = content 0 s.rows) :
    (deleteOldest s).width = content 0 (deleteOldest s).rows ∧
    ((deleteOldest s).width = s.width ∨ (deleteOldest s).width + 2 ^ (s.rows.length - 1) = s.width) := by
  unfold deleteOldest
  simp only []
  cases hl : s.rows.getLast? with
  | none => exact ⟨h, Or.inl rfl⟩
  | some last =>
    cases last with
    | nil => exact ⟨h, Or.inl rfl⟩
    | cons e tl =>
      simp only []
      obtain ⟨ys, hys⟩ := List.getLast?_eq_some_iff.1 hl
      have hd : s.rows.dropLast = ys := by rw [hys]; simp
      have hlen : s.rows.length - 1 = ys.length := by rw [hys]; simp
      have hc : content 0 s.rows = content 0 ys + 2 ^ ys.length * (tl.length + 1) := by
        rw [hys, content_append_singleton]; simp
      rw [h, hc, hd, hlen]
      constructor
      · split
        · rename_i ht
          have : tl.length = 0 := by simpa using ht
          rw [this, trimRows_content]; simp
        · rw [content_append_singleton]
          simp only [Nat.zero_add, Nat.mul_add, Nat.mul_one]; omega
      · right
        simp only [Nat.mul_add, Nat.mul_one]; omega

/-- the shrink loop only applies `deleteOldest` (to states satisfying the invariant) -/
theorem checkLoop_content (c : Cfg α) (fuel : Nat) (s : State α) (h : s.width = content 0 s.rows) :
    (checkLoop c fuel s).width = content 0 (checkLoop c fuel s).rows := by
  induction fuel generalizing s with
  | zero => exact h
  | succ k ih =>
    unfold checkLoop
    split
    · split
      · exact ih _ (deleteOldest_content s h).1
      · exact h
    · exact h

/-- one update preserves `width = content 0 rows`; every intermediate state of the update (after
`insert`, after each `deleteOldest`) satisfies it too, so every subtraction executed is exact -/
theorem step_content (c : Cfg α) (s : State α) (v : α) (h : s.width = content 0 s.rows) :
    (step c s v).width = content 0 (step c s v).rows := by
  unfold step
  simp only []
  have hi := insert_content c { s with n := s.n + 1, drift := false } v h
  split
  · exact checkLoop_content c _ _ hi
  · exact hi

end ADWIN
end Frouros
