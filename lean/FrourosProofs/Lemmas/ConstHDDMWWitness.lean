/- HDDM-W raises a warning on the all-ones stream (zero-initialised EWMA): a concrete witness. -/
import FrourosProofs.Lemmas.ConstCommon

namespace Frouros.C01c
open Frouros
namespace HddmwW
open HDDMW

/-- `alpha_d = 1/2`, `alpha_w = 1`, one-sided, `lambda = 1/2`, `min_num_instances = 1`:
accepted by `Config.hddmw` (`0 < alpha_d < alpha_w ≤ 1`, `0 < lambda ≤ 1`, `minN ≥ 1`) -/
noncomputable def wcfg : Cfg ℝ := ⟨1 / 2, 1, false, 1 / 2, 1⟩

/-- a sample with EWMA weight `1/2` -/
noncomputable def mkS (m i : ℝ) : Sample ℝ := ⟨⟨1 / 2, 1 / 2, m⟩, i⟩

noncomputable def T (tot i1 i2 : Sample ℝ) (cut : Option ℝ) : Test ℝ := ⟨tot, i1, i2, cut, mkS 0 1, mkS 0 1, none⟩

theorem init_eq : init wcfg = ⟨0, false, false, T (mkS 0 1) (mkS 0 1) (mkS 0 1) none⟩ := by
  simp [init, wcfg, Test.init, Sample.init, EWMA.init, T, mkS]
  norm_num

theorem upd (m i : ℝ) : Sample.update (1 / 2) (mkS m i) 1 = mkS (1 / 2 + 1 / 2 * m) (1 / 4 + 1 / 4 * i) := by
  simp [Sample.update, EWMA.update, mkS]
  ring

/-- first update: no cut point yet, so it is set and the `inc` samples are re-initialised -/
theorem us_none (m i : ℝ) (i1 i2 : Sample ℝ) :
    updateStats wcfg (T (mkS m i) i1 i2 none) 1 =
      T (mkS (1 / 2 + 1 / 2 * m) (1 / 4 + 1 / 4 * i)) (mkS (1 / 2 + 1 / 2 * m) (1 / 4 + 1 / 4 * i)) (mkS 0 1)
        (some ((1 / 2 + 1 / 2 * m) + mcBound (1 / 4 + 1 / 4 * i) (1 / 2))) := by
  have h0 : Sample.init (1 / 2 : ℝ) = mkS 0 1 := by
    simp [Sample.init, EWMA.init, mkS]; norm_num
  unfold updateStats
  simp only [wcfg, T, upd, h0]
  simp [mkS]

/-- later updates: the upper confidence limit does not go below the cut point, `inc2` accumulates -/
theorem us_some (m i m2 j2 cp : ℝ) (i1 : Sample ℝ)
    (h : ¬ (1 / 2 + 1 / 2 * m) + mcBound (1 / 4 + 1 / 4 * i) (1 / 2) < cp) :
    updateStats wcfg (T (mkS m i) i1 (mkS m2 j2) (some cp)) 1 =
      T (mkS (1 / 2 + 1 / 2 * m) (1 / 4 + 1 / 4 * i)) i1 (mkS (1 / 2 + 1 / 2 * m2) (1 / 4 + 1 / 4 * j2)) (some cp) := by
  unfold updateStats
  simp only [wcfg, T, upd]
  have : Num.lt ((mkS (1 / 2 + 1 / 2 * m) (1 / 4 + 1 / 4 * i)).ewma.mean +
      mcBound (mkS (1 / 2 + 1 / 2 * m) (1 / 4 + 1 / 4 * i)).ibc (1 / 2)) cp = false := by
    rw [RealNum.lt_false_iff]; exact h
  simp only [this, Bool.false_eq_true, if_false]

theorem check_eq (tot : Sample ℝ) (a i b j : ℝ) (cut : Option ℝ) :
    checkChanges wcfg (T tot (mkS a i) (mkS b j) cut) =
      (decide (mcBound (i + j) (1 / 2) < b - a),
       if mcBound (i + j) (1 / 2) < b - a then false else decide (mcBound (i + j) 1 < b - a)) := by
  unfold checkChanges thr
  simp only [wcfg, T, mkS]
  simp [Num.gt, Num.lt]

theorem step_eq (n : Nat) (d w : Bool) (t : Test ℝ) : step wcfg ⟨n, d, w, t⟩ 1 =
    if (checkChanges wcfg (updateStats wcfg t 1)).1 then ⟨n + 1, true, false, Test.init (1 / 2)⟩
    else ⟨n + 1, false, (checkChanges wcfg (updateStats wcfg t 1)).2, updateStats wcfg t 1⟩ := by
  unfold step
  have : wcfg.minN ≤ n + 1 := by simp [wcfg]
  simp only [this, if_true]
  rfl

theorem mcBound_half (x : ℝ) : mcBound x (1 / 2) = Real.sqrt (x * Real.log 2 / 2) := by
  unfold mcBound
  simp

theorem mcBound_one (x : ℝ) : mcBound x 1 = 0 := by
  unfold mcBound
  simp

theorem log_two_le : Real.log 2 ≤ 1 := by
  have := Real.log_le_sub_one_of_pos (by norm_num : (0 : ℝ) < 2)
  linarith

theorem log_two_ge : 1 / 2 ≤ Real.log 2 := by
  have h := Real.log_le_sub_one_of_pos (by norm_num : (0 : ℝ) < 2⁻¹)
  rw [Real.log_inv] at h
  linarith

/-- the cut point fixed by the first value -/
noncomputable def cp : ℝ := 1 / 2 + mcBound (1 / 2) (1 / 2)

theorem cp_le : cp ≤ 1 := by
  unfold cp
  rw [mcBound_half]
  have : Real.sqrt (1 / 2 * Real.log 2 / 2) ≤ Real.sqrt (1 / 4) := by
    apply Real.sqrt_le_sqrt; have := log_two_le; linarith
  have h4 : Real.sqrt (1 / 4 : ℝ) = 1 / 2 := by
    rw [show (1 / 4 : ℝ) = (1 / 2) ^ 2 by norm_num]; exact Real.sqrt_sq (by norm_num)
  linarith

noncomputable def s1 : State ℝ := ⟨1, false, false, T (mkS (1 / 2) (1 / 2)) (mkS (1 / 2) (1 / 2)) (mkS 0 1) (some cp)⟩
noncomputable def s2 : State ℝ := ⟨2, false, false, T (mkS (3 / 4) (3 / 8)) (mkS (1 / 2) (1 / 2)) (mkS (1 / 2) (1 / 2)) (some cp)⟩

theorem quarter_le_sqrt {y : ℝ} (h : 1 / 16 ≤ y) : 1 / 4 ≤ Real.sqrt y := by
  rw [Real.le_sqrt' (by norm_num)]; norm_num; linarith

theorem eighth_le_sqrt {y : ℝ} (h : 1 / 64 ≤ y) : 1 / 8 ≤ Real.sqrt y := by
  rw [Real.le_sqrt' (by norm_num)]; norm_num; linarith

theorem step1 : step wcfg (init wcfg) 1 = s1 := by
  rw [init_eq, step_eq, us_none, check_eq]
  have h : ¬ (mcBound (1 / 4 + 1 / 4 * 1 + 1 : ℝ) (1 / 2) < 0 - (1 / 2 + 1 / 2 * 0)) := by
    rw [mcBound_half]; have := Real.sqrt_nonneg ((1 / 4 + 1 / 4 * 1 + 1) * Real.log 2 / 2); linarith
  have h' : ¬ (mcBound (1 / 4 + 1 / 4 * 1 + 1 : ℝ) 1 < 0 - (1 / 2 + 1 / 2 * 0)) := by
    rw [mcBound_one]; norm_num
  simp only [h, h', decide_false, Bool.false_eq_true, if_false, s1, cp]
  norm_num

theorem step2 : step wcfg s1 1 = s2 := by
  unfold s1
  rw [step_eq, us_some _ _ _ _ _ _ (by
    rw [mcBound_half]
    have := quarter_le_sqrt (y := (1 / 4 + 1 / 4 * (1 / 2)) * Real.log 2 / 2) (by have := log_two_ge; linarith)
    have := cp_le
    intro hlt; linarith), check_eq]
  have h : ¬ (mcBound (1 / 2 + (1 / 4 + 1 / 4 * 1) : ℝ) (1 / 2) < 1 / 2 + 1 / 2 * 0 - 1 / 2) := by
    rw [mcBound_half]; have := Real.sqrt_nonneg ((1 / 2 + (1 / 4 + 1 / 4 * 1)) * Real.log 2 / 2); linarith
  have h' : ¬ (mcBound (1 / 2 + (1 / 4 + 1 / 4 * 1) : ℝ) 1 < 1 / 2 + 1 / 2 * 0 - 1 / 2) := by
    rw [mcBound_one]; norm_num
  simp only [h, h', decide_false, Bool.false_eq_true, if_false, s2]
  norm_num

/-- the third `1` raises the warning: `inc2.mean - inc1.mean = 3/4 - 1/2 > 0 = McDiarmid bound at
alpha_w = 1`, while the drift bound `sqrt(7/16 · log 2) ≥ 1/4` is not exceeded -/
theorem step3 : (step wcfg s2 1).drift = false ∧ (step wcfg s2 1).warning = true := by
  unfold s2
  rw [step_eq, us_some _ _ _ _ _ _ (by
    rw [mcBound_half]
    have := eighth_le_sqrt (y := (1 / 4 + 1 / 4 * (3 / 8)) * Real.log 2 / 2) (by have := log_two_ge; linarith)
    have := cp_le
    intro hlt; linarith), check_eq]
  have h : ¬ (mcBound (1 / 2 + (1 / 4 + 1 / 4 * (1 / 2)) : ℝ) (1 / 2) < 1 / 2 + 1 / 2 * (1 / 2) - 1 / 2) := by
    rw [mcBound_half]
    have := quarter_le_sqrt (y := (1 / 2 + (1 / 4 + 1 / 4 * (1 / 2))) * Real.log 2 / 2) (by have := log_two_ge; linarith)
    intro hlt; linarith
  have h' : (mcBound (1 / 2 + (1 / 4 + 1 / 4 * (1 / 2)) : ℝ) 1 < 1 / 2 + 1 / 2 * (1 / 2) - 1 / 2) := by
    rw [mcBound_one]; norm_num
  simp only [h, h', decide_false, decide_true, Bool.false_eq_true, if_false]
  exact ⟨by trivial, by trivial⟩

/-- **witness**: the all-ones stream makes HDDM-W (accepted configuration `wcfg`) raise a warning at
the third value -/
theorem warning_on_ones :
    ((List.replicate 3 (1 : ℝ)).foldl (step wcfg) (init wcfg)).drift = false ∧
    ((List.replicate 3 (1 : ℝ)).foldl (step wcfg) (init wcfg)).warning = true := by
  simp only [List.replicate, List.foldl_cons, List.foldl_nil, step1, step2]
  exact step3

end HddmwW
end Frouros.C01c
