/-
  Control-flow facts about the circular queue (`CQ`) and accuracy queue (`AccQ`) of
  `FrourosModel/Stats.lean`: capacity is never changed, `enqueue` fails only with capacity 0,
  after a successful `enqueue` the queue is non-empty and `last` is set (so `keepLast` succeeds).
  Core Lean only.
-/
import FrourosModel.Stats
namespace Frouros
variable {β : Type}

namespace CQ
theorem init_count (n : Nat) : (CQ.init n : CQ β).count = 0 := rfl
theorem init_maxLen (n : Nat) : (CQ.init n : CQ β).maxLen = n := rfl
theorem clear_count (q : CQ β) : q.clear.count = 0 := rfl
theorem clear_maxLen (q : CQ β) : q.clear.maxLen = q.maxLen := rfl
/-- clearing a queue gives the freshly constructed queue of the same capacity -/
theorem clear_eq_init (q : CQ β) : q.clear = CQ.init q.maxLen := rfl

/-- a successful `enqueue` keeps the capacity, grows the count by at most one, leaves the queue
non-empty and with `last` set -/
theorem enqueue_ok {q q' : CQ β} {v : β} {e : Option β} (h : q.enqueue v = .ok (e, q')) :
    q'.maxLen = q.maxLen ∧ q'.count ≤ q.count + 1 ∧ 1 ≤ q'.count ∧ q'.last.isSome = true := by
  unfold CQ.enqueue CQ.dequeue at h
  simp only [] at h
  grind

/-- `enqueue` can only fail when the queue is full and empty at once, i.e. the capacity is 0 -/
theorem enqueue_error {q : CQ β} {v : β} {e : Err} (h : q.enqueue v = .error e) : q.maxLen = 0 := by
  unfold CQ.enqueue CQ.dequeue CQ.isFull CQ.isEmpty at h
  simp only [] at h
  grind

theorem keepLast_ok {q q' : CQ β} (h : q.keepLast = .ok q') : q'.maxLen = q.maxLen ∧ q'.count = 1 := by
  unfold CQ.keepLast at h
  grind

/-- `keepLast` only fails on an empty queue or one whose `last` was never set -/
theorem keepLast_error {q : CQ β} {e : Err} (h : q.keepLast = .error e) : q.count = 0 ∨ q.last = none := by
  unfold CQ.keepLast CQ.isEmpty at h
  grind
end CQ

namespace AccQ
theorem init_maxLen (n : Nat) : (AccQ.init n).q.maxLen = n := rfl
theorem clear_eq_init (a : AccQ) : a.clear = AccQ.init a.q.maxLen := rfl

theorem enqueue_ok {a a' : AccQ} {v : Bool} (h : a.enqueue v = .ok a') : a'.q.maxLen = a.q.maxLen := by
  unfold AccQ.enqueue AccQ.dequeue CQ.dequeue at h
  simp only [] at h
  grind

theorem enqueue_error {a : AccQ} {v : Bool} {e : Err} (h : a.enqueue v = .error e) : a.q.maxLen = 0 := by
  unfold AccQ.enqueue AccQ.dequeue CQ.dequeue CQ.isFull CQ.isEmpty at h
  simp only [] at h
  grind
end AccQ
end Frouros
