/-
  Lemmas for C10 part B: `minL`/`maxL`, `linspace`, `outerEdges`, `edges`, `counts` at ℝ.
-/
import Mathlib.Data.List.GetD
import FrourosProofs.Lemmas.HistBasic

namespace Frouros.C10
open Frouros Frouros.Hist

/-! ### minimum / maximum -/

theorem foldl_min_spec (xs : List ℝ) (init : ℝ) :
    let m := xs.foldl (fun a y => if Num.lt y a then y else a) init
    m ≤ init ∧ (∀ y ∈ xs, m ≤ y) ∧ m ∈ init :: xs := by
  induction xs generalizing init with
  | nil => simp
  | cons x xs ih =>
    simp only [List.foldl_cons]
    by_cases h : x < init
    · have hlt : Num.lt x init = true := (RealNum.lt_iff _ _).mpr h
      simp only [hlt, if_true]
      obtain ⟨h1, h2, h3⟩ := ih x
      refine ⟨by linarith, ?_, ?_⟩
      · intro y hy
        rcases List.mem_cons.mp hy with rfl | hy
        · exact h1
        · exact h2 y hy
      · exact List.mem_cons_of_mem _ h3
    · have hlt : Num.lt x init = false := (RealNum.lt_false_iff _ _).mpr h
      simp only [hlt, Bool.false_eq_true, if_false]
      obtain ⟨h1, h2, h3⟩ := ih init
      refine ⟨h1, ?_, ?_⟩
      · intro y hy
        rcases List.mem_cons.mp hy with rfl | hy
        · linarith [not_lt.mp h]
        · exact h2 y hy
      · rcases List.mem_cons.mp h3 with h3 | h3
        · rw [h3]; simp
        · exact List.mem_cons_of_mem _ (List.mem_cons_of_mem _ h3)

theorem foldl_max_spec (xs : List ℝ) (init : ℝ) :
    let m := xs.foldl (fun a y => if Num.gt y a then y else a) init
    init ≤ m ∧ (∀ y ∈ xs, y ≤ m) ∧ m ∈ init :: xs := by
  induction xs generalizing init with
  | nil => simp
  | cons x xs ih =>
    simp only [List.foldl_cons]
    by_cases h : init < x
    · have hlt : Num.gt x init = true := (RealNum.gt_iff _ _).mpr h
      simp only [hlt, if_true]
      obtain ⟨h1, h2, h3⟩ := ih x
      refine ⟨by linarith, ?_, ?_⟩
      · intro y hy
        rcases List.mem_cons.mp hy with rfl | hy
        · exact h1
        · exact h2 y hy
      · exact List.mem_cons_of_mem _ h3
    · have hlt : Num.gt x init = false := (RealNum.gt_false_iff _ _).mpr h
      simp only [hlt, Bool.false_eq_true, if_false]
      obtain ⟨h1, h2, h3⟩ := ih init
      refine ⟨h1, ?_, ?_⟩
      · intro y hy
        rcases List.mem_cons.mp hy with rfl | hy
        · linarith [not_lt.mp h]
        · exact h2 y hy
      · rcases List.mem_cons.mp h3 with h3 | h3
        · rw [h3]; simp
        · exact List.mem_cons_of_mem _ (List.mem_cons_of_mem _ h3)

theorem minL_le {l : List ℝ} {x : ℝ} (hx : x ∈ l) : minL l ≤ x := by
  cases l with
  | nil => cases hx
  | cons a t =>
    obtain ⟨h1, h2, _⟩ := foldl_min_spec t a
    rcases List.mem_cons.mp hx with rfl | hx
    · exact h1
    · exact h2 x hx

theorem minL_mem {l : List ℝ} (hl : l ≠ []) : minL l ∈ l := by
  cases l with
  | nil => exact absurd rfl hl
  | cons a t => exact (foldl_min_spec t a).2.2

theorem le_maxL {l : List ℝ} {x : ℝ} (hx : x ∈ l) : x ≤ maxL l := by
  cases l with
  | nil => cases hx
  | cons a t =>
    obtain ⟨h1, h2, _⟩ := foldl_max_spec t a
    rcases List.mem_cons.mp hx with rfl | hx
    · exact h1
    · exact h2 x hx

theorem maxL_mem {l : List ℝ} (hl : l ≠ []) : maxL l ∈ l := by
  cases l with
  | nil => exact absurd rfl hl
  | cons a t => exact (foldl_max_spec t a).2.2

theorem minL_perm {l₁ l₂ : List ℝ} (h : l₁.Perm l₂) : minL l₁ = minL l₂ := by
  by_cases hl : l₁ = []
  · subst hl; rw [List.nil_perm.mp h]
  · have hl2 : l₂ ≠ [] := fun c => hl (List.perm_nil.mp (c ▸ h))
    exact le_antisymm (minL_le (h.mem_iff.mpr (minL_mem hl2))) (minL_le (h.mem_iff.mp (minL_mem hl)))

theorem maxL_perm {l₁ l₂ : List ℝ} (h : l₁.Perm l₂) : maxL l₁ = maxL l₂ := by
  by_cases hl : l₁ = []
  · subst hl; rw [List.nil_perm.mp h]
  · have hl2 : l₂ ≠ [] := fun c => hl (List.perm_nil.mp (c ▸ h))
    exact le_antisymm (le_maxL (h.mem_iff.mp (maxL_mem hl))) (le_maxL (h.mem_iff.mpr (maxL_mem hl2)))

/-! ### counts -/

/-- membership test of bin `i` of `np.histogram` (last bin closed) -/
noncomputable def inBin (es : List ℝ) (i : Nat) (x : ℝ) : Bool :=
  Num.le (es.getD i 0) x &&
    (if i == (es.length - 1) - 1 then Num.le x (es.getD (i + 1) 0) else Num.lt x (es.getD (i + 1) 0))

theorem counts_eq (es a : List ℝ) :
    counts es a = (List.range (es.length - 1)).map (fun i => a.countP (inBin es i)) := by
  unfold counts inBin
  simp only [RealNum.zero_eq, List.countP_eq_length_filter]

/-- telescoping: the half-open bins `[e_i, e_{i+1})`, `i < k`, partition `[e_0, e_k)` -/
theorem ind_sum_halfopen (e : Nat → ℝ) (x : ℝ) (k : Nat) (hmono : ∀ i j, i ≤ j → j ≤ k → e i ≤ e j) :
    ((List.range k).map (fun i => if e i ≤ x ∧ x < e (i + 1) then 1 else 0)).sum
      = if e 0 ≤ x ∧ x < e k then 1 else 0 := by
  induction k with
  | zero => simp
  | succ k ih =>
    rw [List.sum_range_succ, ih (fun i j hij hj => hmono i j hij (by omega))]
    have h0k : e 0 ≤ e k := hmono 0 k (by omega) (by omega)
    have hkk : e k ≤ e (k + 1) := hmono k (k + 1) (by omega) (by omega)
    by_cases h1 : x < e k
    · have : ¬ (e k ≤ x) := not_le.mpr h1
      have h2 : x < e (k + 1) := lt_of_lt_of_le h1 hkk
      simp [h1, this, h2]
    · have h1' : e k ≤ x := not_lt.mp h1
      have h0 : e 0 ≤ x := le_trans h0k h1'
      simp [h1, h1', h0]

/-- every `x ∈ [e_0, e_last]` falls in exactly one bin -/
theorem ind_sum_inBin {es : List ℝ} (hs : es.Pairwise (· ≤ ·)) (hlen : 2 ≤ es.length) {x : ℝ}
    (hlo : es.getD 0 0 ≤ x) (hhi : x ≤ es.getD (es.length - 1) 0) :
    ((List.range (es.length - 1)).map (fun i => if inBin es i x then 1 else 0)).sum = 1 := by
  obtain ⟨m, hm⟩ : ∃ m, es.length = m + 2 := ⟨es.length - 2, by omega⟩
  have hmono : ∀ i j, i ≤ j → j ≤ m + 1 → es.getD i 0 ≤ es.getD j 0 := by
    intro i j hij hj
    rw [List.getD_eq_getElem _ _ (by omega : i < es.length), List.getD_eq_getElem _ _ (by omega : j < es.length)]
    rcases Nat.eq_or_lt_of_le hij with rfl | hlt
    · exact le_rfl
    · exact List.pairwise_iff_getElem.mp hs i j (by omega) (by omega) hlt
  have h1 : es.length - 1 = m + 1 := by omega
  rw [h1, List.sum_range_succ]
  have hcongr : (List.range m).map (fun i => if inBin es i x then 1 else 0)
      = (List.range m).map (fun i => if es.getD i 0 ≤ x ∧ x < es.getD (i + 1) 0 then 1 else 0) := by
    apply List.map_congr_left
    intro i hi
    have him : i < m := List.mem_range.mp hi
    have : (i == es.length - 1 - 1) = false := by
      rw [beq_eq_false_iff_ne]; omega
    simp [inBin, this]
  rw [hcongr, ind_sum_halfopen (fun i => es.getD i 0) x m (fun i j hij hj => hmono i j hij (by omega))]
  have hlast : (m == es.length - 1 - 1) = true := by
    rw [beq_iff_eq]; omega
  have h0m : es.getD 0 0 ≤ es.getD m 0 := hmono 0 m (by omega) (by omega)
  rw [h1] at hhi
  have hlastterm : (if inBin es m x then 1 else 0)
      = if es.getD m 0 ≤ x ∧ x ≤ es.getD (m + 1) 0 then 1 else 0 := by
    simp only [inBin, hlast, if_true, Bool.and_eq_true, RealNum.le_iff]
  rw [hlastterm]
  by_cases hx : x < es.getD m 0
  · rw [if_pos ⟨hlo, hx⟩, if_neg (fun c => absurd c.1 (not_le.mpr hx))]
  · rw [if_neg (fun c => hx c.2), if_pos ⟨not_lt.mp hx, hhi⟩]

theorem counts_nil (es : List ℝ) : (counts es []).sum = 0 := by
  rw [counts_eq]; simp

theorem counts_cons_sum (es : List ℝ) (x : ℝ) (a : List ℝ) :
    (counts es (x :: a)).sum = (counts es a).sum +
      ((List.range (es.length - 1)).map (fun i => if inBin es i x then 1 else 0)).sum := by
  rw [counts_eq, counts_eq, ← List.sum_map_add]
  congr 1
  apply List.map_congr_left
  intro i _
  rw [List.countP_cons]

theorem counts_length (es a : List ℝ) : (counts es a).length = es.length - 1 := by
  rw [counts_eq]; simp

/-- counts depend only on the multiset of the sample -/
theorem counts_perm' (es : List ℝ) {a a' : List ℝ} (h : a.Perm a') : counts es a = counts es a' := by
  rw [counts_eq, counts_eq]
  apply List.map_congr_left
  intro i _
  exact h.countP_eq _

/-! ### linspace / edges -/

/-- `linspace lo hi (n+2)` at ℝ -/
theorem linspace_eq (lo hi : ℝ) (n : Nat) :
    linspace lo hi (n + 2) = (List.range (n + 2)).map
      (fun i => if i = n + 1 then hi else (i : ℝ) * ((hi - lo) / ((n + 1 : Nat) : ℝ)) + lo) := by
  unfold linspace
  have h1 : (n + 2 == 0) = false := by simp
  have h2 : (n + 2 == 1) = false := by simp
  simp only [h1, h2, Bool.false_eq_true, if_false, RealNum.ofNat_eq,
    show n + 2 - 1 = n + 1 by omega, beq_iff_eq]

theorem linspace_length (lo hi : ℝ) (n : Nat) : (linspace lo hi (n + 2)).length = n + 2 := by
  rw [linspace_eq]; simp

theorem linspace_getD (lo hi : ℝ) (n i : Nat) (hi' : i < n + 2) :
    (linspace lo hi (n + 2)).getD i 0 =
      if i = n + 1 then hi else (i : ℝ) * ((hi - lo) / ((n + 1 : Nat) : ℝ)) + lo := by
  rw [List.getD_eq_getElem _ _ (by rw [linspace_length]; exact hi')]
  simp only [linspace_eq, List.getElem_map, List.getElem_range]

/-- the grid is strictly increasing when `lo < hi` -/
theorem linspace_pairwise_lt {lo hi : ℝ} (h : lo < hi) (n : Nat) :
    (linspace lo hi (n + 2)).Pairwise (· < ·) := by
  rw [linspace_eq, List.pairwise_map]
  refine List.Pairwise.imp_of_mem ?_ List.pairwise_lt_range
  intro i j hi' hj hij
  have hjn : j < n + 2 := List.mem_range.mp hj
  have hstep : 0 < (hi - lo) / ((n + 1 : Nat) : ℝ) := div_pos (by linarith) (by positivity)
  have hi1 : i ≠ n + 1 := by omega
  rw [if_neg hi1]
  have hfull : ((n + 1 : Nat) : ℝ) * ((hi - lo) / ((n + 1 : Nat) : ℝ)) = hi - lo := by
    field_simp
  by_cases hj1 : j = n + 1
  · rw [if_pos hj1]
    have : (i : ℝ) < ((n + 1 : Nat) : ℝ) := by exact_mod_cast (by omega : i < n + 1)
    nlinarith
  · rw [if_neg hj1]
    have : (i : ℝ) < (j : ℝ) := by exact_mod_cast hij
    nlinarith

theorem outerEdges_eq (lo hi : ℝ) :
    outerEdges lo hi = if lo = hi then (lo - 5 / 10, hi + 5 / 10) else (lo, hi) := by
  unfold outerEdges
  by_cases h : lo = hi
  · simp [h]
  · have : Num.beq lo hi = false := by
      rw [← Bool.not_eq_true, RealNum.beq_iff]; exact h
    simp [this, h]

/-- numpy's outer edges always form a non-degenerate range containing `[lo, hi]` -/
theorem outerEdges_spec {lo hi : ℝ} (h : lo ≤ hi) :
    (outerEdges lo hi).1 < (outerEdges lo hi).2 ∧ (outerEdges lo hi).1 ≤ lo ∧ hi ≤ (outerEdges lo hi).2 := by
  rw [outerEdges_eq]
  by_cases he : lo = hi
  · simp only [he, if_true]; refine ⟨?_, ?_, ?_⟩ <;> linarith
  · simp only [he, if_false]; exact ⟨lt_of_le_of_ne h he, le_rfl, le_rfl⟩

/-- the histogram edges of a non-empty pooled sample with `nb+1 ≥ 1` bins: `nb+2` strictly increasing
edges whose first/last element enclose the whole pooled sample -/
theorem edges_spec {pooled : List ℝ} (hp : pooled ≠ []) (nb : Nat) :
    (edges pooled (nb + 1)).length = nb + 2 ∧ (edges pooled (nb + 1)).Pairwise (· < ·) ∧
      (∀ x ∈ pooled, (edges pooled (nb + 1)).getD 0 0 ≤ x ∧ x ≤ (edges pooled (nb + 1)).getD (nb + 1) 0) := by
  have hmm : minL pooled ≤ maxL pooled := minL_le (maxL_mem hp)
  obtain ⟨h1, h2, h3⟩ := outerEdges_spec hmm
  have he : edges pooled (nb + 1)
      = linspace (outerEdges (minL pooled) (maxL pooled)).1 (outerEdges (minL pooled) (maxL pooled)).2 (nb + 2) := rfl
  rw [he]
  refine ⟨linspace_length _ _ _, linspace_pairwise_lt h1 _, ?_⟩
  intro x hx
  rw [linspace_getD _ _ _ 0 (by omega), linspace_getD _ _ _ (nb + 1) (by omega)]
  simp only [show (0 : Nat) ≠ nb + 1 by omega, if_false, if_true, Nat.cast_zero, zero_mul, zero_add]
  exact ⟨le_trans h2 (minL_le hx), le_trans (le_maxL hx) h3⟩

theorem edges_perm {l₁ l₂ : List ℝ} (h : l₁.Perm l₂) (nb : Nat) : edges l₁ nb = edges l₂ nb := by
  unfold edges
  rw [minL_perm h, maxL_perm h]

end Frouros.C10
