/- Constant streams: CUSUM / Page-Hinkley / geometric moving average (`CUSUMFam`). -/
import FrourosProofs.Lemmas.ConstCommon

namespace Frouros.C01c
open Frouros

namespace Cusum
open CUSUMFam

/-- hypotheses on the configuration, all implied by the validation tables `Config.cusum`,
`Config.pageHinkley`, `Config.gma` (`0 ≤ lambda`, `0 ≤ delta ≤ 1`, `0 ≤ alpha ≤ 1`) -/
structure Ok (cfg : Cfg ℝ) : Prop where
  lambda_nonneg : 0 ≤ cfg.lambda
  delta_nonneg : cfg.kind = Kind.cusum ∨ cfg.kind = Kind.pageHinkley → 0 ≤ cfg.delta
  alpha_nonneg : cfg.kind = Kind.pageHinkley → 0 ≤ cfg.alpha

/-- invariant on a constant stream: `mean = c` once `n ≥ 1`, the statistic is `0` (cusum, gma) or
`≤ 0` (Page-Hinkley), and no drift -/
structure Inv (cfg : Cfg ℝ) (c : ℝ) (s : State ℝ) : Prop where
  mean : MeanConst c s.mean
  sum_le : s.sum ≤ 0
  sum_eq : cfg.kind ≠ Kind.pageHinkley → s.sum = 0
  drift : s.drift = false

theorem inv_init (cfg : Cfg ℝ) (c : ℝ) : Inv cfg c (init : State ℝ) :=
  ⟨meanConst_init c, by simp [init], by simp [init], rfl⟩

theorem inv_reset (cfg : Cfg ℝ) (c : ℝ) (s : State ℝ) : Inv cfg c (reset s) :=
  ⟨meanConst_init c, by simp [reset], by simp [reset], rfl⟩

theorem inv_step {cfg : Cfg ℝ} (ok : Ok cfg) {c : ℝ} {s : State ℝ} (h : Inv cfg c s) :
    Inv cfg c (step cfg s c) := by
  have hm := meanConst_update_mean h.mean
  have hle := h.sum_le
  -- the new statistic
  have key : updateSum cfg s.sum (s.mean.update c).mean c ≤ 0 ∧
      (cfg.kind ≠ Kind.pageHinkley → updateSum cfg s.sum (s.mean.update c).mean c = 0) := by
    rw [hm]
    unfold updateSum
    cases hk : cfg.kind with
    | cusum =>
      have hd := ok.delta_nonneg (Or.inl hk)
      have h0 := h.sum_eq (by simp [hk])
      have : Num.max0 (s.sum + c - c - cfg.delta) = 0 := by
        rw [RealNum.max0_eq, h0]; apply max_eq_left; linarith
      rw [this]; exact ⟨le_refl _, fun _ => rfl⟩
    | pageHinkley =>
      have hd := ok.delta_nonneg (Or.inr hk)
      have ha := ok.alpha_nonneg hk
      refine ⟨?_, fun hne => absurd rfl hne⟩
      have : cfg.alpha * s.sum ≤ 0 := mul_nonpos_of_nonneg_of_nonpos ha hle
      simp only []; linarith
    | gma =>
      have h0 := h.sum_eq (by simp [hk])
      simp [h0]
  refine ⟨meanConst_update h.mean, key.1, key.2, ?_⟩
  show (decide (cfg.minN ≤ s.n + 1) && Num.gt (updateSum cfg s.sum (s.mean.update c).mean c) cfg.lambda) = false
  have : Num.gt (updateSum cfg s.sum (s.mean.update c).mean c) cfg.lambda = false := by
    rw [RealNum.gt_false_iff]; have := ok.lambda_nonneg; linarith [key.1]
  simp [this]

end Cusum
end Frouros.C01c
