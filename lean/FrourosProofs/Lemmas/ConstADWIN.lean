/- Constant streams: ADWIN. -/
import FrourosProofs.Lemmas.ConstCommon

namespace Frouros.C01c
open Frouros
namespace Adwin
open ADWIN

/-! ### bucket rows: every entry of row `i` summarises `2^i` copies of `c` -/

/-- rows `i, i+1, …`: every entry of row `j` has total `2^j · c` -/
def RowsFrom (c : ℝ) : Nat → List (List (ℝ × ℝ)) → Prop
  | _, [] => True
  | i, r :: rest => (∀ e ∈ r, e.1 = ((2 ^ i : Nat) : ℝ) * c) ∧ RowsFrom c (i + 1) rest

theorem merge_total (c : ℝ) (i : Nat) {e1 e2 : ℝ × ℝ} (h1 : e1.1 = ((2 ^ i : Nat) : ℝ) * c)
    (h2 : e2.1 = ((2 ^ i : Nat) : ℝ) * c) :
    (mergeEntries (2 ^ i) e1 e2).1 = ((2 ^ (i + 1) : Nat) : ℝ) * c := by
  simp only [mergeEntries, h1, h2]
  push_cast
  ring

/-- `_compress_buckets` preserves the row invariant -/
theorem rows_compress (c : ℝ) (m : Nat) : ∀ (rest : List (List (ℝ × ℝ))) (i : Nat) (row : List (ℝ × ℝ)),
    (∀ e ∈ row, e.1 = ((2 ^ i : Nat) : ℝ) * c) → RowsFrom c (i + 1) rest → RowsFrom c i (compress m i row rest) := by
  intro rest
  induction rest with
  | nil =>
    intro i row hrow _
    unfold compress
    split
    · split
      · rename_i _ e1 e2 tl _
        have h1 := hrow e1 (by simp)
        have h2 := hrow e2 (by simp)
        refine ⟨fun e he => hrow e (by simp [he]), ⟨?_, trivial⟩⟩
        intro e he
        simp only [List.mem_singleton] at he
        subst he; exact merge_total c i h1 h2
      · exact ⟨hrow, trivial⟩
    · exact ⟨hrow, trivial⟩
  | cons nxt rest' ih =>
    intro i row hrow hrest
    obtain ⟨hnxt, hrest'⟩ := hrest
    unfold compress
    split
    · split
      · rename_i _ e1 e2 tl _
        have h1 := hrow e1 (by simp)
        have h2 := hrow e2 (by simp)
        have htl : ∀ e ∈ tl, e.1 = ((2 ^ i : Nat) : ℝ) * c := fun e he => hrow e (by simp [he])
        have hnxt' : ∀ e ∈ nxt ++ [mergeEntries (2 ^ i) e1 e2], e.1 = ((2 ^ (i + 1) : Nat) : ℝ) * c := by
          intro e he
          rcases List.mem_append.mp he with h | h
          · exact hnxt e h
          · simp only [List.mem_singleton] at h; subst h; exact merge_total c i h1 h2
        simp only []
        split
        · exact ⟨htl, hnxt', hrest'⟩
        · exact ⟨htl, ih (i + 1) _ hnxt' hrest'⟩
      · exact ⟨hrow, hnxt, hrest'⟩
    · exact ⟨hrow, hnxt, hrest'⟩

/-- indexed rows: the index paired with a row by `(range' k n).zip rows` is its level -/
theorem rows_zip (c : ℝ) : ∀ (rows : List (List (ℝ × ℝ))) (k : Nat), RowsFrom c k rows →
    ∀ p ∈ (List.range' k rows.length).zip rows, ∀ e ∈ p.2, e.1 = ((2 ^ p.1 : Nat) : ℝ) * c := by
  intro rows
  induction rows with
  | nil => intro k _ p hp; simp at hp
  | cons r rest ih =>
    intro k h p hp
    obtain ⟨hr, hrest⟩ := h
    simp only [List.length_cons, List.range'_succ, List.zip_cons_cons, List.mem_cons] at hp
    rcases hp with rfl | hp
    · exact hr
    · exact ih (k + 1) hrest p hp

/-- every split the scan examines has `total = size · c` -/
theorem examined_const {c : ℝ} {rows : List (List (ℝ × ℝ))} (h : RowsFrom c 0 rows) :
    ∀ p ∈ examined rows, p.2 = (p.1 : ℝ) * c := by
  intro p hp
  unfold examined at hp
  have hp := List.mem_of_mem_dropLast hp
  simp only [List.mem_flatten, List.mem_map, List.mem_reverse] at hp
  obtain ⟨l, ⟨q, hq, rfl⟩, hpl⟩ := hp
  simp only [List.mem_map] at hpl
  obtain ⟨e, he, rfl⟩ := hpl
  rw [List.range_eq_range'] at hq
  exact rows_zip c rows 0 h q hq e he

/-! ### the threshold is non-negative, the examined means are equal -/

theorem log_two_ge : 1 / 2 ≤ Real.log 2 := by
  have h := Real.log_le_sub_one_of_pos (by norm_num : (0 : ℝ) < 2⁻¹)
  rw [Real.log_inv] at h
  linarith

/-- `delta' = log(2 log(width) / delta) ≥ 0` for `width ≥ 2` and `0 < delta ≤ 1` (then the argument of
the outer logarithm is `≥ 2 log 2 ≥ 1`: a genuine logarithm, and `≥ 0`) -/
theorem dp_nonneg {delta : ℝ} (hd : 0 < delta) (hd1 : delta ≤ 1) {w : Nat} (hw : 2 ≤ w) :
    0 ≤ Real.log (2 * Real.log (w : ℝ) / delta) := by
  apply Real.log_nonneg
  rw [le_div_iff₀ hd]
  have h2 : Real.log 2 ≤ Real.log (w : ℝ) :=
    Real.log_le_log (by norm_num) (by exact_mod_cast hw)
  have := log_two_ge
  linarith

theorem threshold_nonneg {cfg : Cfg ℝ} (hd : 0 < cfg.delta) (hd1 : cfg.delta ≤ 1) {s : State ℝ}
    (hw : 2 ≤ s.width) {n0 n1 : Nat} {thr : ℝ} (h : threshold cfg s n0 n1 = some thr) : 0 ≤ thr := by
  unfold threshold at h
  simp only [] at h
  split at h
  · cases h
  · simp only [Option.some.injEq] at h
    subst h
    have hdp := dp_nonneg hd hd1 hw
    simp only [RealNum.sqrt_eq, RealNum.log_eq, RealNum.two_eq, RealNum.one_eq, RealNum.ofNat_eq]
    have hmr : (0 : ℝ) ≤ 1 / ((n0 - (cfg.minWindow + 1) : Nat) : ℝ) + 1 / ((n1 - (cfg.minWindow + 1) : Nat) : ℝ) := by
      positivity
    have := Real.sqrt_nonneg (2 * (1 / ((n0 - (cfg.minWindow + 1) : Nat) : ℝ) + 1 / ((n1 - (cfg.minWindow + 1) : Nat) : ℝ)) *
      (s.variance / (s.width : ℝ)) * Real.log (2 * Real.log (s.width : ℝ) / cfg.delta))
    have h3 : (0 : ℝ) ≤ 2 / ((3 : Nat) : ℝ) * Real.log (2 * Real.log (s.width : ℝ) / cfg.delta) *
        (1 / ((n0 - (cfg.minWindow + 1) : Nat) : ℝ) + 1 / ((n1 - (cfg.minWindow + 1) : Nat) : ℝ)) := by
      positivity
    linarith

/-- no examined split of a constant window exceeds the bound -/
theorem scan_const {cfg : Cfg ℝ} (hd : 0 < cfg.delta) (hd1 : cfg.delta ≤ 1) {s : State ℝ} {c : ℝ} :
    ∀ (ex : List (Nat × ℝ)), (∀ p ∈ ex, p.2 = (p.1 : ℝ) * c) → ∀ (n0 n1 : Nat) (t0 t1 : ℝ),
      n1 = s.width - n0 → t0 = (n0 : ℝ) * c → t1 = ((s.width : ℝ) - n0) * c →
      scan cfg s ex n0 n1 t0 t1 = false := by
  intro ex
  induction ex with
  | nil => intros; rfl
  | cons p rest ih =>
    intro hex n0 n1 t0 t1 hn1 ht0 ht1
    obtain ⟨sz, t⟩ := p
    have ht : t = (sz : ℝ) * c := hex (sz, t) List.mem_cons_self
    unfold scan
    simp only []
    have hrec := ih (fun q hq => hex q (List.mem_cons_of_mem _ hq)) (n0 + sz) (n1 - sz) (t0 + t) (t1 - t)
      (by omega) (by rw [ht0, ht]; push_cast; ring) (by rw [ht1, ht]; push_cast; ring)
    rw [hrec]
    -- the split itself
    by_cases hact : (decide (cfg.minWindow < n1 - sz) && decide (cfg.minWindow < n0 + sz)) = true
    · simp only [hact, if_true]
      simp only [Bool.and_eq_true, decide_eq_true_eq] at hact
      obtain ⟨h1, h0⟩ := hact
      cases hthr : threshold cfg s (n0 + sz) (n1 - sz) with
      | none => simp
      | some thr =>
        have hw : 2 ≤ s.width := by omega
        have hthr0 := threshold_nonneg hd hd1 hw hthr
        have hn0 : ((n0 + sz : Nat) : ℝ) ≠ 0 := by exact_mod_cast (by omega : n0 + sz ≠ 0)
        have hn1 : ((n1 - sz : Nat) : ℝ) ≠ 0 := by exact_mod_cast (by omega : n1 - sz ≠ 0)
        have hcast : ((n1 - sz : Nat) : ℝ) = (s.width : ℝ) - n0 - sz := by
          have : n1 - sz = s.width - (n0 + sz) := by omega
          rw [this, Nat.cast_sub (by omega)]; push_cast; ring
        have e0 : (t0 + t) / Num.ofNat (n0 + sz) = c := by
          rw [ht0, ht, RealNum.ofNat_eq]; field_simp; push_cast; ring
        have e1 : (t1 - t) / Num.ofNat (n1 - sz) = c := by
          rw [ht1, ht, RealNum.ofNat_eq]
          rw [div_eq_iff hn1, hcast]; ring
        simp only [e0, e1, sub_self, RealNum.abs_eq, abs_zero]
        have : Num.gt (0 : ℝ) thr = false := by rw [RealNum.gt_false_iff]; exact not_lt.mpr hthr0
        simp [this]
    · simp [hact]

/-! ### the invariant -/

/-- on a constant stream: every entry of row `i` has total `2^i · c`, `total = width · c`,
`variance = 0`, no drift; and the `total ≥ 0` check never fails when `c ≥ 0` -/
structure Inv (c : ℝ) (s : State ℝ) : Prop where
  rows : RowsFrom c 0 s.rows
  total : s.total = (s.width : ℝ) * c
  variance : s.variance = 0
  drift : s.drift = false
  err : 0 ≤ c → s.err = false

theorem inv_init (c : ℝ) : Inv c (init : State ℝ) :=
  ⟨by simp [init, RowsFrom], by simp [init], by simp [init], rfl, fun _ => rfl⟩

theorem inv_reset (c : ℝ) (s : State ℝ) : Inv c (reset s) :=
  ⟨by simp [reset, RowsFrom], by simp [reset], by simp [reset], rfl, fun _ => rfl⟩

/-- `_insert_bucket` preserves the invariant (the drift flag is the one passed in) -/
theorem inv_insert (cfg : Cfg ℝ) {c : ℝ} {s : State ℝ} (h : Inv c s) : Inv c (ADWIN.insert cfg s c) := by
  have hnew : ∀ e ∈ [((c, Num.zero) : ℝ × ℝ)], e.1 = ((2 ^ 0 : Nat) : ℝ) * c := by
    intro e he; simp only [List.mem_singleton] at he; subst he; simp
  have htot : s.total + c = ((s.width + 1 : Nat) : ℝ) * c := by rw [h.total]; push_cast; ring
  refine ⟨?_, htot, ?_, h.drift, ?_⟩
  · -- rows
    have hr := h.rows
    unfold ADWIN.insert
    simp only []
    split
    · exact ⟨hnew, trivial⟩
    · rename_i r0 rest heq
      rw [heq] at hr
      obtain ⟨h0, hrest⟩ := hr
      apply rows_compress c cfg.m rest 0 _ _ hrest
      intro e he
      rcases List.mem_append.mp he with h1 | h1
      · exact h0 e h1
      · exact hnew e h1
  · -- variance
    show s.variance + (if 1 < s.width + 1 then
        (Num.ofNat (s.width + 1 - 1) : ℝ) * (c - s.total / Num.ofNat (s.width + 1 - 1)) *
          (c - s.total / Num.ofNat (s.width + 1 - 1)) / Num.ofNat (s.width + 1) else Num.zero) = 0
    rw [h.variance]
    split
    · rename_i hw
      have hw' : ((s.width : Nat) : ℝ) ≠ 0 := by exact_mod_cast (by omega : s.width ≠ 0)
      have : c - s.total / Num.ofNat (s.width + 1 - 1) = 0 := by
        rw [h.total, Nat.add_sub_cancel, RealNum.ofNat_eq]; field_simp; ring
      rw [this]; simp
    · simp
  · -- err
    intro hc
    show (s.err || Num.lt (s.total + c) Num.zero) = false
    rw [h.err hc, htot]
    have : Num.lt (((s.width + 1 : Nat) : ℝ) * c) (Num.zero : ℝ) = false := by
      rw [RealNum.lt_false_iff, RealNum.zero_eq]
      exact not_lt.mpr (mul_nonneg (Nat.cast_nonneg _) hc)
    rw [this]; rfl

/-- the shrinking loop does nothing on a constant window -/
theorem checkLoop_const {cfg : Cfg ℝ} (hd : 0 < cfg.delta) (hd1 : cfg.delta ≤ 1) {c : ℝ} {s : State ℝ}
    (h : Inv c s) (fuel : Nat) : checkLoop cfg fuel s = s := by
  cases fuel with
  | zero => rfl
  | succ fuel =>
    unfold checkLoop
    have := scan_const hd hd1 (s := s) (c := c) (examined s.rows) (examined_const h.rows) 0 s.width Num.zero s.total
      (by omega) (by simp) (by rw [h.total]; simp)
    rw [this]; simp

theorem inv_step {cfg : Cfg ℝ} (hd : 0 < cfg.delta) (hd1 : cfg.delta ≤ 1) {c : ℝ} {s : State ℝ}
    (h : Inv c s) : Inv c (step cfg s c) := by
  have h0 : Inv c { s with n := s.n + 1, drift := false } := ⟨h.rows, h.total, h.variance, rfl, h.err⟩
  have h1 := inv_insert cfg h0
  unfold step
  simp only []
  split
  · rw [checkLoop_const hd hd1 h1]; exact h1
  · exact h1

end Adwin
end Frouros.C01c
