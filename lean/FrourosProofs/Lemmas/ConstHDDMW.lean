/- Constant streams: HDDM-W (constant `0`; the claim is false for other constants, see the witness). -/
import FrourosProofs.Lemmas.ConstCommon

namespace Frouros.C01c
open Frouros
namespace Hddmw
open HDDMW

theorem sample_init_mean (lam : ℝ) : (Sample.init lam).ewma.mean = 0 := by
  simp [Sample.init, EWMA.init]

theorem sample_update_zero (lam : ℝ) {s : Sample ℝ} (h : s.ewma.mean = 0) :
    (Sample.update lam s 0).ewma.mean = 0 := by
  simp [Sample.update, EWMA.update, h]

/-- equal EWMA means never exceed a McDiarmid bound (a square root, `≥ 0`) -/
theorem thr_zero {s1 s2 : Sample ℝ} (h1 : s1.ewma.mean = 0) (h2 : s2.ewma.mean = 0) (a : ℝ) :
    thr s1 s2 a = false := by
  unfold thr mcBound
  rw [RealNum.gt_false_iff, h1, h2, sub_self]
  exact not_lt.mpr (Real.sqrt_nonneg _)

/-- all five EWMA statistics are `0` -/
structure TInv (t : Test ℝ) : Prop where
  total : t.total.ewma.mean = 0
  inc1 : t.inc1.ewma.mean = 0
  inc2 : t.inc2.ewma.mean = 0
  dec1 : t.dec1.ewma.mean = 0
  dec2 : t.dec2.ewma.mean = 0

theorem tinv_init (lam : ℝ) : TInv (Test.init lam) :=
  ⟨sample_init_mean lam, sample_init_mean lam, sample_init_mean lam, sample_init_mean lam, sample_init_mean lam⟩

theorem tinv_update (cfg : Cfg ℝ) {t : Test ℝ} (h : TInv t) : TInv (updateStats cfg t 0) := by
  have ht := sample_update_zero cfg.lam h.total
  have hi := sample_update_zero cfg.lam h.inc2
  have hd := sample_update_zero cfg.lam h.dec2
  have h0 := sample_init_mean cfg.lam
  unfold updateStats
  simp only []
  split_ifs <;> exact ⟨by assumption, by first | assumption | exact h.inc1, by assumption,
    by first | assumption | exact h.dec1, by first | assumption | exact h.dec2⟩

theorem check_zero (cfg : Cfg ℝ) {t : Test ℝ} (h : TInv t) : checkChanges cfg t = (false, false) := by
  unfold checkChanges
  simp [thr_zero h.inc1 h.inc2, thr_zero h.dec2 h.dec1]

structure Inv (s : State ℝ) : Prop where
  t : TInv s.t
  drift : s.drift = false
  warning : s.warning = false

theorem inv_init (cfg : Cfg ℝ) : Inv (init cfg) := ⟨tinv_init _, rfl, rfl⟩
theorem inv_reset (cfg : Cfg ℝ) (s : State ℝ) : Inv (reset cfg s) := ⟨tinv_init _, rfl, rfl⟩

theorem inv_step (cfg : Cfg ℝ) {s : State ℝ} (h : Inv s) : Inv (step cfg s 0) := by
  have ht := tinv_update cfg h.t
  unfold step
  simp only [check_zero cfg ht]
  split
  · exact ⟨ht, rfl, rfl⟩
  · exact ⟨ht, rfl, rfl⟩

end Hddmw
end Frouros.C01c
