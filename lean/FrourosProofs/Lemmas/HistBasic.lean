/-
  Basic lemmas for C10: the model's `foldl` sums are `List.sum`, `zipWith` sums as sums over `zip`,
  and the `Option`-valued sum `sumOpt`.
-/
import Mathlib.Tactic
import FrourosProofs.RealNum
import FrourosModel.Hist

namespace Frouros.C10
open Frouros Frouros.Hist

/-- the model's left fold with `+` from `0` is `List.sum` (at ℝ) -/
theorem sum_eq (l : List ℝ) : Hist.sum l = l.sum := by
  unfold Hist.sum
  rw [List.sum_eq_foldl, RealNum.zero_eq]

/-- `zipWith f p q` as a map over `zip p q` -/
theorem zipWith_eq_map_zip {β γ δ : Type} (f : β → γ → δ) (p : List β) (q : List γ) :
    List.zipWith f p q = (List.zip p q).map (fun x => f x.1 x.2) := by
  induction p generalizing q with
  | nil => simp
  | cons a p ih => cases q with
    | nil => simp
    | cons b q => simp [ih]

theorem sum_zip_fst {p q : List ℝ} (h : p.length = q.length) :
    ((List.zip p q).map Prod.fst).sum = p.sum := by
  rw [List.map_fst_zip (le_of_eq h)]

theorem sum_zip_snd {p q : List ℝ} (h : p.length = q.length) :
    ((List.zip p q).map Prod.snd).sum = q.sum := by
  rw [List.map_snd_zip (le_of_eq h.symm)]

/-- `zip` truncates: for non-negative entries the zipped first components sum to at most `Σ p` -/
theorem sum_zip_fst_le {p q : List ℝ} (hp : ∀ x ∈ p, 0 ≤ x) : ((List.zip p q).map Prod.fst).sum ≤ p.sum := by
  induction p generalizing q with
  | nil => simp
  | cons a p ih =>
    have hps : 0 ≤ p.sum := List.sum_nonneg (fun x hx => hp x (List.mem_cons_of_mem _ hx))
    cases q with
    | nil => simp only [List.zip_nil_right, List.map_nil, List.sum_nil, List.sum_cons]; linarith [hp a (by simp)]
    | cons b q =>
      simp only [List.zip_cons_cons, List.map_cons, List.sum_cons]
      linarith [ih (q := q) (fun x hx => hp x (List.mem_cons_of_mem _ hx))]

theorem sum_zip_snd_eq_swap (p q : List ℝ) :
    ((List.zip p q).map Prod.snd).sum = ((List.zip q p).map Prod.fst).sum := by
  rw [← List.zip_swap, List.map_map]; rfl

theorem sum_zip_snd_le {p q : List ℝ} (hq : ∀ x ∈ q, 0 ≤ x) : ((List.zip p q).map Prod.snd).sum ≤ q.sum := by
  rw [sum_zip_snd_eq_swap]; exact sum_zip_fst_le hq

/-- termwise `≤` on a sum over a list -/
theorem sum_map_le {β : Type} (l : List β) (f g : β → ℝ) (h : ∀ x ∈ l, f x ≤ g x) :
    (l.map f).sum ≤ (l.map g).sum := by
  induction l with
  | nil => simp
  | cons a l ih =>
    simp only [List.map_cons, List.sum_cons]
    have h1 := h a (by simp)
    have h2 := ih (fun x hx => h x (by simp [hx]))
    linarith

theorem sum_map_nonneg {β : Type} (l : List β) (f : β → ℝ) (h : ∀ x ∈ l, 0 ≤ f x) :
    0 ≤ (l.map f).sum := by
  have := sum_map_le l (fun _ => 0) f h
  simpa using this

theorem sum_map_eq_zero {β : Type} (l : List β) (f : β → ℝ) (h : ∀ x ∈ l, f x = 0) :
    (l.map f).sum = 0 := by
  induction l with
  | nil => simp
  | cons a l ih =>
    simp only [List.map_cons, List.sum_cons]
    rw [h a (by simp), ih (fun x hx => h x (by simp [hx]))]; simp

theorem sum_map_add' {β : Type} (l : List β) (f g : β → ℝ) :
    (l.map (fun x => f x + g x)).sum = (l.map f).sum + (l.map g).sum := by
  induction l with
  | nil => simp
  | cons a l ih => simp only [List.map_cons, List.sum_cons, ih]; ring

theorem sum_map_sub' {β : Type} (l : List β) (f g : β → ℝ) :
    (l.map (fun x => f x - g x)).sum = (l.map f).sum - (l.map g).sum := by
  induction l with
  | nil => simp
  | cons a l ih => simp only [List.map_cons, List.sum_cons, ih]; ring

theorem sum_map_mul_left' {β : Type} (l : List β) (c : ℝ) (f : β → ℝ) :
    (l.map (fun x => c * f x)).sum = c * (l.map f).sum := by
  induction l with
  | nil => simp
  | cons a l ih => simp only [List.map_cons, List.sum_cons, ih]; ring

theorem sum_map_congr {β : Type} (l : List β) (f g : β → ℝ) (h : ∀ x ∈ l, f x = g x) :
    (l.map f).sum = (l.map g).sum := by
  rw [List.map_congr_left h]

/-! ### `sumOpt` -/

section
variable (f : Option ℝ → Option ℝ → Option ℝ)
  (h1 : ∀ a b, f (some a) (some b) = some (a + b))
  (h2 : ∀ o, f none o = none) (h3 : ∀ a, f (some a) none = none)
include h2 in
theorem optFold_none (l : List (Option ℝ)) : l.foldl f none = none := by
  induction l with
  | nil => rfl
  | cons o l ih => simpa [List.foldl_cons, h2] using ih

include h1 in
theorem optFold_some (l : List ℝ) (a : ℝ) : (l.map some).foldl f (some a) = some (a + l.sum) := by
  induction l generalizing a with
  | nil => simp
  | cons x l ih => simp only [List.map_cons, List.foldl_cons, List.sum_cons, h1]; rw [ih]; congr 1; ring

include h1 h2 h3 in
theorem optFold_eq_some (l : List (Option ℝ)) (a v : ℝ) (h : l.foldl f (some a) = some v) :
    ∃ l' : List ℝ, l = l'.map some ∧ v = a + l'.sum := by
  induction l generalizing a with
  | nil => exact ⟨[], rfl, by simpa using h.symm⟩
  | cons o l ih =>
    cases o with
    | none =>
      simp only [List.foldl_cons, h3] at h
      rw [optFold_none f h2] at h; cases h
    | some b =>
      simp only [List.foldl_cons, h1] at h
      obtain ⟨l', rfl, hv⟩ := ih _ h
      exact ⟨b :: l', rfl, by simp only [List.sum_cons]; linarith⟩
end

/-- the sum of all-`some` terms is `some` of the sum -/
theorem sumOpt_map_some (l : List ℝ) : sumOpt (l.map some) = some l.sum := by
  unfold sumOpt
  rw [optFold_some _ (fun _ _ => rfl)]; simp

theorem sumOpt_map {β : Type} (l : List β) (f : β → Option ℝ) (g : β → ℝ) (h : ∀ x ∈ l, f x = some (g x)) :
    sumOpt (l.map f) = some (l.map g).sum := by
  rw [List.map_congr_left h, ← sumOpt_map_some, List.map_map]; rfl

/-- a finite (`some`) result means every term is finite and the value is their sum -/
theorem sumOpt_eq_some (l : List (Option ℝ)) (v : ℝ) (h : sumOpt l = some v) :
    ∃ l' : List ℝ, l = l'.map some ∧ v = l'.sum := by
  unfold sumOpt at h
  obtain ⟨l', h1, h2⟩ := optFold_eq_some _ (fun _ _ => rfl) (fun o => by cases o <;> rfl) (fun _ => rfl) l _ v h
  exact ⟨l', h1, by simpa using h2⟩

end Frouros.C10
