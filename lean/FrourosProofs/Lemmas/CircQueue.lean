/-
  Helper lemmas for C18: the circular queue `CQ β` (arbitrary element type, no `Num`) refines a bounded FIFO.
-/
import Mathlib.Data.List.Rotate
import FrourosModel.Stats

namespace Frouros
namespace CQ
variable {β : Type}

/-! ### modular arithmetic on slot indices -/

theorem slot_ne {f i j m : Nat} (hij : i < j) (hj : j < m) : (f + i) % m ≠ (f + j) % m := by
  intro h
  have h1 : (f + j - (f + i)) % m = 0 := Nat.sub_mod_eq_zero_of_mod_eq h.symm
  have h2 : f + j - (f + i) = j - i := by omega
  rw [h2, Nat.mod_eq_of_lt (by omega)] at h1
  omega

theorem getD_set_self {l : List (Option β)} {k : Nat} (hk : k < l.length) (x d : Option β) :
    (l.set k x).getD k d = x := by
  simp [List.getD_eq_getElem?_getD, hk]

theorem getD_set_ne {l : List (Option β)} {k j : Nat} (hkj : k ≠ j) (x d : Option β) :
    (l.set k x).getD j d = l.getD j d := by
  simp [List.getD_eq_getElem?_getD, List.getElem?_set_ne hkj]

/-! ### well-formedness -/

/-- Representation invariant of the circular queue.  `lst0` is the (weak) fact that is true of `last` when the
queue is empty: after `init`/`clear` `last = none` (Python `-1`), after dequeuing down to empty `last` still
points at the last written slot; in both cases the *next* write position is `first`. -/
structure WF (q : CQ β) : Prop where
  pos : 0 < q.maxLen
  len : q.buf.length = q.maxLen
  cnt : q.count ≤ q.maxLen
  fst : q.first < q.maxLen
  lst : 0 < q.count → q.last = some ((q.first + q.count - 1) % q.maxLen)
  lst0 : q.count = 0 → q.nextLast = q.first

/-- the slot written by the next `enqueue` -/
theorem WF.nextLast_eq {q : CQ β} (h : WF q) : q.nextLast = (q.first + q.count) % q.maxLen := by
  by_cases hc : q.count = 0
  · rw [h.lst0 hc, hc, Nat.add_zero, Nat.mod_eq_of_lt h.fst]
  · have := h.lst (by omega)
    unfold nextLast
    rw [this]
    simp only [Nat.mod_add_mod]
    congr 1; omega

/-- the two primitive moves -/
def push (q : CQ β) (v : β) : CQ β :=
  { q with last := some q.nextLast, buf := q.buf.set q.nextLast (some v), count := q.count + 1 }
def pop (q : CQ β) : CQ β := { q with first := (q.first + 1) % q.maxLen, count := q.count - 1 }

theorem enqueue_def (q : CQ β) (v : β) :
    q.enqueue v = if q.isFull then
        (match q.dequeue with | .error e => .error e | .ok (e, q') => .ok (e, q'.push v))
      else .ok (none, q.push v) := rfl
theorem dequeue_def (q : CQ β) :
    q.dequeue = if q.isEmpty then .error .emptyQueue else .ok (q.buf.getD q.first none, q.pop) := rfl

theorem init_WF {n : Nat} (hn : 0 < n) : WF (init n : CQ β) :=
  ⟨hn, by simp [init], Nat.zero_le _, hn, by simp [init], by simp [init, nextLast]⟩

theorem clear_WF {q : CQ β} (h : WF q) : WF q.clear :=
  ⟨h.pos, by simp [clear], Nat.zero_le _, h.pos, by simp [clear], by simp [clear, nextLast]⟩

theorem push_WF {q : CQ β} (h : WF q) (hc : q.count < q.maxLen) (v : β) : WF (q.push v) := by
  refine ⟨h.pos, ?_, ?_, h.fst, ?_, ?_⟩
  · simp [push, h.len]
  · simp only [push]; omega
  · intro _
    simp only [push, h.nextLast_eq]
    congr 2
  · intro h0; simp [push] at h0

theorem pop_WF {q : CQ β} (h : WF q) (hc : 0 < q.count) : WF q.pop := by
  have hm := h.pos
  refine ⟨h.pos, h.len, ?_, Nat.mod_lt _ h.pos, ?_, ?_⟩
  · simp only [pop]; have := h.cnt; omega
  · intro h1
    simp only [pop] at h1 ⊢
    have e1 : (q.first + 1) % q.maxLen + (q.count - 1) - 1 = (q.first + 1) % q.maxLen + (q.count - 2) := by
      omega
    rw [h.lst hc, e1, Nat.mod_add_mod]
    congr 2; omega
  · intro h0
    simp only [pop] at h0 ⊢
    have h1 : q.count = 1 := by omega
    have := h.lst hc
    unfold nextLast
    simp only [this, h1, Nat.add_sub_cancel, Nat.mod_add_mod]

theorem toList_push {q : CQ β} (h : WF q) (hc : q.count < q.maxLen) (v : β) :
    (q.push v).toList = q.toList ++ [some v] := by
  have hl : q.nextLast < q.buf.length := by rw [h.nextLast_eq, h.len]; exact Nat.mod_lt _ h.pos
  unfold toList
  simp only [push, List.range_succ, List.map_append, List.map_cons, List.map_nil]
  congr 1
  · refine List.map_congr_left fun i hi => ?_
    have hi' : i < q.count := List.mem_range.mp hi
    refine getD_set_ne ?_ _ _
    rw [h.nextLast_eq]
    exact (slot_ne hi' hc).symm
  · rw [← h.nextLast_eq, getD_set_self hl]

theorem toList_pop {q : CQ β} (hc : 0 < q.count) : q.pop.toList = q.toList.tail := by
  obtain ⟨c, hc'⟩ : ∃ c, q.count = c + 1 := ⟨q.count - 1, by omega⟩
  unfold toList
  simp only [pop, hc', Nat.add_sub_cancel, List.range_succ_eq_map, List.map_cons, List.tail_cons, List.map_map]
  refine List.map_congr_left fun i _ => ?_
  simp only [Function.comp, Nat.mod_add_mod]
  congr 2; omega

theorem head_toList {q : CQ β} (h : WF q) (hc : 0 < q.count) :
    q.toList.head? = some (q.buf.getD q.first none) := by
  obtain ⟨c, hc'⟩ : ∃ c, q.count = c + 1 := ⟨q.count - 1, by omega⟩
  unfold toList
  simp [hc', List.range_succ_eq_map, Nat.mod_eq_of_lt h.fst]

/-! ### size observers -/

theorem count_eq_length (q : CQ β) : q.count = q.toList.length := by simp [toList]
theorem isEmpty_iff (q : CQ β) : q.isEmpty = true ↔ q.toList = [] := by
  simp [isEmpty, toList]
theorem isFull_iff (q : CQ β) : q.isFull = true ↔ q.toList.length = q.maxLen := by
  simp [isFull, toList]
theorem WF.length_le {q : CQ β} (h : WF q) : q.toList.length ≤ q.maxLen := by
  rw [← count_eq_length]; exact h.cnt

/-! ### the four operations -/

theorem dequeue_empty {q : CQ β} (he : q.isEmpty = true) : q.dequeue = .error .emptyQueue := by
  simp [dequeue_def, he]

theorem dequeue_nonempty {q : CQ β} (h : WF q) (he : q.isEmpty = false) :
    ∃ e q', q.dequeue = .ok (e, q') ∧ WF q' ∧ q'.maxLen = q.maxLen ∧
      q.toList.head? = some e ∧ q'.toList = q.toList.tail := by
  have hc : 0 < q.count := by
    simp only [isEmpty, beq_eq_false_iff_ne, ne_eq] at he; omega
  exact ⟨_, q.pop, by simp [dequeue_def, he], pop_WF h hc, rfl, head_toList h hc, toList_pop hc⟩

theorem enqueue_not_full {q : CQ β} (h : WF q) (hf : q.isFull = false) (v : β) :
    ∃ q', q.enqueue v = .ok (none, q') ∧ WF q' ∧ q'.maxLen = q.maxLen ∧ q'.toList = q.toList ++ [some v] := by
  have hc : q.count < q.maxLen := by
    have := h.cnt
    simp only [isFull, beq_eq_false_iff_ne, ne_eq] at hf; omega
  exact ⟨q.push v, by simp [enqueue_def, hf], push_WF h hc v, rfl, toList_push h hc v⟩

theorem enqueue_full {q : CQ β} (h : WF q) (hf : q.isFull = true) (v : β) :
    ∃ e q', q.enqueue v = .ok (e, q') ∧ WF q' ∧ q'.maxLen = q.maxLen ∧
      q.toList.head? = some e ∧ q'.toList = q.toList.tail ++ [some v] := by
  have hm := h.pos
  have hc : q.count = q.maxLen := by simpa [isFull] using hf
  have he : q.isEmpty = false := by simp [isEmpty]; omega
  have hpc : q.pop.count < q.pop.maxLen := by simp only [pop]; omega
  have hpw := pop_WF h (by omega : 0 < q.count)
  refine ⟨q.buf.getD q.first none, q.pop.push v, by simp [enqueue_def, hf, dequeue_def, he],
    push_WF hpw hpc v, rfl, head_toList h (by omega), ?_⟩
  rw [toList_push hpw hpc, toList_pop (by omega)]

/-- `enqueue` cannot fail on a well-formed queue (`0 < maxLen`) -/
theorem enqueue_ne_error {q : CQ β} (h : WF q) (v : β) (e : Err) : q.enqueue v ≠ .error e := by
  cases hf : q.isFull
  · obtain ⟨q', h1, _⟩ := enqueue_not_full h hf v
    rw [h1]; simp
  · obtain ⟨x, q', h1, _⟩ := enqueue_full h hf v
    rw [h1]; simp

/-- with `maxLen = 0` every queue is "full" and "empty": `enqueue` raises `EmptyQueueError` (from the inner
`dequeue`) — this is why `0 < maxLen` is required throughout -/
theorem enqueue_init_zero (v : β) : (init 0 : CQ β).enqueue v = .error .emptyQueue := rfl

theorem toList_clear (q : CQ β) : q.clear.toList = [] := by simp [clear, toList]

theorem keepLast_empty {q : CQ β} (he : q.isEmpty = true) : q.keepLast = .error .emptyQueue := by
  simp [keepLast, he]

theorem keepLast_nonempty {q : CQ β} (h : WF q) (he : q.isEmpty = false) :
    ∃ q', q.keepLast = .ok q' ∧ WF q' ∧ q'.maxLen = q.maxLen ∧
      ∃ hne : q.toList ≠ [], q'.toList = [q.toList.getLast hne] := by
  have hc : 0 < q.count := by
    simp only [isEmpty, beq_eq_false_iff_ne, ne_eq] at he; omega
  have hl := h.lst hc
  have hlt : (q.first + q.count - 1) % q.maxLen < q.maxLen := Nat.mod_lt _ h.pos
  refine ⟨{ q with first := (q.first + q.count - 1) % q.maxLen, count := 1 }, by simp [keepLast, he, hl],
    ⟨h.pos, h.len, h.pos, hlt, ?_, by simp⟩, rfl, ?_, ?_⟩
  · intro _
    simp only [hl, Nat.add_sub_cancel, Nat.mod_mod]
  · rw [Ne, ← isEmpty_iff, he]; simp
  · obtain ⟨c, hc'⟩ : ∃ c, q.count = c + 1 := ⟨q.count - 1, by omega⟩
    simp [toList, hc', List.range_succ]


/-! ### deterministic forms (used for `AccQ`, whose methods re-implement the same moves) -/

theorem count_pos_of_not_empty {q : CQ β} (he : q.isEmpty = false) : 0 < q.count := by
  simp only [isEmpty, beq_eq_false_iff_ne, ne_eq] at he; omega

theorem dequeue_eq {q : CQ β} (he : q.isEmpty = false) :
    q.dequeue = .ok (q.buf.getD q.first none, q.pop) := by simp [dequeue_def, he]

theorem toList_eq_cons {q : CQ β} (h : WF q) (hc : 0 < q.count) :
    q.toList = q.buf.getD q.first none :: q.pop.toList := by
  have h1 := head_toList h hc
  rw [toList_pop hc]
  cases hl : q.toList with
  | nil => rw [hl] at h1; simp at h1
  | cons x t => rw [hl] at h1; simp at h1; simp [h1]

theorem toList_count_one {q : CQ β} (h : WF q) (hc : q.count = 1) :
    q.toList = [q.buf.getD q.first none] := by
  rw [toList_eq_cons h (by omega)]
  simp [toList, pop, hc]

/-! ### "all logical entries are values" and the list of values -/

/-- the logical contents are all `some _` (no stale `None` is ever exposed) -/
def AllSome (q : CQ β) : Prop := ∃ l : List β, q.toList = l.map some

/-- the last `n` entries of a list, oldest first -/
def lastN {γ : Type} (n : Nat) (l : List γ) : List γ := l.drop (l.length - n)

theorem lastN_of_le {γ : Type} {n : Nat} {l : List γ} (h : l.length ≤ n) : lastN n l = l := by
  simp [lastN, Nat.sub_eq_zero_of_le h]

theorem length_lastN {γ : Type} (n : Nat) (l : List γ) : (lastN n l).length = min n l.length := by
  simp only [lastN, List.length_drop]; omega

theorem lastN_map {γ δ : Type} (f : γ → δ) (n : Nat) (l : List γ) : lastN n (l.map f) = (lastN n l).map f := by
  simp [lastN, List.map_drop]

theorem lastN_append_lastN {γ : Type} (n : Nat) (A B : List γ) : lastN n (lastN n A ++ B) = lastN n (A ++ B) := by
  by_cases h : A.length ≤ n
  · rw [lastN_of_le h]
  · have hl : (lastN n A).length = n := by rw [length_lastN]; omega
    unfold lastN at hl ⊢
    rw [List.length_append, hl, List.drop_append, List.drop_append, List.drop_drop, hl, List.length_append]
    congr 2
    · omega
    · omega

/-- one `enqueue`, uniformly: never fails, keeps the last `maxLen` entries -/
theorem enqueue_spec {q : CQ β} (h : WF q) (v : β) :
    ∃ e q', q.enqueue v = .ok (e, q') ∧ WF q' ∧ q'.maxLen = q.maxLen ∧
      q'.toList = lastN q.maxLen (q.toList ++ [some v]) := by
  cases hf : q.isFull
  · obtain ⟨q', h1, h2, h3, h4⟩ := enqueue_not_full h hf v
    refine ⟨none, q', h1, h2, h3, ?_⟩
    rw [h4, lastN_of_le]
    have := h.cnt
    simp only [isFull, beq_eq_false_iff_ne, ne_eq] at hf
    simp only [List.length_append, ← count_eq_length, List.length_cons, List.length_nil]; omega
  · obtain ⟨e, q', h1, h2, h3, _, h5⟩ := enqueue_full h hf v
    refine ⟨e, q', h1, h2, h3, ?_⟩
    have hlen : q.toList.length = q.maxLen := (isFull_iff q).mp hf
    have hm := h.pos
    rw [h5, lastN, List.length_append, hlen]
    cases hl : q.toList with
    | nil => rw [hl] at hlen; simp at hlen; omega
    | cons x t => simp

/-- enqueue a whole list, one value at a time, propagating errors -/
def enqueueAll : CQ β → List β → Except Err (CQ β)
  | q, [] => .ok q
  | q, v :: vs => match q.enqueue v with
    | .error e => .error e
    | .ok (_, q') => enqueueAll q' vs

theorem enqueueAll_spec {q : CQ β} (h : WF q) (xs : List β) :
    ∃ q', enqueueAll q xs = .ok q' ∧ WF q' ∧ q'.maxLen = q.maxLen ∧
      q'.toList = lastN q.maxLen (q.toList ++ xs.map some) := by
  induction xs generalizing q with
  | nil => exact ⟨q, rfl, h, rfl, by simp [lastN_of_le h.length_le]⟩
  | cons v vs ih =>
    obtain ⟨e, q1, h1, h2, h3, h4⟩ := enqueue_spec h v
    obtain ⟨q', g1, g2, g3, g4⟩ := ih h2
    refine ⟨q', by simp [enqueueAll, h1, g1], g2, g3.trans h3, ?_⟩
    rw [g4, h4, h3, lastN_append_lastN]
    simp

/-- a full queue's logical contents are the backing list rotated by `first` -/
theorem toList_full_eq_rotate {q : CQ β} (h : WF q) (hf : q.isFull = true) : q.toList = q.raw.rotate q.first := by
  have hc : q.count = q.maxLen := by simpa [isFull] using hf
  apply List.ext_getElem
  · simp [toList, raw, hc, h.len]
  · intro i h1 h2
    have hi : i < q.maxLen := by simpa [toList, hc] using h1
    have hlt : (q.first + i) % q.maxLen < q.buf.length := by rw [h.len]; exact Nat.mod_lt _ h.pos
    simp only [toList, raw, List.getElem_map, List.getElem_range, List.getElem_rotate, h.len,
      List.getD_eq_getElem?_getD, List.getElem?_eq_getElem hlt, Option.getD_some, Nat.add_comm i]

theorem raw_perm_toList_of_full {q : CQ β} (h : WF q) (hf : q.isFull = true) : q.raw.Perm q.toList := by
  rw [toList_full_eq_rotate h hf]
  exact (List.rotate_perm _ _).symm

/-! ### every queue obtained from `init n` through the public operations -/

inductive Reach (n : Nat) : CQ β → Prop where
  | init : Reach n (init n)
  | enqueue {q q' : CQ β} {v : β} {e : Option β} : Reach n q → q.enqueue v = .ok (e, q') → Reach n q'
  | dequeue {q q' : CQ β} {e : Option β} : Reach n q → q.dequeue = .ok (e, q') → Reach n q'
  | clear {q : CQ β} : Reach n q → Reach n q.clear
  | keepLast {q q' : CQ β} : Reach n q → q.keepLast = .ok q' → Reach n q'

theorem AllSome.tail {q q' : CQ β} (h : AllSome q) (ht : q'.toList = q.toList.tail) : AllSome q' := by
  obtain ⟨l, hl⟩ := h
  exact ⟨l.tail, by rw [ht, hl, List.map_tail]⟩

theorem AllSome.lastN_append {q q' : CQ β} (h : AllSome q) {n : Nat} {v : β}
    (ht : q'.toList = lastN n (q.toList ++ [some v])) : AllSome q' := by
  obtain ⟨l, hl⟩ := h
  exact ⟨lastN n (l ++ [v]), by rw [ht, hl, ← lastN_map]; simp⟩

theorem Reach.good {n : Nat} (hn : 0 < n) {q : CQ β} (hr : Reach n q) :
    WF q ∧ q.maxLen = n ∧ AllSome q := by
  induction hr with
  | init => exact ⟨init_WF hn, rfl, [], by simp [toList, CQ.init]⟩
  | @enqueue q q' v e _ he ih =>
    obtain ⟨hw, hm, ha⟩ := ih
    obtain ⟨e1, q1, h1, h2, h3, h4⟩ := enqueue_spec hw v
    rw [h1] at he
    obtain ⟨-, rfl⟩ : e1 = e ∧ q1 = q' := by simpa using he
    exact ⟨h2, h3.trans hm, ha.lastN_append h4⟩
  | @dequeue q q' e _ he ih =>
    obtain ⟨hw, hm, ha⟩ := ih
    cases hemp : q.isEmpty
    · obtain ⟨e1, q1, h1, h2, h3, _, h5⟩ := dequeue_nonempty hw hemp
      rw [h1] at he
      obtain ⟨-, rfl⟩ : e1 = e ∧ q1 = q' := by simpa using he
      exact ⟨h2, h3.trans hm, ha.tail h5⟩
    · rw [dequeue_empty hemp] at he; simp at he
  | @clear q _ ih =>
    obtain ⟨hw, hm, _⟩ := ih
    exact ⟨clear_WF hw, hm, [], by simp [toList_clear]⟩
  | @keepLast q q' _ he ih =>
    obtain ⟨hw, hm, l, hl⟩ := ih
    cases hemp : q.isEmpty
    · obtain ⟨q1, h1, h2, h3, hne, h5⟩ := keepLast_nonempty hw hemp
      rw [h1] at he
      obtain rfl : q1 = q' := by simpa using he
      refine ⟨h2, h3.trans hm, ?_⟩
      have hne' : l ≠ [] := by rintro rfl; simp [hl] at hne
      refine ⟨[l.getLast hne'], ?_⟩
      rw [h5]
      simp [hl, List.getLast_map]
    · rw [keepLast_empty hemp] at he; simp at he

end CQ
end Frouros
