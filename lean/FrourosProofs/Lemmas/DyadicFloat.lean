/-
  A binary floating-point carrier WITHOUT overflow and underflow: `p` significant bits, UNBOUNDED exponent.

  `rnd ρ p q` rounds the rational `q ≠ 0` to `ρ (q / 2^e) · 2^e` with `e = ⌊log₂ |q|⌋ − (p − 1)` (so that the scaled
  mantissa `q / 2^e` lies in `[2^(p-1), 2^p)`), where `ρ : ℚ → ℤ` is ANY rounding of the mantissa to an integer
  (`round` = nearest, ties up; nearest-even, truncation, … are all allowed: nothing below depends on `ρ`), and
  `rnd ρ p 0 = 0`.  The carrier `Dy ρ p` is the image of `rnd ρ p` (the representable numbers); every operation is the
  exact rational operation followed by `rnd`.

  The one fact that matters (`rnd_zpow_mul`): `rnd (2^k · q) = 2^k · rnd q` for every `k : ℤ` — rounding commutes
  with multiplication by a power of two, because the exponent shifts by `k` and the mantissa is unchanged.

  `sqrt`, `log`, `exp` are not rational functions; on this carrier they are PLACEHOLDERS (identity).  The carrier is
  only meant for code that never calls them (the CUSUM family: `+ − * /`, `ofNat`, `<`).
-/
import Mathlib.Tactic.Ring
import Mathlib.Tactic.FieldSimp
import Mathlib.Tactic.Linarith
import Mathlib.Tactic.NormNum
import Mathlib.Tactic.Positivity
import Mathlib.Algebra.Order.Round
import Mathlib.Data.Rat.Floor
import Mathlib.Data.Int.Log
import FrourosModel.Num

namespace Frouros.DyadicFloat

theorem two_zpow_pos (k : ℤ) : (0 : ℚ) < (2 : ℚ) ^ k := zpow_pos (by norm_num) k
theorem two_zpow_ne (k : ℤ) : (2 : ℚ) ^ k ≠ 0 := (two_zpow_pos k).ne'

/-- `⌊log₂ (2^k · r)⌋ = ⌊log₂ r⌋ + k` for `r > 0` -/
theorem log_zpow_mul (k : ℤ) {r : ℚ} (hr : 0 < r) : Int.log 2 ((2 : ℚ) ^ k * r) = Int.log 2 r + k := by
  have h2 : (1 : ℕ) < 2 := by norm_num
  have hpos : (0 : ℚ) < (2 : ℚ) ^ k * r := mul_pos (two_zpow_pos k) hr
  apply eq_of_forall_le_iff
  intro x
  rw [← Int.zpow_le_iff_le_log h2 hpos, ← sub_le_iff_le_add, ← Int.zpow_le_iff_le_log h2 hr]
  push_cast
  rw [zpow_sub₀ (by norm_num : (2 : ℚ) ≠ 0), div_le_iff₀ (two_zpow_pos k), mul_comm]

/-- exponent of the last mantissa bit of `q` at precision `p` -/
def ulpExp (p : ℕ) (q : ℚ) : ℤ := Int.log 2 |q| - ((p : ℤ) - 1)

theorem ulpExp_zpow_mul (p : ℕ) (k : ℤ) {q : ℚ} (hq : q ≠ 0) : ulpExp p ((2 : ℚ) ^ k * q) = ulpExp p q + k := by
  unfold ulpExp
  have h2k : (0 : ℚ) < (2 : ℚ) ^ k := two_zpow_pos k
  rw [abs_mul, abs_of_pos h2k, log_zpow_mul k (abs_pos.mpr hq)]
  ring

/-- rounding to `p` significant bits with mantissa rounding `ρ`; unbounded exponent; exact zero -/
def rnd (ρ : ℚ → ℤ) (p : ℕ) (q : ℚ) : ℚ :=
  if q = 0 then 0 else (ρ (q / (2 : ℚ) ^ ulpExp p q) : ℚ) * (2 : ℚ) ^ ulpExp p q

@[simp] theorem rnd_zero (ρ : ℚ → ℤ) (p : ℕ) : rnd ρ p 0 = 0 := by simp [rnd]

/-- **rounding commutes with multiplication by a power of two** (any `k : ℤ`, any mantissa rounding `ρ`) -/
theorem rnd_zpow_mul (ρ : ℚ → ℤ) (p : ℕ) (k : ℤ) (q : ℚ) : rnd ρ p ((2 : ℚ) ^ k * q) = (2 : ℚ) ^ k * rnd ρ p q := by
  by_cases hq : q = 0
  · subst hq; simp
  · have h2k : (2 : ℚ) ^ k ≠ 0 := two_zpow_ne k
    have hne : (2 : ℚ) ^ k * q ≠ 0 := mul_ne_zero h2k hq
    unfold rnd
    rw [if_neg hq, if_neg hne, ulpExp_zpow_mul p k hq, zpow_add₀ (by norm_num : (2 : ℚ) ≠ 0)]
    have hm : (2 : ℚ) ^ k * q / ((2 : ℚ) ^ ulpExp p q * (2 : ℚ) ^ k) = q / (2 : ℚ) ^ ulpExp p q := by
      field_simp
    rw [hm]
    ring

/-- the special case in the task statement: `round (2·x) = 2·round x` -/
theorem rnd_two_mul (ρ : ℚ → ℤ) (p : ℕ) (q : ℚ) : rnd ρ p (2 * q) = 2 * rnd ρ p q := by
  have := rnd_zpow_mul ρ p 1 q
  simpa using this

/-! ### the carrier really is a `p`-bit floating-point format when `ρ = round` -/

/-- the scaled mantissa lies in `[2^(p-1), 2^p)` -/
theorem mantissa_range (p : ℕ) {q : ℚ} (hq : q ≠ 0) :
    (2 : ℚ) ^ ((p : ℤ) - 1) ≤ |q / (2 : ℚ) ^ ulpExp p q| ∧ |q / (2 : ℚ) ^ ulpExp p q| < (2 : ℚ) ^ (p : ℤ) := by
  have h2 : (1 : ℕ) < 2 := by norm_num
  have hpos : 0 < |q| := abs_pos.mpr hq
  have hlo := Int.zpow_log_le_self (R := ℚ) h2 hpos
  have hhi := Int.lt_zpow_succ_log_self (R := ℚ) h2 |q|
  push_cast at hlo hhi
  have he : (0 : ℚ) < (2 : ℚ) ^ ulpExp p q := two_zpow_pos _
  rw [abs_div, abs_of_pos he]
  constructor
  · rw [le_div_iff₀ he, ← zpow_add₀ (by norm_num : (2 : ℚ) ≠ 0)]
    have : (p : ℤ) - 1 + ulpExp p q = Int.log 2 |q| := by unfold ulpExp; ring
    rw [this]; exact hlo
  · rw [div_lt_iff₀ he, ← zpow_add₀ (by norm_num : (2 : ℚ) ≠ 0)]
    have : (p : ℤ) + ulpExp p q = Int.log 2 |q| + 1 := by unfold ulpExp; ring
    rw [this]; exact hhi

/-- relative error of round-to-nearest: `|rnd q − q| ≤ 2^(-p) · |q|` (unit roundoff `u = 2^-p`) -/
theorem rnd_round_error (p : ℕ) (q : ℚ) : |rnd round p q - q| ≤ (2 : ℚ) ^ (-(p : ℤ)) * |q| := by
  by_cases hq : q = 0
  · subst hq; simp
  · have he : (0 : ℚ) < (2 : ℚ) ^ ulpExp p q := two_zpow_pos _
    unfold rnd
    rw [if_neg hq]
    have hid : (round (q / (2 : ℚ) ^ ulpExp p q) : ℚ) * (2 : ℚ) ^ ulpExp p q - q
        = ((round (q / (2 : ℚ) ^ ulpExp p q) : ℚ) - q / (2 : ℚ) ^ ulpExp p q) * (2 : ℚ) ^ ulpExp p q := by
      field_simp
    rw [hid, abs_mul, abs_of_pos he]
    have hr := abs_sub_round (q / (2 : ℚ) ^ ulpExp p q)
    rw [abs_sub_comm] at hr
    have hlo := (mantissa_range p hq).1
    rw [abs_div, abs_of_pos he, le_div_iff₀ he] at hlo
    -- 2^(p-1) * 2^e ≤ |q|
    have h1 : |(round (q / (2 : ℚ) ^ ulpExp p q) : ℚ) - q / (2 : ℚ) ^ ulpExp p q| * (2 : ℚ) ^ ulpExp p q
        ≤ 1 / 2 * (2 : ℚ) ^ ulpExp p q := mul_le_mul_of_nonneg_right hr he.le
    refine le_trans h1 ?_
    have h2 : (2 : ℚ) ^ (-(p : ℤ)) * ((2 : ℚ) ^ ((p : ℤ) - 1) * (2 : ℚ) ^ ulpExp p q) ≤ (2 : ℚ) ^ (-(p : ℤ)) * |q| :=
      mul_le_mul_of_nonneg_left hlo (two_zpow_pos _).le
    refine le_trans (le_of_eq ?_) h2
    rw [← mul_assoc, ← zpow_add₀ (by norm_num : (2 : ℚ) ≠ 0)]
    have : -(p : ℤ) + ((p : ℤ) - 1) = -1 := by ring
    rw [this]
    norm_num

/-- non-vacuity: the carrier really rounds.  With 3 significant bits, `9 = 1001₂` is not representable and is
rounded (nearest, ties up) to `10 = 101₂ · 2`; `9/8` is rounded to `5/4`, in accordance with `rnd_two_mul`. -/
example : rnd round 3 9 = 10 ∧ rnd round 3 (9 / 8) = 5 / 4 := by
  have h9 : Int.log 2 (9 : ℚ) = 3 := by
    rw [Int.log_ofNat]
    have : Nat.log 2 9 = 3 := Nat.log_eq_of_pow_le_of_lt_pow (by norm_num) (by norm_num)
    rw [this]; rfl
  have e9 : ulpExp 3 9 = 1 := by
    unfold ulpExp
    rw [abs_of_pos (by norm_num : (0 : ℚ) < 9), h9]; norm_num
  have r9 : rnd round 3 9 = 10 := by
    unfold rnd
    rw [if_neg (by norm_num), e9]
    have : round ((9 : ℚ) / 2 ^ (1 : ℤ)) = 5 := by
      rw [round_eq, Int.floor_eq_iff]; norm_num
    rw [this]; norm_num
  refine ⟨r9, ?_⟩
  have := rnd_zpow_mul round 3 (-3) 9
  rw [r9] at this
  norm_num at this
  convert this using 2

/-! ### representable numbers are fixed points (for a mantissa rounding that fixes the integers) -/

/-- `⌊log₂ r⌋ = x` from `2^x ≤ r < 2^(x+1)` -/
theorem log_eq_of_bounds {r : ℚ} {x : ℤ} (hlo : (2 : ℚ) ^ x ≤ r) (hhi : r < (2 : ℚ) ^ (x + 1)) : Int.log 2 r = x := by
  have h2 : (1 : ℕ) < 2 := by norm_num
  have hr : 0 < r := lt_of_lt_of_le (two_zpow_pos x) hlo
  have h1 : x ≤ Int.log 2 r := by
    rw [← Int.zpow_le_iff_le_log h2 hr]; push_cast; exact hlo
  have h3 : Int.log 2 r < x + 1 := by
    rw [← Int.lt_zpow_iff_log_lt h2 hr]; push_cast; exact hhi
  omega

/-- an integer mantissa with `2^(p-1) ≤ |m| < 2^p` is not changed by rounding -/
theorem rnd_int_of_lt {ρ : ℚ → ℤ} (hρ : ∀ z : ℤ, ρ (z : ℚ) = z) (p : ℕ) (m : ℤ)
    (hlo : (2 : ℚ) ^ ((p : ℤ) - 1) ≤ |(m : ℚ)|) (hhi : |(m : ℚ)| < (2 : ℚ) ^ (p : ℤ)) : rnd ρ p (m : ℚ) = m := by
  have hm : (m : ℚ) ≠ 0 := by
    intro h; rw [h, abs_zero] at hlo; exact absurd hlo (not_le.mpr (two_zpow_pos _))
  have hlog : Int.log 2 |(m : ℚ)| = (p : ℤ) - 1 := log_eq_of_bounds hlo (by rwa [sub_add_cancel])
  have he : ulpExp p (m : ℚ) = 0 := by unfold ulpExp; rw [hlog]; ring
  unfold rnd
  rw [if_neg hm, he, zpow_zero, div_one, hρ, mul_one]

/-- … and neither is `|m| = 2^p` (the carry into the next binade), for `p ≥ 1` -/
theorem rnd_int_of_le {ρ : ℚ → ℤ} (hρ : ∀ z : ℤ, ρ (z : ℚ) = z) (p : ℕ) (hp : 1 ≤ p) (m : ℤ)
    (hlo : (2 : ℚ) ^ ((p : ℤ) - 1) ≤ |(m : ℚ)|) (hhi : |(m : ℚ)| ≤ (2 : ℚ) ^ (p : ℤ)) : rnd ρ p (m : ℚ) = m := by
  rcases lt_or_eq_of_le hhi with h | h
  · exact rnd_int_of_lt hρ p m hlo h
  · -- `m = ± 2^p = 2 * (± 2^(p-1))`
    obtain ⟨p', rfl⟩ : ∃ p', p = p' + 1 := ⟨p - 1, by omega⟩
    have hpow : (2 : ℚ) ^ ((p' + 1 : ℕ) : ℤ) = 2 * (((2 : ℤ) ^ p' : ℤ) : ℚ) := by
      push_cast; rw [zpow_add₀ (by norm_num : (2 : ℚ) ≠ 0)]; simp [mul_comm]
    have hhalf : ∀ z : ℤ, |(z : ℚ)| = ((2 : ℤ) ^ p' : ℤ) → rnd ρ (p' + 1) (z : ℚ) = z := by
      intro z hz
      apply rnd_int_of_lt hρ
      · rw [hz]; push_cast; simp
      · rw [hz]; push_cast
        rw [zpow_add₀ (by norm_num : (2 : ℚ) ≠ 0)]
        have := two_zpow_pos (p' : ℤ)
        simp only [zpow_natCast, zpow_one] at this ⊢
        linarith
    rw [hpow] at h
    have hm : (m : ℚ) = 2 * (((2 : ℤ) ^ p' : ℤ) : ℚ) ∨ (m : ℚ) = -(2 * (((2 : ℤ) ^ p' : ℤ) : ℚ)) := by
      rcases abs_cases (m : ℚ) with ⟨h1, _⟩ | ⟨h1, _⟩
      · left; rw [← h1]; exact h
      · right; rw [← h, h1, neg_neg]
    rcases hm with hm | hm
    · rw [hm, rnd_two_mul, hhalf _ (by rw [abs_of_nonneg]; positivity)]
    · have : -(2 * (((2 : ℤ) ^ p' : ℤ) : ℚ)) = 2 * ((-(2 : ℤ) ^ p' : ℤ) : ℚ) := by push_cast; ring
      rw [hm, this, rnd_two_mul, hhalf _ (by push_cast; rw [abs_neg, abs_of_nonneg]; positivity)]

theorem round_between {x : ℚ} {a b : ℤ} (ha : (a : ℚ) ≤ x) (hb : x ≤ (b : ℚ)) : a ≤ round x ∧ round x ≤ b := by
  rw [round_eq]
  constructor
  · rw [Int.le_floor]; linarith
  · rw [Int.floor_le_iff]; linarith

theorem abs_round_between {x : ℚ} {A B : ℤ} (hA : 0 ≤ A) (hlo : (A : ℚ) ≤ |x|) (hhi : |x| ≤ (B : ℚ)) :
    (A : ℚ) ≤ |((round x : ℤ) : ℚ)| ∧ |((round x : ℤ) : ℚ)| ≤ (B : ℚ) := by
  rcases abs_cases x with ⟨h1, _⟩ | ⟨h1, _⟩
  · rw [h1] at hlo hhi
    obtain ⟨h3, h4⟩ := round_between hlo hhi
    have h0 : (0 : ℤ) ≤ round x := le_trans hA h3
    rw [abs_of_nonneg (by exact_mod_cast h0)]
    exact ⟨by exact_mod_cast h3, by exact_mod_cast h4⟩
  · rw [h1] at hlo hhi
    have ha : ((-B : ℤ) : ℚ) ≤ x := by push_cast; linarith
    have hb : x ≤ ((-A : ℤ) : ℚ) := by push_cast; linarith
    obtain ⟨h3, h4⟩ := round_between ha hb
    have h0 : round x ≤ 0 := by omega
    rw [abs_of_nonpos (by exact_mod_cast h0)]
    constructor
    · have : A ≤ -round x := by omega
      exact_mod_cast this
    · have : -round x ≤ B := by omega
      exact_mod_cast this

/-- round-to-nearest at precision `p ≥ 1` is idempotent: the image of `rnd round p` is its set of fixed points -/
theorem rnd_round_idem (p : ℕ) (hp : 1 ≤ p) (q : ℚ) : rnd round p (rnd round p q) = rnd round p q := by
  by_cases hq : q = 0
  · subst hq; simp
  · obtain ⟨hlo, hhi⟩ := mantissa_range p hq
    have hr : rnd round p q
        = (2 : ℚ) ^ ulpExp p q * ((round (q / (2 : ℚ) ^ ulpExp p q) : ℤ) : ℚ) := by
      unfold rnd; rw [if_neg hq, mul_comm]
    obtain ⟨p', rfl⟩ : ∃ p', p = p' + 1 := ⟨p - 1, by omega⟩
    have e1 : (2 : ℚ) ^ (((p' + 1 : ℕ) : ℤ) - 1) = (((2 : ℤ) ^ p' : ℤ) : ℚ) := by push_cast; simp
    have e2 : (2 : ℚ) ^ ((p' + 1 : ℕ) : ℤ) = (((2 : ℤ) ^ (p' + 1) : ℤ) : ℚ) := by
      rw [zpow_natCast]; push_cast; rfl
    have hb := abs_round_between (A := (2 : ℤ) ^ p') (B := (2 : ℤ) ^ (p' + 1)) (by positivity)
      (by rw [← e1]; exact hlo) (by rw [← e2]; exact hhi.le)
    have hfix := rnd_int_of_le (fun z => round_intCast z) (p' + 1) hp
      (round (q / (2 : ℚ) ^ ulpExp (p' + 1) q)) (by rw [e1]; exact hb.1) (by rw [e2]; exact hb.2)
    rw [hr, rnd_zpow_mul, hfix]

/-- `1` is representable at every precision `p ≥ 1` -/
theorem rnd_round_one (p : ℕ) (hp : 1 ≤ p) : rnd round p 1 = 1 := by
  obtain ⟨p', rfl⟩ : ∃ p', p = p' + 1 := ⟨p - 1, by omega⟩
  have e1 : (2 : ℚ) ^ (((p' + 1 : ℕ) : ℤ) - 1) = (((2 : ℤ) ^ p' : ℤ) : ℚ) := by push_cast; simp
  have h := rnd_int_of_lt (fun z => round_intCast z) (p' + 1) ((2 : ℤ) ^ p')
    (by rw [e1, abs_of_nonneg (by positivity)])
    (by
      rw [abs_of_nonneg (by positivity)]; push_cast
      rw [zpow_add₀ (by norm_num : (2 : ℚ) ≠ 0)]
      have := two_zpow_pos (p' : ℤ)
      simp only [zpow_natCast, zpow_one] at this ⊢
      linarith)
  have h2 := rnd_zpow_mul round (p' + 1) (-(p' : ℤ)) (((2 : ℤ) ^ p' : ℤ) : ℚ)
  rw [h] at h2
  have e : (2 : ℚ) ^ (-(p' : ℤ)) * (((2 : ℤ) ^ p' : ℤ) : ℚ) = 1 := by
    push_cast
    rw [← zpow_natCast, ← zpow_add₀ (by norm_num : (2 : ℚ) ≠ 0)]
    simp
  rwa [e] at h2

/-! ### the carrier -/

/-- the representable numbers: the image of `rnd ρ p` -/
structure Dy (ρ : ℚ → ℤ) (p : ℕ) where
  val : ℚ
  rep : ∃ x : ℚ, val = rnd ρ p x

namespace Dy
variable {ρ : ℚ → ℤ} {p : ℕ}

theorem ext' {a b : Dy ρ p} (h : a.val = b.val) : a = b := by
  cases a; cases b; cases h; rfl

/-- round a rational into the carrier -/
def mk' (x : ℚ) : Dy ρ p := ⟨rnd ρ p x, x, rfl⟩

@[simp] theorem mk'_val (x : ℚ) : (mk' x : Dy ρ p).val = rnd ρ p x := rfl

/-- every operation = exact rational operation, then rounding.  `sqrt`, `log`, `exp` are placeholders. -/
instance instNum : Num (Dy ρ p) where
  add a b := mk' (a.val + b.val)
  sub a b := mk' (a.val - b.val)
  mul a b := mk' (a.val * b.val)
  div a b := mk' (a.val / b.val)
  neg a := mk' (-a.val)
  ofNat n := mk' (n : ℚ)
  ofDec m e := mk' ((m : ℚ) / (10 : ℚ) ^ e)
  sqrt a := a
  log a := a
  exp a := a
  abs a := mk' |a.val|
  npow a n := mk' (a.val ^ n)
  lt a b := decide (a.val < b.val)
  le a b := decide (a.val ≤ b.val)
  beq a b := decide (a.val = b.val)

theorem add_val (a b : Dy ρ p) : (a + b).val = rnd ρ p (a.val + b.val) := rfl
theorem sub_val (a b : Dy ρ p) : (a - b).val = rnd ρ p (a.val - b.val) := rfl
theorem mul_val (a b : Dy ρ p) : (a * b).val = rnd ρ p (a.val * b.val) := rfl
theorem div_val (a b : Dy ρ p) : (a / b).val = rnd ρ p (a.val / b.val) := rfl
theorem ofNat_val (n : ℕ) : (Num.ofNat n : Dy ρ p).val = rnd ρ p (n : ℚ) := rfl
theorem lt_def (a b : Dy ρ p) : Num.lt a b = decide (a.val < b.val) := rfl
theorem le_def (a b : Dy ρ p) : Num.le a b = decide (a.val ≤ b.val) := rfl

/-- exact multiplication by `2^k` (`k : ℤ`): it stays inside the carrier (no overflow, no underflow) -/
def scale2 (k : ℤ) (a : Dy ρ p) : Dy ρ p :=
  ⟨(2 : ℚ) ^ k * a.val, by
    obtain ⟨x, hx⟩ := a.rep
    exact ⟨(2 : ℚ) ^ k * x, by rw [hx, rnd_zpow_mul]⟩⟩

@[simp] theorem scale2_val (k : ℤ) (a : Dy ρ p) : (scale2 k a).val = (2 : ℚ) ^ k * a.val := rfl

/-- scaling back: `2^(-k) · (2^k · a) = a` exactly (the harness divides the outputs by `2^k` again) -/
theorem scale2_neg_scale2 (k : ℤ) (a : Dy ρ p) : scale2 (-k) (scale2 k a) = a := by
  apply ext'
  rw [scale2_val, scale2_val, ← mul_assoc, ← zpow_add₀ (by norm_num : (2 : ℚ) ≠ 0)]
  simp

/-- `scale2 k a` IS the carrier's own (rounded) product `2^k * a` whenever `rnd` fixes `1` and is idempotent (both
hold for round-to-nearest with `p ≥ 1`; they are hypotheses here because nothing else in this file needs them and
the mantissa rounding `ρ` is arbitrary). -/
theorem scale2_eq_mul (h1 : rnd ρ p 1 = 1) (hid : ∀ x, rnd ρ p (rnd ρ p x) = rnd ρ p x) (k : ℤ) (a : Dy ρ p) :
    scale2 k a = (mk' ((2 : ℚ) ^ k) : Dy ρ p) * a := by
  apply ext'
  obtain ⟨x, hx⟩ := a.rep
  have hk : rnd ρ p ((2 : ℚ) ^ k) = (2 : ℚ) ^ k := by
    have := rnd_zpow_mul ρ p k 1
    rwa [mul_one, h1, mul_one] at this
  rw [scale2_val, mul_val, mk'_val, hk, rnd_zpow_mul, hx, hid]

/-- round-to-nearest, `p ≥ 1`: every element of the carrier is a fixed point of rounding, `2^k` is representable, and
exact scaling by `2^k` IS the carrier's own rounded multiplication by that representable constant -/
theorem val_fixed_round {p : ℕ} (hp : 1 ≤ p) (a : Dy round p) : rnd round p a.val = a.val := by
  obtain ⟨x, hx⟩ := a.rep
  rw [hx, rnd_round_idem p hp]

theorem two_zpow_val_round {p : ℕ} (hp : 1 ≤ p) (k : ℤ) : (mk' ((2 : ℚ) ^ k) : Dy round p).val = (2 : ℚ) ^ k := by
  have := rnd_zpow_mul round p k 1
  rwa [mul_one, rnd_round_one p hp, mul_one] at this

theorem scale2_eq_mul_round {p : ℕ} (hp : 1 ≤ p) (k : ℤ) (a : Dy round p) :
    scale2 k a = (mk' ((2 : ℚ) ^ k) : Dy round p) * a :=
  scale2_eq_mul (rnd_round_one p hp) (rnd_round_idem p hp) k a

end Dy
end Frouros.DyadicFloat
