/-
  Shared machinery for the constant-stream clause of C01:
  * histories (`update`/`reset` lists) all of whose updates satisfy a predicate, the induction principle
    for them, and the link between `foldl step init (replicate k c)` and `Machine.run`;
  * the running `Mean` on a constant stream.
-/
import Mathlib.Tactic.Ring
import Mathlib.Tactic.FieldSimp
import Mathlib.Tactic.Linarith
import Mathlib.Tactic.NormNum
import FrourosProofs.RealNum
import FrourosProofs.Machines

namespace Frouros.C01c
open Frouros

/-! ## Histories -/
section Hist
variable {S V : Type}

/-- every `update` of the history carries a value satisfying `Q` (resets are unrestricted) -/
def HistOf (Q : V → Prop) (ops : List (Op V)) : Prop :=
  ∀ op ∈ ops, op = Op.reset ∨ ∃ v, op = Op.update v ∧ Q v

/-- a history of resets and updates with the single value `c` -/
def ConstHist (c : V) (ops : List (Op V)) : Prop := HistOf (· = c) ops

theorem HistOf.nil (Q : V → Prop) : HistOf Q [] := by intro op h; cases h

theorem HistOf.of_prefix {Q : V → Prop} {pre ops : List (Op V)} (h : HistOf Q ops) (hp : pre <+: ops) :
    HistOf Q pre := fun op hop => h op (hp.subset hop)

theorem HistOf.append {Q : V → Prop} {a b : List (Op V)} (ha : HistOf Q a) (hb : HistOf Q b) :
    HistOf Q (a ++ b) := by
  intro op hop
  rcases List.mem_append.mp hop with h | h
  · exact ha op h
  · exact hb op h

theorem constHist_replicate (c : V) (k : Nat) : ConstHist c (List.replicate k (Op.update c)) := by
  intro op hop
  rw [List.mem_replicate] at hop
  exact Or.inr ⟨c, hop.2, rfl⟩

theorem constHist_example (c : V) :
    ConstHist c [Op.update c, Op.update c, Op.reset, Op.update c] := by
  intro op hop
  simp only [List.mem_cons, List.not_mem_nil, or_false] at hop
  rcases hop with h | h | h | h
  · exact Or.inr ⟨c, h, rfl⟩
  · exact Or.inr ⟨c, h, rfl⟩
  · exact Or.inl h
  · exact Or.inr ⟨c, h, rfl⟩

/-- Induction principle: a predicate that holds initially and is preserved by `reset` and by every
`step` with a value satisfying `Q` holds after every `Q`-history (hence at every prefix of it, see
`HistOf.of_prefix`). -/
theorem run_histOf (M : Machine S V) (Q : V → Prop) (P : S → Prop) (h0 : P M.init)
    (hs : ∀ s v, Q v → P s → P (M.step s v)) (hr : ∀ s, P s → P (M.reset s))
    (ops : List (Op V)) (h : HistOf Q ops) : P (M.run ops) := by
  suffices H : ∀ (ops : List (Op V)) (s : S), P s → HistOf Q ops → P (M.runFrom s ops) from H ops _ h0 h
  intro ops
  induction ops with
  | nil => intro s hs _; exact hs
  | cons op ops ih =>
    intro s hP hQ
    have hop := hQ op (List.mem_cons_self)
    have hrest : HistOf Q ops := fun o ho => hQ o (List.mem_cons_of_mem _ ho)
    show P (M.runFrom (M.apply s op) ops)
    apply ih _ _ hrest
    rcases hop with rfl | ⟨v, rfl, hv⟩
    · exact hr s hP
    · exact hs s v hv hP

/-- folding `step` over `k` copies of `c` is the run of the history `update c, …, update c` -/
theorem foldl_replicate_eq_run (M : Machine S V) (c : V) (k : Nat) :
    (List.replicate k c).foldl M.step M.init = M.run (List.replicate k (Op.update c)) := by
  unfold Machine.run Machine.runFrom
  generalize M.init = s
  induction k generalizing s with
  | zero => rfl
  | succ k ih => simp only [List.replicate_succ, List.foldl_cons, Machine.apply]; exact ih _

/-- stream version of `run_histOf`: no resets, all values satisfy `Q` -/
theorem foldl_all (M : Machine S V) (Q : V → Prop) (P : S → Prop) (h0 : P M.init)
    (hs : ∀ s v, Q v → P s → P (M.step s v)) (xs : List V) (h : ∀ v ∈ xs, Q v) :
    P (xs.foldl M.step M.init) := by
  generalize M.init = s at h0
  induction xs generalizing s with
  | nil => exact h0
  | cons x xs ih =>
    exact ih (fun v hv => h v (List.mem_cons_of_mem _ hv)) _ (hs s x (h x List.mem_cons_self) h0)

end Hist

/-! ## The running mean on a constant stream -/

/-- the `Mean` accumulator after `≥ 0` updates with the constant `c`: untouched (`0/0` values), or
holding exactly `c` -/
def MeanConst (c : ℝ) (m : Mean ℝ) : Prop := (m.n = 0 ∧ m.mean = 0) ∨ (1 ≤ m.n ∧ m.mean = c)

theorem meanConst_init (c : ℝ) : MeanConst c (Mean.init : Mean ℝ) := Or.inl ⟨rfl, by simp [Mean.init]⟩

theorem mean_update_n (m : Mean ℝ) (v : ℝ) : (m.update v).n = m.n + 1 := rfl

/-- closed form: after an update with `c` the mean is exactly `c` -/
theorem meanConst_update_mean {c : ℝ} {m : Mean ℝ} (h : MeanConst c m) : (m.update c).mean = c := by
  unfold Mean.update
  rcases h with ⟨hn, hm⟩ | ⟨_, hm⟩
  · simp [hn, hm]
  · simp [hm]

theorem meanConst_update {c : ℝ} {m : Mean ℝ} (h : MeanConst c m) : MeanConst c (m.update c) :=
  Or.inr ⟨by rw [mean_update_n]; omega, meanConst_update_mean h⟩

end Frouros.C01c
