/- Constant streams: DDM and ECDD-WT. -/
import FrourosProofs.Lemmas.ConstCommon

namespace Frouros.C01c
open Frouros

/-- `_calculate_error_rate_plus_std` on a constant 0/1 stream: `p + s = c`, `s = 0`
(`p (1 - p) = 0`; the divisor `n` is irrelevant but is `≥ 1` at every call site) -/
theorem epsStd_const {c : ℝ} (hc : c = 0 ∨ c = 1) {m : Mean ℝ} (h : MeanConst c m) (n : Nat) :
    DDM.epsStd (m.update c) n = (c, 0) := by
  unfold DDM.epsStd
  rw [meanConst_update_mean h]
  rcases hc with rfl | rfl <;> simp

namespace Ddm
open DDM

structure Inv (c : ℝ) (s : State ℝ) : Prop where
  er : MeanConst c s.er
  ern : s.er.n = s.n
  minPS : s.minPS = none ∨ s.minPS = some (c, 0)
  drift : s.drift = false
  warning : s.warning = false

theorem inv_init (c : ℝ) : Inv c (init : State ℝ) := ⟨meanConst_init c, rfl, Or.inl rfl, rfl, rfl⟩
theorem inv_reset (c : ℝ) (s : State ℝ) : Inv c (reset s) := ⟨meanConst_init c, rfl, Or.inl rfl, rfl, rfl⟩

theorem inv_step (cfg : Cfg ℝ) {c : ℝ} (hc : c = 0 ∨ c = 1) {s : State ℝ} (h : Inv c s) :
    Inv c (step cfg s c) := by
  have hE := epsStd_const hc h.er (s.n + 1)
  have hm := meanConst_update h.er
  have hn : (s.er.update c).n = s.n + 1 := by rw [mean_update_n, h.ern]
  unfold step
  simp only [hE]
  by_cases hmin : cfg.minN ≤ s.n + 1
  · rcases h.minPS with hp | hp
    · simp [hmin, hp, belowMin, exceeds, meanConst_update_mean h.er]
      exact ⟨hm, hn, Or.inr rfl, rfl, rfl⟩
    · simp [hmin, hp, belowMin, exceeds]
      exact ⟨hm, hn, Or.inr rfl, rfl, rfl⟩
  · simp only [hmin, if_false]
    exact ⟨hm, hn, h.minPS, rfl, rfl⟩

end Ddm
end Frouros.C01c

namespace Frouros.C01c
open Frouros
namespace Ecdd
open ECDD

/-- invariant on a constant 0/1 stream, with the closed forms `p = c` and
`z_t = c (1 - (1 - lam)^t)` -/
structure Inv (cfg : Cfg ℝ) (c : ℝ) (s : State ℝ) : Prop where
  p : MeanConst c s.p
  pn : s.p.n = s.n
  za : s.z.alpha = cfg.lam
  zo : s.z.oneMinus = 1 - cfg.lam
  zmean : s.z.mean = c * (1 - (1 - cfg.lam) ^ s.n)
  drift : s.drift = false
  warning : s.warning = false

theorem inv_init (cfg : Cfg ℝ) (c : ℝ) : Inv cfg c (init cfg) :=
  ⟨meanConst_init c, rfl, rfl, by simp [init, EWMA.init], by simp [init, EWMA.init], rfl, rfl⟩
theorem inv_reset (cfg : Cfg ℝ) (c : ℝ) (s : State ℝ) : Inv cfg c (reset cfg s) :=
  ⟨meanConst_init c, rfl, rfl, by simp [reset, EWMA.init], by simp [reset, EWMA.init], rfl, rfl⟩

theorem inv_step {cfg : Cfg ℝ} (hlam : cfg.lam ≤ 1) {c : ℝ} (hc : c = 0 ∨ c = 1) {s : State ℝ}
    (h : Inv cfg c s) : Inv cfg c (step cfg s c) := by
  have hm := meanConst_update h.p
  have hpm := meanConst_update_mean h.p
  have hn : (s.p.update c).n = s.n + 1 := by rw [mean_update_n, h.pn]
  have hz : (s.z.update c).mean = c * (1 - (1 - cfg.lam) ^ (s.n + 1)) := by
    simp only [EWMA.update, h.za, h.zo, h.zmean]; ring
  have hcc : c * (1 - c) = 0 := by rcases hc with rfl | rfl <;> simp
  have hc0 : 0 ≤ c := by rcases hc with rfl | rfl <;> simp
  have hq : 0 ≤ (1 - cfg.lam) ^ (s.n + 1) := pow_nonneg (by linarith) _
  have hzle : (s.z.update c).mean ≤ c := by rw [hz]; nlinarith
  have hgt : ∀ w : ℝ, Num.gt (s.z.update c).mean
      ((s.p.update c).mean + w * controlLimit cfg.arl (s.p.update c).mean *
        Num.sqrt (lamDiv cfg * (Num.one - Num.npow (s.z.update c).oneMinus (2 * (s.n + 1))) *
          ((s.p.update c).mean * (Num.one - (s.p.update c).mean)))) = false := by
    intro w
    rw [RealNum.gt_false_iff, hpm]
    simp only [RealNum.one_eq, hcc, mul_zero, RealNum.sqrt_eq, Real.sqrt_zero, add_zero]
    exact not_lt.mpr hzle
  unfold step
  by_cases hmin : cfg.minN ≤ s.n + 1
  · simp only [hmin, if_true, hgt]
    exact ⟨hm, hn, h.za, h.zo, hz, rfl, rfl⟩
  · simp only [hmin, if_false]
    exact ⟨hm, hn, h.za, h.zo, hz, rfl, rfl⟩

end Ecdd
end Frouros.C01c
