/-
  Locality of the streaming operations of `FrourosModel/Heap.lean`: a detector object together with the
  cells it refers to REFINES a pure state machine (`AState`, `astep`).  `Rep h d L a` says that in the store
  `h` the detector `d`, laid out at the references `L`, represents the abstract state `a`;
  `rep_apply` is the locality lemma (an operation on `d` reads and writes only the cells named by `L`, and
  what it computes is `astep`), `Rep.frame` says that `Rep` only looks at cells reachable from `d`.
  Core Lean only.
-/
import FrourosProofs.Lemmas.Heap
namespace Frouros.Heap

variable {D V R : Type}

/-- the pure state of one streaming detector with its callbacks -/
structure AState (D : Type) where
  /-- scalars of the configuration object -/
  sc : D
  /-- parameters of the configuration's model object (BOCD), if any -/
  cmd : Option D
  own : D
  vars : D
  /-- parameters of the detector's own model copy, if any -/
  model : Option D
  /-- class and recorded entries of every callback, in list order -/
  cbs : List (CbKind D × List D)

/-- `update(value)` / `reset()` as a pure function: `_update` from (config scalars, own scalars, own
containers, own model, value), then every callback appends `snap` of the NEW scalars/containers;
`reset`: re-initialisation from the config scalars, the model re-copied from the configuration's,
history lists emptied -/
def astep (S : Sem D V R) (a : AState D) : SOp V → AState D
  | .update v =>
    let own' := S.stepOwn a.sc a.own a.vars a.model v
    let vars' := S.stepVars a.sc a.own a.vars a.model v
    { a with own := own', vars := vars', model := a.model.map (fun p => S.stepModel a.sc a.own a.vars p v),
             cbs := a.cbs.map (fun k => (k.1, k.2 ++ [S.snap own' vars' v])) }
  | .reset =>
    { a with own := S.initOwn a.sc, vars := S.initVars a.sc, model := a.cmd,
             cbs := a.cbs.map (fun k => (k.1, match k.1 with | .history => [] | .resetTest _ => k.2)) }

/-- the same with the callback loops removed -/
def astepCore (S : Sem D V R) (a : AState D) (op : SOp V) : AState D := { astep S a op with cbs := a.cbs }

/-- where the parts of a detector live -/
structure Layout where
  cfg : Ref
  cbs : Ref
  vars : Ref
  items : List Ref
  /-- the detector's `_model` field -/
  model : Option Ref
  /-- the configuration's `model` field -/
  cm : Option Ref

/-- the cell of a callback of class `k.1` with entries `k.2` pointing back to `d` -/
def cbCell (d : Ref) (k : CbKind D × List D) : Option (Obj D) := some (.callback ⟨k.1, some d, k.2⟩)

/-- **representation relation** -/
structure Rep (h : Heap D) (d : Ref) (L : Layout) (a : AState D) : Prop where
  hd : read h d = some (.detector ⟨some L.cfg, L.cbs, L.vars, L.model, none, a.own⟩)
  hcfg : read h L.cfg = some (.config a.sc L.cm)
  hvars : read h L.vars = some (.data a.vars)
  hlist : read h L.cbs = some (.list L.items)
  nodup : L.items.Nodup
  hitems : L.items.map (read h) = a.cbs.map (cbCell d)
  hmodel : (L.model = none ∧ a.model = none) ∨
    ∃ m p, L.model = some m ∧ a.model = some p ∧ read h m = some (.data p) ∧ m ≠ L.vars
  hcm : (L.cm = none ∧ a.cmd = none) ∨
    ∃ m p, L.cm = some m ∧ a.cmd = some p ∧ read h m = some (.data p) ∧ m ≠ L.vars ∧ L.model ≠ some m

/-! ### lists of cells -/

theorem map_read_congr {h h' : Heap D} {items : List Ref} (hag : ∀ c ∈ items, read h' c = read h c) :
    items.map (read h') = items.map (read h) :=
  List.map_congr_left hag

/-- an item of the list is a callback cell -/
theorem Rep.item {h : Heap D} {d : Ref} {L : Layout} {a : AState D} (R : Rep h d L a) {c : Ref} (hc : c ∈ L.items) :
    ∃ k, k ∈ a.cbs ∧ read h c = cbCell d k := by
  have : read h c ∈ L.items.map (read h) := List.mem_map_of_mem hc
  rw [R.hitems] at this
  obtain ⟨k, hk, e⟩ := List.mem_map.mp this
  exact ⟨k, hk, e.symm⟩

/-- the cells `Rep h d L a` looks at -/
def Layout.Cell (L : Layout) (d r : Ref) : Prop :=
  r = d ∨ r = L.cfg ∨ r = L.cbs ∨ r = L.vars ∨ L.model = some r ∨ L.cm = some r ∨ r ∈ L.items

/-- `Rep` depends on these cells only -/
theorem Rep.frame_cells {h h' : Heap D} {d : Ref} {L : Layout} {a : AState D} (R : Rep h d L a)
    (hag : ∀ r, L.Cell d r → read h' r = read h r) : Rep h' d L a := by
  refine
    { hd := by rw [hag _ (Or.inl rfl)]; exact R.hd
      hcfg := by rw [hag _ (Or.inr (Or.inl rfl))]; exact R.hcfg
      hvars := by rw [hag _ (Or.inr (Or.inr (Or.inr (Or.inl rfl))))]; exact R.hvars
      hlist := by rw [hag _ (Or.inr (Or.inr (Or.inl rfl)))]; exact R.hlist
      nodup := R.nodup
      hitems := ?_
      hmodel := ?_
      hcm := ?_ }
  · rw [← R.hitems]
    exact map_read_congr (fun c hc => hag c (Or.inr (Or.inr (Or.inr (Or.inr (Or.inr (Or.inr hc)))))))
  · rcases R.hmodel with hn | ⟨m, p, e1, e2, e3, e4⟩
    · exact Or.inl hn
    · refine Or.inr ⟨m, p, e1, e2, ?_, e4⟩
      rw [hag m (Or.inr (Or.inr (Or.inr (Or.inr (Or.inl e1)))))]; exact e3
  · rcases R.hcm with hn | ⟨m, p, e1, e2, e3, e4⟩
    · exact Or.inl hn
    · refine Or.inr ⟨m, p, e1, e2, ?_, e4⟩
      rw [hag m (Or.inr (Or.inr (Or.inr (Or.inr (Or.inr (Or.inl e1))))))]; exact e3

/-- every one of these cells is allocated, and is a callback cell iff it is in the list -/
theorem Rep.cell_read {h : Heap D} {d : Ref} {L : Layout} {a : AState D} (R : Rep h d L a) {r : Ref}
    (hr : L.Cell d r) :
    (r ∈ L.items ∧ ∃ cb, read h r = some (.callback cb)) ∨ (∃ o, read h r = some o ∧ ∀ cb, o ≠ .callback cb) := by
  rcases hr with rfl | rfl | rfl | rfl | e | e | e
  · exact Or.inr ⟨_, R.hd, by intro cb e; cases e⟩
  · exact Or.inr ⟨_, R.hcfg, by intro cb e; cases e⟩
  · exact Or.inr ⟨_, R.hlist, by intro cb e; cases e⟩
  · exact Or.inr ⟨_, R.hvars, by intro cb e; cases e⟩
  · rcases R.hmodel with ⟨e1, _⟩ | ⟨m, p, e1, _, e3, _⟩
    · rw [e1] at e; cases e
    · rw [e1] at e; cases e; exact Or.inr ⟨_, e3, by intro cb e; cases e⟩
  · rcases R.hcm with ⟨e1, _⟩ | ⟨m, p, e1, _, e3, _⟩
    · rw [e1] at e; cases e
    · rw [e1] at e; cases e; exact Or.inr ⟨_, e3, by intro cb e; cases e⟩
  · obtain ⟨k, _, hk⟩ := R.item e
    exact Or.inl ⟨e, _, hk⟩

/-- every cell `Rep` looks at is reachable from `d` -/
theorem Rep.cell_reach {h : Heap D} {d : Ref} {L : Layout} {a : AState D} (R : Rep h d L a) {r : Ref}
    (hr : L.Cell d r) : Reach h d r := by
  have e_cfg : Reach h d L.cfg := Reach.edge R.hd (by simp [edges])
  have e_cbs : Reach h d L.cbs := Reach.edge R.hd (by simp [edges])
  rcases hr with rfl | rfl | rfl | rfl | e | e | e
  · exact Reach.refl _
  · exact e_cfg
  · exact e_cbs
  · exact Reach.edge R.hd (by simp [edges])
  · exact Reach.edge R.hd (by simp [edges, e])
  · exact e_cfg.trans (Reach.edge R.hcfg (by simp [edges, e]))
  · exact e_cbs.trans (Reach.edge R.hlist e)

theorem Rep.frame {h h' : Heap D} {d : Ref} {L : Layout} {a : AState D} (R : Rep h d L a)
    (hag : ∀ r, Reach h d r → read h' r = read h r) : Rep h' d L a :=
  R.frame_cells (fun r hr => hag r (R.cell_reach hr))

/-- conversely, everything reachable from `d` is one of these cells -/
theorem Rep.reach_cell {h : Heap D} {d : Ref} {L : Layout} {a : AState D} (R : Rep h d L a) {r : Ref}
    (hr : Reach h d r) : L.Cell d r := by
  refine Reach.subset (P := L.Cell d) ?_ hr (Or.inl rfl)
  intro x o y hx hxo hy
  rcases hx with rfl | rfl | rfl | rfl | e | e | e
  · rw [R.hd] at hxo; cases hxo
    simp only [edges, Option.toList, List.mem_append, List.mem_cons, List.not_mem_nil, or_false] at hy
    rcases hy with (rfl | rfl | rfl) | hy
    · exact Or.inr (Or.inl rfl)
    · exact Or.inr (Or.inr (Or.inl rfl))
    · exact Or.inr (Or.inr (Or.inr (Or.inl rfl)))
    · refine Or.inr (Or.inr (Or.inr (Or.inr (Or.inl ?_))))
      cases hm : L.model with
      | none => rw [hm] at hy; cases hy
      | some m => rw [hm] at hy; rw [List.mem_singleton.mp hy]
  · rw [R.hcfg] at hxo; cases hxo
    refine Or.inr (Or.inr (Or.inr (Or.inr (Or.inr (Or.inl ?_)))))
    cases hm : L.cm with
    | none => rw [hm] at hy; cases hy
    | some m => rw [hm] at hy; simp only [edges, Option.toList, List.mem_singleton] at hy; rw [hy]
  · rw [R.hlist] at hxo; cases hxo
    exact Or.inr (Or.inr (Or.inr (Or.inr (Or.inr (Or.inr hy)))))
  · rw [R.hvars] at hxo; cases hxo; cases hy
  · rcases R.hmodel with ⟨e1, _⟩ | ⟨m, p, e1, _, e3, _⟩
    · rw [e1] at e; cases e
    · rw [e1] at e; cases e; rw [e3] at hxo; cases hxo; cases hy
  · rcases R.hcm with ⟨e1, _⟩ | ⟨m, p, e1, _, e3, _⟩
    · rw [e1] at e; cases e
    · rw [e1] at e; cases e; rw [e3] at hxo; cases hxo; cases hy
  · obtain ⟨k, _, hk⟩ := R.item e
    rw [hk] at hxo; unfold cbCell at hxo; cases hxo
    simp only [edges, Option.toList, List.mem_singleton] at hy
    exact Or.inl hy

/-! ### the callback loops -/

/-- a loop of callback methods each of which rewrites the entries of ITS OWN callback object by `g`
(and may read cells whose content is protected by the invariant `P`, stable under writes to callback
cells): on a duplicate-free list the effect is `g` on every callback, nothing else changes -/
theorem forEach_cbs {f : Heap D → Ref → Option (Heap D)} {d : Ref} (g : CbKind D → List D → List D)
    (P : Heap D → Prop)
    (hP : ∀ h c cb cb', P h → read h c = some (.callback cb) → P (write h c (.callback cb')))
    (hf : ∀ h c k hs, P h → read h c = some (.callback ⟨k, some d, hs⟩) →
      f h c = some (write h c (.callback ⟨k, some d, g k hs⟩))) :
    ∀ (items : List Ref) (ks : List (CbKind D × List D)) (h : Heap D), items.Nodup → P h →
      items.map (read h) = ks.map (cbCell d) →
      ∃ h', forEach f h items = some h' ∧ h'.length = h.length ∧ (∀ r, r ∉ items → read h' r = read h r) ∧
        items.map (read h') = (ks.map (fun k => (k.1, g k.1 k.2))).map (cbCell d) := by
  intro items
  induction items with
  | nil =>
    intro ks h _ _ hm
    cases ks with
    | nil => exact ⟨h, rfl, rfl, fun _ _ => rfl, rfl⟩
    | cons k ks => simp at hm
  | cons c cs ih =>
    intro ks h hnd hp hm
    cases ks with
    | nil => simp at hm
    | cons k ks =>
      simp only [List.map_cons, List.cons.injEq] at hm
      obtain ⟨hc, hcs⟩ := hm
      obtain ⟨hnotin, hnd'⟩ := List.nodup_cons.mp hnd
      have hc' : read h c = some (.callback ⟨k.1, some d, k.2⟩) := hc
      have hstep := hf h c k.1 k.2 hp hc'
      have hcs1 : cs.map (read (write h c (.callback ⟨k.1, some d, g k.1 k.2⟩))) = ks.map (cbCell d) := by
        rw [← hcs]
        exact map_read_congr (fun c' hc'' => read_write_ne _ (fun e => hnotin (e ▸ hc'')))
      obtain ⟨h', hrun, hlen, hfr, hmap⟩ := ih ks _ hnd' (hP h c _ _ hp hc') hcs1
      refine ⟨h', ?_, by rw [hlen, length_write], ?_, ?_⟩
      · simp only [forEach, hstep]; exact hrun
      · intro r hr
        have h1 : r ∉ cs := fun e => hr (List.mem_cons_of_mem _ e)
        have h2 : r ≠ c := fun e => hr (e ▸ List.mem_cons_self)
        rw [hfr r h1, read_write_ne _ h2]
      · simp only [List.map_cons, List.cons.injEq]
        refine ⟨?_, hmap⟩
        rw [hfr c hnotin, read_write_eq _ (read_lt hc')]
        rfl

/-! ### rewriting the detector's own cells -/

theorem Rep.not_item {h : Heap D} {d : Ref} {L : Layout} {a : AState D} (R : Rep h d L a) {r : Ref} {o : Obj D}
    (hr : read h r = some o) (hn : ∀ cb, o ≠ .callback cb) : r ∉ L.items := by
  intro hm
  obtain ⟨k, _, e⟩ := R.item hm
  rw [hr] at e
  unfold cbCell at e
  cases e
  exact hn _ rfl

/-- the effect of `_update` / of the detector's own `reset` on the representation: detector object and own
containers rewritten, the model either rewritten in place or replaced by a FRESH cell -/
theorem Rep.rewrite {h : Heap D} {d : Ref} {L : Layout} {a : AState D} (R : Rep h d L a) {h1 : Heap D}
    {own' vars' : D} {model' : Option D} {mref' : Option Ref}
    (hfr : ∀ r, r < h.length → r ≠ d → r ≠ L.vars → mref' ≠ some r → read h1 r = read h r)
    (hmnew : ∀ m, mref' = some m → L.model = some m ∨ h.length ≤ m)
    (hd : read h1 d = some (.detector ⟨some L.cfg, L.cbs, L.vars, mref', none, own'⟩))
    (hv : read h1 L.vars = some (.data vars'))
    (hm : (mref' = none ∧ model' = none) ∨ ∃ m p, mref' = some m ∧ model' = some p ∧ read h1 m = some (.data p)) :
    Rep h1 d { L with model := mref' } { a with own := own', vars := vars', model := model' } := by
  have hnd : ∀ r o, read h r = some o → (∀ x, o ≠ .detector x) → r ≠ d := by
    intro r o hr hn e; rw [e, R.hd] at hr; cases hr; exact hn _ rfl
  have hnv : ∀ r o, read h r = some o → (∀ p, o ≠ .data p) → r ≠ L.vars := by
    intro r o hr hn e; rw [e, R.hvars] at hr; cases hr; exact hn _ rfl
  have hnm : ∀ r o, read h r = some o → (∀ p, o ≠ .data p) → mref' ≠ some r := by
    intro r o hr hn e
    rcases hmnew r e with e1 | e1
    · rcases R.hmodel with ⟨e2, _⟩ | ⟨m, p, e2, _, e3, _⟩
      · rw [e2] at e1; cases e1
      · rw [e2] at e1; cases e1; rw [e3] at hr; cases hr; exact hn _ rfl
    · exact absurd (read_lt hr) (Nat.not_lt.mpr e1)
  have keep : ∀ r o, read h r = some o → (∀ x, o ≠ .detector x) → (∀ p, o ≠ .data p) → read h1 r = some o := by
    intro r o hr h1' h2'
    rw [hfr r (read_lt hr) (hnd r o hr h1') (hnv r o hr h2') (hnm r o hr h2')]; exact hr
  refine
    { hd := hd
      hcfg := keep _ _ R.hcfg (by intro x e; cases e) (by intro x e; cases e)
      hvars := hv
      hlist := keep _ _ R.hlist (by intro x e; cases e) (by intro x e; cases e)
      nodup := R.nodup
      hitems := ?_
      hmodel := ?_
      hcm := ?_ }
  · show L.items.map (read h1) = a.cbs.map (cbCell d)
    rw [← R.hitems]
    apply map_read_congr
    intro c hc
    obtain ⟨k, _, e⟩ := R.item hc
    rw [e]
    exact keep c _ e (by intro x e; cases e) (by intro x e; cases e)
  · rcases hm with hn | ⟨m, p, e1, e2, e3⟩
    · exact Or.inl hn
    · refine Or.inr ⟨m, p, e1, e2, e3, ?_⟩
      rcases hmnew m e1 with e4 | e4
      · rcases R.hmodel with ⟨e5, _⟩ | ⟨m', p', e5, _, _, e6⟩
        · rw [e5] at e4; cases e4
        · rw [e5] at e4; cases e4; exact e6
      · intro e; rw [e] at e4; exact absurd (read_lt R.hvars) (Nat.not_lt.mpr e4)
  · rcases R.hcm with hn | ⟨m, p, e1, e2, e3, e4, e5⟩
    · exact Or.inl hn
    · have hne : mref' ≠ some m := by
        intro e
        rcases hmnew m e with e6 | e6
        · exact e5 e6
        · exact absurd (read_lt e3) (Nat.not_lt.mpr e6)
      refine Or.inr ⟨m, p, e1, e2, ?_, e4, hne⟩
      rw [hfr m (read_lt e3) (hnd m _ e3 (by intro x e; cases e)) e4 hne]; exact e3

/-- the effect of a callback loop on the representation -/
theorem Rep.loop {h : Heap D} {d : Ref} {L : Layout} {a : AState D} (R : Rep h d L a) {h' : Heap D}
    {ks' : List (CbKind D × List D)} (hfr : ∀ r, r ∉ L.items → read h' r = read h r)
    (hmap : L.items.map (read h') = ks'.map (cbCell d)) : Rep h' d L { a with cbs := ks' } := by
  have keep : ∀ r o, read h r = some o → (∀ cb, o ≠ .callback cb) → read h' r = some o := by
    intro r o hr hn; rw [hfr r (R.not_item hr hn)]; exact hr
  refine
    { hd := keep _ _ R.hd (by intro x e; cases e)
      hcfg := keep _ _ R.hcfg (by intro x e; cases e)
      hvars := keep _ _ R.hvars (by intro x e; cases e)
      hlist := keep _ _ R.hlist (by intro x e; cases e)
      nodup := R.nodup
      hitems := hmap
      hmodel := ?_
      hcm := ?_ }
  · rcases R.hmodel with hn | ⟨m, p, e1, e2, e3, e4⟩
    · exact Or.inl hn
    · exact Or.inr ⟨m, p, e1, e2, keep _ _ e3 (by intro x e; cases e), e4⟩
  · rcases R.hcm with hn | ⟨m, p, e1, e2, e3, e4⟩
    · exact Or.inl hn
    · exact Or.inr ⟨m, p, e1, e2, keep _ _ e3 (by intro x e; cases e), e4⟩

/-! ### the operations, on a represented detector -/

theorem Rep.callbacksOf {h : Heap D} {d : Ref} {L : Layout} {a : AState D} (R : Rep h d L a) :
    callbacksOf h d = some L.items := by
  simp only [Heap.callbacksOf, getDet, getList, R.hd, R.hlist]

/-- `_update` on a represented detector: never raises, and computes `astepCore` -/
theorem Rep.updateCore {S : Sem D V R} {h : Heap D} {d : Ref} {L : Layout} {a : AState D} (R : Rep h d L a) (v : V) :
    ∃ h1, updateCore S h d v = some h1 ∧ h1.length = h.length ∧ Rep h1 d L (astepCore S a (.update v)) := by
  have hdv : d ≠ L.vars := by intro e; have := R.hd; rw [e, R.hvars] at this; cases this
  rcases R.hmodel with ⟨e1, e2⟩ | ⟨m, p, e1, e2, e3, e4⟩
  · refine ⟨write (write h d (.detector ⟨some L.cfg, L.cbs, L.vars, L.model, none,
          S.stepOwn a.sc a.own a.vars none v⟩)) L.vars (.data (S.stepVars a.sc a.own a.vars none v)), ?_, ?_, ?_⟩
    · simp only [Heap.updateCore, getDet, getCfg, getData, R.hd, R.hcfg, R.hvars, e1]
    · simp
    · have := R.rewrite (h1 := write (write h d (.detector ⟨some L.cfg, L.cbs, L.vars, L.model, none,
          S.stepOwn a.sc a.own a.vars none v⟩)) L.vars (.data (S.stepVars a.sc a.own a.vars none v)))
        (own' := S.stepOwn a.sc a.own a.vars none v) (vars' := S.stepVars a.sc a.own a.vars none v)
        (model' := none) (mref' := L.model)
        (fun r _ h1 h2 _ => by rw [read_write_ne _ h2, read_write_ne _ h1])
        (fun m hm => Or.inl hm)
        (by rw [read_write_ne _ hdv, read_write_eq _ (read_lt R.hd)])
        (by rw [read_write_eq _ (by simpa using read_lt R.hvars)])
        (Or.inl ⟨e1, rfl⟩)
      simpa [astepCore, astep, e2] using this
  · have hdm : d ≠ m := by intro e; have := R.hd; rw [e, e3] at this; cases this
    refine ⟨write (write (write h d (.detector ⟨some L.cfg, L.cbs, L.vars, L.model, none,
          S.stepOwn a.sc a.own a.vars (some p) v⟩)) L.vars (.data (S.stepVars a.sc a.own a.vars (some p) v)))
          m (.data (S.stepModel a.sc a.own a.vars p v)), ?_, ?_, ?_⟩
    · simp only [Heap.updateCore, getDet, getCfg, getData, R.hd, R.hcfg, R.hvars, e1, e3]
    · simp
    · have := R.rewrite (h1 := write (write (write h d (.detector ⟨some L.cfg, L.cbs, L.vars, L.model, none,
          S.stepOwn a.sc a.own a.vars (some p) v⟩)) L.vars (.data (S.stepVars a.sc a.own a.vars (some p) v)))
          m (.data (S.stepModel a.sc a.own a.vars p v)))
        (own' := S.stepOwn a.sc a.own a.vars (some p) v) (vars' := S.stepVars a.sc a.own a.vars (some p) v)
        (model' := some (S.stepModel a.sc a.own a.vars p v)) (mref' := L.model)
        (fun r _ h1 h2 h3 => by
          have h3' : r ≠ m := by intro e; exact h3 (by rw [e1, e])
          rw [read_write_ne _ h3', read_write_ne _ h2, read_write_ne _ h1])
        (fun m hm => Or.inl hm)
        (by rw [read_write_ne _ hdm, read_write_ne _ hdv, read_write_eq _ (read_lt R.hd)])
        (by rw [read_write_ne _ (Ne.symm e4), read_write_eq _ (by simpa using read_lt R.hvars)])
        (Or.inr ⟨m, _, e1, rfl, by rw [read_write_eq _ (by simpa using read_lt e3)]⟩)
      simpa [astepCore, astep, e2] using this

/-- the detector's own `reset` (code as written: deep copy) on a represented detector: never raises,
computes `astepCore`; only the `_model` reference changes (to a fresh cell) -/
theorem Rep.resetCore {S : Sem D V R} {h : Heap D} {d : Ref} {L : Layout} {a : AState D} (R : Rep h d L a) :
    ∃ h1 mref', Heap.resetCore S h d = some h1 ∧ h.length ≤ h1.length ∧
      Rep h1 d { L with model := mref' } (astepCore S a .reset) := by
  have hdv : d ≠ L.vars := by intro e; have := R.hd; rw [e, R.hvars] at this; cases this
  rcases R.hcm with ⟨e1, e2⟩ | ⟨m, p, e1, e2, e3, e4, e5⟩
  · refine ⟨write (write h d (.detector ⟨some L.cfg, L.cbs, L.vars, none, none,
          S.initOwn a.sc⟩)) L.vars (.data (S.initVars a.sc)), none, ?_, ?_, ?_⟩
    · simp only [Heap.resetCore, Heap.resetCoreG, getDet, getCfg, getData, R.hd, R.hcfg, R.hvars, e1, copyModel]
    · simp
    · have := R.rewrite (h1 := write (write h d (.detector ⟨some L.cfg, L.cbs, L.vars, none, none,
          S.initOwn a.sc⟩)) L.vars (.data (S.initVars a.sc)))
        (own' := S.initOwn a.sc) (vars' := S.initVars a.sc) (model' := none) (mref' := none)
        (fun r _ h1 h2 _ => by rw [read_write_ne _ h2, read_write_ne _ h1])
        (fun m hm => by cases hm)
        (by rw [read_write_ne _ hdv, read_write_eq _ (read_lt R.hd)])
        (by rw [read_write_eq _ (by simpa using read_lt R.hvars)])
        (Or.inl ⟨rfl, rfl⟩)
      simpa [astepCore, astep, e2] using this
  · have hdl : d < h.length := read_lt R.hd
    have hvl : L.vars < h.length := read_lt R.hvars
    refine ⟨write (write (h ++ [.data p]) d (.detector ⟨some L.cfg, L.cbs, L.vars, some h.length, none,
          S.initOwn a.sc⟩)) L.vars (.data (S.initVars a.sc)), some h.length, ?_, ?_, ?_⟩
    · simp only [Heap.resetCore, Heap.resetCoreG, getDet, getCfg, getData, R.hd, R.hcfg, R.hvars, e1, e3, copyModel,
        if_true]
    · simp
    · have := R.rewrite (h1 := write (write (h ++ [.data p]) d (.detector ⟨some L.cfg, L.cbs, L.vars, some h.length, none,
          S.initOwn a.sc⟩)) L.vars (.data (S.initVars a.sc)))
        (own' := S.initOwn a.sc) (vars' := S.initVars a.sc) (model' := some p) (mref' := some h.length)
        (fun r hr h1 h2 _ => by rw [read_write_ne _ h2, read_write_ne _ h1, read_append_lt _ hr])
        (fun m hm => by cases hm; exact Or.inr (Nat.le_refl _))
        (by rw [read_write_ne _ hdv, read_write_eq _ (by simp; romega)])
        (by rw [read_write_eq _ (by simp; romega)])
        (Or.inr ⟨h.length, p, rfl, rfl, by
          rw [read_write_ne _ (by romega), read_write_ne _ (by romega)]; exact read_append_length _ _⟩)
      simpa [astepCore, astep, e2] using this

theorem Rep.updateLoop {S : Sem D V R} {h : Heap D} {d : Ref} {L : Layout} {a : AState D} (R : Rep h d L a) (v : V) :
    ∃ h', forEach (onUpdateEnd S v) h L.items = some h' ∧ h'.length = h.length ∧
      Rep h' d L { a with cbs := a.cbs.map (fun k => (k.1, k.2 ++ [S.snap a.own a.vars v])) } := by
  obtain ⟨h', hrun, hlen, hfr, hmap⟩ :=
    forEach_cbs (f := onUpdateEnd S v) (d := d) (fun _ hs => hs ++ [S.snap a.own a.vars v])
      (fun h => read h d = some (.detector ⟨some L.cfg, L.cbs, L.vars, L.model, none, a.own⟩) ∧
        read h L.vars = some (.data a.vars))
      (by
        intro h c cb cb' ⟨p1, p2⟩ hc
        have h1 : d ≠ c := by intro e; rw [e, hc] at p1; cases p1
        have h2 : L.vars ≠ c := by intro e; rw [e, hc] at p2; cases p2
        exact ⟨by rw [read_write_ne _ h1]; exact p1, by rw [read_write_ne _ h2]; exact p2⟩)
      (by
        intro h c k hs ⟨p1, p2⟩ hc
        simp only [onUpdateEnd, getCb, getDet, getData, hc, p1, p2])
      L.items a.cbs h R.nodup ⟨R.hd, R.hvars⟩ R.hitems
  exact ⟨h', hrun, hlen, R.loop hfr hmap⟩

theorem Rep.resetLoop {h : Heap D} {d : Ref} {L : Layout} {a : AState D} (R : Rep h d L a) :
    ∃ h', forEach cbReset h L.items = some h' ∧ h'.length = h.length ∧
      Rep h' d L { a with cbs := a.cbs.map (fun k => (k.1, match k.1 with | .history => [] | .resetTest _ => k.2)) } := by
  obtain ⟨h', hrun, hlen, hfr, hmap⟩ :=
    forEach_cbs (f := cbReset) (d := d) (fun k hs => match k with | .history => [] | .resetTest _ => hs)
      (fun _ => True) (fun _ _ _ _ _ _ => trivial)
      (by
        intro h c k hs _ hc
        simp only [cbReset, getCb, hc]
        cases k <;> rfl)
      L.items a.cbs h R.nodup trivial R.hitems
  exact ⟨h', hrun, hlen, R.loop hfr hmap⟩

/-- **locality lemma**: an operation addressed to a represented detector never raises and computes
`astep` on the abstract state, whatever else the store contains; the store only grows -/
theorem Rep.apply {S : Sem D V R} {h : Heap D} {d : Ref} {L : Layout} {a : AState D} (R : Rep h d L a) (op : SOp V) :
    ∃ h' mref', applyG true S d h op = some h' ∧ h.length ≤ h'.length ∧
      Rep h' d { L with model := mref' } (astep S a op) := by
  cases op with
  | update v =>
    obtain ⟨h1, hcore, hlen1, R1⟩ := R.updateCore (S := S) v
    obtain ⟨h', hloop, hlen', R'⟩ := R1.updateLoop (S := S) v
    refine ⟨h', L.model, ?_, by rw [hlen', hlen1]; exact Nat.le_refl _, ?_⟩
    · simp only [applyG, update, R.callbacksOf, hcore]; exact hloop
    · exact R'
  | reset =>
    obtain ⟨h1, mref', hcore, hlen1, R1⟩ := R.resetCore (S := S)
    obtain ⟨h', hloop, hlen', R'⟩ := R1.resetLoop
    refine ⟨h', mref', ?_, by rw [hlen']; exact hlen1, ?_⟩
    · have : resetCoreG true S h d = some h1 := hcore
      simp only [applyG, resetG, R.callbacksOf, this]; exact hloop
    · exact R'

/-- the same for the operations with the callback loops removed -/
theorem Rep.applyCore {S : Sem D V R} {h : Heap D} {d : Ref} {L : Layout} {a : AState D} (R : Rep h d L a) (op : SOp V) :
    ∃ h' mref', applyCoreG true S d h op = some h' ∧ h.length ≤ h'.length ∧
      Rep h' d { L with model := mref' } (astepCore S a op) := by
  cases op with
  | update v =>
    obtain ⟨h1, hcore, hlen1, R1⟩ := R.updateCore (S := S) v
    exact ⟨h1, L.model, hcore, by rw [hlen1]; exact Nat.le_refl _, R1⟩
  | reset =>
    obtain ⟨h1, mref', hcore, hlen1, R1⟩ := R.resetCore (S := S)
    exact ⟨h1, mref', hcore, hlen1, R1⟩

/-- the observable projection of a represented detector is its abstract state -/
theorem Rep.view {h : Heap D} {d : Ref} {L : Layout} {a : AState D} (R : Rep h d L a) :
    view h d = some ⟨a.own, a.vars, a.model.map some, a.cbs.map (fun k => some k.2)⟩ := by
  have hh : ∀ (items : List Ref) (ks : List (CbKind D × List D)), items.map (read h) = ks.map (cbCell d) →
      items.map (fun c => (getCb h c).map (·.hist)) = ks.map (fun k => some k.2) := by
    intro items
    induction items with
    | nil => intro ks e; cases ks with
      | nil => rfl
      | cons k ks => simp at e
    | cons c cs ih => intro ks e; cases ks with
      | nil => simp at e
      | cons k ks =>
        simp only [List.map_cons, List.cons.injEq] at e ⊢
        refine ⟨?_, ih ks e.2⟩
        have e1 : read h c = some (.callback ⟨k.1, some d, k.2⟩) := e.1
        simp only [getCb, e1, Option.map]
  have hh := hh L.items a.cbs R.hitems
  have hm : L.model.map (getData h) = a.model.map some := by
    rcases R.hmodel with ⟨e1, e2⟩ | ⟨m, p, e1, e2, e3, _⟩
    · rw [e1, e2]; rfl
    · rw [e1, e2]; simp [getData, e3]
  simp only [Heap.view, getDet, getData, getList, R.hd, R.hvars, R.hlist]
  rw [← hh, ← hm]

/-! ### the constructor establishes the representation -/

/-- two facts about the constructor that `Built` does not record: the model copy is not the cell of the
own containers, and a callback object is changed in its back-reference only -/
theorem newDetectorG_extra {copy : Bool} {S : Sem D V R} {h h' : Heap D} {cfg d : Ref} {arg : CbArg}
    (hrun : newDetectorG copy S h cfg arg = some (d, h')) :
    (∃ x, read h' d = some (.detector x) ∧ ∀ mr, copy = true → x.model = some mr → mr ≠ x.vars) ∧
    (∀ c cb0, read h c = some (.callback cb0) →
      read h' c = some (.callback cb0) ∨ read h' c = some (.callback { cb0 with detector := some d })) := by
  unfold newDetectorG at hrun
  split at hrun
  · exact absurd hrun (by simp)
  next sc cm hcfg =>
  split at hrun
  · exact absurd hrun (by simp)
  next cbs h1 hstore =>
  split at hrun
  · exact absurd hrun (by simp)
  next items hitems1 =>
  simp only at hrun
  split at hrun
  · exact absurd hrun (by simp)
  next model h3 hcm =>
  split at hrun
  · exact absurd hrun (by simp)
  next h5 hfor =>
  simp only [Option.some.injEq, Prod.mk.injEq] at hrun
  obtain ⟨hdeq, rfl⟩ := hrun
  have hset := forEach_setDetector hfor
  obtain ⟨f1, hf1⟩ : ∃ f1, h1 = h ++ f1 := by
    obtain ⟨items0, _, hst⟩ := storeCallbacks_spec hstore
    rcases hst with ⟨_, e⟩ | ⟨_, e⟩
    · exact ⟨[], by simp [e]⟩
    · exact ⟨_, e⟩
  obtain ⟨f3, hf3⟩ : ∃ f3, h3 = (h1 ++ [.data (S.initVars sc)]) ++ f3 := by
    rcases copyModel_spec hcm with ⟨_, _, e⟩ | ⟨_, _, _, _, e⟩ | ⟨_, p, _, _, _, _, e⟩
    · exact ⟨[], by simp [e]⟩
    · exact ⟨[], by simp [e]⟩
    · exact ⟨_, e⟩
  refine ⟨⟨⟨some cfg, cbs, h1.length, model, none, S.initOwn sc⟩, ?_, ?_⟩, ?_⟩
  · rw [hset.not_cb (by rw [← hdeq, read_append_length]; intro cb hc; cases hc), ← hdeq]
    exact read_append_length _ _
  · intro mr hc hm
    rcases copyModel_spec hcm with ⟨_, e, _⟩ | ⟨_, _, e, _⟩ | ⟨_, p, _, _, _, e, _⟩
    · rw [e] at hm; cases hm
    · rw [hc] at e; cases e
    · rw [e] at hm; cases hm
      simp
  · intro c cb0 hc
    have hlt := read_lt hc
    have h4c : read (h3 ++ [Obj.detector ⟨some cfg, cbs, h1.length, model, none, S.initOwn sc⟩]) c =
        some (.callback cb0) := by
      rw [hf3, hf1, List.append_assoc, List.append_assoc, List.append_assoc, read_append_lt _ hlt]; exact hc
    rcases hset.2 c with e | ⟨_, cb, e1, e2⟩
    · left; rw [e]; exact h4c
    · right; rw [h4c] at e1; cases e1; rw [← hdeq]; exact e2

/-- class and recorded entries of the callback objects `items` in the store `h` -/
def cbStates (h : Heap D) (items : List Ref) : List (Option (CbKind D × List D)) :=
  items.map (fun c => (getCb h c).map (fun cb => (cb.kind, cb.hist)))

/-- **the constructor establishes the representation** (code as written).  Hypotheses: the references
below the configuration do not dangle (`hwf`, cf. `C16b.isolation_dangling_witness`); the callbacks handed
over are pairwise distinct objects (`hnd`).  The abstract initial state is: scalars and containers
initialised from the configuration scalars, the model equal to the configuration's model parameters, and
every callback with the class and the entries it had before (only its back-reference was set). -/
theorem newDetector_rep {S : Sem D V R} {h h' : Heap D} {cfg d : Ref} {arg : CbArg}
    (hnew : newDetector S h cfg arg = some (d, h'))
    (hwf : ∀ r, Reach h cfg r → r < h.length)
    (hnd : ∀ items, ArgItems h arg items → items.Nodup) :
    ∃ (L : Layout) (sc : D) (cm : Option Ref) (ks : List (CbKind D × List D)),
      getCfg h cfg = some (sc, cm) ∧ L.cfg = cfg ∧ ArgItems h arg L.items ∧ cbStates h L.items = ks.map some ∧
      (∀ r p, L.Cell d r → read h r = some (.data p) → cm = some r) ∧
      Rep h' d L ⟨sc, cm.bind (getData h), S.initOwn sc, S.initVars sc, cm.bind (getData h), ks⟩ := by
  obtain ⟨sc, cm, cbs, items, vars, model, B⟩ := newDetectorG_spec hnew
  obtain ⟨⟨x, hx, hmv⟩, hcbs⟩ := newDetectorG_extra hnew
  rw [B.hd] at hx
  cases hx
  have hc0 := getCfg_eq_some.mp B.hcfg
  -- the callback cells
  have hcell : ∀ c ∈ items, ∃ cb0, read h c = some (.callback cb0) ∧
      read h' c = some (.callback { cb0 with detector := some d }) := by
    intro c hc
    obtain ⟨_, ⟨cb0, hcb0⟩, cb, hcb, hdet⟩ := B.hitems c hc
    refine ⟨cb0, hcb0, ?_⟩
    rcases hcbs c cb0 hcb0 with e | e
    · rw [e] at hcb; cases hcb
      rw [e]; congr 2
      cases cb0; simp only at hdet; rw [hdet]
    · exact e
  obtain ⟨ks, hks1, hks2⟩ : ∃ ks : List (CbKind D × List D), cbStates h items = ks.map some ∧
      items.map (read h') = ks.map (cbCell d) := by
    clear B hnd
    induction items with
    | nil => exact ⟨[], rfl, rfl⟩
    | cons c cs ih =>
      obtain ⟨ks, e1, e2⟩ := ih (fun c hc => hcell c (List.mem_cons_of_mem _ hc))
      obtain ⟨cb0, e3, e4⟩ := hcell c List.mem_cons_self
      refine ⟨(cb0.kind, cb0.hist) :: ks, ?_, ?_⟩
      · simp only [cbStates, List.map_cons, List.cons.injEq]
        exact ⟨by simp [getCb, e3], e1⟩
      · simp only [List.map_cons, List.cons.injEq]
        exact ⟨e4, e2⟩
  have hnot : ∀ r o, read h r = some o → (∀ cb, o ≠ .callback cb) → read h' r = some o := by
    intro r o hr hn
    rw [B.frame r (read_lt hr) (fun hm => by
      obtain ⟨cb0, e, _⟩ := hcell r hm
      rw [hr] at e; cases e; exact hn _ rfl)]
    exact hr
  refine ⟨⟨cfg, cbs, vars, items, model, cm⟩, sc, cm, ks, B.hcfg, rfl, B.arg_items, hks1, ?_, ?_⟩
  · intro r p hr hrp
    have hlt := read_lt hrp
    rcases hr with rfl | rfl | rfl | rfl | e | e | e
    · exact absurd hlt (Nat.not_lt.mpr B.d_fresh)
    · rw [hc0] at hrp; cases hrp
    · rcases B.cbs_cases with ⟨e, _⟩ | hge
      · have hl : getList h r = some items := by
          have := B.arg_items
          rw [e] at this; exact this
        rw [getList_eq_some.mp hl] at hrp; cases hrp
      · exact absurd hlt (Nat.not_lt.mpr hge)
    · exact absurd hlt (Nat.not_lt.mpr B.vars_fresh)
    · rcases B.hmodel with ⟨_, e2⟩ | ⟨m, _, ⟨hc, _⟩ | ⟨_, p', mr, _, e3, e4, _⟩⟩
      · have e : model = some r := e
        rw [e2] at e; cases e
      · cases hc
      · have e : model = some r := e
        rw [e3] at e; cases e; exact absurd hlt (Nat.not_lt.mpr e4)
    · exact e
    · obtain ⟨cb0, e1, _⟩ := hcell r e
      rw [e1] at hrp; cases hrp
  refine
    { hd := B.hd
      hcfg := hnot _ _ hc0 (by intro cb e; cases e)
      hvars := B.hvars
      hlist := B.hlist
      nodup := hnd items B.arg_items
      hitems := hks2
      hmodel := ?_
      hcm := ?_ }
  · rcases B.hmodel with ⟨e1, e2⟩ | ⟨m, e1, ⟨hc, _⟩ | ⟨_, p, mr, e2, e3, e4, e5⟩⟩
    · left; exact ⟨e2, by rw [e1]; rfl⟩
    · cases hc
    · right
      have hml : m < h.length := hwf m (Reach.edge hc0 (by simp [edges, e1]))
      have hm0 : read h m = some (.data p) := by
        have hni : m ∉ items := by
          intro hm
          obtain ⟨_, _, e⟩ := hcell m hm
          rw [e2] at e; cases e
        rw [← B.frame m hml hni]; exact e2
      refine ⟨mr, p, e3, ?_, e5, hmv mr rfl e3⟩
      rw [e1]; simp [getData, hm0]
  · rcases B.hmodel with ⟨e1, e2⟩ | ⟨m, e1, ⟨hc, _⟩ | ⟨_, p, mr, e2, e3, e4, e5⟩⟩
    · left; exact ⟨e1, by rw [e1]; rfl⟩
    · cases hc
    · right
      have hml : m < h.length := hwf m (Reach.edge hc0 (by simp [edges, e1]))
      have hm0 : read h m = some (.data p) := by
        have hni : m ∉ items := by
          intro hm
          obtain ⟨_, _, e⟩ := hcell m hm
          rw [e2] at e; cases e
        rw [← B.frame m hml hni]; exact e2
      refine ⟨m, p, e1, ?_, e2, ?_, ?_⟩
      · rw [e1]; simp [getData, hm0]
      · intro e; rw [e] at hml; exact absurd hml (Nat.not_lt.mpr B.vars_fresh)
      · rw [e3]; intro e; cases e; exact absurd hml (Nat.not_lt.mpr e4)

end Frouros.Heap
