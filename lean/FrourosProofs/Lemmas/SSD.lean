/-
  Sum of squared deviations (`ssd`) of a list of reals and the three update identities used by
  ADWIN (`_compress_buckets` merge, `_insert_bucket` increment, `_delete_bucket` decrement).
-/
import FrourosProofs.RealNum
import FrourosModel.Window

namespace Frouros.C05

/-- arithmetic mean (only used for non-empty lists in the theorems below) -/
noncomputable def mean (L : List ℝ) : ℝ := L.sum / (L.length : ℝ)
/-- sum of squared deviations from the mean: `Σ (x - mean L)²` -/
noncomputable def ssd (L : List ℝ) : ℝ := (L.map (fun x => (x - mean L) ^ 2)).sum
/-- sum of squares -/
def sumsq (L : List ℝ) : ℝ := (L.map (fun x => x ^ 2)).sum

@[simp] theorem sumsq_nil : sumsq [] = 0 := rfl
@[simp] theorem sumsq_append (A B : List ℝ) : sumsq (A ++ B) = sumsq A + sumsq B := by simp [sumsq]
@[simp] theorem ssd_nil : ssd [] = 0 := rfl

theorem sum_sq_dev (L : List ℝ) (m : ℝ) :
    (L.map (fun x => (x - m) ^ 2)).sum = sumsq L - 2 * m * L.sum + L.length * m ^ 2 := by
  induction L with
  | nil => simp [sumsq]
  | cons a L ih =>
    simp only [List.map_cons, List.sum_cons, sumsq, List.length_cons] at *
    rw [ih]; push_cast; ring

theorem length_ne_zero {L : List ℝ} (h : L ≠ []) : (L.length : ℝ) ≠ 0 := by
  have : 0 < L.length := List.length_pos_of_ne_nil h
  positivity

/-- König–Huygens: `ssd L = Σ x² - (Σ x)² / |L|` -/
theorem ssd_eq (L : List ℝ) (h : L ≠ []) : ssd L = sumsq L - L.sum ^ 2 / L.length := by
  unfold ssd; rw [sum_sq_dev]; unfold mean
  have := length_ne_zero h
  field_simp; ring

theorem ssd_singleton (v : ℝ) : ssd [v] = 0 := by
  rw [ssd_eq _ (by simp)]; simp [sumsq]


/-- pure form of the equal-size merge identity -/
theorem ssd_append_same (A B : List ℝ) (sz : Nat) (hsz : 0 < sz) (hA : A.length = sz) (hB : B.length = sz) :
    ssd (A ++ B) = (ssd A + ssd B)
      + ((sz * sz : Nat) : ℝ) * (A.sum / sz - B.sum / sz) * (A.sum / sz - B.sum / sz) / ((sz * 2 : Nat) : ℝ) := by
  have hA0 : A ≠ [] := by rintro rfl; simp at hA; omega
  have hB0 : B ≠ [] := by rintro rfl; simp at hB; omega
  have hs : (sz : ℝ) ≠ 0 := by positivity
  rw [ssd_eq _ hA0, ssd_eq _ hB0, ssd_eq _ (by simp [hA0])]
  simp only [List.sum_append, List.length_append, sumsq_append, hA, hB]
  push_cast
  field_simp; ring

/-- **`_compress_buckets` merge is exact**: merging the summaries of two adjacent blocks of `sz`
values each gives the summary of the concatenated block. -/
theorem ssd_merge_eq (A B : List ℝ) (sz : Nat) (hsz : 0 < sz) (hA : A.length = sz) (hB : B.length = sz) :
    ADWIN.mergeEntries sz (A.sum, ssd A) (B.sum, ssd B) = ((A ++ B).sum, ssd (A ++ B)) := by
  rw [ssd_append_same A B sz hsz hA hB]
  simp [ADWIN.mergeEntries]

/-- **`_insert_bucket` increment is exact** (Welford step): appending `v` to a non-empty window. -/
theorem ssd_insert (W : List ℝ) (v : ℝ) (hW : W ≠ []) :
    ssd (W ++ [v]) = ssd W + (W.length : ℝ) * (v - mean W) ^ 2 / ((W.length : ℝ) + 1) := by
  have hn := length_ne_zero hW
  have hn1 : (W.length : ℝ) + 1 ≠ 0 := by positivity
  rw [ssd_eq _ hW, ssd_eq _ (by simp)]
  simp only [List.sum_append, List.length_append, sumsq_append, mean, List.length_singleton, List.sum_singleton]
  simp only [sumsq, List.map_cons, List.map_nil, List.sum_cons, List.sum_nil]
  push_cast
  field_simp; ring

/-- **`_delete_bucket` decrement is exact**: dropping the oldest block `B` (of `sz` values) from the
window `W = B ++ R` with a non-empty remainder `R`. -/
theorem ssd_delete (B R : List ℝ) (sz : Nat) (hsz : 0 < sz) (hB : B.length = sz) (hR : R ≠ []) :
    ssd R = ssd (B ++ R)
      - (ssd B + ((sz : ℝ) * R.length) * (mean B - mean R) ^ 2 / ((sz : ℝ) + R.length)) := by
  have hB0 : B ≠ [] := by rintro rfl; simp at hB; omega
  have hs : (sz : ℝ) ≠ 0 := by positivity
  have hr := length_ne_zero hR
  have hr' : 0 < (R.length : ℝ) := by
    have : 0 < R.length := List.length_pos_of_ne_nil hR
    positivity
  have hsr : (sz : ℝ) + R.length ≠ 0 := by positivity
  rw [ssd_eq _ hB0, ssd_eq _ hR, ssd_eq _ (by simp [hB0])]
  simp only [List.sum_append, List.length_append, sumsq_append, mean, hB]
  push_cast
  field_simp; ring

/-- singletons summarise as `(v, 0)` -/
example : ssd [3, 5] = 2 := by
  rw [ssd_eq _ (by simp)]; simp [sumsq]; norm_num

end Frouros.C05
