/- Constant streams: EDDM. -/
import FrourosProofs.Lemmas.ConstCommon

namespace Frouros.C01c
open Frouros
namespace Eddm
open EDDM

/-- any value other than `1` (in particular the constant `0`) only clears the flags -/
theorem step_ne_one (cfg : Cfg ℝ) (s : State ℝ) {v : ℝ} (hv : v ≠ 1) :
    (step cfg s v).drift = false ∧ (step cfg s v).warning = false := by
  have : Num.beq v (Num.one : ℝ) = false := by
    rw [Bool.eq_false_iff]; intro h; rw [RealNum.beq_iff] at h; exact hv (by simpa using h)
  unfold step
  simp only [this]
  exact ⟨rfl, rfl⟩

/-- the flag-free part of the state on the all-ones stream: every distance between errors is `1`,
so `mean = 1`, `var = 0`, and the maximal threshold, once set (`n ≥ 1` and `minMis ≤ n`), is `1` -/
structure Core (cfg : Cfg ℝ) (s : State ℝ) : Prop where
  numMis : s.numMis = s.n
  lastErr : s.lastErr = s.n
  mean : (s.n = 0 ∧ s.mean = 0) ∨ (1 ≤ s.n ∧ s.mean = 1)
  var : s.var = 0
  maxThr : s.maxThr = none ∨ s.maxThr = some 1
  maxThr_some : 1 ≤ s.n → cfg.minMis ≤ s.n → s.maxThr = some 1

theorem core_init (cfg : Cfg ℝ) : Core cfg (init : State ℝ) :=
  ⟨rfl, rfl, Or.inl ⟨rfl, by simp [init]⟩, by simp [init], Or.inl rfl, fun h => absurd h (by simp [init])⟩
theorem core_reset (cfg : Cfg ℝ) (s : State ℝ) : Core cfg (reset s) :=
  ⟨rfl, rfl, Or.inl ⟨rfl, by simp [reset]⟩, by simp [reset], Or.inl rfl, fun h => absurd h (by simp [reset])⟩

/-- the new running mean of the distances is `1` -/
theorem mean_step {cfg : Cfg ℝ} {s : State ℝ} (h : Core cfg s) :
    s.mean + ((Num.ofNat (s.n + 1 - s.lastErr) : ℝ) - s.mean) / Num.ofNat (s.numMis + 1) = 1 := by
  rw [h.lastErr, h.numMis]
  have : s.n + 1 - s.n = 1 := by omega
  rw [this]
  rcases h.mean with ⟨hn, hm⟩ | ⟨_, hm⟩
  · simp [hn, hm]
  · simp [hm]

theorem step_one_n (cfg : Cfg ℝ) (s : State ℝ) : (step cfg s 1).n = s.n + 1 := by
  unfold step
  simp only []
  repeat' split
  all_goals rfl

end Eddm
end Frouros.C01c

namespace Frouros.C01c
open Frouros
namespace Eddm
open EDDM

theorem step_one_eq {cfg : Cfg ℝ} {s : State ℝ} (h : Core cfg s) : step cfg s 1 =
    (let b : State ℝ := { s with n := s.n + 1, numMis := s.n + 1, oldMean := s.mean, mean := 1,
                                  var := 0, std := 0, lastErr := s.n + 1 }
     if cfg.minMis ≤ s.n + 1 then
       match s.maxThr with
       | none => { b with maxThr := some 1, drift := false, warning := false }
       | some _ =>
         if 1 < cfg.beta then { b with drift := true, warning := false }
         else { b with warning := decide (1 < cfg.alpha), drift := false }
     else b) := by
  have hb : Num.beq (1:ℝ) (Num.one : ℝ) = true := by simp
  have hd : (Num.ofNat (s.n + 1 - s.lastErr) : ℝ) = 1 := by
    rw [h.lastErr]; simp
  have hm := mean_step h
  rw [hd, h.numMis] at hm
  unfold step
  simp only [hb, if_true, hd, h.var, h.numMis, hm, sub_self, zero_mul, add_zero, zero_div,
    RealNum.sqrt_eq, Real.sqrt_zero, mul_zero]
  by_cases hmin : cfg.minMis ≤ s.n + 1
  · rcases h.maxThr with hx | hx
    · simp [hmin, hx]
    · simp [hmin, hx]
      rfl
  · simp [hmin]

theorem core_step {cfg : Cfg ℝ} {s : State ℝ} (h : Core cfg s) : Core cfg (step cfg s 1) := by
  rw [step_one_eq h]
  simp only []
  by_cases hmin : cfg.minMis ≤ s.n + 1
  · simp only [hmin, if_true]
    rcases h.maxThr with hx | hx
    · simp only [hx]
      exact ⟨rfl, rfl, Or.inr ⟨by simp, rfl⟩, rfl, Or.inr rfl, fun _ _ => rfl⟩
    · simp only [hx]
      split
      · exact ⟨rfl, rfl, Or.inr ⟨by simp, rfl⟩, rfl, Or.inr rfl, fun _ _ => rfl⟩
      · exact ⟨rfl, rfl, Or.inr ⟨by simp, rfl⟩, rfl, Or.inr rfl, fun _ _ => rfl⟩
  · simp only [hmin, if_false]
    exact ⟨rfl, rfl, Or.inr ⟨by simp, rfl⟩, rfl, h.maxThr, fun _ h2 => absurd h2 hmin⟩

/-- no flag on the all-ones stream when `beta ≤ 1` and `alpha ≤ 1` -/
theorem flags_step {cfg : Cfg ℝ} (hb : cfg.beta ≤ 1) (ha : cfg.alpha ≤ 1) {s : State ℝ} (h : Core cfg s)
    (hd : s.drift = false) (hw : s.warning = false) :
    (step cfg s 1).drift = false ∧ (step cfg s 1).warning = false := by
  rw [step_one_eq h]
  simp only []
  have hb' : ¬ (1 < cfg.beta) := not_lt.mpr hb
  have ha' : ¬ (1 < cfg.alpha) := not_lt.mpr ha
  by_cases hmin : cfg.minMis ≤ s.n + 1
  · simp only [hmin, if_true]
    rcases h.maxThr with hx | hx
    · simp [hx]
    · simp [hx, hb', ha']
  · simp only [hmin, if_false]
    exact ⟨hd, hw⟩

/-- **finding**: as soon as the maximal threshold is set, one more `1` raises a *warning* when
`beta ≤ 1 < alpha` (the constructor only checks `0 < beta < alpha`) -/
theorem warn_step {cfg : Cfg ℝ} (hb : cfg.beta ≤ 1) (ha : 1 < cfg.alpha) {s : State ℝ} (h : Core cfg s)
    (hn : 1 ≤ s.n) (hmin : cfg.minMis ≤ s.n) :
    (step cfg s 1).drift = false ∧ (step cfg s 1).warning = true := by
  rw [step_one_eq h]
  have hb' : ¬ (1 < cfg.beta) := not_lt.mpr hb
  have hmin' : cfg.minMis ≤ s.n + 1 := by omega
  simp [hmin', h.maxThr_some hn hmin, hb', ha]

end Eddm
end Frouros.C01c
