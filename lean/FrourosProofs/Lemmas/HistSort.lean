/-
  Lemmas for C10 part C: the model's insertion sort at ℝ is Mathlib's `List.insertionSort (· ≤ ·)`;
  consecutive pairs `zip l l.tail` of sorted lists.
-/
import FrourosProofs.Lemmas.HistBasic

namespace Frouros.C10
open Frouros Frouros.Hist

theorem insertSorted_eq (x : ℝ) (l : List ℝ) : insertSorted x l = l.orderedInsert (· ≤ ·) x := by
  induction l with
  | nil => rfl
  | cons y ys ih =>
    unfold insertSorted
    by_cases h : x ≤ y
    · simp [h]
    · simp [h, ih]

/-- at ℝ the model's sort is insertion sort for `≤` -/
theorem sort_eq (l : List ℝ) : Hist.sort l = l.insertionSort (· ≤ ·) := by
  unfold Hist.sort
  induction l with
  | nil => rfl
  | cons x xs ih => simp only [List.foldr_cons, List.insertionSort_cons, ih, insertSorted_eq]

theorem sort_perm (l : List ℝ) : (Hist.sort l).Perm l := by
  rw [sort_eq]; exact List.perm_insertionSort _ l

theorem sort_pairwise (l : List ℝ) : (Hist.sort l).Pairwise (· ≤ ·) := by
  rw [sort_eq]; exact List.pairwise_insertionSort _ l

theorem mem_sort {l : List ℝ} {x : ℝ} : x ∈ Hist.sort l ↔ x ∈ l := (sort_perm l).mem_iff

/-- sorting is invariant under permutation of the input -/
theorem sort_congr {l₁ l₂ : List ℝ} (h : l₁.Perm l₂) : Hist.sort l₁ = Hist.sort l₂ :=
  List.Perm.eq_of_pairwise' (r := (· ≤ ·)) (sort_pairwise l₁) (sort_pairwise l₂)
    ((sort_perm l₁).trans (h.trans (sort_perm l₂).symm))

/-- a sorted permutation of `l` is `sort l` -/
theorem eq_sort_of_pairwise {l s : List ℝ} (hs : s.Pairwise (· ≤ ·)) (hp : s.Perm l) : s = Hist.sort l :=
  List.Perm.eq_of_pairwise' (r := (· ≤ ·)) hs (sort_pairwise l) (hp.trans (sort_perm l).symm)

/-- consecutive pairs of a list -/
def pairs {β : Type} (l : List β) : List (β × β) := List.zip l l.tail

theorem pairs_cons_cons {β : Type} (a b : β) (t : List β) : pairs (a :: b :: t) = (a, b) :: pairs (b :: t) := rfl

theorem pairs_rel {β : Type} {R : β → β → Prop} {l : List β} (h : l.Pairwise R) :
    ∀ x ∈ pairs l, R x.1 x.2 := by
  induction l with
  | nil => simp [pairs]
  | cons a t ih =>
    cases t with
    | nil => simp [pairs]
    | cons b t' =>
      intro x hx
      rw [pairs_cons_cons] at hx
      rcases List.mem_cons.mp hx with rfl | hx
      · exact List.rel_of_pairwise_cons h (by simp)
      · exact ih h.of_cons x hx

theorem pairs_mem {β : Type} {l : List β} {x : β × β} (h : x ∈ pairs l) : x.1 ∈ l ∧ x.2 ∈ l := by
  have := List.of_mem_zip (a := x.1) (b := x.2) h
  exact ⟨this.1, List.mem_of_mem_tail this.2⟩

/-- no element of a sorted list lies strictly between two consecutive ones -/
theorem pairs_no_between {l : List ℝ} (h : l.Pairwise (· ≤ ·)) :
    ∀ x ∈ pairs l, ∀ y ∈ l, y ≤ x.1 ∨ x.2 ≤ y := by
  induction l with
  | nil => simp [pairs]
  | cons a t ih =>
    cases t with
    | nil => simp [pairs]
    | cons b t' =>
      intro x hx y hy
      rw [pairs_cons_cons] at hx
      rcases List.mem_cons.mp hx with rfl | hx'
      · rcases List.mem_cons.mp hy with rfl | hy'
        · exact Or.inl le_rfl
        · rcases List.mem_cons.mp hy' with rfl | hy''
          · exact Or.inr le_rfl
          · exact Or.inr (List.rel_of_pairwise_cons h.of_cons hy'')
      · rcases List.mem_cons.mp hy with rfl | hy'
        · exact Or.inl (List.rel_of_pairwise_cons h (pairs_mem hx').1)
        · exact ih h.of_cons x hx' y hy'

theorem pairs_map {β γ : Type} (f : β → γ) (l : List β) : pairs (l.map f) = (pairs l).map (Prod.map f f) := by
  unfold pairs
  rw [← List.map_tail, List.zip_map]

theorem pairs_append_singleton {β : Type} (m : List β) (x : β) :
    pairs (m ++ [x]) = pairs m ++ (match m.getLast? with | some y => [(y, x)] | none => []) := by
  induction m with
  | nil => simp [pairs]
  | cons a t ih =>
    cases t with
    | nil => simp [pairs]
    | cons b t' =>
      have : (a :: b :: t') ++ [x] = a :: b :: (t' ++ [x]) := rfl
      rw [this, pairs_cons_cons, pairs_cons_cons]
      have ih' : pairs (b :: (t' ++ [x])) = _ := ih
      rw [ih']
      simp [List.getLast?_cons_cons]

/-- consecutive pairs of the reversed list are the swapped pairs, up to order -/
theorem pairs_reverse_perm {β : Type} (l : List β) : (pairs l.reverse).Perm ((pairs l).map Prod.swap) := by
  induction l with
  | nil => simp [pairs]
  | cons a t ih =>
    cases t with
    | nil => simp [pairs]
    | cons b t' =>
      rw [List.reverse_cons, pairs_append_singleton, pairs_cons_cons]
      have hl : (b :: t').reverse.getLast? = some b := by simp
      rw [hl]
      simp only [List.map_cons, Prod.swap]
      exact (List.perm_append_singleton _ _).trans (List.Perm.cons _ ih)

end Frouros.C10
