/-
  The IEEE-VALID form of the standard model of floating-point arithmetic, as an explicit HYPOTHESIS structure on an
  abstract carrier `α` with `[Num α]`.

  WHY.  `Frouros.StdModel α toR u` (`Lemmas/StdModel.lean`) states its clauses unconditionally (`∀ x y`, `∀ n`).
  Reviewer T3 proved (`stdModel_infinite`, `stdModel_unbounded`, `stdModel_no_underflow`; re-proved below as
  `StdModel.infinite`, `StdModel.unbounded`, `StdModel.no_underflow`) that every carrier satisfying it is infinite,
  unbounded and never underflows, so NO finite-precision format is an instance.  `StdModelIEEE` relativises every
  clause to what a finite format with gradual underflow, overflow, NaN and infinities does satisfy:

    * a predicate `fin : α → Prop` ("is a finite number": not NaN, not ±∞); every clause is about `fin` operands
      only and CONCLUDES that the result is `fin` again when the exact result is in range;
    * `add`/`sub`: if the EXACT real result has magnitude `≤ Omega`, the computed result is the exact result times
      `1 + δ`, `|δ| ≤ u` — purely relative, no underflow term (a sum/difference of two binary floating-point numbers
      that falls in the subnormal range is exact: Hauser 1996);
    * `mul`/`div`: if the exact result has magnitude `≤ Omega`, the computed result is `exact·(1+δ) + η`, `|δ| ≤ u`,
      `|η| ≤ eta` (gradual underflow: an absolute error of at most half the smallest subnormal);
    * `ofNat n` is exact for `n ≤ Nmax` only;
    * `lt`/`le` are the exact order of the represented values, for `fin` operands only (NaN compares false with
      everything, itself included, so an unconditional clause would be false on any carrier that has a NaN).

  For IEEE-754 binary64 with round-to-nearest-even (NumPy doubles, Lean's `Float`) the clauses hold with
      `fin x := x.isFinite`,  `toR` = the real number denoted by a finite double (anything on NaN/±∞),
      `u = 2^-53`,  `eta = 2^-1075`,  `Omega = (2 − 2^-52)·2^1023 ≈ 1.797e308`,  `Nmax = 2^53`.
  That is a fact about the IEEE-754 standard which Lean cannot check for `Float` (opaque to the kernel); it is NOT
  proved, assumed as an axiom or registered as an instance anywhere in this project.  What IS proved here is that the
  hypothesis is no longer unsatisfiable by a finite format:

    * `stdModelIEEE_grid`  — a FINITE carrier with a NaN, a largest finite element, a smallest positive element and
      `*`, `/` that really round (fixed-point grid `{k/s : |k| ≤ K} ∪ {NaN}`, round-to-nearest: `u = 0`,
      `eta = 1/(2s)`, `Omega = K/s`, `Nmax = ⌊K/s⌋`; a fixed-point grid is a floating-point format that consists of
      subnormals only);  `Grid.finite`, `Grid.bounded`, `Grid.underflow_witness`, `Grid.nan_le_witness` show that
      all three of the reviewer's obstructions, and the NaN obstruction to an unconditional `le`, are really present
      on this instance;
    * `StdModelIEEE.of_stdModel` — every old `StdModel` carrier (ℝ with `u = 0`; `Biased u`, all `δ = u`) is an
      instance for every `eta ≥ 0`, `Omega > 0`, `Nmax`; `stdModelIEEE_real`, `stdModelIEEE_biased`;
    * `stdModelIEEE_real_clip` — ℝ with `fin x := |x| ≤ Omega` (a carrier on which "finite" is a real restriction).
-/
import Mathlib.Tactic.Ring
import Mathlib.Tactic.FieldSimp
import Mathlib.Tactic.Linarith
import Mathlib.Tactic.NormNum
import Mathlib.Tactic.Positivity
import Mathlib.Algebra.Order.Round
import Mathlib.Data.Set.Finite.Basic
import Mathlib.Order.Interval.Finset.Defs
import Mathlib.Data.Fintype.Option
import FrourosProofs.RealNum
import FrourosProofs.Lemmas.StdModel

namespace Frouros

/-- IEEE-valid standard model (see the file header).  `fin` = "finite number"; `u` = unit roundoff; `eta` = absolute
underflow error of `*` and `/`; `Omega` = largest finite magnitude; `Nmax` = largest exactly convertible counter.
binary64: `u = 2^-53`, `eta = 2^-1075`, `Omega ≈ 1.797e308`, `Nmax = 2^53`. -/
structure StdModelIEEE (α : Type) [Num α] (fin : α → Prop) (toR : α → ℝ) (u eta Omega : ℝ) (Nmax : ℕ) : Prop where
  u_nonneg : 0 ≤ u
  eta_nonneg : 0 ≤ eta
  Omega_pos : 0 < Omega
  /-- no underflow term for `+`: a subnormal sum is exact -/
  add : ∀ x y : α, fin x → fin y → |toR x + toR y| ≤ Omega →
    fin (x + y) ∧ ∃ δ : ℝ, |δ| ≤ u ∧ toR (x + y) = (toR x + toR y) * (1 + δ)
  sub : ∀ x y : α, fin x → fin y → |toR x - toR y| ≤ Omega →
    fin (x - y) ∧ ∃ δ : ℝ, |δ| ≤ u ∧ toR (x - y) = (toR x - toR y) * (1 + δ)
  /-- gradual underflow: absolute term `η` -/
  mul : ∀ x y : α, fin x → fin y → |toR x * toR y| ≤ Omega →
    fin (x * y) ∧ ∃ δ η : ℝ, |δ| ≤ u ∧ |η| ≤ eta ∧ toR (x * y) = (toR x * toR y) * (1 + δ) + η
  /-- division by a value that represents `0` is outside the model (no junk value is used) -/
  div : ∀ x y : α, fin x → fin y → toR y ≠ 0 → |toR x / toR y| ≤ Omega →
    fin (x / y) ∧ ∃ δ η : ℝ, |δ| ≤ u ∧ |η| ≤ eta ∧ toR (x / y) = (toR x / toR y) * (1 + δ) + η
  /-- counters are exact up to `Nmax` only -/
  ofNat : ∀ n : ℕ, n ≤ Nmax → fin (Num.ofNat n : α) ∧ toR (Num.ofNat n : α) = (n : ℝ)
  lt : ∀ x y : α, fin x → fin y → (Num.lt x y = true ↔ toR x < toR y)
  le : ∀ x y : α, fin x → fin y → (Num.le x y = true ↔ toR x ≤ toR y)

/-- the special case "every element is a finite number" (the signature without `fin`) -/
abbrev StdModelIEEE' (α : Type) [Num α] (toR : α → ℝ) (u eta Omega : ℝ) (Nmax : ℕ) : Prop :=
  StdModelIEEE α (fun _ => True) toR u eta Omega Nmax

namespace StdModelIEEE
variable {α : Type} [Num α] {fin : α → Prop} {toR : α → ℝ} {u eta Omega : ℝ} {Nmax : ℕ}

theorem fin_zero (sm : StdModelIEEE α fin toR u eta Omega Nmax) : fin (Num.zero : α) :=
  (sm.ofNat 0 (Nat.zero_le _)).1

theorem zero (sm : StdModelIEEE α fin toR u eta Omega Nmax) : toR (Num.zero : α) = 0 := by
  have := (sm.ofNat 0 (Nat.zero_le _)).2; simpa [Num.zero] using this

theorem fin_one (sm : StdModelIEEE α fin toR u eta Omega Nmax) (h : 1 ≤ Nmax) : fin (Num.one : α) :=
  (sm.ofNat 1 h).1

theorem one (sm : StdModelIEEE α fin toR u eta Omega Nmax) (h : 1 ≤ Nmax) : toR (Num.one : α) = 1 := by
  have := (sm.ofNat 1 h).2; simpa [Num.one] using this

theorem gt (sm : StdModelIEEE α fin toR u eta Omega Nmax) (x y : α) (hx : fin x) (hy : fin y) :
    Num.gt x y = true ↔ toR y < toR x := sm.lt y x hy hx

/-- `np.maximum(0, x)` of a finite `x` is finite and exact: comparisons are exact and no arithmetic is performed -/
theorem max0 (sm : StdModelIEEE α fin toR u eta Omega Nmax) (x : α) (hx : fin x) :
    fin (Num.max0 x) ∧ toR (Num.max0 x) = max 0 (toR x) := by
  unfold Num.max0
  by_cases h : Num.lt x (Num.zero : α) = true
  · have h' := (sm.lt x Num.zero hx sm.fin_zero).mp h
    rw [sm.zero] at h'
    rw [if_pos h, sm.zero, max_eq_left (le_of_lt h')]
    exact ⟨sm.fin_zero, rfl⟩
  · have h' : ¬ toR x < 0 := by
      intro hlt; apply h; rw [sm.lt x _ hx sm.fin_zero, sm.zero]; exact hlt
    rw [if_neg h, max_eq_right (not_lt.mp h')]
    exact ⟨hx, rfl⟩

/-- a smaller roundoff / underflow unit / counter range and a larger overflow threshold are special cases:
the structure is monotone in `u`, `eta` (upwards) and in `Omega`, `Nmax` (downwards) -/
theorem mono (sm : StdModelIEEE α fin toR u eta Omega Nmax) {u' eta' Omega' : ℝ} {Nmax' : ℕ}
    (hu : u ≤ u') (he : eta ≤ eta') (hO : Omega' ≤ Omega) (hO' : 0 < Omega') (hN : Nmax' ≤ Nmax) :
    StdModelIEEE α fin toR u' eta' Omega' Nmax' where
  u_nonneg := le_trans sm.u_nonneg hu
  eta_nonneg := le_trans sm.eta_nonneg he
  Omega_pos := hO'
  add x y hx hy h := by
    obtain ⟨hf, δ, hδ, e⟩ := sm.add x y hx hy (le_trans h hO)
    exact ⟨hf, δ, le_trans hδ hu, e⟩
  sub x y hx hy h := by
    obtain ⟨hf, δ, hδ, e⟩ := sm.sub x y hx hy (le_trans h hO)
    exact ⟨hf, δ, le_trans hδ hu, e⟩
  mul x y hx hy h := by
    obtain ⟨hf, δ, η, hδ, hη, e⟩ := sm.mul x y hx hy (le_trans h hO)
    exact ⟨hf, δ, η, le_trans hδ hu, le_trans hη he, e⟩
  div x y hx hy h0 h := by
    obtain ⟨hf, δ, η, hδ, hη, e⟩ := sm.div x y hx hy h0 (le_trans h hO)
    exact ⟨hf, δ, η, le_trans hδ hu, le_trans hη he, e⟩
  ofNat n hn := sm.ofNat n (le_trans hn hN)
  lt := sm.lt
  le := sm.le

/-- every carrier of the OLD (unconditional) standard model is an instance, with every element finite, for every
underflow unit, every overflow threshold and every counter range -/
theorem of_stdModel (sm : StdModel α toR u) {eta Omega : ℝ} (he : 0 ≤ eta) (hO : 0 < Omega) (Nmax : ℕ) :
    StdModelIEEE α (fun _ => True) toR u eta Omega Nmax where
  u_nonneg := sm.u_nonneg
  eta_nonneg := he
  Omega_pos := hO
  add x y _ _ _ := ⟨trivial, sm.add x y⟩
  sub x y _ _ _ := ⟨trivial, sm.sub x y⟩
  mul x y _ _ _ := by
    obtain ⟨δ, hδ, e⟩ := sm.mul x y
    exact ⟨trivial, δ, 0, hδ, by simpa using he, by rw [e, add_zero]⟩
  div x y _ _ h0 _ := by
    obtain ⟨δ, hδ, e⟩ := sm.div x y h0
    exact ⟨trivial, δ, 0, hδ, by simpa using he, by rw [e, add_zero]⟩
  ofNat n _ := ⟨trivial, sm.ofNat n⟩
  lt x y _ _ := sm.lt x y
  le x y _ _ := sm.le x y

end StdModelIEEE

/-! ### the reviewer's obstructions for the OLD structure (recorded reason for this file) -/
namespace StdModel
variable {α : Type} [Num α] {toR : α → ℝ} {u : ℝ}

/-- any carrier satisfying the unconditional `StdModel` is infinite (`ofNat` is exact for every `n`, hence
injective) … -/
theorem infinite (sm : StdModel α toR u) : Infinite α := by
  apply Infinite.of_injective (fun n : ℕ => (Num.ofNat n : α))
  intro a b h
  have : toR (Num.ofNat a : α) = toR (Num.ofNat b : α) := congrArg toR h
  rw [sm.ofNat, sm.ofNat] at this
  exact_mod_cast this

/-- … so no finite carrier satisfies it, … -/
theorem not_finite [Finite α] (toR : α → ℝ) (u : ℝ) : ¬ StdModel α toR u :=
  fun sm => (infinite sm).not_finite ‹Finite α›

/-- … represented magnitudes are unbounded (no overflow threshold), … -/
theorem unbounded (sm : StdModel α toR u) (B : ℝ) : ∃ x : α, B < toR x := by
  obtain ⟨n, hn⟩ := exists_nat_gt B
  exact ⟨Num.ofNat n, by rw [sm.ofNat]; exact hn⟩

/-- … and a product never underflows to zero. -/
theorem no_underflow (sm : StdModel α toR u) (hu : u < 1) (x y : α) (h : toR (x * y) = 0) :
    toR x = 0 ∨ toR y = 0 := by
  obtain ⟨δ, hδ, e⟩ := sm.mul x y
  rw [e] at h
  have h1 : (1 + δ) ≠ 0 := by
    have := (abs_le.mp hδ).1
    intro h0; linarith
  rcases mul_eq_zero.mp h with h2 | h2
  · exact mul_eq_zero.mp h2
  · exact absurd h2 h1

end StdModel

/-! ### instances on ℝ and on `Biased u` -/

/-- the exact carrier: ℝ, `u = eta = 0`, any `Omega`, any `Nmax` -/
theorem stdModelIEEE_real {Omega : ℝ} (hO : 0 < Omega) (Nmax : ℕ) :
    StdModelIEEE ℝ (fun _ => True) id 0 0 Omega Nmax :=
  StdModelIEEE.of_stdModel stdModel_real (le_refl _) hO Nmax

/-- ℝ at every `u`, `eta ≥ 0` (in particular at the binary64 constants) -/
theorem stdModelIEEE_real_u {u eta Omega : ℝ} (hu : 0 ≤ u) (he : 0 ≤ eta) (hO : 0 < Omega) (Nmax : ℕ) :
    StdModelIEEE ℝ (fun _ => True) id u eta Omega Nmax :=
  StdModelIEEE.of_stdModel (stdModel_real_u hu) he hO Nmax

/-- the carrier that inflates every result by `1 + u` -/
theorem stdModelIEEE_biased {u eta Omega : ℝ} (hu : 0 ≤ u) (he : 0 ≤ eta) (hO : 0 < Omega) (Nmax : ℕ) :
    StdModelIEEE (Biased u) (fun _ => True) Biased.val u eta Omega Nmax :=
  StdModelIEEE.of_stdModel (stdModel_biased hu) he hO Nmax

/-- ℝ where "finite" means `|x| ≤ Omega`: the `fin` conclusions of the clauses are real content here
(`Nmax` has to respect the threshold: `Nmax ≤ Omega`) -/
theorem stdModelIEEE_real_clip {Omega : ℝ} (hO : 0 < Omega) (Nmax : ℕ) (hN : (Nmax : ℝ) ≤ Omega) :
    StdModelIEEE ℝ (fun x => |x| ≤ Omega) id 0 0 Omega Nmax where
  u_nonneg := le_refl _
  eta_nonneg := le_refl _
  Omega_pos := hO
  add x y _ _ h := ⟨h, 0, by simp, by simp⟩
  sub x y _ _ h := ⟨h, 0, by simp, by simp⟩
  mul x y _ _ h := ⟨h, 0, 0, by simp, by simp, by simp⟩
  div x y _ _ _ h := ⟨h, 0, 0, by simp, by simp, by simp⟩
  ofNat n hn := by
    refine ⟨?_, rfl⟩
    show |((n : ℕ) : ℝ)| ≤ Omega
    rw [abs_of_nonneg (Nat.cast_nonneg n)]
    exact le_trans (by exact_mod_cast hn) hN
  lt x y _ _ := by simp
  le x y _ _ := by simp

/-! ### a FINITE instance: the fixed-point grid `{k/s : |k| ≤ K} ∪ {NaN}` with round-to-nearest -/

/-- fixed-point numbers `k/s`, `|k| ≤ K`, plus one non-number `nan` (absorbing, compares false) -/
inductive Grid (K s : ℕ) : Type
  | nan : Grid K s
  | num (k : ℤ) (h : |k| ≤ (K : ℤ)) : Grid K s

namespace Grid
variable {K s : ℕ}

/-- the represented value (`0` on NaN: irrelevant, every clause is about finite operands) -/
noncomputable def toR : Grid K s → ℝ
  | nan => 0
  | num k _ => (k : ℝ) / (s : ℝ)

/-- "is a number" -/
def fin : Grid K s → Prop
  | nan => False
  | num _ _ => True

/-- the grid point with numerator `z`; NaN if out of range (overflow) -/
def pack (z : ℤ) : Grid K s := if h : |z| ≤ (K : ℤ) then num z h else nan

-- `(a/s)(b/s) = (ab/s)/s` and `(a/s)/(b/s) = (a·s/b)/s`, rounded to the nearest grid point; `x/0 = NaN`
open Classical in
noncomputable instance instNum : Num (Grid K s) where
  add x y := match x, y with
    | num a _, num b _ => pack (a + b)
    | _, _ => nan
  sub x y := match x, y with
    | num a _, num b _ => pack (a - b)
    | _, _ => nan
  mul x y := match x, y with
    | num a _, num b _ => pack (round ((a : ℝ) * (b : ℝ) / (s : ℝ)))
    | _, _ => nan
  div x y := match x, y with
    | num a _, num b _ => if b = 0 then nan else pack (round ((a : ℝ) * (s : ℝ) / (b : ℝ)))
    | _, _ => nan
  neg x := match x with
    | num a _ => pack (-a)
    | nan => nan
  ofNat n := pack ((n : ℤ) * (s : ℤ))
  ofDec _ _ := nan
  sqrt _ := nan
  log _ := nan
  exp _ := nan
  abs x := match x with
    | num a _ => pack |a|
    | nan => nan
  npow _ _ := nan
  lt x y := match x, y with
    | num a _, num b _ => decide (a < b)
    | _, _ => false
  le x y := match x, y with
    | num a _, num b _ => decide (a ≤ b)
    | _, _ => false
  beq x y := match x, y with
    | num a _, num b _ => decide (a = b)
    | _, _ => false

theorem pack_of_le {z : ℤ} (h : |z| ≤ (K : ℤ)) : (pack z : Grid K s) = num z h := by
  unfold pack; rw [dif_pos h]

theorem add_num (a b : ℤ) (ha hb) : ((num a ha : Grid K s) + (num b hb : Grid K s)) = pack (a + b) := rfl
theorem sub_num (a b : ℤ) (ha hb) : ((num a ha : Grid K s) - (num b hb : Grid K s)) = pack (a - b) := rfl
theorem mul_num (a b : ℤ) (ha hb) :
    ((num a ha : Grid K s) * (num b hb : Grid K s)) = pack (round ((a : ℝ) * (b : ℝ) / (s : ℝ))) := rfl
theorem div_num (a b : ℤ) (ha hb) :
    ((num a ha : Grid K s) / (num b hb : Grid K s))
      = if b = 0 then nan else pack (round ((a : ℝ) * (s : ℝ) / (b : ℝ))) := rfl
theorem ofNat_def (n : ℕ) : (Num.ofNat n : Grid K s) = pack ((n : ℤ) * (s : ℤ)) := rfl
theorem lt_num (a b : ℤ) (ha hb) : Num.lt (num a ha : Grid K s) (num b hb : Grid K s) = decide (a < b) := rfl
theorem le_num (a b : ℤ) (ha hb) : Num.le (num a ha : Grid K s) (num b hb : Grid K s) = decide (a ≤ b) := rfl

/-- an integer whose real value is within `K` is within `K` -/
theorem int_abs_le_of_real {z : ℤ} (h : |(z : ℝ)| ≤ (K : ℝ)) : |z| ≤ (K : ℤ) := by
  have : ((|z| : ℤ) : ℝ) ≤ ((K : ℤ) : ℝ) := by push_cast; exact h
  exact_mod_cast this

/-- rounding a real of magnitude `≤ K` gives an integer of magnitude `≤ K` -/
theorem round_abs_le {r : ℝ} (h : |r| ≤ (K : ℝ)) : |round r| ≤ (K : ℤ) := by
  have hr := abs_sub_round r
  rw [abs_le] at h hr
  have h1 : ((round r : ℤ) : ℝ) < (((K : ℤ) + 1 : ℤ) : ℝ) := by push_cast; linarith [hr.1, h.2]
  have h2 : ((-((K : ℤ) + 1) : ℤ) : ℝ) < ((round r : ℤ) : ℝ) := by push_cast; linarith [hr.2, h.1]
  have h1' : round r < (K : ℤ) + 1 := by exact_mod_cast h1
  have h2' : -((K : ℤ) + 1) < round r := by exact_mod_cast h2
  rw [abs_le]; constructor <;> omega

/-- the carrier is FINITE -/
instance finite : Finite (Grid K s) := by
  have hfin : Finite {k : ℤ // |k| ≤ (K : ℤ)} := by
    apply Set.Finite.to_subtype
    apply Set.Finite.subset (Set.finite_Icc (-(K : ℤ)) (K : ℤ))
    intro k hk
    exact abs_le.mp hk
  let f : Grid K s → Option {k : ℤ // |k| ≤ (K : ℤ)} := fun x => match x with
    | nan => none
    | num k h => some ⟨k, h⟩
  apply Finite.of_injective f
  intro x y hxy
  cases x <;> cases y <;> simp_all [f]

/-- every represented value is bounded by `K/s` (there is a largest finite element) -/
theorem bounded (hs : 0 < s) (x : Grid K s) : |toR x| ≤ (K : ℝ) / (s : ℝ) := by
  have hs' : (0 : ℝ) < (s : ℝ) := by exact_mod_cast hs
  cases x with
  | nan => simp only [toR, abs_zero]; positivity
  | num k hk =>
    simp only [toR]
    rw [abs_div, abs_of_pos hs']
    apply div_le_div_of_nonneg_right _ (le_of_lt hs')
    have : ((|k| : ℤ) : ℝ) ≤ ((K : ℤ) : ℝ) := by exact_mod_cast hk
    push_cast at this
    exact this

/-! NaN is absorbing and compares false -/
theorem nan_add (y : Grid K s) : (nan + y : Grid K s) = nan := rfl
theorem add_nan (x : Grid K s) : (x + nan : Grid K s) = nan := by cases x <;> rfl
theorem nan_sub (y : Grid K s) : (nan - y : Grid K s) = nan := rfl
theorem sub_nan (x : Grid K s) : (x - nan : Grid K s) = nan := by cases x <;> rfl
theorem nan_div (y : Grid K s) : (nan / y : Grid K s) = nan := rfl
theorem nan_lt (y : Grid K s) : Num.lt (nan : Grid K s) y = false := rfl
theorem lt_nan (x : Grid K s) : Num.lt x (nan : Grid K s) = false := by cases x <;> rfl

/-- underflow really happens on the grid (for `s ≥ 3`): the smallest positive element `1/s` times itself is a
finite element representing `0` — what `StdModel.no_underflow` excludes -/
theorem underflow_witness (hs : 3 ≤ s) (hK : 1 ≤ K) :
    ∃ x : Grid K s, fin x ∧ toR x ≠ 0 ∧ fin (x * x) ∧ toR (x * x) = 0 := by
  have h1 : |(1 : ℤ)| ≤ (K : ℤ) := by rw [abs_one]; exact_mod_cast hK
  have hs' : (3 : ℝ) ≤ (s : ℝ) := by exact_mod_cast hs
  have hr : round ((1 : ℤ) * (1 : ℤ) / (s : ℝ) : ℝ) = 0 := by
    rw [round_eq, Int.floor_eq_zero_iff]
    have hpos : (0 : ℝ) < (s : ℝ) := by linarith
    have h3 : (1 : ℝ) / (s : ℝ) ≤ 1 / 3 := one_div_le_one_div_of_le (by norm_num) hs'
    have h0 : (0 : ℝ) ≤ 1 / (s : ℝ) := by positivity
    constructor
    · push_cast; linarith
    · push_cast; linarith
  have h0 : |(0 : ℤ)| ≤ (K : ℤ) := by simp
  refine ⟨num 1 h1, trivial, ?_, ?_, ?_⟩
  · simp only [toR]
    have hpos : (0 : ℝ) < (s : ℝ) := by linarith
    positivity
  · rw [mul_num, hr, pack_of_le h0]; trivial
  · rw [mul_num, hr, pack_of_le h0]; simp [toR]

/-- the NaN obstruction to an UNCONDITIONAL `le` clause: `nan ≤ nan` is false although the represented values are
equal; hence the `fin` guards in `StdModelIEEE.lt`/`le` -/
theorem nan_le_witness : Num.le (nan : Grid K s) nan = false ∧ toR (nan : Grid K s) ≤ toR (nan : Grid K s) :=
  ⟨rfl, le_refl _⟩

/-- overflow gives NaN: the largest element plus itself is not a number -/
theorem overflow_witness (hK : 1 ≤ K) : ∃ x : Grid K s, fin x ∧ ¬ fin (x + x) := by
  have hKK : |(K : ℤ)| ≤ (K : ℤ) := by rw [abs_of_nonneg (by positivity)]
  refine ⟨num K hKK, trivial, ?_⟩
  rw [add_num]
  unfold pack
  rw [dif_neg]
  · exact id
  · rw [abs_of_nonneg (by positivity)]
    have : (1 : ℤ) ≤ (K : ℤ) := by exact_mod_cast hK
    omega

end Grid

/-- **a finite carrier satisfies `StdModelIEEE`.**  The fixed-point grid with spacing `1/s` and range `K/s`:
`+`, `−` exact in range, `*`, `/` rounded to the nearest grid point (absolute error `≤ 1/(2s)` — this is `eta`; the
relative part is `0`), counters exact up to `⌊K/s⌋`, NaN on overflow and on division by zero. -/
theorem stdModelIEEE_grid (K s : ℕ) (hs : 0 < s) (hK : 0 < K) :
    StdModelIEEE (Grid K s) Grid.fin Grid.toR 0 (1 / (2 * (s : ℝ))) ((K : ℝ) / (s : ℝ)) (K / s) where
  u_nonneg := le_refl _
  eta_nonneg := by positivity
  Omega_pos := by
    have hs' : (0 : ℝ) < (s : ℝ) := by exact_mod_cast hs
    have hK' : (0 : ℝ) < (K : ℝ) := by exact_mod_cast hK
    positivity
  add x y hx hy h := by
    have hs' : (0 : ℝ) < (s : ℝ) := by exact_mod_cast hs
    cases x with
    | nan => exact absurd hx id
    | num a ha =>
    cases y with
    | nan => exact absurd hy id
    | num b hb =>
      simp only [Grid.toR] at h
      have hz : |((a + b : ℤ) : ℝ)| ≤ (K : ℝ) := by
        rw [← add_div, abs_div, abs_of_pos hs', div_le_div_iff_of_pos_right hs'] at h
        push_cast; exact h
      have hz' := Grid.int_abs_le_of_real hz
      rw [Grid.add_num, Grid.pack_of_le hz']
      refine ⟨trivial, 0, by simp, ?_⟩
      simp only [Grid.toR]; push_cast; ring
  sub x y hx hy h := by
    have hs' : (0 : ℝ) < (s : ℝ) := by exact_mod_cast hs
    cases x with
    | nan => exact absurd hx id
    | num a ha =>
    cases y with
    | nan => exact absurd hy id
    | num b hb =>
      simp only [Grid.toR] at h
      have hz : |((a - b : ℤ) : ℝ)| ≤ (K : ℝ) := by
        rw [← sub_div, abs_div, abs_of_pos hs', div_le_div_iff_of_pos_right hs'] at h
        push_cast; exact h
      have hz' := Grid.int_abs_le_of_real hz
      rw [Grid.sub_num, Grid.pack_of_le hz']
      refine ⟨trivial, 0, by simp, ?_⟩
      simp only [Grid.toR]; push_cast; ring
  mul x y hx hy h := by
    have hs' : (0 : ℝ) < (s : ℝ) := by exact_mod_cast hs
    have hs0 : (s : ℝ) ≠ 0 := ne_of_gt hs'
    cases x with
    | nan => exact absurd hx id
    | num a ha =>
    cases y with
    | nan => exact absurd hy id
    | num b hb =>
      simp only [Grid.toR] at h
      have e : (a : ℝ) / (s : ℝ) * ((b : ℝ) / (s : ℝ)) = ((a : ℝ) * (b : ℝ) / (s : ℝ)) / (s : ℝ) := by
        field_simp
      have hr : |(a : ℝ) * (b : ℝ) / (s : ℝ)| ≤ (K : ℝ) := by
        rw [e, abs_div, abs_of_pos hs', div_le_div_iff_of_pos_right hs'] at h
        exact h
      have hz' := Grid.round_abs_le hr
      rw [Grid.mul_num, Grid.pack_of_le hz']
      refine ⟨trivial, 0, (round ((a : ℝ) * (b : ℝ) / (s : ℝ)) : ℝ) / (s : ℝ)
        - (a : ℝ) / (s : ℝ) * ((b : ℝ) / (s : ℝ)), by simp, ?_, ?_⟩
      · rw [e, ← sub_div, abs_div, abs_of_pos hs', abs_sub_comm]
        have := abs_sub_round ((a : ℝ) * (b : ℝ) / (s : ℝ))
        rw [div_le_iff₀ hs']
        calc _ ≤ (1 : ℝ) / 2 := this
          _ = 1 / (2 * (s : ℝ)) * (s : ℝ) := by field_simp
      · simp only [Grid.toR]; ring
  div x y hx hy h0 h := by
    have hs' : (0 : ℝ) < (s : ℝ) := by exact_mod_cast hs
    have hs0 : (s : ℝ) ≠ 0 := ne_of_gt hs'
    cases x with
    | nan => exact absurd hx id
    | num a ha =>
    cases y with
    | nan => exact absurd hy id
    | num b hb =>
      simp only [Grid.toR] at h h0
      have hb : (b : ℝ) ≠ 0 := by
        intro hb; apply h0; rw [hb, zero_div]
      have hb' : b ≠ 0 := by
        intro hb'; apply hb; rw [hb']; simp
      have e : (a : ℝ) / (s : ℝ) / ((b : ℝ) / (s : ℝ)) = ((a : ℝ) * (s : ℝ) / (b : ℝ)) / (s : ℝ) := by
        field_simp
      have hr : |(a : ℝ) * (s : ℝ) / (b : ℝ)| ≤ (K : ℝ) := by
        rw [e, abs_div, abs_of_pos hs', div_le_div_iff_of_pos_right hs'] at h
        exact h
      have hz' := Grid.round_abs_le hr
      rw [Grid.div_num, if_neg hb', Grid.pack_of_le hz']
      refine ⟨trivial, 0, (round ((a : ℝ) * (s : ℝ) / (b : ℝ)) : ℝ) / (s : ℝ)
        - (a : ℝ) / (s : ℝ) / ((b : ℝ) / (s : ℝ)), by simp, ?_, ?_⟩
      · rw [e, ← sub_div, abs_div, abs_of_pos hs', abs_sub_comm]
        have := abs_sub_round ((a : ℝ) * (s : ℝ) / (b : ℝ))
        rw [div_le_iff₀ hs']
        calc _ ≤ (1 : ℝ) / 2 := this
          _ = 1 / (2 * (s : ℝ)) * (s : ℝ) := by field_simp
      · simp only [Grid.toR]; ring
  ofNat n hn := by
    have hs' : (0 : ℝ) < (s : ℝ) := by exact_mod_cast hs
    have hns : n * s ≤ K := (Nat.le_div_iff_mul_le hs).mp hn
    have hz' : |(n : ℤ) * (s : ℤ)| ≤ (K : ℤ) := by
      rw [abs_of_nonneg (by positivity)]
      exact_mod_cast hns
    rw [Grid.ofNat_def, Grid.pack_of_le hz']
    refine ⟨trivial, ?_⟩
    simp only [Grid.toR]; push_cast
    field_simp
  lt x y hx hy := by
    have hs' : (0 : ℝ) < (s : ℝ) := by exact_mod_cast hs
    cases x with
    | nan => exact absurd hx id
    | num a ha =>
    cases y with
    | nan => exact absurd hy id
    | num b hb =>
      rw [Grid.lt_num, decide_eq_true_iff]
      simp only [Grid.toR]
      rw [div_lt_div_iff_of_pos_right hs']
      exact Int.cast_lt.symm
  le x y hx hy := by
    have hs' : (0 : ℝ) < (s : ℝ) := by exact_mod_cast hs
    cases x with
    | nan => exact absurd hx id
    | num a ha =>
    cases y with
    | nan => exact absurd hy id
    | num b hb =>
      rw [Grid.le_num, decide_eq_true_iff]
      simp only [Grid.toR]
      rw [div_le_div_iff_of_pos_right hs']
      exact Int.cast_le.symm

/-- the reviewer's obstruction is gone: `StdModelIEEE` has an instance on a FINITE carrier … -/
theorem stdModelIEEE_finite_instance :
    ∃ (α : Type) (_ : Num α) (_ : Finite α) (fin : α → Prop) (toR : α → ℝ) (u eta Omega : ℝ) (Nmax : ℕ),
      StdModelIEEE α fin toR u eta Omega Nmax ∧ (∃ x, ¬ fin x) ∧ 0 < eta ∧ 1 ≤ Nmax :=
  ⟨Grid 1000000 1000, Grid.instNum, Grid.finite, Grid.fin, Grid.toR, 0, _, _, _,
    stdModelIEEE_grid 1000000 1000 (by norm_num) (by norm_num), ⟨Grid.nan, id⟩, by norm_num, by norm_num⟩

/-- … while the old structure has none (`StdModel.not_finite`), in particular not on this carrier. -/
theorem grid_not_stdModel (K s : ℕ) (toR : Grid K s → ℝ) (u : ℝ) : ¬ StdModel (Grid K s) toR u :=
  StdModel.not_finite toR u

end Frouros
