/-
  Helper for C08: characterisation of the model's `BOCD.argmax` (= `np.argmax`).

  `argmax` scans left to right and replaces the incumbent only on a STRICT improvement
  (`Num.gt y best`).  For an arbitrary carrier nothing can be said about "maximal" unless `>` is an
  order on the values that occur, so the generic theorem `argmax_eq_iff` takes as hypothesis that
  `Num.gt` is a strict weak order (irreflexive, transitive, negatively transitive) on a set `P`
  containing the list entries.  For IEEE doubles take `P x := x is not NaN`; for ℝ take `P := True`
  (`strictWeak_real`, `argmax_real`).
-/
import FrourosProofs.RealNum
import FrourosProofs.Machines
import Mathlib.Tactic

namespace Frouros.C08
open Frouros BOCD

section Generic
variable {α : Type} [Num α]

/-- `Num.gt` restricted to the values satisfying `P` is a strict weak order -/
structure StrictWeak (P : α → Prop) : Prop where
  irrefl : ∀ a, P a → Num.gt a a = false
  trans : ∀ a b c, P a → P b → P c → Num.gt a b = true → Num.gt b c = true → Num.gt a c = true
  negtrans : ∀ a b c, P a → P b → P c → Num.gt a b = false → Num.gt b c = false → Num.gt a c = false

theorem go_spec {P : α → Prop} (hP : StrictWeak P) (ys : List α) :
    ∀ (best : α) (bi i : Nat), P best → (∀ y ∈ ys, P y) →
    (argmax.go best bi i ys = bi ∧ ∀ y ∈ ys, Num.gt y best = false) ∨
    (∃ j m, ys[j]? = some m ∧ argmax.go best bi i ys = i + j ∧ Num.gt m best = true ∧
      (∀ j' y, j' < j → ys[j']? = some y → Num.gt m y = true) ∧ (∀ y ∈ ys, Num.gt y m = false)) := by
  induction ys with
  | nil => intro best bi i _ _; left; simp [argmax.go]
  | cons y ys ih =>
    intro best bi i hb hys
    have hy : P y := hys y (by simp)
    have hys' : ∀ y ∈ ys, P y := fun z hz => hys z (by simp [hz])
    have asym : ∀ a b, P a → P b → Num.gt a b = true → Num.gt b a = false := by
      intro a b ha hb' hab
      by_contra hba
      have hba' : Num.gt b a = true := by simpa using hba
      have := hP.trans a b a ha hb' ha hab hba'
      rw [hP.irrefl a ha] at this; exact absurd this (by simp)
    unfold argmax.go
    by_cases hg : Num.gt y best = true
    · rw [if_pos hg]
      right
      rcases ih y i (i+1) hy hys' with ⟨hk, hall⟩ | ⟨j, m, hj, hk, hm, hearly, hall⟩
      · refine ⟨0, y, by simp, by simpa using hk, hg, ?_, ?_⟩
        · intro j' z hj'; omega
        · intro z hz
          rcases List.mem_cons.mp hz with rfl | hz
          · exact hP.irrefl _ hy
          · exact hall z hz
      · have hm' : P m := hys' m (List.mem_of_getElem? hj)
        refine ⟨j+1, m, by simpa using hj, by rw [hk]; omega, hP.trans m y best hm' hy hb hm hg, ?_, ?_⟩
        · intro j' z hj' hz
          cases j' with
          | zero => simp at hz; subst hz; exact hm
          | succ j'' => exact hearly j'' z (by omega) (by simpa using hz)
        · intro z hz
          rcases List.mem_cons.mp hz with rfl | hz
          · exact asym _ _ hm' hy hm
          · exact hall z hz
    · have hg' : Num.gt y best = false := by simpa using hg
      rw [if_neg hg]
      rcases ih best bi (i+1) hb hys' with ⟨hk, hall⟩ | ⟨j, m, hj, hk, hm, hearly, hall⟩
      · left
        refine ⟨hk, ?_⟩
        intro z hz
        rcases List.mem_cons.mp hz with rfl | hz
        · exact hg'
        · exact hall z hz
      · right
        have hm' : P m := hys' m (List.mem_of_getElem? hj)
        refine ⟨j+1, m, by simpa using hj, by rw [hk]; omega, hm, ?_, ?_⟩
        · intro j' z hj' hz
          cases j' with
          | zero =>
            simp at hz; subst hz
            by_contra hc
            have hc' : Num.gt m y = false := by simpa using hc
            have := hP.negtrans m y best hm' hy hb hc' hg'
            rw [hm] at this; exact absurd this (by simp)
          | succ j'' => exact hearly j'' z (by omega) (by simpa using hz)
        · intro z hz
          rcases List.mem_cons.mp hz with rfl | hz
          · exact hP.negtrans z best m hy hb hm' hg' (asym _ _ hm' hb hm)
          · exact hall z hz

/-- `k` is the index of the FIRST maximal element of `l` (w.r.t. the carrier's `>`), value `m` -/
def IsFirstMax (l : List α) (k : Nat) : Prop :=
  ∃ m, l[k]? = some m ∧ (∀ y ∈ l, Num.gt y m = false) ∧ (∀ j y, j < k → l[j]? = some y → Num.gt m y = true)

theorem argmax_isFirstMax {P : α → Prop} (hP : StrictWeak P) (l : List α) (hl : l ≠ []) (hPl : ∀ y ∈ l, P y) :
    IsFirstMax l (argmax l) := by
  cases l with
  | nil => exact absurd rfl hl
  | cons x xs =>
    have hx : P x := hPl x (by simp)
    have hxs : ∀ y ∈ xs, P y := fun z hz => hPl z (by simp [hz])
    have hdef : argmax (x :: xs) = argmax.go x 0 1 xs := rfl
    rw [hdef]
    rcases go_spec hP xs x 0 1 hx hxs with ⟨hk, hall⟩ | ⟨j, m, hj, hk, hm, hearly, hall⟩
    · rw [hk]
      refine ⟨x, by simp, ?_, ?_⟩
      · intro z hz
        rcases List.mem_cons.mp hz with rfl | hz
        · exact hP.irrefl _ hx
        · exact hall z hz
      · intro j y hj; omega
    · rw [hk]
      have hm' : P m := hxs m (List.mem_of_getElem? hj)
      refine ⟨m, by rw [Nat.add_comm]; simpa using hj, ?_, ?_⟩
      · intro z hz
        rcases List.mem_cons.mp hz with rfl | hz
        · by_contra hc
          have hc' : Num.gt z m = true := by simpa using hc
          have := hP.trans z m z hx hm' hx hc' hm
          rw [hP.irrefl z hx] at this; exact absurd this (by simp)
        · exact hall z hz
      · intro j' y hj' hy
        cases j' with
        | zero => simp at hy; subst hy; exact hm
        | succ j'' => exact hearly j'' y (by omega) (by simpa using hy)

theorem isFirstMax_unique (l : List α) (k k' : Nat) (h : IsFirstMax l k) (h' : IsFirstMax l k') : k = k' := by
  obtain ⟨m, hm, hmax, hfirst⟩ := h
  obtain ⟨m', hm', hmax', hfirst'⟩ := h'
  rcases Nat.lt_trichotomy k k' with hlt | heq | hgt
  · have h1 := hfirst' k m hlt hm
    have h2 := hmax' m (List.mem_of_getElem? hm)
    -- m' > m but also m maximal: gt m' m = false
    have h3 := hmax m' (List.mem_of_getElem? hm')
    rw [h1] at h3; exact absurd h3 (by simp)
  · exact heq
  · have h1 := hfirst k' m' hgt hm'
    have h3 := hmax' m (List.mem_of_getElem? hm)
    rw [h1] at h3; exact absurd h3 (by simp)

/-- **Characterisation of `argmax`** (arbitrary carrier): on a non-empty list whose entries lie in a
set `P` on which `>` is a strict weak order (for IEEE doubles: `P x := x is not NaN`), `argmax l = k` iff `k` is
the first index of a maximal element. -/
theorem argmax_eq_iff {P : α → Prop} (hP : StrictWeak P) (l : List α) (hl : l ≠ []) (hPl : ∀ y ∈ l, P y) (k : Nat) :
    argmax l = k ↔ IsFirstMax l k :=
  ⟨fun h => h ▸ argmax_isFirstMax hP l hl hPl, fun h => isFirstMax_unique l _ _ (argmax_isFirstMax hP l hl hPl) h⟩

end Generic

theorem strictWeak_real : StrictWeak (α := ℝ) (fun _ => True) where
  irrefl a _ := by simp
  trans a b c _ _ _ h1 h2 := by simp at *; linarith
  negtrans a b c _ _ _ h1 h2 := by simp at *; linarith

/-- `argmax` over ℝ: `argmax l = k` iff `l[k]` is ≥ every entry and strictly greater than every earlier entry -/
theorem argmax_real (l : List ℝ) (hl : l ≠ []) (k : Nat) :
    argmax l = k ↔ ∃ hk : k < l.length, (∀ j (hj : j < l.length), l[j] ≤ l[k]) ∧ (∀ j (hj : j < k), l[j] < l[k]) := by
  rw [argmax_eq_iff strictWeak_real l hl (fun _ _ => trivial)]
  constructor
  · rintro ⟨m, hm, hmax, hfirst⟩
    obtain ⟨hk, rfl⟩ := List.getElem?_eq_some_iff.mp hm
    refine ⟨hk, ?_, ?_⟩
    · intro j hj
      have := hmax l[j] (List.getElem_mem hj)
      simpa using this
    · intro j hj
      have := hfirst j l[j] hj (List.getElem?_eq_getElem (by omega))
      simpa using this
  · rintro ⟨hk, hmax, hfirst⟩
    refine ⟨l[k], List.getElem?_eq_getElem hk, ?_, ?_⟩
    · intro y hy
      obtain ⟨j, hj, rfl⟩ := List.getElem_of_mem hy
      simpa using hmax j hj
    · intro j y hj hy
      obtain ⟨hj', rfl⟩ := List.getElem?_eq_some_iff.mp hy
      simpa using hfirst j hj

/-- non-vacuity / tie-breaking: the FIRST of the two maxima is returned -/
example : argmax ([1, 3, 3, 2] : List ℝ) = 1 := by
  rw [argmax_real _ (by simp)]
  refine ⟨by simp, ?_, ?_⟩
  · intro j hj
    have : j < 4 := by simpa using hj
    interval_cases j <;> norm_num
  · intro j hj
    interval_cases j; norm_num

end Frouros.C08
