/-
  Ghost counter for histories: `sinceReset ops` is the number of `update` operations since
  construction / the last `reset` in the history `ops`.  `Machine.run_ghost` is the product-machine
  induction principle: a predicate `P k s` relating the ghost counter `k` to the machine state `s`
  that holds for `(0, init)`, is carried from `(k, s)` to `(k+1, step s v)` and from `(k, s)` to
  `(0, reset s)` holds for `(sinceReset ops, run ops)` for every history `ops`.
  Core Lean only (no Mathlib).
-/
import FrourosProofs.Machine
namespace Frouros

/-- the ghost counter transition: an update increments, a reset zeroes -/
def Op.count {V : Type} (k : Nat) : Op V → Nat
  | .update _ => k + 1
  | .reset => 0

/-- number of updates since construction / the last reset -/
def sinceReset {V : Type} (ops : List (Op V)) : Nat := ops.foldl Op.count 0

section
variable {V : Type}

@[simp] theorem sinceReset_nil : sinceReset ([] : List (Op V)) = 0 := rfl

@[simp] theorem sinceReset_append_update (ops : List (Op V)) (v : V) :
    sinceReset (ops ++ [.update v]) = sinceReset ops + 1 := by
  simp [sinceReset, List.foldl_append, Op.count]

@[simp] theorem sinceReset_append_reset (ops : List (Op V)) :
    sinceReset (ops ++ [.reset]) = 0 := by
  simp [sinceReset, List.foldl_append, Op.count]

theorem foldl_count_updates (vs : List V) (k : Nat) :
    (vs.map Op.update).foldl Op.count k = k + vs.length := by
  induction vs generalizing k with
  | nil => rfl
  | cons v vs ih => simp only [List.map_cons, List.foldl_cons, Op.count, ih, List.length_cons]; omega

/-- sanity check of the definition: a history without resets counts all its updates … -/
theorem sinceReset_updates (vs : List V) : sinceReset (vs.map Op.update) = vs.length := by
  simp [sinceReset, foldl_count_updates]

/-- … and after a reset only the updates behind it count, whatever came before. -/
theorem sinceReset_reset_updates (pre : List (Op V)) (vs : List V) :
    sinceReset (pre ++ [.reset] ++ vs.map Op.update) = vs.length := by
  simp [sinceReset, List.foldl_append, Op.count, foldl_count_updates]

/-- a concrete family of histories used by the non-vacuity examples: one update, a reset, then `k` updates -/
theorem sinceReset_replicate (x y : V) (k : Nat) :
    sinceReset ([Op.update x, .reset] ++ List.replicate k (.update y)) = k := by
  have := sinceReset_reset_updates [Op.update x] (List.replicate k y)
  simpa using this

theorem sinceReset_le_length (ops : List (Op V)) : sinceReset ops ≤ ops.length := by
  have h : ∀ (ops : List (Op V)) k, ops.foldl Op.count k ≤ k + ops.length := by
    intro ops
    induction ops with
    | nil => intro k; simp
    | cons op ops ih =>
      intro k
      cases op with
      | update v => have := ih (k + 1); simp only [List.foldl_cons, Op.count, List.length_cons]; omega
      | reset => have := ih 0; simp only [List.foldl_cons, Op.count, List.length_cons]; omega
  simpa [sinceReset] using h ops 0
end

namespace Machine
variable {S V : Type} (M : Machine S V)

/-- product-machine induction from an arbitrary start `(k, s)` -/
theorem runFrom_ghost (P : Nat → S → Prop)
    (hs : ∀ k s v, P k s → P (k + 1) (M.step s v)) (hr : ∀ k s, P k s → P 0 (M.reset s))
    (ops : List (Op V)) : ∀ k s, P k s → P (ops.foldl Op.count k) (M.runFrom s ops) := by
  induction ops with
  | nil => intro k s h; exact h
  | cons op ops ih =>
    intro k s h
    cases op with
    | update v => exact ih (k + 1) (M.step s v) (hs k s v h)
    | reset => exact ih 0 (M.reset s) (hr k s h)

/-- **ghost-counter invariant principle**: `P` relates the number of updates since the last reset
to the state, for every history. -/
theorem run_ghost (P : Nat → S → Prop) (h0 : P 0 M.init)
    (hs : ∀ k s v, P k s → P (k + 1) (M.step s v)) (hr : ∀ k s, P k s → P 0 (M.reset s))
    (ops : List (Op V)) : P (sinceReset ops) (M.run ops) :=
  M.runFrom_ghost P hs hr ops 0 M.init h0

/-- **warm-up lifting**: a counter `n` that `init`/`reset` zero and `step` increments equals
`sinceReset`; and if `init`/`reset` states are "off" and a step whose new count is below `L` leads
to an "off" state (possibly using that the previous state was off while ITS count was below `L`),
then the state after any history is "off" while fewer than `L` updates happened since the last
reset — and also when none happened at all, whatever `L` is. -/
theorem warmup_lift (n : S → Nat) (off : S → Prop) (L : Nat)
    (h0 : n M.init = 0 ∧ off M.init) (hr : ∀ s, n (M.reset s) = 0 ∧ off (M.reset s))
    (hs : ∀ s v, n (M.step s v) = n s + 1 ∧ ((n s < L → off s) → n (M.step s v) < L → off (M.step s v)))
    (ops : List (Op V)) :
    n (M.run ops) = sinceReset ops ∧ ((sinceReset ops < L ∨ sinceReset ops = 0) → off (M.run ops)) := by
  refine M.run_ghost (fun k s => n s = k ∧ ((k < L ∨ k = 0) → off s)) ⟨h0.1, fun _ => h0.2⟩ ?_ ?_ ops
  · intro k s v ⟨hn, hoff⟩
    obtain ⟨h1, h2⟩ := hs s v
    refine ⟨by omega, fun hk => h2 (fun hlt => hoff (Or.inl (by omega))) (by omega)⟩
  · intro k s _
    exact ⟨(hr s).1, fun _ => (hr s).2⟩

/-- the same principle as an inductive relation: `ReachableU k s` – `s` is reachable by a history
with `k` updates since the last reset -/
inductive ReachableU : Nat → S → Prop where
  | init : ReachableU 0 M.init
  | step {k s} (v : V) : ReachableU k s → ReachableU (k + 1) (M.step s v)
  | reset {k s} : ReachableU k s → ReachableU 0 (M.reset s)

theorem reachableU_run (ops : List (Op V)) : M.ReachableU (sinceReset ops) (M.run ops) :=
  M.run_ghost (M.ReachableU) .init (fun _ _ v h => .step v h) (fun _ _ h => .reset h) ops

theorem reachableU_iff (k : Nat) (s : S) : M.ReachableU k s ↔ ∃ ops, sinceReset ops = k ∧ M.run ops = s := by
  constructor
  · intro h
    induction h with
    | init => exact ⟨[], rfl, rfl⟩
    | step v _ ih =>
      obtain ⟨ops, rfl, rfl⟩ := ih
      exact ⟨ops ++ [.update v], by simp, by simp [run, runFrom, List.foldl_append, apply]⟩
    | reset _ ih =>
      obtain ⟨ops, rfl, rfl⟩ := ih
      exact ⟨ops ++ [.reset], by simp, by simp [run, runFrom, List.foldl_append, apply]⟩
  · rintro ⟨ops, rfl, rfl⟩; exact M.reachableU_run ops

theorem ReachableU.reachable {k : Nat} {s : S} (h : M.ReachableU k s) : M.Reachable s := by
  induction h with
  | init => exact .init
  | step v _ ih => exact .step v ih
  | reset _ ih => exact .reset ih

theorem Reachable.exists_ghost {s : S} (h : M.Reachable s) : ∃ k, M.ReachableU k s := by
  induction h with
  | init => exact ⟨0, .init⟩
  | step v _ ih => obtain ⟨k, hk⟩ := ih; exact ⟨k + 1, .step v hk⟩
  | reset _ ih => obtain ⟨k, hk⟩ := ih; exact ⟨0, .reset hk⟩

end Machine
end Frouros
