/-
  Shared by C03 (DDM) and C03ecdd (ECDD): the prefix mean `pHat xs t = (x₁ + … + x_t) / t` of a stream and the
  fact that the model's incremental `Mean.update` (stats.py `Mean`) computes it.  Carrier `ℝ`.
-/
import Mathlib.Tactic
import FrourosProofs.RealNum
import FrourosModel.Stats

namespace Frouros.C03
open Frouros

/-- mean of the first `t` values (meaningful for `1 ≤ t ≤ xs.length`; `t = 0` would be the junk `0/0`) -/
noncomputable def pHat (xs : List ℝ) (t : ℕ) : ℝ := (xs.take t).sum / t

/-- One `Mean.update` step: if the estimator holds the (division-free) mean of the first `t` values, then
after consuming `xs[t]` it holds the arithmetic mean `pHat xs (t+1)` of the first `t+1`. -/
theorem mean_update_prefix (xs : List ℝ) (t : ℕ) (ht : t < xs.length) (m : Mean ℝ)
    (hn : m.n = t) (hmean : m.mean * t = (xs.take t).sum) :
    (m.update xs[t]).n = t + 1 ∧ (m.update xs[t]).mean = pHat xs (t + 1) ∧
    (m.update xs[t]).mean * ((t + 1 : ℕ) : ℝ) = (xs.take (t + 1)).sum := by
  have hp : (m.update xs[t]).mean = pHat xs (t + 1) := by
    have hpos : ((t : ℝ) + 1) ≠ 0 := by positivity
    simp only [Mean.update, pHat, List.sum_take_succ xs t ht, hn, ← hmean, RealNum.ofNat_eq,
      Nat.cast_add, Nat.cast_one]
    field_simp
    ring
  refine ⟨by simp [Mean.update, hn], hp, ?_⟩
  have hpos : (((t + 1 : ℕ) : ℝ)) ≠ 0 := by positivity
  rw [hp, pHat, div_mul_cancel₀ _ hpos]

/-- the division-free invariant gives the mean itself once `1 ≤ t` -/
theorem mean_eq_pHat (xs : List ℝ) {t : ℕ} (ht : 1 ≤ t) {μ : ℝ} (h : μ * t = (xs.take t).sum) :
    μ = pHat xs t := by
  have hpos : (t : ℝ) ≠ 0 := by positivity
  rw [pHat, ← h, mul_div_cancel_right₀ _ hpos]

/-- values in `[0,1]` keep the sum of a list between `0` and its length -/
theorem unit_sum_bounds (l : List ℝ) (h : ∀ x ∈ l, 0 ≤ x ∧ x ≤ 1) : 0 ≤ l.sum ∧ l.sum ≤ l.length := by
  induction l with
  | nil => simp
  | cons a l ih =>
    have ha := h a (by simp)
    have := ih (fun x hx => h x (by simp [hx]))
    simp only [List.sum_cons, List.length_cons, Nat.cast_add, Nat.cast_one]
    constructor <;> linarith [ha.1, ha.2, this.1, this.2]

/-- for a stream with values in `[0,1]` (in particular a 0/1 stream) the prefix mean is a probability -/
theorem pHat_mem_unit (xs : List ℝ) (h : ∀ x ∈ xs, 0 ≤ x ∧ x ≤ 1) {t : ℕ} (ht : 1 ≤ t) :
    0 ≤ pHat xs t ∧ pHat xs t ≤ 1 := by
  have hb := unit_sum_bounds (xs.take t) (fun x hx => h x (List.mem_of_mem_take hx))
  have hlen : ((xs.take t).length : ℝ) ≤ t := by
    exact_mod_cast (List.length_take_le t xs)
  have htpos : (0 : ℝ) < t := by exact_mod_cast ht
  unfold pHat
  constructor
  · exact div_nonneg hb.1 htpos.le
  · rw [div_le_one htpos]; linarith [hb.2]

end Frouros.C03
