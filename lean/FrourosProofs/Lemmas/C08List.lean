/-
  Helper for C08: model-independent facts about `List ℝ` sums, `zipWith`, `range` and log-sum-exp.
-/
import Mathlib.Analysis.SpecialFunctions.Log.Basic
import Mathlib.Analysis.SpecialFunctions.Exp
import Mathlib.Tactic

namespace Frouros.C08

theorem sum_exp_pos (l : List ℝ) (hl : l ≠ []) : 0 < (l.map Real.exp).sum := by
  apply List.sum_pos
  · intro x hx
    obtain ⟨y, _, rfl⟩ := List.mem_map.mp hx
    exact Real.exp_pos y
  · simpa using hl

theorem sum_exp_sub (N : ℝ) (l : List ℝ) :
    ((l.map (· - N)).map Real.exp).sum = (l.map Real.exp).sum / Real.exp N := by
  induction l with
  | nil => simp
  | cons x xs ih => simp only [List.map_cons, List.sum_cons, ih, Real.exp_sub]; ring

theorem softmax_normalised (l : List ℝ) (hl : l ≠ []) :
    ((l.map (· - Real.log ((l.map Real.exp).sum))).map Real.exp).sum = 1 := by
  have hp := sum_exp_pos l hl
  rw [sum_exp_sub, Real.exp_log hp, div_self hp.ne']

theorem zipWith_map_map {β γ δ ε : Type} (F : γ → δ → ε) (g : β → γ) (h : β → δ) (l : List β) :
    List.zipWith F (l.map g) (l.map h) = l.map (fun a => F (g a) (h a)) := by
  induction l with
  | nil => rfl
  | cons a l ih => simp [ih]

theorem map_range_succ {β : Type} (g : ℕ → β) (n : ℕ) :
    (List.range (n + 1)).map g = g 0 :: (List.range n).map (fun r => g (r + 1)) := by
  rw [List.range_succ_eq_map, List.map_cons, List.map_map]; rfl

theorem headD_map_range {β : Type} (g : ℕ → β) (n : ℕ) (d : β) : ((List.range (n + 1)).map g).headD d = g 0 := by
  rw [map_range_succ]; rfl

theorem map_exp_add (a : ℝ) (l : List ℝ) : (l.map (· + a)).map Real.exp = (l.map Real.exp).map (· * Real.exp a) := by
  simp [List.map_map, Function.comp_def, Real.exp_add]

theorem sum_map_mul_const (a : ℝ) (l : List ℝ) : (l.map (· * a)).sum = l.sum * a := by
  induction l with
  | nil => simp
  | cons x xs ih => simp [ih]; ring

theorem zipWith_append_right_of_length {β γ δ : Type} (F : β → γ → δ) : ∀ (l : List β) (l1 l2 : List γ),
    l.length = l1.length → List.zipWith F l (l1 ++ l2) = List.zipWith F l l1 := by
  intro l
  induction l with
  | nil => intro l1 l2 _; simp
  | cons a l ih =>
    intro l1 l2 hl
    cases l1 with
    | nil => simp at hl
    | cons b l1 => simp at hl; simp [ih l1 l2 hl]

theorem zipWith_const_right {β γ δ : Type} (g : β → δ) : ∀ (M : List β) (R : List γ), M.length = R.length →
    List.zipWith (fun m _ => g m) M R = M.map g := by
  intro M
  induction M with
  | nil => intro R _; simp
  | cons m M ih =>
    intro R hR
    cases R with
    | nil => simp at hR
    | cons r R => simp at hR; simp [ih R hR]

theorem sum_zipWith_range_aux : ∀ (l : List ℝ) (n : ℕ) (hn : l.length = n) (F : ℝ → ℕ → ℝ),
    (List.zipWith F l (List.range n)).sum = ∑ i : Fin n, F (l[i.val]'(hn ▸ i.isLt)) i := by
  intro l
  induction l with
  | nil => intro n hn F; subst hn; simp
  | cons a l ih =>
    intro n hn F
    cases n with
    | zero => simp at hn
    | succ n =>
      rw [List.range_succ_eq_map, List.zipWith_cons_cons, List.zipWith_map_right, List.sum_cons,
        ih n (by simpa using hn) (fun m r => F m (r + 1)), Fin.sum_univ_succ]
      simp

/-- a truncation-free `zipWith` against `range` is an honest finite sum over the indices of the list -/
theorem sum_zipWith_map_range (l : List ℝ) (e : ℝ → ℝ) (F : ℝ → ℕ → ℝ) :
    (List.zipWith F (l.map e) (List.range l.length)).sum = ∑ i : Fin l.length, F (e l[i]) i := by
  rw [sum_zipWith_range_aux (l.map e) l.length (by simp) F]
  simp

theorem sum_map_mul_ite {β : Type} (g : β → ℝ) (p : β → Prop) [DecidablePred p] (L : List β) :
    (L.map (fun b => g b * if p b then 1 else 0)).sum = ((L.filter (fun b => decide (p b))).map g).sum := by
  induction L with
  | nil => simp
  | cons b L ih =>
    rw [List.map_cons, List.sum_cons, ih]
    by_cases hb : p b <;> simp [hb]

theorem forward_key (h φ0 : ℝ) (π ψ : ℕ → ℝ) : ∀ (M : List ℝ) (R : List ℕ),
    (List.zipWith (fun m p => m * p * h) M (R.map π)).sum * φ0 +
      (List.zipWith (fun m r => m * ψ r) (List.zipWith (fun m p => m * p * (1 - h)) M (R.map π)) R).sum =
    (List.zipWith (fun m r => m * (π r * h * φ0 + π r * (1 - h) * ψ r)) M R).sum := by
  intro M
  induction M with
  | nil => intro R; simp
  | cons m M ih =>
    intro R
    cases R with
    | nil => simp
    | cons r R =>
      simp only [List.map_cons, List.zipWith_cons_cons, List.sum_cons]
      rw [← ih R]
      ring

end Frouros.C08
