/-
  The standard model of floating-point arithmetic as an explicit HYPOTHESIS structure on an abstract carrier
  `α` with `[Num α]`, a value map `toR : α → ℝ` and a unit roundoff `u`.

  * It is a `structure … : Prop`, not an axiom and not an instance: theorems take `(sm : StdModel α toR u)`.
  * Nothing is claimed here about Lean's `Float` (opaque to the kernel).  For IEEE binary64 with round-to-nearest the
    fields hold with `u = 2^-53` for all operands whose exact result neither overflows nor falls in the subnormal
    range, with no NaN/∞ operand, and for counters `n < 2^53`; this is a fact about IEEE-754 that is NOT proved in
    this project.  Overflow, underflow (gradual or flush-to-zero), NaN and infinities are OUTSIDE the model:
    `lt`/`le` are required to be the exact order of the represented values, which already excludes NaN (for a NaN
    both `x < y` and `y ≤ x` are false, contradicting the totality of the order of ℝ).
  * Satisfiable: `stdModel_real` (ℝ, `toR = id`, `u = 0`) and, non-trivially, `stdModel_biased` (every operation
    result is inflated by the factor `1 + u`: all `δ = u ≠ 0`).

  Also here: the few pure-ℝ facts about `|·|` and products of `(1+δ)` factors used by the rounding analyses.
-/
import Mathlib.Tactic.Ring
import Mathlib.Tactic.FieldSimp
import Mathlib.Tactic.Linarith
import Mathlib.Tactic.NormNum
import Mathlib.Tactic.Positivity
import FrourosProofs.RealNum

namespace Frouros

/-- Standard model of floating-point arithmetic (Higham, *Accuracy and Stability of Numerical Algorithms*, (2.4)):
every basic operation returns the exact result times `1 + δ` with `|δ| ≤ u`; natural-number literals/counters are
exact; comparisons are the exact comparisons of the represented values. -/
structure StdModel (α : Type) [Num α] (toR : α → ℝ) (u : ℝ) : Prop where
  u_nonneg : 0 ≤ u
  add : ∀ x y : α, ∃ δ : ℝ, |δ| ≤ u ∧ toR (x + y) = (toR x + toR y) * (1 + δ)
  sub : ∀ x y : α, ∃ δ : ℝ, |δ| ≤ u ∧ toR (x - y) = (toR x - toR y) * (1 + δ)
  mul : ∀ x y : α, ∃ δ : ℝ, |δ| ≤ u ∧ toR (x * y) = (toR x * toR y) * (1 + δ)
  /-- division by a value that represents `0` is outside the model (no junk value is used) -/
  div : ∀ x y : α, toR y ≠ 0 → ∃ δ : ℝ, |δ| ≤ u ∧ toR (x / y) = (toR x / toR y) * (1 + δ)
  /-- counters are exact (`n < 2^53` for binary64) -/
  ofNat : ∀ n : ℕ, toR (Num.ofNat n) = (n : ℝ)
  lt : ∀ x y : α, Num.lt x y = true ↔ toR x < toR y
  le : ∀ x y : α, Num.le x y = true ↔ toR x ≤ toR y

namespace StdModel
variable {α : Type} [Num α] {toR : α → ℝ} {u : ℝ}

theorem zero (sm : StdModel α toR u) : toR (Num.zero : α) = 0 := by
  have := sm.ofNat 0; simpa [Num.zero] using this

theorem one (sm : StdModel α toR u) : toR (Num.one : α) = 1 := by
  have := sm.ofNat 1; simpa [Num.one] using this

theorem gt (sm : StdModel α toR u) (x y : α) : Num.gt x y = true ↔ toR y < toR x := sm.lt y x

/-- `np.maximum(0, x)` is exact: comparisons are exact and no arithmetic is performed -/
theorem max0 (sm : StdModel α toR u) (x : α) : toR (Num.max0 x) = max 0 (toR x) := by
  unfold Num.max0
  by_cases h : Num.lt x (Num.zero : α) = true
  · have h' := (sm.lt x Num.zero).mp h
    rw [sm.zero] at h'
    rw [if_pos h, sm.zero, max_eq_left (le_of_lt h')]
  · have h' : ¬ toR x < 0 := by
      intro hlt; apply h; rw [sm.lt, sm.zero]; exact hlt
    rw [if_neg h, max_eq_right (not_lt.mp h')]

end StdModel

/-- the exact carrier: ℝ itself with `u = 0` -/
theorem stdModel_real : StdModel ℝ id 0 where
  u_nonneg := le_refl _
  add x y := ⟨0, by simp, by simp⟩
  sub x y := ⟨0, by simp, by simp⟩
  mul x y := ⟨0, by simp, by simp⟩
  div x y _ := ⟨0, by simp, by simp⟩
  ofNat n := rfl
  lt x y := by simp
  le x y := by simp

/-- … and for every `u ≥ 0` (a smaller roundoff is a special case of a larger one) -/
theorem stdModel_real_u {u : ℝ} (hu : 0 ≤ u) : StdModel ℝ id u where
  u_nonneg := hu
  add x y := ⟨0, by simpa using hu, by simp⟩
  sub x y := ⟨0, by simpa using hu, by simp⟩
  mul x y := ⟨0, by simpa using hu, by simp⟩
  div x y _ := ⟨0, by simpa using hu, by simp⟩
  ofNat n := rfl
  lt x y := by simp
  le x y := by simp

/-! ### a non-trivial instance: every operation inflates its exact result by `1 + u` -/

/-- reals with "biased" arithmetic: `x ⊕ y = (x + y)(1 + u)` etc.; literals and comparisons exact -/
structure Biased (u : ℝ) where
  val : ℝ

open Classical in
noncomputable instance instNumBiased (u : ℝ) : Num (Biased u) where
  add x y := ⟨(x.val + y.val) * (1 + u)⟩
  sub x y := ⟨(x.val - y.val) * (1 + u)⟩
  mul x y := ⟨(x.val * y.val) * (1 + u)⟩
  div x y := ⟨(x.val / y.val) * (1 + u)⟩
  neg x := ⟨-x.val⟩
  ofNat n := ⟨(n : ℝ)⟩
  ofDec m e := ⟨(m : ℝ) / (10 : ℝ) ^ e⟩
  sqrt x := ⟨Real.sqrt x.val⟩
  log x := ⟨Real.log x.val⟩
  exp x := ⟨Real.exp x.val⟩
  abs x := ⟨|x.val|⟩
  npow x n := ⟨x.val ^ n⟩
  lt a b := decide (a.val < b.val)
  le a b := decide (a.val ≤ b.val)
  beq a b := decide (a.val = b.val)

namespace Biased
variable {u : ℝ}
@[simp] theorem add_val (x y : Biased u) : (x + y).val = (x.val + y.val) * (1 + u) := rfl
@[simp] theorem sub_val (x y : Biased u) : (x - y).val = (x.val - y.val) * (1 + u) := rfl
@[simp] theorem mul_val (x y : Biased u) : (x * y).val = (x.val * y.val) * (1 + u) := rfl
@[simp] theorem div_val (x y : Biased u) : (x / y).val = (x.val / y.val) * (1 + u) := rfl
@[simp] theorem ofNat_val (n : ℕ) : (Num.ofNat n : Biased u).val = (n : ℝ) := rfl
@[simp] theorem zero_val : (Num.zero : Biased u).val = 0 := by simp [Num.zero]
@[simp] theorem one_val : (Num.one : Biased u).val = 1 := by simp [Num.one]
@[simp] theorem lt_iff (a b : Biased u) : Num.lt a b = true ↔ a.val < b.val := by simp [Num.lt]
@[simp] theorem le_iff (a b : Biased u) : Num.le a b = true ↔ a.val ≤ b.val := by simp [Num.le]
@[simp] theorem gt_iff (a b : Biased u) : Num.gt a b = true ↔ b.val < a.val := by simp [Num.gt]
end Biased

theorem stdModel_biased {u : ℝ} (hu : 0 ≤ u) : StdModel (Biased u) Biased.val u where
  u_nonneg := hu
  add x y := ⟨u, by rw [abs_of_nonneg hu], rfl⟩
  sub x y := ⟨u, by rw [abs_of_nonneg hu], rfl⟩
  mul x y := ⟨u, by rw [abs_of_nonneg hu], rfl⟩
  div x y _ := ⟨u, by rw [abs_of_nonneg hu], rfl⟩
  ofNat n := rfl
  lt x y := by simp
  le x y := by simp

/-! ### pure-ℝ helper facts -/
namespace RoundLemmas

theorem abs_mul_le_of {a b A B : ℝ} (ha : |a| ≤ A) (hb : |b| ≤ B) : |a * b| ≤ A * B := by
  rw [abs_mul]
  exact mul_le_mul ha hb (abs_nonneg _) (le_trans (abs_nonneg _) ha)

theorem abs_add_le_of {a b A B : ℝ} (ha : |a| ≤ A) (hb : |b| ≤ B) : |a + b| ≤ A + B := by
  rw [abs_le] at *
  constructor <;> linarith [ha.1, ha.2, hb.1, hb.2]

theorem abs_sub_le_of {a b A B : ℝ} (ha : |a| ≤ A) (hb : |b| ≤ B) : |a - b| ≤ A + B := by
  rw [abs_le] at *
  constructor <;> linarith [ha.1, ha.2, hb.1, hb.2]

/-- `|x| ≤ |y| + |x - y|` in the form used below -/
theorem abs_le_of_close {x y Y E : ℝ} (hy : |y| ≤ Y) (he : |x - y| ≤ E) : |x| ≤ Y + E := by
  rw [abs_le] at *
  constructor <;> linarith [hy.1, hy.2, he.1, he.2]

theorem abs_one_add_le {δ u : ℝ} (h : |δ| ≤ u) : |1 + δ| ≤ 1 + u := by
  rw [abs_le] at *
  constructor <;> linarith [h.1, h.2]

/-- one more `(1+δ)` factor: `|(1+θ)(1+δ) − 1| ≤ (1+Θ)(1+u) − 1` -/
theorem theta_mul {θ δ Θ u : ℝ} (hθ : |θ| ≤ Θ) (hδ : |δ| ≤ u) :
    |(1 + θ) * (1 + δ) - 1| ≤ (1 + Θ) * (1 + u) - 1 := by
  have h : (1 + θ) * (1 + δ) - 1 = θ + δ + θ * δ := by ring
  have h3 := abs_mul_le_of hθ hδ
  rw [h]
  have := abs_add_le_of (abs_add_le_of hθ hδ) h3
  linarith

/-- two factors -/
theorem theta2 {δ1 δ2 u : ℝ} (h1 : |δ1| ≤ u) (h2 : |δ2| ≤ u) :
    |(1 + δ1) * (1 + δ2) - 1| ≤ (1 + u) ^ 2 - 1 := by
  have := theta_mul h1 h2
  calc |(1 + δ1) * (1 + δ2) - 1| ≤ (1 + u) * (1 + u) - 1 := this
    _ = (1 + u) ^ 2 - 1 := by ring

/-- three factors -/
theorem theta3 {δ1 δ2 δ3 u : ℝ} (h1 : |δ1| ≤ u) (h2 : |δ2| ≤ u) (h3 : |δ3| ≤ u) :
    |(1 + δ1) * (1 + δ2) * (1 + δ3) - 1| ≤ (1 + u) ^ 3 - 1 := by
  have h12 := theta2 h1 h2
  have e : (1 + δ1) * (1 + δ2) = 1 + ((1 + δ1) * (1 + δ2) - 1) := by ring
  have := theta_mul h12 h3
  rw [← e] at this
  calc |(1 + δ1) * (1 + δ2) * (1 + δ3) - 1| ≤ (1 + ((1 + u) ^ 2 - 1)) * (1 + u) - 1 := this
    _ = (1 + u) ^ 3 - 1 := by ring

theorem abs_max0_sub_max0 (p q : ℝ) : |max 0 p - max 0 q| ≤ |p - q| := by
  have h1 := le_abs_self (p - q)
  have h2 := neg_abs_le (p - q)
  rw [abs_le]
  rcases le_total 0 p with hp | hp <;> rcases le_total 0 q with hq | hq
  · rw [max_eq_right hp, max_eq_right hq]; constructor <;> linarith
  · rw [max_eq_right hp, max_eq_left hq]; constructor <;> linarith
  · rw [max_eq_left hp, max_eq_right hq]; constructor <;> linarith
  · rw [max_eq_left hp, max_eq_left hq]; constructor <;> linarith

end RoundLemmas
end Frouros
