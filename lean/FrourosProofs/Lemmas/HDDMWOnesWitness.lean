/-
  HDDM-W raises a warning on the all-ones stream for NON-degenerate configurations (`alpha_w < 1`):
  the family `alpha_d = 1/2 < alpha_w`, `log(1/alpha_w) < 1/7` (e.g. `alpha_w = 9/10`), one-sided,
  `lambda = 1/2`, `min_num_instances = 1` warns at the third value.  (`C01c.HddmwW` did `alpha_w = 1`,
  where the McDiarmid bound is identically `0`.)
-/
import Mathlib.Analysis.Complex.ExponentialBounds
import FrourosProofs.Lemmas.ConstHDDMWWitness

namespace Frouros.C01d
open Frouros Frouros.C01c Frouros.C01c.HddmwW
namespace HddmwW2
open HDDMW

/-- accepted by `Config.hddmw` when `1/2 < aw ≤ 1` -/
noncomputable def wc (aw : ℝ) : Cfg ℝ := ⟨1 / 2, aw, false, 1 / 2, 1⟩

theorem init_eq (aw : ℝ) : init (wc aw) = ⟨0, false, false, T (mkS 0 1) (mkS 0 1) (mkS 0 1) none⟩ := by
  simp [init, wc, Test.init, Sample.init, EWMA.init, T, mkS]
  norm_num

theorem us_none (aw m i : ℝ) (i1 i2 : Sample ℝ) :
    updateStats (wc aw) (T (mkS m i) i1 i2 none) 1 =
      T (mkS (1 / 2 + 1 / 2 * m) (1 / 4 + 1 / 4 * i)) (mkS (1 / 2 + 1 / 2 * m) (1 / 4 + 1 / 4 * i)) (mkS 0 1)
        (some ((1 / 2 + 1 / 2 * m) + mcBound (1 / 4 + 1 / 4 * i) (1 / 2))) := by
  have h0 : Sample.init (1 / 2 : ℝ) = mkS 0 1 := by
    simp [Sample.init, EWMA.init, mkS]; norm_num
  unfold updateStats
  simp only [wc, T, upd, h0]
  simp [mkS]

theorem us_some (aw m i m2 j2 cp : ℝ) (i1 : Sample ℝ)
    (h : ¬ (1 / 2 + 1 / 2 * m) + mcBound (1 / 4 + 1 / 4 * i) (1 / 2) < cp) :
    updateStats (wc aw) (T (mkS m i) i1 (mkS m2 j2) (some cp)) 1 =
      T (mkS (1 / 2 + 1 / 2 * m) (1 / 4 + 1 / 4 * i)) i1 (mkS (1 / 2 + 1 / 2 * m2) (1 / 4 + 1 / 4 * j2)) (some cp) := by
  unfold updateStats
  simp only [wc, T, upd]
  have : Num.lt ((mkS (1 / 2 + 1 / 2 * m) (1 / 4 + 1 / 4 * i)).ewma.mean +
      mcBound (mkS (1 / 2 + 1 / 2 * m) (1 / 4 + 1 / 4 * i)).ibc (1 / 2)) cp = false := by
    rw [RealNum.lt_false_iff]; exact h
  simp only [this, Bool.false_eq_true, if_false]

theorem check_eq (aw : ℝ) (tot : Sample ℝ) (a i b j : ℝ) (cut : Option ℝ) :
    checkChanges (wc aw) (T tot (mkS a i) (mkS b j) cut) =
      (decide (mcBound (i + j) (1 / 2) < b - a),
       if mcBound (i + j) (1 / 2) < b - a then false else decide (mcBound (i + j) aw < b - a)) := by
  unfold checkChanges thr
  simp only [wc, T, mkS]
  simp [Num.gt, Num.lt]

theorem step_eq (aw : ℝ) (n : Nat) (d w : Bool) (t : Test ℝ) : step (wc aw) ⟨n, d, w, t⟩ 1 =
    if (checkChanges (wc aw) (updateStats (wc aw) t 1)).1 then ⟨n + 1, true, false, Test.init (1 / 2)⟩
    else ⟨n + 1, false, (checkChanges (wc aw) (updateStats (wc aw) t 1)).2, updateStats (wc aw) t 1⟩ := by
  unfold step
  have : (wc aw).minN ≤ n + 1 := by simp [wc]
  simp only [this, if_true]
  rfl

theorem mcBound_nonneg (x a : ℝ) : 0 ≤ mcBound x a := by
  unfold mcBound; exact Real.sqrt_nonneg _

theorem mcBound_eq (x a : ℝ) : mcBound x a = Real.sqrt (x * Real.log (1 / a) / 2) := by
  unfold mcBound; simp

theorem step1 (aw : ℝ) : step (wc aw) (init (wc aw)) 1 = s1 := by
  rw [init_eq, step_eq, us_none, check_eq]
  have h : ¬ (mcBound (1 / 4 + 1 / 4 * 1 + 1 : ℝ) (1 / 2) < 0 - (1 / 2 + 1 / 2 * 0)) := by
    have := mcBound_nonneg (1 / 4 + 1 / 4 * 1 + 1) (1 / 2); intro hlt; linarith
  have h' : ¬ (mcBound (1 / 4 + 1 / 4 * 1 + 1 : ℝ) aw < 0 - (1 / 2 + 1 / 2 * 0)) := by
    have := mcBound_nonneg (1 / 4 + 1 / 4 * 1 + 1) aw; intro hlt; linarith
  simp only [h, h', decide_false, Bool.false_eq_true, if_false, s1, cp]
  norm_num

theorem step2 (aw : ℝ) : step (wc aw) s1 1 = s2 := by
  unfold s1
  rw [step_eq, us_some _ _ _ _ _ _ _ (by
    rw [mcBound_half]
    have := quarter_le_sqrt (y := (1 / 4 + 1 / 4 * (1 / 2)) * Real.log 2 / 2) (by have := log_two_ge; linarith)
    have := cp_le
    intro hlt; linarith), check_eq]
  have h : ¬ (mcBound (1 / 2 + (1 / 4 + 1 / 4 * 1) : ℝ) (1 / 2) < 1 / 2 + 1 / 2 * 0 - 1 / 2) := by
    have := mcBound_nonneg (1 / 2 + (1 / 4 + 1 / 4 * 1)) (1 / 2); intro hlt; linarith
  have h' : ¬ (mcBound (1 / 2 + (1 / 4 + 1 / 4 * 1) : ℝ) aw < 1 / 2 + 1 / 2 * 0 - 1 / 2) := by
    have := mcBound_nonneg (1 / 2 + (1 / 4 + 1 / 4 * 1)) aw; intro hlt; linarith
  simp only [h, h', decide_false, Bool.false_eq_true, if_false, s2]
  norm_num

/-- the third `1`: `inc2.mean - inc1.mean = 3/4 - 1/2 = 1/4`; the drift bound `sqrt(7/16 · log 2) ≥ 1/4` is
not exceeded, the warning bound `sqrt(7/16 · log(1/aw)) < 1/4` is (as `log(1/aw) < 1/7`) -/
theorem step3 (aw : ℝ) (hw : Real.log (1 / aw) < 1 / 7) :
    (step (wc aw) s2 1).drift = false ∧ (step (wc aw) s2 1).warning = true := by
  unfold s2
  rw [step_eq, us_some _ _ _ _ _ _ _ (by
    rw [mcBound_half]
    have := eighth_le_sqrt (y := (1 / 4 + 1 / 4 * (3 / 8)) * Real.log 2 / 2) (by have := log_two_ge; linarith)
    have := cp_le
    intro hlt; linarith), check_eq]
  have h : ¬ (mcBound (1 / 2 + (1 / 4 + 1 / 4 * (1 / 2)) : ℝ) (1 / 2) < 1 / 2 + 1 / 2 * (1 / 2) - 1 / 2) := by
    rw [mcBound_half]
    have := quarter_le_sqrt (y := (1 / 2 + (1 / 4 + 1 / 4 * (1 / 2))) * Real.log 2 / 2) (by have := log_two_ge; linarith)
    intro hlt; linarith
  have h' : (mcBound (1 / 2 + (1 / 4 + 1 / 4 * (1 / 2)) : ℝ) aw < 1 / 2 + 1 / 2 * (1 / 2) - 1 / 2) := by
    rw [mcBound_eq]
    have : Real.sqrt ((1 / 2 + (1 / 4 + 1 / 4 * (1 / 2))) * Real.log (1 / aw) / 2) < 1 / 4 := by
      rw [Real.sqrt_lt' (by norm_num)]; linarith
    linarith
  simp only [h, h', decide_false, decide_true, Bool.false_eq_true, if_false]
  exact ⟨by trivial, by trivial⟩

theorem warning_on_ones (aw : ℝ) (hw : Real.log (1 / aw) < 1 / 7) :
    ((List.replicate 3 (1 : ℝ)).foldl (step (wc aw)) (init (wc aw))).drift = false ∧
    ((List.replicate 3 (1 : ℝ)).foldl (step (wc aw)) (init (wc aw))).warning = true := by
  simp only [List.replicate, List.foldl_cons, List.foldl_nil, step1, step2]
  exact step3 aw hw

/-- `log(10/9) ≤ 1/9 < 1/7` -/
theorem log_nine_tenths : Real.log (1 / (9 / 10 : ℝ)) < 1 / 7 := by
  have := Real.log_le_sub_one_of_pos (by norm_num : (0 : ℝ) < 1 / (9 / 10))
  norm_num at this ⊢
  linarith

end HddmwW2

/-! two-sided: `alpha_d = 1/4`, `alpha_w = 1/2`, `lambda = 1/2`, `min_num_instances = 1` warns at the SECOND value
(decrease test), although the same parameters one-sided are silent for ever (`ThrInc` holds, `ThrDec` fails) -/
namespace HddmwW3
open HDDMW

noncomputable def wc2 : Cfg ℝ := ⟨1 / 4, 1 / 2, true, 1 / 2, 1⟩

theorem us_two (m i : ℝ) (i1 i2 d1 d2 : Sample ℝ) (ic dc : Option ℝ) :
    updateStats wc2 ⟨mkS m i, i1, i2, ic, d1, d2, dc⟩ 1 =
      (let tot := mkS (1 / 2 + 1 / 2 * m) (1 / 4 + 1 / 4 * i)
       let eps := mcBound (1 / 4 + 1 / 4 * i) (1 / 2)
       let up := (1 / 2 + 1 / 2 * m) + eps
       let dn := (1 / 2 + 1 / 2 * m) - eps
       let newInc : Bool := match ic with | none => true | some cp => decide (up < cp)
       let newDec : Bool := match dc with | none => true | some cp => decide (cp < dn)
       ⟨tot, if newInc then tot else i1, if newInc then mkS 0 1 else Sample.update (1 / 2) i2 1,
        if newInc then some up else ic,
        if newDec then tot else d1, if newDec then mkS 0 1 else Sample.update (1 / 2) d2 1,
        if newDec then some dn else dc⟩) := by
  have h0 : Sample.init (1 / 2 : ℝ) = mkS 0 1 := by
    simp [Sample.init, EWMA.init, mkS]; norm_num
  unfold updateStats
  simp only [wc2, upd, h0]
  cases ic <;> cases dc <;> simp [mkS, Num.lt, Num.gt] <;> split_ifs <;> simp_all

theorem init_eq : init wc2 = ⟨0, false, false, ⟨mkS 0 1, mkS 0 1, mkS 0 1, none, mkS 0 1, mkS 0 1, none⟩⟩ := by
  simp [init, wc2, Test.init, Sample.init, EWMA.init, mkS]
  norm_num

theorem step_eq (n : Nat) (d w : Bool) (t : Test ℝ) : step wc2 ⟨n, d, w, t⟩ 1 =
    if (checkChanges wc2 (updateStats wc2 t 1)).1 then ⟨n + 1, true, false, Test.init (1 / 2)⟩
    else ⟨n + 1, false, (checkChanges wc2 (updateStats wc2 t 1)).2, updateStats wc2 t 1⟩ := by
  unfold step
  have : wc2.minN ≤ n + 1 := by simp [wc2]
  simp only [this, if_true]
  rfl

/-- `checkChanges` of the two-sided test; `thr dec2 dec1` compares `dec1.mean - dec2.mean` -/
theorem check_eq (tot : Sample ℝ) (a i b j e k f l : ℝ) (ic dc : Option ℝ) :
    checkChanges wc2 ⟨tot, mkS a i, mkS b j, ic, mkS e k, mkS f l, dc⟩ =
      (let di := decide (mcBound (i + j) (1 / 4) < b - a)
       let wi := if di then false else decide (mcBound (i + j) (1 / 2) < b - a)
       let dd := if di then false else decide (mcBound (l + k) (1 / 4) < e - f)
       let wd := if wi || dd then false else decide (mcBound (l + k) (1 / 2) < e - f)
       (di || dd, wi || wd)) := by
  unfold checkChanges thr
  simp only [wc2, mkS]
  simp [Num.gt, Num.lt]

theorem mcBound_nonneg (x a : ℝ) : 0 ≤ mcBound x a := by
  unfold mcBound; exact Real.sqrt_nonneg _

theorem mcBound_quarter (x : ℝ) : mcBound x (1 / 4) = Real.sqrt (x * (2 * Real.log 2) / 2) := by
  unfold mcBound
  have : Real.log (1 / (1 / 4 : ℝ)) = 2 * Real.log 2 := by
    rw [show (1 / (1 / 4) : ℝ) = 2 ^ 2 by norm_num, Real.log_pow]; push_cast; ring
  simp only [RealNum.sqrt_eq, RealNum.log_eq, RealNum.one_eq, RealNum.two_eq, this]

/-- state after the first `1`: both cut points are set, `inc2`/`dec2` re-initialised -/
noncomputable def s1 : State ℝ :=
  ⟨1, false, false, ⟨mkS (1 / 2) (1 / 2), mkS (1 / 2) (1 / 2), mkS 0 1, some (1 / 2 + mcBound (1 / 2) (1 / 2)),
    mkS (1 / 2) (1 / 2), mkS 0 1, some (1 / 2 - mcBound (1 / 2) (1 / 2))⟩⟩

theorem step1 : step wc2 (init wc2) 1 = s1 := by
  rw [init_eq, step_eq, us_two]
  simp only [if_true]
  rw [check_eq]
  have b1 := mcBound_nonneg (1 / 4 + 1 / 4 * 1 + 1 : ℝ) (1 / 4)
  have b2 := mcBound_nonneg (1 / 4 + 1 / 4 * 1 + 1 : ℝ) (1 / 2)
  have h1 : ¬ (mcBound (1 / 4 + 1 / 4 * 1 + 1 : ℝ) (1 / 4) < 0 - (1 / 2 + 1 / 2 * 0)) := by intro h; linarith
  have h2 : ¬ (mcBound (1 / 4 + 1 / 4 * 1 + 1 : ℝ) (1 / 2) < 0 - (1 / 2 + 1 / 2 * 0)) := by intro h; linarith
  -- decrease side: `1/2 - 0` against `sqrt(3/2 · log 4 / 2)` and `sqrt(3/2 · log 2 / 2)`
  have h3 : ¬ (mcBound (1 + (1 / 4 + 1 / 4 * 1) : ℝ) (1 / 4) < 1 / 2 + 1 / 2 * 0 - 0) := by
    rw [mcBound_quarter]
    have := Real.le_sqrt' (x := (1 / 2 : ℝ)) (y := (1 + (1 / 4 + 1 / 4 * 1)) * (2 * Real.log 2) / 2) (by norm_num)
    have hl := log_two_ge
    have : (1 / 2 : ℝ) ≤ Real.sqrt ((1 + (1 / 4 + 1 / 4 * 1)) * (2 * Real.log 2) / 2) := by
      rw [this]; norm_num; linarith
    intro h; linarith
  have h4 : ¬ (mcBound (1 + (1 / 4 + 1 / 4 * 1) : ℝ) (1 / 2) < 1 / 2 + 1 / 2 * 0 - 0) := by
    rw [mcBound_half]
    have := Real.le_sqrt' (x := (1 / 2 : ℝ)) (y := (1 + (1 / 4 + 1 / 4 * 1)) * Real.log 2 / 2) (by norm_num)
    have hl := log_two_ge
    have : (1 / 2 : ℝ) ≤ Real.sqrt ((1 + (1 / 4 + 1 / 4 * 1)) * Real.log 2 / 2) := by
      rw [this]; norm_num; linarith
    intro h; linarith
  simp only [h1, h2, h3, h4, decide_false, Bool.false_eq_true, if_false, Bool.or_false, s1]
  norm_num

/-- the second `1`: the increase cut point stays, the decrease cut point moves (`dec2` is re-initialised,
`dec1 = total`), and `dec1.mean - dec2.mean = 3/4` exceeds the warning bound `sqrt(11/16 · log 2)` but not
the drift bound `sqrt(11/8 · log 2)` -/
theorem step2 : (step wc2 s1 1).drift = false ∧ (step wc2 s1 1).warning = true := by
  unfold s1
  rw [step_eq, us_two]
  have hl := log_two_ge
  have hu := Real.log_two_lt_d9
  have heps : (1 / 4 : ℝ) ≤ mcBound (1 / 4 + 1 / 4 * (1 / 2)) (1 / 2) := by
    rw [mcBound_half]; exact quarter_le_sqrt (by linarith)
  have hmono : mcBound (1 / 4 + 1 / 4 * (1 / 2) : ℝ) (1 / 2) ≤ mcBound (1 / 2) (1 / 2) := by
    rw [mcBound_half, mcBound_half]; apply Real.sqrt_le_sqrt; linarith
  have hcp := cp_le
  unfold cp at hcp
  have hI : ¬ ((1 / 2 : ℝ) + 1 / 2 * (1 / 2) + mcBound (1 / 4 + 1 / 4 * (1 / 2)) (1 / 2) < 1 / 2 + mcBound (1 / 2) (1 / 2)) := by
    intro h; linarith
  have hD : ((1 / 2 : ℝ) - mcBound (1 / 2) (1 / 2) < 1 / 2 + 1 / 2 * (1 / 2) - mcBound (1 / 4 + 1 / 4 * (1 / 2)) (1 / 2)) := by
    linarith
  simp only [hI, hD, decide_false, decide_true, Bool.false_eq_true, if_false, if_true, upd]
  rw [check_eq]
  have b1 := mcBound_nonneg (1 / 2 + (1 / 4 + 1 / 4 * 1) : ℝ) (1 / 4)
  have b2 := mcBound_nonneg (1 / 2 + (1 / 4 + 1 / 4 * 1) : ℝ) (1 / 2)
  have h1 : ¬ (mcBound (1 / 2 + (1 / 4 + 1 / 4 * 1) : ℝ) (1 / 4) < 1 / 2 + 1 / 2 * 0 - 1 / 2) := by intro h; linarith
  have h2 : ¬ (mcBound (1 / 2 + (1 / 4 + 1 / 4 * 1) : ℝ) (1 / 2) < 1 / 2 + 1 / 2 * 0 - 1 / 2) := by intro h; linarith
  have h3 : ¬ (mcBound (1 + (1 / 4 + 1 / 4 * (1 / 2)) : ℝ) (1 / 4) < 1 / 2 + 1 / 2 * (1 / 2) - 0) := by
    rw [mcBound_quarter]
    have : (3 / 4 : ℝ) ≤ Real.sqrt ((1 + (1 / 4 + 1 / 4 * (1 / 2))) * (2 * Real.log 2) / 2) := by
      rw [Real.le_sqrt' (by norm_num)]; norm_num; linarith
    intro h; linarith
  have h4 : (mcBound (1 + (1 / 4 + 1 / 4 * (1 / 2)) : ℝ) (1 / 2) < 1 / 2 + 1 / 2 * (1 / 2) - 0) := by
    rw [mcBound_half]
    have : Real.sqrt ((1 + (1 / 4 + 1 / 4 * (1 / 2))) * Real.log 2 / 2) < 3 / 4 := by
      rw [Real.sqrt_lt' (by norm_num)]; norm_num at hu ⊢; linarith
    linarith
  simp only [h1, h2, h3, h4, decide_false, decide_true, Bool.false_eq_true, if_false, Bool.or_false, Bool.false_or]
  exact ⟨by trivial, by trivial⟩

theorem warning_two_sided :
    ((List.replicate 2 (1 : ℝ)).foldl (step wc2) (init wc2)).drift = false ∧
    ((List.replicate 2 (1 : ℝ)).foldl (step wc2) (init wc2)).warning = true := by
  simp only [List.replicate, List.foldl_cons, List.foldl_nil, step1]
  exact step2

end HddmwW3
end Frouros.C01d
