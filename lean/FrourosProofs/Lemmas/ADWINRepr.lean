/-
  ADWIN representation invariant at `α = ℝ`: the numeric rows are the summaries `(sum, ssd)` of a
  ghost segmentation of a suffix of the stream into blocks of `2^i` values.
-/
import FrourosProofs.Lemmas.SSD
import FrourosProofs.Lemmas.ADWINRows

namespace Frouros.C05
open ADWIN

/-- summary `(total, variance)` of a block of stream values -/
noncomputable def summ (b : List ℝ) : ℝ × ℝ := (b.sum, ssd b)

/-- numeric rows of a ghost bucket table (each entry is the block of values it summarises) -/
noncomputable def summRows (B : List (List (List ℝ))) : List (List (ℝ × ℝ)) := B.map (fun r => r.map summ)

/-- every block in row `j` of `B` has exactly `2^(i+j)` values -/
def BlocksOK : Nat → List (List (List ℝ)) → Prop
  | _, [] => True
  | i, r :: rs => (∀ b ∈ r, b.length = 2 ^ i) ∧ BlocksOK (i + 1) rs

/-- the window, oldest value first: last row first, row 0 last; within a row in order -/
def windowOf : List (List (List ℝ)) → List ℝ
  | [] => []
  | r :: rs => windowOf rs ++ r.flatten

@[simp] theorem summRows_nil : summRows [] = [] := rfl
@[simp] theorem summRows_cons (r : List (List ℝ)) (rs : List (List (List ℝ))) :
    summRows (r :: rs) = r.map summ :: summRows rs := rfl
@[simp] theorem summRows_append (A B : List (List (List ℝ))) : summRows (A ++ B) = summRows A ++ summRows B := by
  simp [summRows]
@[simp] theorem summRows_length (B : List (List (List ℝ))) : (summRows B).length = B.length := by simp [summRows]
@[simp] theorem BlocksOK_nil (i : Nat) : BlocksOK i [] := trivial
@[simp] theorem BlocksOK_cons (i : Nat) (r : List (List ℝ)) (rs : List (List (List ℝ))) :
    BlocksOK i (r :: rs) ↔ (∀ b ∈ r, b.length = 2 ^ i) ∧ BlocksOK (i + 1) rs := Iff.rfl
@[simp] theorem windowOf_nil : windowOf [] = [] := rfl
@[simp] theorem windowOf_cons (r : List (List ℝ)) (rs : List (List (List ℝ))) :
    windowOf (r :: rs) = windowOf rs ++ r.flatten := rfl

theorem BlocksOK_append_singleton (i : Nat) (ys : List (List (List ℝ))) (l : List (List ℝ)) :
    BlocksOK i (ys ++ [l]) ↔ BlocksOK i ys ∧ ∀ b ∈ l, b.length = 2 ^ (i + ys.length) := by
  induction ys generalizing i with
  | nil => simp
  | cons a ys ih =>
    simp only [List.cons_append, BlocksOK_cons, ih, List.length_cons]
    have : i + 1 + ys.length = i + (ys.length + 1) := by omega
    rw [this, and_assoc]

theorem windowOf_append_singleton (ys : List (List (List ℝ))) (l : List (List ℝ)) :
    windowOf (ys ++ [l]) = l.flatten ++ windowOf ys := by
  induction ys with
  | nil => simp
  | cons a ys ih => simp [ih]

theorem length_flatten_blocks (k : Nat) (r : List (List ℝ)) (hr : ∀ b ∈ r, b.length = k) :
    r.flatten.length = k * r.length := by
  induction r with
  | nil => simp
  | cons b r ihr =>
    simp only [List.flatten_cons, List.length_append, List.length_cons]
    rw [ihr (fun b hb => hr b (List.mem_cons_of_mem _ hb)), hr b (by simp)]; ring

theorem length_windowOf (i : Nat) (B : List (List (List ℝ))) (h : BlocksOK i B) :
    (windowOf B).length = wsum i B := by
  induction B generalizing i with
  | nil => rfl
  | cons r rs ih =>
    obtain ⟨hr, hrs⟩ := h
    simp [ih _ hrs, length_flatten_blocks _ r hr]; ring

theorem cnt_summRows (B : List (List (List ℝ))) : cnt (summRows B) = cnt B := by
  induction B with
  | nil => rfl
  | cons r rs ih => simp [ih]

theorem wsum_summRows (i : Nat) (B : List (List (List ℝ))) : wsum i (summRows B) = wsum i B := by
  induction B generalizing i with
  | nil => rfl
  | cons r rs ih => simp [ih]

/-- ghost counterpart of `trimRows` (existential form) -/
theorem trimRows_repr (i : Nat) (ys : List (List (List ℝ))) (hok : BlocksOK i ys) :
    ∃ B', trimRows (summRows ys) = summRows B' ∧ BlocksOK i B' ∧ windowOf B' = windowOf ys := by
  induction ys using List.reverseRecOn with
  | nil => exact ⟨[[]], by simp [trimRows_nil], by simp, by simp⟩
  | append_singleton ys l ih =>
    rw [BlocksOK_append_singleton] at hok
    rw [summRows_append, summRows_cons, summRows_nil, trimRows_concat]
    by_cases hl : l = []
    · subst hl
      obtain ⟨B', h1, h2, h3⟩ := ih hok.1
      exact ⟨B', by simpa using h1, h2, by rw [h3, windowOf_append_singleton]; simp⟩
    · exact ⟨ys ++ [l], by simp [hl], (BlocksOK_append_singleton _ _ _).2 hok, rfl⟩

/-! ### ghost `compress`: same control flow, merge = append -/
def compressG (m : Nat) : Nat → List (List ℝ) → List (List (List ℝ)) → List (List (List ℝ))
  | i, row, rest =>
    if row.length == m + 1 then
      match row with
      | b1 :: b2 :: tl =>
        match rest with
        | [] => [tl, [b1 ++ b2]]
        | nxt :: rest' =>
          if (nxt ++ [b1 ++ b2]).length ≤ m then tl :: (nxt ++ [b1 ++ b2]) :: rest'
          else tl :: compressG m (i + 1) (nxt ++ [b1 ++ b2]) rest'
      | _ => row :: rest
    else row :: rest

theorem merge_summ (i : Nat) (b1 b2 : List ℝ) (h1 : b1.length = 2 ^ i) (h2 : b2.length = 2 ^ i) :
    mergeEntries (2 ^ i) (summ b1) (summ b2) = summ (b1 ++ b2) :=
  ssd_merge_eq b1 b2 (2 ^ i) (Nat.pos_of_ne_zero (by positivity)) h1 h2

theorem compressG_window (m i : Nat) (row : List (List ℝ)) (rest : List (List (List ℝ))) :
    windowOf (compressG m i row rest) = windowOf (row :: rest) := by
  fun_induction compressG m i row rest with
  | case1 i b1 b2 tl h => simp
  | case2 i b1 b2 tl nxt rest' hle h => simp
  | case3 i b1 b2 tl nxt rest' hle h ih => simp [ih]
  | case4 i row rest h hno => rfl
  | case5 i row rest h => rfl

theorem compressG_blocksOK (m i : Nat) (row : List (List ℝ)) (rest : List (List (List ℝ)))
    (hok : BlocksOK i (row :: rest)) : BlocksOK i (compressG m i row rest) := by
  fun_induction compressG m i row rest with
  | case1 i b1 b2 tl h =>
    simp only [BlocksOK_cons, List.mem_cons, forall_eq_or_imp] at hok
    refine ⟨hok.1.2.2, ?_, trivial⟩
    intro b hb
    simp at hb; subst hb
    simp [hok.1.1, hok.1.2.1, pow_succ]; ring
  | case2 i b1 b2 tl nxt rest' hle h =>
    simp only [BlocksOK_cons, List.mem_cons, forall_eq_or_imp] at hok
    obtain ⟨⟨h1, h2, h3⟩, h4, h5⟩ := hok
    refine ⟨h3, ?_, h5⟩
    intro b hb
    simp at hb
    rcases hb with hb | rfl
    · exact h4 b hb
    · simp [h1, h2, pow_succ]; ring
  | case3 i b1 b2 tl nxt rest' hle h ih =>
    simp only [BlocksOK_cons, List.mem_cons, forall_eq_or_imp] at hok
    obtain ⟨⟨h1, h2, h3⟩, h4, h5⟩ := hok
    refine ⟨h3, ih ⟨?_, h5⟩⟩
    intro b hb
    simp at hb
    rcases hb with hb | rfl
    · exact h4 b hb
    · simp [h1, h2, pow_succ]; ring
  | case4 i row rest h hno => exact hok
  | case5 i row rest h => exact hok

theorem compress_summ (m i : Nat) (row : List (List ℝ)) (rest : List (List (List ℝ)))
    (hok : BlocksOK i (row :: rest)) :
    compress m i (row.map summ) (summRows rest) = summRows (compressG m i row rest) := by
  fun_induction compressG m i row rest with
  | case1 i b1 b2 tl h =>
    simp only [BlocksOK_cons, List.mem_cons, forall_eq_or_imp] at hok
    simp at h
    simp [compress, h, merge_summ i b1 b2 hok.1.1 hok.1.2.1]
  | case2 i b1 b2 tl nxt rest' hle h =>
    simp only [BlocksOK_cons, List.mem_cons, forall_eq_or_imp] at hok
    simp at h hle
    simp [compress, h, hle, merge_summ i b1 b2 hok.1.1 hok.1.2.1]
  | case3 i b1 b2 tl nxt rest' hle h ih =>
    simp only [BlocksOK_cons, List.mem_cons, forall_eq_or_imp] at hok
    obtain ⟨⟨h1, h2, h3⟩, h4, h5⟩ := hok
    have hok' : BlocksOK (i + 1) ((nxt ++ [b1 ++ b2]) :: rest') := by
      refine ⟨?_, h5⟩
      intro b hb
      simp at hb
      rcases hb with hb | rfl
      · exact h4 b hb
      · simp [h1, h2, pow_succ]; ring
    have ih' := ih hok'
    simp at h hle
    simp at ih'
    simp [compress, h, hle, merge_summ i b1 b2 h1 h2, ih']
  | case4 i row rest h hno =>
    match row, hno with
    | [], _ => simp at h
    | [b], _ => rw [compress.eq_def]; simp
    | e1 :: e2 :: tl, hno => exact absurd rfl (fun hh => hno e1 e2 tl hh)
  | case5 i row rest h =>
    simp at h
    rw [compress.eq_def]
    simp [h]


/-! ### the representation invariant -/

/-- `ReprB s xs B`: the state `s` represents exactly a suffix `W` of the stream `xs` (the values seen
since the last reset).  `B` is the ghost bucket table: `B[i]` lists, oldest first, the blocks of
`2^i` consecutive values summarised by the entries of `s.rows[i]`; the blocks, read from the last
row to row 0, concatenate to `W` (`windowOf B`).  `total`, `variance`, `width` are the sum, the sum
of squared deviations and the length of `W`. -/
def ReprB (s : State ℝ) (xs : List ℝ) (B : List (List (List ℝ))) : Prop :=
    s.rows = summRows B ∧ BlocksOK 0 B ∧ windowOf B <:+ xs ∧
    s.width = (windowOf B).length ∧ s.total = (windowOf B).sum ∧ s.variance = ssd (windowOf B)

/-- `Repr s xs`: some ghost bucket table `B` satisfies `ReprB s xs B`. -/
def Repr (s : State ℝ) (xs : List ℝ) : Prop := ∃ B : List (List (List ℝ)), ReprB s xs B

theorem Repr_init : Repr (init : State ℝ) [] :=
  ⟨[[]], rfl, by simp, by simp, rfl, by simp [init], by simp [init]⟩

theorem Repr_reset (s : State ℝ) : Repr (reset s) [] :=
  ⟨[[]], rfl, by simp, by simp, rfl, by simp [reset], by simp [reset]⟩

/-- the Welford increment of `insert` is exact (also for the empty window, where it is `0`) -/
theorem insert_variance (c : Cfg ℝ) (s : State ℝ) (v : ℝ) (W : List ℝ)
    (hw : s.width = W.length) (ht : s.total = W.sum) (hv : s.variance = ssd W) :
    (ADWIN.insert c s v).variance = ssd (W ++ [v]) := by
  show s.variance + (if 1 < s.width + 1 then
      (Num.ofNat (s.width + 1 - 1) : ℝ) * (v - s.total / Num.ofNat (s.width + 1 - 1))
        * (v - s.total / Num.ofNat (s.width + 1 - 1)) / Num.ofNat (s.width + 1) else Num.zero) = _
  by_cases hW : W = []
  · subst hW
    simp at hw
    simp [hw, hv, ssd_singleton]
  · have hpos : 0 < W.length := List.length_pos_of_ne_nil hW
    rw [ssd_insert W v hW, hv, ht, hw, if_pos (by omega)]
    simp only [Nat.add_sub_cancel, RealNum.ofNat_eq, mean]
    push_cast
    ring

theorem Repr_insert (c : Cfg ℝ) (s : State ℝ) (xs : List ℝ) (v : ℝ) (h : Repr s xs) :
    Repr (ADWIN.insert c s v) (xs ++ [v]) := by
  obtain ⟨B, hrows, hok, hsuf, hw, ht, hv⟩ := h
  have hvar := insert_variance c s v _ hw ht hv
  have hsuf' : windowOf B ++ [v] <:+ xs ++ [v] := by
    obtain ⟨p, hp⟩ := hsuf
    exact ⟨p, by rw [← hp, List.append_assoc]⟩
  have hwid : (ADWIN.insert c s v).width = (windowOf B ++ [v]).length := by
    show s.width + 1 = _
    simp [hw]
  have htot : (ADWIN.insert c s v).total = (windowOf B ++ [v]).sum := by
    show s.total + v = _
    simp [ht]
  cases B with
  | nil =>
    refine ⟨[[[v]]], ?_, by simp, by simp, by simp [hwid], by simpa using htot, by simpa using hvar⟩
    simp [ADWIN.insert, hrows, summ, ssd_singleton]
  | cons b0 brest =>
    have hok' : BlocksOK 0 ((b0 ++ [[v]]) :: brest) := by
      refine ⟨?_, hok.2⟩
      intro b hb
      simp at hb
      rcases hb with hb | rfl
      · exact hok.1 b hb
      · simp
    have hwin : windowOf (compressG c.m 0 (b0 ++ [[v]]) brest) = windowOf (b0 :: brest) ++ [v] := by
      rw [compressG_window]; simp
    refine ⟨compressG c.m 0 (b0 ++ [[v]]) brest, ?_, compressG_blocksOK _ _ _ _ hok', ?_, ?_, ?_, ?_⟩
    · rw [← compress_summ _ _ _ _ hok']
      simp [ADWIN.insert, hrows, summ, ssd_singleton]
    · rw [hwin]; exact hsuf'
    · rw [hwin]; exact hwid
    · rw [hwin]; exact htot
    · rw [hwin]; exact hvar

theorem Repr_delete (s : State ℝ) (xs : List ℝ) (h : Repr s xs) (h2 : 2 ≤ numEntries s) :
    Repr (deleteOldest s) xs := by
  obtain ⟨B, hrows, hok, hsuf, hw, ht, hv⟩ := h
  rcases List.eq_nil_or_concat B with rfl | ⟨ys, l, rfl⟩
  · rw [deleteOldest_rows_nil s hrows]; exact ⟨[], hrows, hok, hsuf, hw, ht, hv⟩
  · rw [List.concat_eq_append] at hrows hok hsuf hw ht hv
    cases l with
    | nil =>
      rw [deleteOldest_last_nil s (summRows ys) (by simpa using hrows)]
      exact ⟨ys ++ [[]], hrows, hok, hsuf, hw, ht, hv⟩
    | cons b btl =>
      have hrows' : s.rows = summRows ys ++ [summ b :: btl.map summ] := by simpa using hrows
      rw [BlocksOK_append_singleton] at hok
      obtain ⟨hoky, hokl⟩ := hok
      have hb : b.length = 2 ^ ys.length := by simpa using hokl b (by simp)
      have hpos : 0 < 2 ^ ys.length := Nat.pos_of_ne_zero (by positivity)
      rw [windowOf_append_singleton] at hsuf hw ht hv
      simp only [List.flatten_cons, List.append_assoc] at hsuf hw ht hv
      -- the remaining window
      set R := btl.flatten ++ windowOf ys with hR
      have hRne : R ≠ [] := by
        have hlen : 0 < R.length := by
          rw [numEntries_eq, hrows, cnt_summRows, cnt_append, cnt_cons, cnt_nil] at h2
          have h3 := cnt_le_wsum 0 ys
          rw [← length_windowOf 0 ys hoky] at h3
          have h4 : btl.flatten.length = 2 ^ ys.length * btl.length :=
            length_flatten_blocks _ btl (fun b' hb' => by simpa using hokl b' (List.mem_cons_of_mem _ hb'))
          have h5 : btl.length ≤ 2 ^ ys.length * btl.length := by
            calc btl.length = 1 * btl.length := (one_mul _).symm
              _ ≤ _ := Nat.mul_le_mul_right _ hpos
          simp only [hR, List.length_append, List.length_cons] at h2 ⊢
          omega
        exact List.ne_nil_of_length_pos hlen
      have hwR : s.width - 2 ^ ys.length = R.length := by
        rw [hw, List.length_append, hb]; omega
      rw [deleteOldest_concat s (summRows ys) (summ b) (btl.map summ) hrows']
      simp only [summRows_length, hwR]
      -- the ghost table after the deletion
      obtain ⟨B', hB1, hB2, hB3⟩ : ∃ B', (if (btl.map summ).isEmpty then trimRows (summRows ys)
            else summRows ys ++ [btl.map summ]) = summRows B' ∧ BlocksOK 0 B' ∧ windowOf B' = R := by
        by_cases hbt : btl = []
        · subst hbt
          obtain ⟨B', h1, h2, h3⟩ := trimRows_repr 0 ys hoky
          exact ⟨B', by simpa using h1, h2, by simp [h3, hR]⟩
        · have : (btl.map summ).isEmpty = false := by simp [hbt]
          refine ⟨ys ++ [btl], by simp [this], ?_, by simp [windowOf_append_singleton, hR]⟩
          rw [BlocksOK_append_singleton]
          exact ⟨hoky, fun b' hb' => hokl b' (List.mem_cons_of_mem _ hb')⟩
      refine ⟨B', hB1, hB2, ?_, ?_, ?_, ?_⟩
      all_goals rw [hB3]
      · exact (List.suffix_append b R).trans hsuf
      · show s.total - (summ b).1 = R.sum
        rw [ht]; simp [summ]
      · show s.variance - ((summ b).2 + _) = ssd R
        rw [hv, ht, ssd_delete b R (2 ^ ys.length) hpos hb hRne]
        simp only [summ, mean, RealNum.ofNat_eq, List.sum_append, hb]
        push_cast
        ring

theorem Repr_checkLoop (c : Cfg ℝ) (fuel : Nat) (s : State ℝ) (xs : List ℝ) (h : Repr s xs) :
    Repr (checkLoop c fuel s) xs := by
  induction fuel generalizing s with
  | zero => exact h
  | succ f ih =>
    rw [checkLoop_succ]
    split
    · rename_i hc
      split
      · exact ih _ (Repr_delete s xs h (scan_true_two hc))
      · exact h
    · exact h

theorem Repr_step (c : Cfg ℝ) (s : State ℝ) (xs : List ℝ) (v : ℝ) (h : Repr s xs) :
    Repr (step c s v) (xs ++ [v]) := by
  have h1 : Repr (ADWIN.insert c { s with n := s.n + 1, drift := false } v) (xs ++ [v]) :=
    Repr_insert c _ xs v h
  unfold step
  simp only []
  split
  · exact Repr_checkLoop c _ _ _ h1
  · exact h1


/-! ### the scan = "some proper split of the window along bucket boundaries is significant" -/

/-- the blocks of the ghost table in window order (oldest first) -/
def blocksOf : List (List (List ℝ)) → List (List ℝ)
  | [] => []
  | r :: rs => blocksOf rs ++ r

theorem windowOf_eq_flatten (B : List (List (List ℝ))) : windowOf B = (blocksOf B).flatten := by
  induction B with
  | nil => rfl
  | cons r rs ih => simp [blocksOf, ih]

/-- what the scan reads of a block: its size and its sum -/
noncomputable def ent (b : List ℝ) : Nat × ℝ := (b.length, b.sum)

theorem entriesOf_summRows (i : Nat) (B : List (List (List ℝ))) (hok : BlocksOK i B) :
    entriesOf i (summRows B) = (blocksOf B).map ent := by
  induction B generalizing i with
  | nil => rfl
  | cons r rs ih =>
    simp only [summRows_cons, entriesOf, blocksOf, List.map_append, ih _ hok.2, List.map_map]
    congr 1
    apply List.map_congr_left
    intro b hb
    simp [ent, summ, hok.1 b hb]

theorem examined_summRows (B : List (List (List ℝ))) (hok : BlocksOK 0 B) :
    examined (summRows B) = (blocksOf B).dropLast.map ent := by
  rw [examined_eq, entriesOf_summRows 0 B hok, List.map_dropLast]

/-- ADWIN's significance test for one split with sub-window sizes `n0`, `n1` and sums `t0`, `t1` -/
def hit (c : Cfg ℝ) (s : State ℝ) (n0 n1 : Nat) (t0 t1 : ℝ) : Prop :=
  c.minWindow < n1 ∧ c.minWindow < n0 ∧
    ∃ thr, threshold c s n0 n1 = some thr ∧ thr < |t0 / (n0 : ℝ) - t1 / (n1 : ℝ)|

theorem scan_cons_iff (c : Cfg ℝ) (s : State ℝ) (sz : Nat) (t : ℝ) (rest : List (Nat × ℝ))
    (n0 n1 : Nat) (t0 t1 : ℝ) :
    scan c s ((sz, t) :: rest) n0 n1 t0 t1 = true ↔
      hit c s (n0 + sz) (n1 - sz) (t0 + t) (t1 - t) ∨ scan c s rest (n0 + sz) (n1 - sz) (t0 + t) (t1 - t) = true := by
  rw [scan.eq_2]
  unfold hit
  by_cases h1 : c.minWindow < n1 - sz <;> by_cases h2 : c.minWindow < n0 + sz <;>
    cases hthr : threshold c s (n0 + sz) (n1 - sz) <;> simp [h1, h2]

theorem scan_blocks_iff (c : Cfg ℝ) (s : State ℝ) (P : List (List ℝ)) (n0 n1 : Nat) (t0 t1 : ℝ) :
    scan c s (P.map ent) n0 n1 t0 t1 = true ↔
      ∃ P1 P2, P = P1 ++ P2 ∧ P1 ≠ [] ∧
        hit c s (n0 + P1.flatten.length) (n1 - P1.flatten.length) (t0 + P1.flatten.sum) (t1 - P1.flatten.sum) := by
  induction P generalizing n0 n1 t0 t1 with
  | nil =>
    simp only [List.map_nil, scan_nil, Bool.false_eq_true, false_iff]
    rintro ⟨P1, P2, h, hne, _⟩
    exact hne (List.append_eq_nil_iff.mp h.symm).1
  | cons b P ih =>
    simp only [List.map_cons, ent]
    rw [scan_cons_iff]
    have hconv : ∀ P1' : List (List ℝ),
        hit c s (n0 + b.length + P1'.flatten.length) (n1 - b.length - P1'.flatten.length)
            (t0 + b.sum + P1'.flatten.sum) (t1 - b.sum - P1'.flatten.sum) ↔
        hit c s (n0 + (b :: P1').flatten.length) (n1 - (b :: P1').flatten.length)
            (t0 + (b :: P1').flatten.sum) (t1 - (b :: P1').flatten.sum) := by
      intro P1'
      simp only [List.flatten_cons, List.length_append, List.sum_append]
      rw [Nat.add_assoc, Nat.sub_add_eq, add_assoc, sub_add_eq_sub_sub]
    constructor
    · rintro (h | h)
      · refine ⟨[b], P, rfl, by simp, ?_⟩
        simpa using h
      · obtain ⟨P1', P2, rfl, hne, hh⟩ := (ih _ _ _ _).1 h
        exact ⟨b :: P1', P2, rfl, by simp, (hconv P1').1 hh⟩
    · rintro ⟨P1, P2, heq, hne, hh⟩
      obtain ⟨b', P1', rfl⟩ := List.exists_cons_of_ne_nil hne
      simp only [List.cons_append, List.cons.injEq] at heq
      obtain ⟨rfl, rfl⟩ := heq
      by_cases hP1 : P1' = []
      · subst hP1
        left; simpa using hh
      · right
        exact (ih _ _ _ _).2 ⟨P1', P2, rfl, hP1, (hconv P1').2 hh⟩

/-- **The scan, read on the window.**  Under the representation invariant the scan returns `true`
iff some *proper* split `W = W0 ++ W1` of the window along a bucket boundary (`W0` = the oldest
`|P|` buckets, both parts non-empty) passes ADWIN's test with the exact sizes and sums of `W0`, `W1`. -/
theorem cutFound_iff_split (c : Cfg ℝ) (s : State ℝ) (xs : List ℝ) (B : List (List (List ℝ)))
    (h : ReprB s xs B) :
    cutFound c s = true ↔
      ∃ P Q, blocksOf B = P ++ Q ∧ P ≠ [] ∧ Q ≠ [] ∧
        hit c s P.flatten.length Q.flatten.length P.flatten.sum Q.flatten.sum := by
  obtain ⟨hrows, hok, _, hw, ht, _⟩ := h
  rw [windowOf_eq_flatten] at hw ht
  unfold cutFound
  rw [hrows, examined_summRows B hok, scan_blocks_iff]
  constructor
  · rintro ⟨P1, P2, heq, hne, hh⟩
    rcases List.eq_nil_or_concat (blocksOf B) with h0 | ⟨D, l, hD⟩
    · rw [h0] at heq; simp at heq; exact absurd heq.1 hne
    · rw [List.concat_eq_append] at hD
      rw [hD, List.dropLast_concat] at heq
      refine ⟨P1, P2 ++ [l], by rw [hD, heq, List.append_assoc], hne, by simp, ?_⟩
      rw [hD, heq] at hw ht
      have e1 : s.width - P1.flatten.length = (P2 ++ [l]).flatten.length := by
        rw [hw]; simp
      have e2 : s.total - P1.flatten.sum = (P2 ++ [l]).flatten.sum := by
        rw [ht]; simp
      rw [e1, e2] at hh
      simpa [RealNum.zero_eq] using hh
  · rintro ⟨P, Q, heq, hP, hQ, hh⟩
    rcases List.eq_nil_or_concat Q with h0 | ⟨Q', l, hQ'⟩
    · exact absurd h0 hQ
    · rw [List.concat_eq_append] at hQ'
      subst hQ'
      refine ⟨P, Q', by rw [heq, ← List.append_assoc, List.dropLast_concat], hP, ?_⟩
      rw [heq] at hw ht
      have e1 : s.width - P.flatten.length = (Q' ++ [l]).flatten.length := by
        rw [hw]; simp
      have e2 : s.total - P.flatten.sum = (Q' ++ [l]).flatten.sum := by
        rw [ht]; simp
      rw [e1, e2]
      simpa [RealNum.zero_eq] using hh

end Frouros.C05
