/- Constant streams: RDDM (DDM + a circular queue of recent predictions that is replayed). -/
import FrourosProofs.Lemmas.ConstDDM

namespace Frouros.C01c
open Frouros
namespace Rddm

/-! ### the circular queue when every enqueued value is `c` -/

/-- Representation invariant of the prediction queue on a constant stream without `keepLast`:
*fill phase* – `first = 0`, the next write position is `count`, positions `< count` hold `c`;
*full* – every position holds `c` (then `first`/`last` may be anywhere). -/
structure QC (c : ℝ) (q : CQ ℝ) : Prop where
  len : q.buf.length = q.maxLen
  cap : 1 ≤ q.maxLen
  phase : (q.count < q.maxLen ∧ q.first = 0 ∧ q.nextLast = q.count ∧ ∀ j < q.count, q.buf.getD j none = some c) ∨
          (q.count = q.maxLen ∧ q.first < q.maxLen ∧ ∀ j < q.maxLen, q.buf.getD j none = some c)

theorem qc_init (c : ℝ) {n : Nat} (hn : 1 ≤ n) : QC c (CQ.init n) := by
  refine ⟨by simp [CQ.init], hn, Or.inl ⟨hn, rfl, ?_, fun j hj => absurd hj (Nat.not_lt_zero j)⟩⟩
  simp [CQ.init, CQ.nextLast]

theorem qc_clear {c : ℝ} {q : CQ ℝ} (h : QC c q) : QC c q.clear := by
  refine ⟨by simp [CQ.clear], h.cap, Or.inl ⟨h.cap, rfl, ?_, fun j hj => absurd hj (Nat.not_lt_zero j)⟩⟩
  simp [CQ.clear, CQ.nextLast]

theorem getD_set_const {c : ℝ} {buf : List (Option ℝ)} {n : Nat} (l : Nat)
    (h : ∀ j < n, buf.getD j none = some c) : ∀ j < n, (buf.set l (some c)).getD j none = some c := by
  intro j hj
  have hb := h j hj
  simp only [List.getD_eq_getElem?_getD] at hb ⊢
  by_cases hl : l = j
  · subst hl
    by_cases hlen : l < buf.length
    · simp [hlen]
    · have : buf[l]? = none := List.getElem?_eq_none (by omega)
      rw [this] at hb; simp at hb
  · rw [List.getElem?_set_ne hl]; exact hb

theorem getD_set_self {c : ℝ} {buf : List (Option ℝ)} {l : Nat} (hl : l < buf.length) :
    (buf.set l (some c)).getD l none = some c := by
  simp [List.getD_eq_getElem?_getD, hl]

/-- the write half of `enqueue` -/
def enq (q : CQ ℝ) (c : ℝ) : CQ ℝ :=
  { q with last := some q.nextLast, buf := q.buf.set q.nextLast (some c), count := q.count + 1 }

/-- the eviction half of `enqueue` on a full queue -/
def evict (q : CQ ℝ) : CQ ℝ := { q with first := (q.first + 1) % q.maxLen, count := q.count - 1 }

theorem enqueue_not_full {q : CQ ℝ} (c : ℝ) (h : q.isFull = false) : q.enqueue c = .ok (none, enq q c) := by
  simp [CQ.enqueue, h, enq]

theorem enqueue_full {q : CQ ℝ} (c : ℝ) (h : q.isFull = true) (he : q.isEmpty = false) :
    q.enqueue c = .ok (q.buf.getD q.first none, enq (evict q) c) := by
  simp [CQ.enqueue, h, CQ.dequeue, he, enq, evict]

/-- enqueueing `c` never raises and preserves the invariant and the capacity -/
theorem qc_enqueue {c : ℝ} {q : CQ ℝ} (h : QC c q) :
    ∃ ev q', q.enqueue c = .ok (ev, q') ∧ QC c q' ∧ q'.maxLen = q.maxLen ∧ 1 ≤ q'.count := by
  rcases h.phase with ⟨hlt, hf, hnl, hbuf⟩ | ⟨heq, hf, hbuf⟩
  · -- fill phase: not full
    have hfull : q.isFull = false := by simp [CQ.isFull]; omega
    refine ⟨none, enq q c, enqueue_not_full c hfull, ?_, rfl, by simp [enq]⟩
    refine ⟨by simp [enq, h.len], h.cap, ?_⟩
    have hself : (q.buf.set q.count (some c)).getD q.count none = some c :=
      getD_set_self (by rw [h.len]; exact hlt)
    simp only [enq, hnl]
    by_cases hlast : q.count + 1 < q.maxLen
    · left
      refine ⟨hlast, hf, ?_, ?_⟩
      · simp [CQ.nextLast, Nat.mod_eq_of_lt hlast]
      · intro j hj
        by_cases hjc : j = q.count
        · subst hjc; exact hself
        · exact getD_set_const _ hbuf j (by omega)
    · right
      refine ⟨by omega, by omega, ?_⟩
      intro j hj
      by_cases hjc : j = q.count
      · subst hjc; exact hself
      · exact getD_set_const _ hbuf j (by omega)
  · -- full: evict the oldest, write somewhere (every slot already holds `c`)
    have hcap := h.cap
    have hfull : q.isFull = true := by simp [CQ.isFull, heq]
    have hemp : q.isEmpty = false := by simp [CQ.isEmpty]; omega
    refine ⟨q.buf.getD q.first none, enq (evict q) c, enqueue_full c hfull hemp, ?_, rfl, by simp [enq]⟩
    refine ⟨by simp [enq, evict, h.len], h.cap, Or.inr ⟨?_, ?_, ?_⟩⟩
    · simp [enq, evict]; omega
    · exact Nat.mod_lt _ (by omega)
    · exact getD_set_const _ hbuf

/-! ### the replay loop reads only genuine entries, all equal to `c` -/

/-- every position the replay visits (`k` of them, from `pos`, stepping `+1 mod cap`) holds `c` -/
def Visit (c : ℝ) (q : CQ ℝ) (cap : Nat) : Nat → Nat → Prop
  | _, 0 => True
  | pos, k + 1 => q.get pos = some c ∧ Visit c q cap ((pos + 1) % cap) k

theorem visit_of_qc {c : ℝ} {q : CQ ℝ} (h : QC c q) : Visit c q q.maxLen q.first q.count := by
  rcases h.phase with ⟨hlt, hf, _, hbuf⟩ | ⟨_, hf, hbuf⟩
  · have H : ∀ k pos, pos + k ≤ q.count → Visit c q q.maxLen pos k := by
      intro k
      induction k with
      | zero => intro _ _; trivial
      | succ k ih =>
        intro pos hp
        refine ⟨hbuf pos (by omega), ?_⟩
        rw [Nat.mod_eq_of_lt (by omega)]
        exact ih (pos + 1) (by omega)
    rw [hf]; exact H _ 0 (by omega)
  · have H : ∀ k pos, pos < q.maxLen → Visit c q q.maxLen pos k := by
      intro k
      induction k with
      | zero => intro _ _; trivial
      | succ k ih =>
        intro pos hp
        exact ⟨hbuf pos hp, ih _ (Nat.mod_lt _ (by omega))⟩
    exact H _ _ hf

/-- replaying `k` copies of `c` (no drift flag: the minimum is left alone) -/
theorem replay_const (cfg : RDDM.Cfg ℝ) {c : ℝ} (q : CQ ℝ) :
    ∀ (k pos n : Nat) (er : Mean ℝ), Visit c q cfg.minConcept pos k → MeanConst c er →
      ∃ er', RDDM.replay cfg false q k pos n er none = (n + k, er', none) ∧ MeanConst c er' := by
  intro k
  induction k with
  | zero => intro pos n er _ her; exact ⟨er, rfl, her⟩
  | succ k ih =>
    intro pos n er hv her
    obtain ⟨hget, hrest⟩ := hv
    obtain ⟨er', h1, h2⟩ := ih ((pos + 1) % cfg.minConcept) (n + 1) (er.update c) hrest (meanConst_update her)
    refine ⟨er', ?_, h2⟩
    unfold RDDM.replay
    simp only [hget, Bool.false_and, Bool.false_eq_true, if_false]
    rw [h1]; congr 1; omega

/-! ### the invariant -/
open RDDM

structure Inv (cfg : Cfg ℝ) (c : ℝ) (s : State ℝ) : Prop where
  er : MeanConst c s.er
  minPS : s.minPS = none ∨ s.minPS = some (c, 0)
  q : QC c s.preds
  cap : s.preds.maxLen = cfg.minConcept
  drift : s.drift = false
  warning : s.warning = false

theorem inv_init {cfg : Cfg ℝ} (hcap : 1 ≤ cfg.minConcept) (c : ℝ) : Inv cfg c (init cfg) :=
  ⟨meanConst_init c, Or.inl rfl, qc_init c hcap, rfl, rfl, rfl⟩

theorem inv_reset {cfg : Cfg ℝ} {c : ℝ} {s : State ℝ} (h : Inv cfg c s) : Inv cfg c (reset s) :=
  ⟨meanConst_init c, Or.inl rfl, qc_clear h.q, h.cap, rfl, rfl⟩

/-- `_rdd_drift_case` on the constant stream: the statistics are rebuilt from the queue, `p = c` again -/
theorem inv_rebuild {cfg : Cfg ℝ} {c : ℝ} {s : State ℝ} (h : Inv cfg c s) : Inv cfg c (rebuild cfg s) := by
  have hv := visit_of_qc h.q
  rw [h.cap] at hv
  obtain ⟨er', h1, h2⟩ := replay_const cfg s.preds s.preds.count s.preds.first 0 Mean.init hv (meanConst_init c)
  unfold rebuild
  rw [h.drift, h1]
  exact ⟨h2, Or.inl rfl, h.q, h.cap, rfl, h.warning⟩

/-- the part of `step` after the optional rebuild -/
def post {α : Type} [Num α] (c : Cfg α) (s : State α) (v : α) : State α :=
  match s.preds.enqueue v with
  | .error e => { s with err := some e }
  | .ok (_, q) =>
  let s := { s with preds := q, er := s.er.update v }
  if c.minN ≤ s.n then
    let (eps, std) := DDM.epsStd s.er s.n
    let m := if DDM.belowMin eps s.minPS then some (s.er.mean, std) else s.minPS
    let s := { s with minPS := m }
    if DDM.exceeds eps m c.drift then
      let s := { s with rddmDrift := true, drift := true, warning := false }
      if s.numWarnings == 0 then keepLast s else s
    else
      let s :=
        if DDM.exceeds eps m c.warn then
          if c.maxWarn ≤ s.numWarnings then
            keepLast { s with rddmDrift := true, drift := true, warning := false }
          else
            { s with warning := true, numWarnings := s.numWarnings + 1, drift := false }
        else
          { s with drift := false, warning := false, numWarnings := 0 }
      if decide (c.maxConcept ≤ s.n) && !s.warning then { s with rddmDrift := true } else s
  else
    { s with drift := false, warning := false }

theorem step_eq (c : Cfg ℝ) (s0 : State ℝ) (v : ℝ) :
    step c s0 v = post c (if s0.rddmDrift then rebuild c { s0 with n := s0.n + 1 } else { s0 with n := s0.n + 1 }) v := by
  unfold step post
  rfl

theorem inv_post (cfg : Cfg ℝ) {c : ℝ} (hc : c = 0 ∨ c = 1) {s : State ℝ} (h : Inv cfg c s) :
    Inv cfg c (post cfg s c) := by
  obtain ⟨ev, q', henq, hq', hcap', _⟩ := qc_enqueue h.q
  have hE := epsStd_const hc h.er s.n
  have hm := meanConst_update h.er
  unfold post
  simp only [henq, hE]
  by_cases hmin : cfg.minN ≤ s.n
  · rcases h.minPS with hp | hp
    · simp [hmin, hp, DDM.belowMin, DDM.exceeds, meanConst_update_mean h.er]
      split
      · exact ⟨hm, Or.inr rfl, hq', by rw [hcap', h.cap], rfl, rfl⟩
      · exact ⟨hm, Or.inr rfl, hq', by rw [hcap', h.cap], rfl, rfl⟩
    · simp [hmin, hp, DDM.belowMin, DDM.exceeds]
      split
      · exact ⟨hm, Or.inr rfl, hq', by rw [hcap', h.cap], rfl, rfl⟩
      · exact ⟨hm, Or.inr rfl, hq', by rw [hcap', h.cap], rfl, rfl⟩
  · simp only [hmin, if_false]
    exact ⟨hm, h.minPS, hq', by rw [hcap', h.cap], rfl, rfl⟩

theorem inv_step (cfg : Cfg ℝ) {c : ℝ} (hc : c = 0 ∨ c = 1) {s : State ℝ} (h : Inv cfg c s) :
    Inv cfg c (step cfg s c) := by
  rw [step_eq]
  apply inv_post cfg hc
  have h' : Inv cfg c { s with n := s.n + 1 } := ⟨h.er, h.minPS, h.q, h.cap, h.drift, h.warning⟩
  split
  · exact inv_rebuild h'
  · exact h'

end Rddm
end Frouros.C01c
