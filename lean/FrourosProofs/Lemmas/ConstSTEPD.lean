/- Constant streams: STEPD. -/
import FrourosProofs.Lemmas.ConstCommon

namespace Frouros.C01c
open Frouros
namespace Stepd
open STEPD

/-! ### the accuracy queue -/

/-- `enqueue` raises only on a queue that is at once full and empty (capacity 0) -/
theorem enqueue_error {a : AccQ} {v : Bool} {e : Err} (h : a.enqueue v = .error e) :
    a.q.isFull = true ∧ a.q.isEmpty = true := by
  unfold AccQ.enqueue at h
  by_cases hf : a.q.isFull = true
  · refine ⟨hf, ?_⟩
    by_cases he : a.q.isEmpty = true
    · exact he
    · simp [hf, AccQ.dequeue, CQ.dequeue, he] at h
  · simp [hf] at h

theorem enqueue_stuck {a : AccQ} (v : Bool) (hf : a.q.isFull = true) (he : a.q.isEmpty = true) :
    a.enqueue v = .error .emptyQueue := by
  simp [AccQ.enqueue, hf, AccQ.dequeue, CQ.dequeue, he]

/-- bookkeeping of a successful `enqueue`: capacity unchanged, `1 ≤ count ≤ capacity` afterwards -/
theorem enqueue_ok {a a' : AccQ} {v : Bool} (h : a.enqueue v = .ok a') :
    a'.q.maxLen = a.q.maxLen ∧ (a.q.count ≤ a.q.maxLen → 1 ≤ a'.q.count ∧ a'.q.count ≤ a'.q.maxLen) := by
  unfold AccQ.enqueue at h
  by_cases hf : a.q.isFull = true
  · by_cases he : a.q.isEmpty = true
    · simp [hf, AccQ.dequeue, CQ.dequeue, he] at h
    · simp [hf, AccQ.dequeue, CQ.dequeue, he] at h
      subst h
      simp [CQ.isFull, CQ.isEmpty] at hf he ⊢
      omega
  · simp [hf] at h
    subst h
    simp [CQ.isFull] at hf ⊢
    omega

/-! ### the statistic on a constant stream -/

/-- all (`ct = n`) or none (`ct = 0`) of the `n ≥ 1` predictions correct: `p̂ (1 - p̂) = 0`, the pooled
standard deviation is `0` and the statistic is `-inf` (`none`) -/
theorem statistic_const (n ct nw cw : Nat) (h : ct = n + 1 ∨ ct = 0) :
    statistic (α := ℝ) (n + 1) ct nw cw = none := by
  have hp : (Num.ofNat ct : ℝ) / Num.ofNat (n + 1) * (Num.one - Num.ofNat ct / Num.ofNat (n + 1)) = 0 := by
    rcases h with rfl | rfl
    · have : ((n + 1 : Nat) : ℝ) ≠ 0 := by exact_mod_cast Nat.succ_ne_zero n
      simp only [RealNum.ofNat_eq, RealNum.one_eq, div_self this, sub_self, mul_zero]
    · simp
  unfold statistic
  simp only [hp, zero_mul, RealNum.sqrt_eq, Real.sqrt_zero]
  simp

/-! ### the invariant -/

/-- number of correct predictions after `n` values of the constant stream `b` -/
def ctOf (b : Bool) (n : Nat) : Nat := if b then n else 0

/-- `correct_total` is `n` (constant `true`) or `0` (constant `false`) – unless the window has
capacity 0 (`minN = 0`, rejected by the constructor), in which case every update raises and nothing
but `n` changes -/
def CInv (b : Bool) (s : State) : Prop :=
  s.correctTotal = ctOf b s.n ∨ (s.win.q.isFull = true ∧ s.win.q.isEmpty = true)

/-- the count invariant, and no flag is up -/
structure Inv (b : Bool) (s : State) : Prop where
  ct : CInv b s
  drift : s.drift = false
  warning : s.warning = false

theorem cinv_init (cfg : Cfg ℝ) (b : Bool) : CInv b (init cfg) := Or.inl (by cases b <;> rfl)
theorem cinv_reset (b : Bool) (s : State) : CInv b (reset s) := Or.inl (by cases b <;> rfl)
theorem inv_init (cfg : Cfg ℝ) (b : Bool) : Inv b (init cfg) := ⟨cinv_init cfg b, rfl, rfl⟩
theorem inv_reset (b : Bool) (s : State) : Inv b (reset s) := ⟨cinv_reset b s, rfl, rfl⟩

theorem ct_step {b : Bool} {s : State} {win : AccQ} (h : CInv b s) (henq : s.win.enqueue b = .ok win) :
    s.correctTotal + (if b then 1 else 0) = ctOf b (s.n + 1) := by
  have hct : s.correctTotal = ctOf b s.n := by
    rcases h with h1 | ⟨hf, he⟩
    · exact h1
    · rw [enqueue_stuck b hf he] at henq; cases henq
  rw [hct]; cases b <;> simp [ctOf]

/-- what `step` computes on the constant stream: the p-value is `1` -/
theorem step_const_eq (sf : ℝ → ℝ) (cfg : Cfg ℝ) {b : Bool} {s : State} {win : AccQ} (h : CInv b s)
    (henq : s.win.enqueue b = .ok win) : step sf cfg s b =
      if 2 * cfg.minN ≤ s.n + 1 then
        if 1 < cfg.alphaD then
          { s with n := s.n + 1, correctTotal := ctOf b (s.n + 1), win := win, drift := true, warning := false }
        else
          { s with n := s.n + 1, correctTotal := ctOf b (s.n + 1), win := win, drift := false,
                   warning := decide (1 < cfg.alphaW) }
      else { s with n := s.n + 1, correctTotal := ctOf b (s.n + 1), win := win, drift := false, warning := false } := by
  have hstat := statistic_const s.n (ctOf b (s.n + 1)) win.q.count win.numTrue (by cases b <;> simp [ctOf])
  unfold step
  simp only [henq, ct_step h henq, hstat]
  by_cases h2 : 2 * cfg.minN ≤ s.n + 1
  · simp only [h2, if_true]
    by_cases hD : 1 < cfg.alphaD
    · simp [hD]
    · simp [hD]; rfl
  · simp only [h2, if_false]

theorem step_error_eq (sf : ℝ → ℝ) (cfg : Cfg ℝ) {b : Bool} {s : State} {e : Err}
    (henq : s.win.enqueue b = .error e) : step sf cfg s b = { s with n := s.n + 1, err := some e } := by
  unfold step; simp only [henq]

theorem cinv_step (sf : ℝ → ℝ) (cfg : Cfg ℝ) {b : Bool} {s : State} (h : CInv b s) :
    CInv b (step sf cfg s b) := by
  cases henq : s.win.enqueue b with
  | error e => rw [step_error_eq sf cfg henq]; exact Or.inr (enqueue_error henq)
  | ok win =>
    rw [step_const_eq sf cfg h henq]
    split_ifs <;> exact Or.inl rfl

theorem inv_step (sf : ℝ → ℝ) {cfg : Cfg ℝ} (hD : ¬ 1 < cfg.alphaD) (hW : ¬ 1 < cfg.alphaW) {b : Bool}
    {s : State} (h : Inv b s) : Inv b (step sf cfg s b) := by
  have hc := cinv_step sf cfg h.ct
  cases henq : s.win.enqueue b with
  | error e =>
    rw [step_error_eq sf cfg henq] at hc ⊢
    exact ⟨hc, h.drift, h.warning⟩
  | ok win =>
    rw [step_const_eq sf cfg h.ct henq] at hc ⊢
    by_cases h2 : 2 * cfg.minN ≤ s.n + 1
    · simp only [h2, if_true, hD, if_false, hW, decide_false] at hc ⊢
      exact ⟨hc, rfl, rfl⟩
    · simp only [h2, if_false] at hc ⊢
      exact ⟨hc, rfl, rfl⟩

/-- **finding**: with `alpha_w > 1` (the constructor only checks `0 < alpha_d < alpha_w`) the p-value `1`
of a constant stream is "significant": a warning is raised as soon as the test is evaluated -/
theorem warn_step (sf : ℝ → ℝ) {cfg : Cfg ℝ} (hD : ¬ 1 < cfg.alphaD) (hW : 1 < cfg.alphaW) {b : Bool}
    {s : State} {win : AccQ} (h : CInv b s) (henq : s.win.enqueue b = .ok win)
    (h2 : 2 * cfg.minN ≤ s.n + 1) :
    (step sf cfg s b).drift = false ∧ (step sf cfg s b).warning = true := by
  rw [step_const_eq sf cfg h henq]
  simp [h2, hD, hW]

/-! ### queue bookkeeping (any stream): with `minN ≥ 1` the window never raises -/

structure QInv (cfg : Cfg ℝ) (s : State) : Prop where
  maxLen : s.win.q.maxLen = cfg.minN
  count : s.win.q.count ≤ s.win.q.maxLen

theorem qinv_init (cfg : Cfg ℝ) : QInv cfg (init cfg) := ⟨rfl, Nat.zero_le _⟩
theorem qinv_reset {cfg : Cfg ℝ} {s : State} (h : QInv cfg s) : QInv cfg (reset s) := ⟨h.maxLen, Nat.zero_le _⟩

theorem enqueue_succeeds {cfg : Cfg ℝ} (hmin : 1 ≤ cfg.minN) {s : State} (h : QInv cfg s) (v : Bool) :
    ∃ win, s.win.enqueue v = .ok win := by
  cases henq : s.win.enqueue v with
  | ok win => exact ⟨win, rfl⟩
  | error e =>
    obtain ⟨hf, he⟩ := enqueue_error henq
    have := h.maxLen
    simp [CQ.isFull, CQ.isEmpty] at hf he
    omega

theorem step_n (sf : ℝ → ℝ) (cfg : Cfg ℝ) (s : State) (v : Bool) : (step sf cfg s v).n = s.n + 1 := by
  unfold step
  simp only []
  repeat' split
  all_goals rfl

theorem qinv_step (sf : ℝ → ℝ) {cfg : Cfg ℝ} {s : State} (h : QInv cfg s) (v : Bool) :
    QInv cfg (step sf cfg s v) := by
  cases henq : s.win.enqueue v with
  | error e =>
    have : step sf cfg s v = { s with n := s.n + 1, err := some e } := by
      unfold step; simp only [henq]
    rw [this]; exact ⟨h.maxLen, h.count⟩
  | ok win =>
    obtain ⟨h1, h2⟩ := enqueue_ok henq
    have hw : (step sf cfg s v).win = win := by
      unfold step; simp only [henq]
      repeat' split
      all_goals rfl
    exact ⟨by rw [hw, h1, h.maxLen], by rw [hw]; exact (h2 h.count).2⟩

/-- the denominators `n_o = n - n_w` and `n_w` of the statistic are positive whenever it is evaluated
(so `1/n_o + 1/n_w` is never a division by zero) -/
theorem denominators_pos {cfg : Cfg ℝ} (hmin : 1 ≤ cfg.minN) {s : State} (h : QInv cfg s) {v : Bool}
    {win : AccQ} (henq : s.win.enqueue v = .ok win) (h2 : 2 * cfg.minN ≤ s.n + 1) :
    1 ≤ win.q.count ∧ 1 ≤ (s.n + 1) - win.q.count := by
  obtain ⟨h1, h3⟩ := enqueue_ok henq
  have := h3 h.count
  have := h.maxLen
  omega

end Stepd
end Frouros.C01c
