/-
  Helper lemmas for the object-level model `FrourosModel/Heap.lean`:
  read/write/alloc algebra, reachability (`Reach`) and its frame lemma, the callback loops.
  Core Lean only (no Mathlib needed).
-/
import FrourosModel.Heap
namespace Frouros.Heap

variable {D V R : Type}

/-! ### store algebra -/

theorem read_lt {h : Heap D} {r : Ref} {o : Obj D} (hr : read h r = some o) : r < h.length := by
  unfold read at hr
  exact (List.getElem?_eq_some_iff.mp hr).1

theorem read_ge {h : Heap D} {r : Ref} (hr : h.length ≤ r) : read h r = none := by
  unfold read; exact List.getElem?_eq_none hr

theorem read_write (h : Heap D) (r r' : Ref) (o : Obj D) :
    read (write h r o) r' = if r = r' then (if r < h.length then some o else none) else read h r' := by
  unfold read write
  rw [List.getElem?_set]

theorem read_write_ne {h : Heap D} {r r' : Ref} (o : Obj D) (hne : r' ≠ r) : read (write h r o) r' = read h r' := by
  rw [read_write, if_neg (Ne.symm hne)]

theorem read_write_eq {h : Heap D} {r : Ref} (o : Obj D) (hr : r < h.length) : read (write h r o) r = some o := by
  rw [read_write, if_pos rfl, if_pos hr]

@[simp] theorem length_write (h : Heap D) (r : Ref) (o : Obj D) : (write h r o).length = h.length := by
  unfold write; simp

theorem read_append_lt {h : Heap D} (l : Heap D) {r : Ref} (hr : r < h.length) : read (h ++ l) r = read h r := by
  unfold read; exact List.getElem?_append_left hr

theorem read_append_length (h : Heap D) (o : Obj D) : read (h ++ [o]) h.length = some o := by
  unfold read; simp

/-- two stores with the same cells are equal -/
theorem heap_ext {h h' : Heap D} (hr : ∀ r, read h' r = read h r) : h' = h :=
  List.ext_getElem? hr

/-! ### typed reads -/

theorem getData_eq_some {h : Heap D} {r : Ref} {d : D} : getData h r = some d ↔ read h r = some (.data d) := by
  unfold getData; split <;> simp_all
theorem getCfg_eq_some {h : Heap D} {r : Ref} {p : D × Option Ref} :
    getCfg h r = some p ↔ read h r = some (.config p.1 p.2) := by
  unfold getCfg; split <;> simp_all [Prod.ext_iff]
theorem getList_eq_some {h : Heap D} {r : Ref} {l : List Ref} : getList h r = some l ↔ read h r = some (.list l) := by
  unfold getList; split <;> simp_all
theorem getCb_eq_some {h : Heap D} {r : Ref} {c : Cb D} : getCb h r = some c ↔ read h r = some (.callback c) := by
  unfold getCb; split <;> simp_all
theorem getDet_eq_some {h : Heap D} {r : Ref} {x : Det D} : getDet h r = some x ↔ read h r = some (.detector x) := by
  unfold getDet; split <;> simp_all

/-! ### reachability -/

/-- `Reach h a b`: `b` is reachable from `a` by following references stored in cells of `h` -/
inductive Reach (h : Heap D) : Ref → Ref → Prop where
  | refl (a : Ref) : Reach h a a
  | step {a b c : Ref} {o : Obj D} : read h a = some o → b ∈ edges o → Reach h b c → Reach h a c

theorem Reach.trans {h : Heap D} {a b c : Ref} (h1 : Reach h a b) (h2 : Reach h b c) : Reach h a c := by
  induction h1 with
  | refl => exact h2
  | step hr he _ ih => exact Reach.step hr he (ih h2)

theorem Reach.edge {h : Heap D} {a b : Ref} {o : Obj D} (hr : read h a = some o) (he : b ∈ edges o) : Reach h a b :=
  Reach.step hr he (Reach.refl b)

/-- one direction of the frame lemma -/
theorem Reach.of_agree {h h' : Heap D} {a c : Ref} (hag : ∀ r, Reach h a r → read h' r = read h r)
    (hr : Reach h' a c) : Reach h a c := by
  induction hr with
  | refl => exact Reach.refl _
  | @step a b c o hra he _ ih =>
    have h1 : read h a = some o := by rw [← hag a (Reach.refl a)]; exact hra
    have hab : Reach h a b := Reach.edge h1 he
    exact hab.trans (ih (fun r hr => hag r (hab.trans hr)))

theorem Reach.to_agree {h h' : Heap D} {a c : Ref} (hag : ∀ r, Reach h a r → read h' r = read h r)
    (hr : Reach h a c) : Reach h' a c := by
  induction hr with
  | refl => exact Reach.refl _
  | @step a b c o hra he _ ih =>
    have h1 : read h' a = some o := by rw [hag a (Reach.refl a)]; exact hra
    have hab : Reach h a b := Reach.edge hra he
    exact Reach.step h1 he (ih (fun r hr => hag r (hab.trans hr)))

/-- **frame lemma for reachability**: if no cell reachable from `a` is changed, the set of cells
reachable from `a` is the same afterwards. -/
theorem reach_frame {h h' : Heap D} {a : Ref} (hag : ∀ r, Reach h a r → read h' r = read h r) (c : Ref) :
    Reach h' a c ↔ Reach h a c :=
  ⟨Reach.of_agree hag, Reach.to_agree hag⟩

/-- everything reachable from `a` lies in any set containing `a` and closed under the edges of `h` -/
theorem Reach.subset {h : Heap D} {P : Ref → Prop} (hcl : ∀ x o y, P x → read h x = some o → y ∈ edges o → P y)
    {a c : Ref} (hr : Reach h a c) (ha : P a) : P c := by
  induction hr with
  | refl => exact ha
  | step hra he _ ih => exact ih (hcl _ _ _ ha hra he)

/-! ### loops over the callback list -/

/-- induction principle for `forEach`: a reflexive, transitive relation established by every step -/
theorem forEach_rel {f : Heap D → Ref → Option (Heap D)} (P : Heap D → Heap D → Prop)
    (hrefl : ∀ h, P h h) (htrans : ∀ h1 h2 h3, P h1 h2 → P h2 h3 → P h1 h3)
    {items : List Ref} (hstep : ∀ h c h', c ∈ items → f h c = some h' → P h h')
    {h h' : Heap D} (hrun : forEach f h items = some h') : P h h' := by
  induction items generalizing h with
  | nil => simp only [forEach, Option.some.injEq] at hrun; subst hrun; exact hrefl h
  | cons c cs ih =>
    simp only [forEach] at hrun
    split at hrun
    · next h1 hf =>
      exact htrans _ _ _ (hstep h c h1 (List.mem_cons_self) hf)
        (ih (fun h c' h' hc' => hstep h c' h' (List.mem_cons_of_mem _ hc')) hrun)
    · exact absurd hrun (by simp)

/-- what a loop of callback methods that only write their own callback object does: the length of
the store and every cell are unchanged, except that callback cells of the list may be replaced by a
callback cell of the same class with the same back-reference -/
def CbOnly (items : List Ref) (h h' : Heap D) : Prop :=
  h'.length = h.length ∧
  ∀ r, read h' r = read h r ∨
    (r ∈ items ∧ ∃ cb cb', read h r = some (.callback cb) ∧ read h' r = some (.callback cb') ∧
      cb'.kind = cb.kind ∧ cb'.detector = cb.detector)

theorem CbOnly.refl (items : List Ref) (h : Heap D) : CbOnly items h h := ⟨rfl, fun _ => Or.inl rfl⟩

theorem CbOnly.trans {items : List Ref} {h1 h2 h3 : Heap D} (a : CbOnly items h1 h2) (b : CbOnly items h2 h3) :
    CbOnly items h1 h3 := by
  refine ⟨b.1.trans a.1, fun r => ?_⟩
  rcases b.2 r with hb | ⟨hm, cb, cb', hb1, hb2, hk, hd⟩
  · rcases a.2 r with ha | ⟨hm, cb, cb', ha1, ha2, hk, hd⟩
    · exact Or.inl (hb.trans ha)
    · exact Or.inr ⟨hm, cb, cb', ha1, hb.trans ha2, hk, hd⟩
  · rcases a.2 r with ha | ⟨_, cb0, cb1, ha1, ha2, hk', hd'⟩
    · exact Or.inr ⟨hm, cb, cb', ha ▸ hb1, hb2, hk, hd⟩
    · rw [ha2] at hb1
      cases hb1
      exact Or.inr ⟨hm, cb0, cb', ha1, hb2, hk.trans hk', hd.trans hd'⟩

/-- a write of a callback cell over a callback cell of the same class and back-reference -/
theorem CbOnly.write {items : List Ref} {h : Heap D} {c : Ref} {cb cb' : Cb D} (hc : c ∈ items)
    (hr : read h c = some (.callback cb)) (hk : cb'.kind = cb.kind) (hd : cb'.detector = cb.detector) :
    CbOnly items h (write h c (.callback cb')) := by
  refine ⟨length_write _ _ _, fun r => ?_⟩
  by_cases hrc : r = c
  · subst hrc
    exact Or.inr ⟨hc, cb, cb', hr, read_write_eq _ (read_lt hr), hk, hd⟩
  · exact Or.inl (read_write_ne _ hrc)

theorem CbOnly.not_mem {items : List Ref} {h h' : Heap D} (a : CbOnly items h h') {r : Ref} (hr : r ∉ items) :
    read h' r = read h r := by
  rcases a.2 r with h1 | ⟨hm, _⟩
  · exact h1
  · exact absurd hm hr

/-- a cell that is not a callback is not changed -/
theorem CbOnly.not_cb {items : List Ref} {h h' : Heap D} (a : CbOnly items h h') {r : Ref}
    (hr : ∀ cb, read h r ≠ some (.callback cb)) : read h' r = read h r := by
  rcases a.2 r with h1 | ⟨_, cb, _, h2, _⟩
  · exact h1
  · exact absurd h2 (hr cb)

/-- conversely: a cell that is not a callback afterwards was not changed -/
theorem CbOnly.not_cb' {items : List Ref} {h h' : Heap D} (a : CbOnly items h h') {r : Ref}
    (hr : ∀ cb, read h' r ≠ some (.callback cb)) : read h' r = read h r := by
  rcases a.2 r with h1 | ⟨_, _, cb', _, h2, _⟩
  · exact h1
  · exact absurd h2 (hr cb')

theorem onUpdateEnd_cbOnly (S : Sem D V R) (v : V) {items : List Ref} {h h' : Heap D} {c : Ref} (hc : c ∈ items)
    (hrun : onUpdateEnd S v h c = some h') : CbOnly items h h' := by
  unfold onUpdateEnd at hrun
  split at hrun
  · exact absurd hrun (by simp)
  next cb hcb =>
  split at hrun
  · exact absurd hrun (by simp)
  split at hrun
  · exact absurd hrun (by simp)
  split at hrun
  · exact absurd hrun (by simp)
  simp only [Option.some.injEq] at hrun
  subst hrun
  exact CbOnly.write hc (getCb_eq_some.mp hcb) rfl rfl

theorem cbReset_cbOnly {items : List Ref} {h h' : Heap D} {c : Ref} (hc : c ∈ items)
    (hrun : cbReset h c = some h') : CbOnly items h h' := by
  unfold cbReset at hrun
  split at hrun
  · exact absurd hrun (by simp)
  next cb hcb =>
  simp only [Option.some.injEq] at hrun
  subst hrun
  exact CbOnly.write hc (getCb_eq_some.mp hcb) rfl rfl

theorem forEach_onUpdateEnd (S : Sem D V R) (v : V) {items : List Ref} {h h' : Heap D}
    (hrun : forEach (onUpdateEnd S v) h items = some h') : CbOnly items h h' :=
  forEach_rel (CbOnly items) (CbOnly.refl items) (fun _ _ _ => CbOnly.trans)
    (fun _ _ _ hc hf => onUpdateEnd_cbOnly S v hc hf) hrun

theorem forEach_cbReset {items : List Ref} {h h' : Heap D}
    (hrun : forEach cbReset h items = some h') : CbOnly items h h' :=
  forEach_rel (CbOnly items) (CbOnly.refl items) (fun _ _ _ => CbOnly.trans)
    (fun _ _ _ hc hf => cbReset_cbOnly hc hf) hrun

/-! ### `set_detector` loop -/

/-- what the `set_detector` loop does: only callback cells of the list change, and only in their
back-reference, which becomes `d` -/
def SetDet (d : Ref) (items : List Ref) (h h' : Heap D) : Prop :=
  h'.length = h.length ∧
  ∀ r, read h' r = read h r ∨
    (r ∈ items ∧ ∃ cb, read h r = some (.callback cb) ∧ read h' r = some (.callback { cb with detector := some d }))

theorem SetDet.refl (d : Ref) (items : List Ref) (h : Heap D) : SetDet d items h h := ⟨rfl, fun _ => Or.inl rfl⟩

theorem SetDet.trans {d : Ref} {items : List Ref} {h1 h2 h3 : Heap D} (a : SetDet d items h1 h2)
    (b : SetDet d items h2 h3) : SetDet d items h1 h3 := by
  refine ⟨b.1.trans a.1, fun r => ?_⟩
  rcases b.2 r with hb | ⟨hm, cb, hb1, hb2⟩
  · rcases a.2 r with ha | ⟨hm, cb, ha1, ha2⟩
    · exact Or.inl (hb.trans ha)
    · exact Or.inr ⟨hm, cb, ha1, hb.trans ha2⟩
  · rcases a.2 r with ha | ⟨_, cb0, ha1, ha2⟩
    · exact Or.inr ⟨hm, cb, ha ▸ hb1, hb2⟩
    · rw [ha2] at hb1
      cases hb1
      exact Or.inr ⟨hm, cb0, ha1, hb2⟩

theorem setDetector_setDet {s : Bool} {d : Ref} {items : List Ref} {h h' : Heap D} {c : Ref} (hc : c ∈ items)
    (hrun : setDetector s d h c = some h') :
    SetDet d items h h' ∧ ∃ cb, read h c = some (.callback cb) ∧ cb.kind.isStreaming = s ∧
      read h' c = some (.callback { cb with detector := some d }) := by
  unfold setDetector at hrun
  split at hrun
  · next cb hcb =>
    split at hrun
    · next hk =>
      simp only [Option.some.injEq] at hrun
      subst hrun
      have hr := getCb_eq_some.mp hcb
      refine ⟨⟨length_write _ _ _, fun r => ?_⟩, cb, hr, hk, read_write_eq _ (read_lt hr)⟩
      by_cases hrc : r = c
      · subst hrc
        exact Or.inr ⟨hc, cb, hr, read_write_eq _ (read_lt hr)⟩
      · exact Or.inl (read_write_ne _ hrc)
    · exact absurd hrun (by simp)
  · exact absurd hrun (by simp)

theorem forEach_setDetector {s : Bool} {d : Ref} {items : List Ref} {h h' : Heap D}
    (hrun : forEach (setDetector s d) h items = some h') : SetDet d items h h' :=
  forEach_rel (SetDet d items) (SetDet.refl d items) (fun _ _ _ => SetDet.trans)
    (fun _ _ _ hc hf => (setDetector_setDet hc hf).1) hrun

/-- after the loop every callback of the list is of the expected class and points back to `d` -/
theorem forEach_setDetector_all {s : Bool} {d : Ref} {items : List Ref} {h h' : Heap D}
    (hrun : forEach (setDetector s d) h items = some h') :
    ∀ c ∈ items, ∃ cb, read h' c = some (.callback cb) ∧ cb.detector = some d ∧ cb.kind.isStreaming = s := by
  induction items generalizing h with
  | nil => intro c hc; cases hc
  | cons c cs ih =>
    simp only [forEach] at hrun
    split at hrun
    · next h1 hf =>
      intro c' hc'
      by_cases hcs : c' ∈ cs
      · exact ih hrun c' hcs
      · have : c' = c := by
          rcases List.mem_cons.mp hc' with h | h
          · exact h
          · exact absurd h hcs
        subst this
        obtain ⟨_, cb, _, hk, hw⟩ := setDetector_setDet (items := [c']) (List.mem_singleton.mpr rfl) hf
        rcases (forEach_setDetector hrun).2 c' with h2 | ⟨_, cb1, h2, h3⟩
        · exact ⟨_, h2.trans hw, rfl, hk⟩
        · rw [hw] at h2
          cases h2
          exact ⟨_, h3, rfl, hk⟩
    · exact absurd hrun (by simp)

/-! ### the detector's own operations -/

theorem callbacksOf_eq_some {h : Heap D} {d : Ref} {items : List Ref} :
    callbacksOf h d = some items ↔ ∃ x, getDet h d = some x ∧ getList h x.callbacks = some items := by
  unfold callbacksOf
  split <;> simp_all

/-- footprint of `_update` -/
theorem updateCore_spec {S : Sem D V R} {h h1 : Heap D} {d : Ref} {v : V} (hrun : updateCore S h d v = some h1) :
    ∃ x cfg sc cm vd, getDet h d = some x ∧ x.config = some cfg ∧ getCfg h cfg = some (sc, cm) ∧
      getData h x.vars = some vd ∧ h1.length = h.length ∧
      (∀ r, r ≠ d → r ≠ x.vars → x.model ≠ some r → read h1 r = read h r) ∧
      (∃ own', read h1 d = some (.detector { x with own := own' })) ∧
      (∀ m, x.model = some m → ∃ p, getData h m = some p) := by
  unfold updateCore at hrun
  split at hrun
  · exact absurd hrun (by simp)
  next x hx =>
  split at hrun
  · exact absurd hrun (by simp)
  next cfg hcfg =>
  split at hrun
  · exact absurd hrun (by simp)
  next sc cm hsc =>
  split at hrun
  · exact absurd hrun (by simp)
  next vd hvd =>
  have hd := getDet_eq_some.mp hx
  have hv := getData_eq_some.mp hvd
  have hdv : d ≠ x.vars := by intro e; rw [e, hv] at hd; cases hd
  split at hrun
  · next hm =>
    simp only [Option.some.injEq] at hrun
    subst hrun
    refine ⟨x, cfg, sc, cm, vd, hx, hcfg, hsc, hvd, by simp, ?_, ⟨S.stepOwn sc x.own vd none v, ?_⟩, ?_⟩
    · intro r h1 h2 _
      rw [read_write_ne _ h2, read_write_ne _ h1]
    · rw [read_write_ne _ hdv, read_write_eq _ (read_lt hd)]
    · intro m hm'; rw [hm] at hm'; cases hm'
  · next m hm =>
    split at hrun
    · exact absurd hrun (by simp)
    next p hp =>
    have hmr := getData_eq_some.mp hp
    have hdm : d ≠ m := by intro e; rw [e, hmr] at hd; cases hd
    simp only [Option.some.injEq] at hrun
    subst hrun
    refine ⟨x, cfg, sc, cm, vd, hx, hcfg, hsc, hvd, by simp, ?_, ⟨S.stepOwn sc x.own vd (some p) v, ?_⟩, ?_⟩
    · intro r h1 h2 h3
      have h3' : r ≠ m := by intro e; exact h3 (by rw [hm, e])
      rw [read_write_ne _ h3', read_write_ne _ h2, read_write_ne _ h1]
    · rw [read_write_ne _ hdm, read_write_ne _ hdv, read_write_eq _ (read_lt hd)]
    · intro m' hm'; rw [hm] at hm'; cases hm'; exact ⟨p, hp⟩

/-- `copy.deepcopy(self.config.model)` / its aliasing variant -/
theorem copyModel_spec {copy : Bool} {h h1 : Heap D} {cm model : Option Ref} (hrun : copyModel copy h cm = some (model, h1)) :
    (cm = none ∧ model = none ∧ h1 = h) ∨
    (∃ m, cm = some m ∧ copy = false ∧ model = some m ∧ h1 = h) ∨
    (∃ m p, cm = some m ∧ copy = true ∧ getData h m = some p ∧ model = some h.length ∧ h1 = h ++ [.data p]) := by
  unfold copyModel at hrun
  split at hrun
  · simp only [Option.some.injEq, Prod.mk.injEq] at hrun
    exact Or.inl ⟨rfl, hrun.1.symm, hrun.2.symm⟩
  · next m =>
    split at hrun
    · next hc =>
      split at hrun
      · next p hp =>
        simp only [Option.some.injEq, Prod.mk.injEq] at hrun
        exact Or.inr (Or.inr ⟨m, p, rfl, hc, hp, hrun.1.symm, hrun.2.symm⟩)
      · exact absurd hrun (by simp)
    · next hc =>
      simp only [Option.some.injEq, Prod.mk.injEq] at hrun
      exact Or.inr (Or.inl ⟨m, rfl, by simpa using hc, hrun.1.symm, hrun.2.symm⟩)

/-- footprint of `reset` (without the callback loop) -/
theorem resetCoreG_spec {copy : Bool} {S : Sem D V R} {h h1 : Heap D} {d : Ref} (hrun : resetCoreG copy S h d = some h1) :
    ∃ x cfg sc cm vd model h0, getDet h d = some x ∧ x.config = some cfg ∧ getCfg h cfg = some (sc, cm) ∧
      getData h x.vars = some vd ∧ copyModel copy h cm = some (model, h0) ∧ h1.length = h0.length ∧
      h.length ≤ h1.length ∧
      (∀ r, r < h.length → r ≠ d → r ≠ x.vars → read h1 r = read h r) ∧
      read h1 d = some (.detector { x with own := S.initOwn sc, model := model }) := by
  unfold resetCoreG at hrun
  split at hrun
  · exact absurd hrun (by simp)
  next x hx =>
  split at hrun
  · exact absurd hrun (by simp)
  next cfg hcfg =>
  split at hrun
  · exact absurd hrun (by simp)
  next sc cm hsc =>
  split at hrun
  · exact absurd hrun (by simp)
  next vd hvd =>
  split at hrun
  · exact absurd hrun (by simp)
  next model h0 hcm =>
  have hd := getDet_eq_some.mp hx
  have hv := getData_eq_some.mp hvd
  have hdv : d ≠ x.vars := by intro e; rw [e, hv] at hd; cases hd
  simp only [Option.some.injEq] at hrun
  subst hrun
  have hlen : h.length ≤ h0.length ∧ ∀ r, r < h.length → read h0 r = read h r := by
    rcases copyModel_spec hcm with ⟨_, _, rfl⟩ | ⟨m, _, _, _, rfl⟩ | ⟨m, p, _, _, _, _, rfl⟩
    · exact ⟨Nat.le_refl _, fun _ _ => rfl⟩
    · exact ⟨Nat.le_refl _, fun _ _ => rfl⟩
    · exact ⟨by simp, fun r hr => read_append_lt _ hr⟩
  refine ⟨x, cfg, sc, cm, vd, model, h0, hx, hcfg, hsc, hvd, hcm, by simp, by simpa using hlen.1, ?_, ?_⟩
  · intro r hr h1 h2
    rw [read_write_ne _ h2, read_write_ne _ h1, hlen.2 r hr]
  · rw [read_write_ne _ hdv, read_write_eq _ (Nat.lt_of_lt_of_le (read_lt hd) hlen.1)]

/-! ### the constructor -/

/-- `omega` after unfolding the abbreviation `Ref := Nat` -/
macro "romega" : tactic => `(tactic| first | omega | (simp only [Ref] at *; omega))

/-- the callback objects designated by a constructor argument -/
def ArgItems (h : Heap D) : CbArg → List Ref → Prop
  | .none, items => items = []
  | .single c, items => items = [c]
  | .list l, items => getList h l = some items

/-- no cell of the block is a callback object -/
def NoCb (l : List (Obj D)) : Prop := ∀ o ∈ l, ∀ cb, o ≠ .callback cb

theorem read_append_cb {h f : Heap D} (hf : NoCb f) {r : Ref} {cb : Cb D} (hr : read (h ++ f) r = some (.callback cb)) :
    r < h.length := by
  apply Nat.lt_of_not_le
  intro hle
  unfold read at hr
  rw [List.getElem?_append_right hle] at hr
  exact hf _ (List.mem_of_getElem? hr) cb rfl

theorem storeCallbacks_spec {h h1 : Heap D} {arg : CbArg} {cbs : Ref} (hrun : storeCallbacks h arg = some (cbs, h1)) :
    ∃ items, ArgItems h arg items ∧
      ((arg = .list cbs ∧ h1 = h) ∨ (cbs = h.length ∧ h1 = h ++ [.list items])) := by
  unfold storeCallbacks at hrun
  split at hrun
  · simp only [alloc, Option.some.injEq, Prod.mk.injEq] at hrun
    exact ⟨[], rfl, Or.inr ⟨hrun.1.symm, hrun.2.symm⟩⟩
  · next c =>
    simp only [alloc, Option.some.injEq, Prod.mk.injEq] at hrun
    exact ⟨[c], rfl, Or.inr ⟨hrun.1.symm, hrun.2.symm⟩⟩
  · next l =>
    split at hrun
    · next items hl =>
      simp only [Option.some.injEq, Prod.mk.injEq] at hrun
      exact ⟨items, hl, Or.inl ⟨by rw [hrun.1], hrun.2.symm⟩⟩
    · exact absurd hrun (by simp)

theorem SetDet.not_cb {d : Ref} {items : List Ref} {h h' : Heap D} (a : SetDet d items h h') {r : Ref}
    (hr : ∀ cb, read h r ≠ some (.callback cb)) : read h' r = read h r := by
  rcases a.2 r with h1 | ⟨_, cb, h2, _⟩
  · exact h1
  · exact absurd h2 (hr cb)

theorem SetDet.not_mem {d : Ref} {items : List Ref} {h h' : Heap D} (a : SetDet d items h h') {r : Ref}
    (hr : r ∉ items) : read h' r = read h r := by
  rcases a.2 r with h1 | ⟨hm, _⟩
  · exact h1
  · exact absurd hm hr

/-- a callback cell after the loop was a callback cell before -/
theorem SetDet.cb_before {d : Ref} {items : List Ref} {h h' : Heap D} (a : SetDet d items h h') {r : Ref} {cb : Cb D}
    (hr : read h' r = some (.callback cb)) : ∃ cb0, read h r = some (.callback cb0) := by
  rcases a.2 r with h1 | ⟨_, cb0, h2, _⟩
  · exact ⟨cb, h1 ▸ hr⟩
  · exact ⟨cb0, h2⟩


/-- description of the store after `Detector(config=cfg, callbacks=arg)` returned `d` -/
structure Built (copy : Bool) (S : Sem D V R) (h : Heap D) (cfg : Ref) (arg : CbArg) (d : Ref) (h' : Heap D)
    (sc : D) (cm : Option Ref) (cbs : Ref) (items : List Ref) (vars : Ref) (model : Option Ref) : Prop where
  hcfg : getCfg h cfg = some (sc, cm)
  len : h.length ≤ h'.length
  d_fresh : h.length ≤ d
  hd : read h' d = some (.detector ⟨some cfg, cbs, vars, model, none, S.initOwn sc⟩)
  vars_fresh : h.length ≤ vars
  hvars : read h' vars = some (.data (S.initVars sc))
  arg_items : ArgItems h arg items
  hlist : read h' cbs = some (.list items)
  cbs_cases : (arg = .list cbs ∧ cbs < h.length) ∨ h.length ≤ cbs
  hitems : ∀ c ∈ items, c < h.length ∧ (∃ cb0, read h c = some (.callback cb0)) ∧
    ∃ cb, read h' c = some (.callback cb) ∧ cb.detector = some d
  hmodel : (cm = none ∧ model = none) ∨
    (∃ m, cm = some m ∧ ((copy = false ∧ model = some m) ∨
      (copy = true ∧ ∃ p mr, read h' m = some (.data p) ∧ model = some mr ∧ h.length ≤ mr ∧ read h' mr = some (.data p))))
  frame : ∀ r, r < h.length → r ∉ items → read h' r = read h r

theorem newDetectorG_spec {copy : Bool} {S : Sem D V R} {h h' : Heap D} {cfg d : Ref} {arg : CbArg}
    (hrun : newDetectorG copy S h cfg arg = some (d, h')) :
    ∃ sc cm cbs items vars model, Built copy S h cfg arg d h' sc cm cbs items vars model := by
  unfold newDetectorG at hrun
  split at hrun
  · exact absurd hrun (by simp)
  next sc cm hcfg =>
  split at hrun
  · exact absurd hrun (by simp)
  next cbs h1 hstore =>
  split at hrun
  · exact absurd hrun (by simp)
  next items hitems1 =>
  simp only at hrun
  split at hrun
  · exact absurd hrun (by simp)
  next model h3 hcm =>
  split at hrun
  · exact absurd hrun (by simp)
  next h5 hfor =>
  simp only [Option.some.injEq, Prod.mk.injEq] at hrun
  obtain ⟨hdeq, rfl⟩ := hrun
  -- the blocks appended
  obtain ⟨items0, hargs, hst⟩ := storeCallbacks_spec hstore
  have hl1 := getList_eq_some.mp hitems1
  have hcbs_lt : cbs < h1.length := read_lt hl1
  obtain ⟨f1, hf1, hncb1⟩ : ∃ f1, h1 = h ++ f1 ∧ NoCb f1 := by
    rcases hst with ⟨_, e⟩ | ⟨_, e⟩
    · exact ⟨[], by simp [e], by intro o ho; cases ho⟩
    · refine ⟨[.list items0], e, ?_⟩
      intro o ho cb; rw [List.mem_singleton.mp ho]; intro hc; cases hc
  have hitems_eq : items = items0 := by
    rcases hst with ⟨ea, e⟩ | ⟨ec, e⟩
    · rw [ea] at hargs
      have : getList h cbs = some items0 := hargs
      rw [e] at hitems1
      rw [hitems1] at this; cases this; rfl
    · rw [e, ec, read_append_length] at hl1
      cases hl1; rfl
  subst hitems_eq
  obtain ⟨f3, hf3, hncb3⟩ : ∃ f3, h3 = (h1 ++ [.data (S.initVars sc)]) ++ f3 ∧ NoCb f3 := by
    rcases copyModel_spec hcm with ⟨_, _, e⟩ | ⟨_, _, _, _, e⟩ | ⟨_, p, _, _, _, _, e⟩
    · exact ⟨[], by simp [e], by intro o ho; cases ho⟩
    · exact ⟨[], by simp [e], by intro o ho; cases ho⟩
    · refine ⟨[.data p], e, ?_⟩
      intro o ho cb; rw [List.mem_singleton.mp ho]; intro hc; cases hc
  generalize hh4 : h3 ++ [Obj.detector ⟨some cfg, cbs, h1.length, model, none, S.initOwn sc⟩] = h4 at hfor
  have hset := forEach_setDetector hfor
  have hall := forEach_setDetector_all hfor
  have hlen1 : h.length ≤ h1.length := by rw [hf1]; simp
  have hlen3 : h1.length < h3.length := by rw [hf3]; simp
  have hlen4 : h4.length = h3.length + 1 := by rw [← hh4]; simp
  -- `h4 = h ++ F` with no callback in `F`
  obtain ⟨F, hF, hncbF⟩ : ∃ F, h4 = h ++ F ∧ NoCb F := by
    refine ⟨f1 ++ [.data (S.initVars sc)] ++ f3 ++ [.detector ⟨some cfg, cbs, h1.length, model, none, S.initOwn sc⟩], ?_, ?_⟩
    · rw [← hh4, hf3, hf1]; simp [List.append_assoc]
    · intro o ho cb
      simp only [List.mem_append, List.mem_singleton] at ho
      rcases ho with ((ho | ho) | ho) | ho
      · exact hncb1 o ho cb
      · rw [ho]; intro hc; cases hc
      · exact hncb3 o ho cb
      · rw [ho]; intro hc; cases hc
  have hd4 : read h4 d = some (.detector ⟨some cfg, cbs, h1.length, model, none, S.initOwn sc⟩) := by
    rw [← hh4, ← hdeq]; exact read_append_length _ _
  have hv4 : read h4 h1.length = some (.data (S.initVars sc)) := by
    have e1 : h1.length < (h1 ++ [Obj.data (S.initVars sc)]).length := by simp
    rw [← hh4, read_append_lt _ hlen3, hf3, read_append_lt _ e1]
    exact read_append_length _ _
  have hl4 : read h4 cbs = some (.list items) := by
    have e1 : cbs < (h1 ++ [Obj.data (S.initVars sc)]).length := by simp; romega
    have e3 : cbs < h3.length := by romega
    rw [← hh4, read_append_lt _ e3, hf3, read_append_lt _ e1, read_append_lt _ hcbs_lt]
    exact hl1
  refine ⟨sc, cm, cbs, items, h1.length, model, ?_⟩
  refine
    { hcfg := hcfg
      len := by rw [hset.1, hlen4]; romega
      d_fresh := by romega
      hd := by rw [hset.not_cb (by rw [hd4]; intro cb hc; cases hc)]; exact hd4
      vars_fresh := hlen1
      hvars := by rw [hset.not_cb (by rw [hv4]; intro cb hc; cases hc)]; exact hv4
      arg_items := hargs
      hlist := by rw [hset.not_cb (by rw [hl4]; intro cb hc; cases hc)]; exact hl4
      cbs_cases := ?_
      hitems := ?_
      hmodel := ?_
      frame := ?_ }
  · rcases hst with ⟨ea, e⟩ | ⟨ec, _⟩
    · left; rw [e] at hcbs_lt; exact ⟨ea, hcbs_lt⟩
    · right; romega
  · intro c hc
    obtain ⟨cb, hcb, hdet, _⟩ := hall c hc
    obtain ⟨cb0, hcb0⟩ := hset.cb_before hcb
    have hlt : c < h.length := by rw [hF] at hcb0; exact read_append_cb hncbF hcb0
    refine ⟨hlt, ⟨cb0, ?_⟩, cb, hcb, hdeq ▸ hdet⟩
    rw [hF, read_append_lt _ hlt] at hcb0; exact hcb0
  · rcases copyModel_spec hcm with ⟨e1, e2, _⟩ | ⟨m, e1, e2, e3, _⟩ | ⟨m, p, e1, e2, e3, e4, e5⟩
    · exact Or.inl ⟨e1, e2⟩
    · exact Or.inr ⟨m, e1, Or.inl ⟨e2, e3⟩⟩
    · have hm := getData_eq_some.mp e3
      have hmlt := read_lt hm
      have hl3 : h3.length = (h1 ++ [Obj.data (S.initVars sc)]).length + 1 := by rw [e5]; simp
      have hm4 : read h4 m = some (.data p) := by
        have e3' : m < h3.length := by romega
        rw [← hh4, read_append_lt _ e3', e5, read_append_lt _ hmlt]; exact hm
      have hmr4 : read h4 (h1 ++ [Obj.data (S.initVars sc)]).length = some (.data p) := by
        have e3' : (h1 ++ [Obj.data (S.initVars sc)]).length < h3.length := by romega
        rw [← hh4, read_append_lt _ e3', e5]; exact read_append_length _ _
      refine Or.inr ⟨m, e1, Or.inr ⟨e2, p, (h1 ++ [Obj.data (S.initVars sc)]).length, ?_, e4, by simp; romega, ?_⟩⟩
      · rw [hset.not_cb (by rw [hm4]; intro cb hc; cases hc)]; exact hm4
      · rw [hset.not_cb (by rw [hmr4]; intro cb hc; cases hc)]; exact hmr4
  · intro r hr hni
    rw [hset.not_mem hni, hF, read_append_lt _ hr]


/-! ### what is reachable from a freshly constructed detector -/

/-- the cells a new detector refers to, directly or indirectly -/
def InBuilt (cfg : Ref) (cm : Option Ref) (cbs : Ref) (items : List Ref) (vars : Ref) (model : Option Ref)
    (d r : Ref) : Prop :=
  r = d ∨ r = cfg ∨ cm = some r ∨ r = cbs ∨ r = vars ∨ model = some r ∨ r ∈ items

/-- the cell found at each of these references after the constructor AS WRITTEN (`copy = true`):
either one of the callbacks (now pointing back to `d`), or a non-callback cell whose outgoing
references stay inside the set -/
theorem Built.cell {S : Sem D V R} {h h' : Heap D} {cfg d : Ref} {arg : CbArg} {sc : D} {cm : Option Ref}
    {cbs : Ref} {items : List Ref} {vars : Ref} {model : Option Ref}
    (B : Built true S h cfg arg d h' sc cm cbs items vars model) {r : Ref}
    (hr : InBuilt cfg cm cbs items vars model d r) :
    (r ∈ items ∧ ∃ cb, read h' r = some (.callback cb) ∧ cb.detector = some d) ∨
    (r ∉ items ∧ ∃ o, read h' r = some o ∧ (∀ cb, o ≠ .callback cb) ∧
      ∀ y ∈ edges o, InBuilt cfg cm cbs items vars model d y) := by
  have hni : ∀ {r o}, read h' r = some o → (∀ cb, o ≠ .callback cb) → r ∉ items := by
    intro r o hro hncb hm
    obtain ⟨_, _, cb, hcb, _⟩ := B.hitems r hm
    rw [hcb] at hro; cases hro; exact hncb cb rfl
  have hdata : ∀ {r p}, read h' r = some (.data p) →
      r ∉ items ∧ ∃ o, read h' r = some o ∧ (∀ cb, o ≠ .callback cb) ∧
        ∀ y ∈ edges o, InBuilt cfg cm cbs items vars model d y := by
    intro r p hrp
    have hn : ∀ cb, (Obj.data p : Obj D) ≠ .callback cb := by intro cb hc; cases hc
    exact ⟨hni hrp hn, _, hrp, hn, by intro y hy; cases hy⟩
  rcases hr with rfl | rfl | hcm | rfl | rfl | hmo | hit
  · right
    have hn : ∀ cb, (Obj.detector ⟨some cfg, cbs, vars, model, none, S.initOwn sc⟩ : Obj D) ≠ .callback cb := by
      intro cb hc; cases hc
    refine ⟨hni B.hd hn, _, B.hd, hn, ?_⟩
    intro y hy
    simp only [edges, Option.toList, List.mem_append, List.mem_cons, List.not_mem_nil,
      or_false] at hy
    rcases hy with (rfl | rfl | rfl) | hy
    · exact Or.inr (Or.inl rfl)
    · exact Or.inr (Or.inr (Or.inr (Or.inl rfl)))
    · exact Or.inr (Or.inr (Or.inr (Or.inr (Or.inl rfl))))
    · refine Or.inr (Or.inr (Or.inr (Or.inr (Or.inr (Or.inl ?_)))))
      cases model with
      | none => cases hy
      | some m => rw [List.mem_singleton.mp hy]
  · right
    have hc0 := getCfg_eq_some.mp B.hcfg
    have hn : ∀ cb, (Obj.config sc cm : Obj D) ≠ .callback cb := by intro cb hc; cases hc
    have hnot : r ∉ items := by
      intro hm
      obtain ⟨_, ⟨cb0, hcb0⟩, _⟩ := B.hitems r hm
      rw [hc0] at hcb0; cases hcb0
    have hc' : read h' r = some (.config sc cm) := by rw [B.frame r (read_lt hc0) hnot]; exact hc0
    refine ⟨hnot, _, hc', hn, ?_⟩
    intro y hy
    refine Or.inr (Or.inr (Or.inl ?_))
    cases cm with
    | none => cases hy
    | some m => simp only [edges, Option.toList, List.mem_singleton] at hy; rw [hy]
  · right
    rcases B.hmodel with ⟨e, _⟩ | ⟨m, e, ⟨hc, _⟩ | ⟨_, p, mr, hp, _⟩⟩
    · rw [e] at hcm; cases hcm
    · cases hc
    · rw [e] at hcm; cases hcm; exact hdata hp
  · right
    have hn : ∀ cb, (Obj.list items : Obj D) ≠ .callback cb := by intro cb hc; cases hc
    exact ⟨hni B.hlist hn, _, B.hlist, hn, fun y hy => Or.inr (Or.inr (Or.inr (Or.inr (Or.inr (Or.inr hy)))))⟩
  · right; exact hdata B.hvars
  · right
    rcases B.hmodel with ⟨_, e⟩ | ⟨m, _, ⟨hc, _⟩ | ⟨_, p, mr, _, e, _, hp⟩⟩
    · rw [e] at hmo; cases hmo
    · cases hc
    · rw [e] at hmo; cases hmo; exact hdata hp
  · left
    obtain ⟨_, _, cb, hcb, hd⟩ := B.hitems r hit
    exact ⟨hit, cb, hcb, hd⟩

/-- everything reachable from the new detector is one of these cells -/
theorem Built.reach {S : Sem D V R} {h h' : Heap D} {cfg d : Ref} {arg : CbArg} {sc : D} {cm : Option Ref}
    {cbs : Ref} {items : List Ref} {vars : Ref} {model : Option Ref}
    (B : Built true S h cfg arg d h' sc cm cbs items vars model) {r : Ref} (hr : Reach h' d r) :
    InBuilt cfg cm cbs items vars model d r := by
  refine Reach.subset (P := InBuilt cfg cm cbs items vars model d) ?_ hr (Or.inl rfl)
  intro x o y hx hxo hy
  rcases B.cell hx with ⟨_, cb, hcb, hd⟩ | ⟨_, o', ho', _, hcl⟩
  · rw [hcb] at hxo; cases hxo
    simp only [edges, hd, Option.toList, List.mem_singleton] at hy
    exact Or.inl hy
  · rw [ho'] at hxo; cases hxo
    exact hcl y hy

/-! ### operations do not create references to existing cells -/

theorem CbOnly.edges {items : List Ref} {h h' : Heap D} (a : CbOnly items h h') {x : Ref} {o' : Obj D}
    (hx : read h' x = some o') : ∃ o, read h x = some o ∧ edges o' = edges o := by
  rcases a.2 x with e | ⟨_, cb, cb', e1, e2, _, hd⟩
  · exact ⟨o', e ▸ hx, rfl⟩
  · rw [e2] at hx; cases hx
    exact ⟨_, e1, by simp [Heap.edges, hd]⟩

/-- `_update` stores no reference at all: every cell keeps its outgoing references -/
theorem updateCore_edges {S : Sem D V R} {h h1 : Heap D} {d : Ref} {v : V} (hrun : updateCore S h d v = some h1)
    {x : Ref} {o1 : Obj D} (hx : read h1 x = some o1) : ∃ o, read h x = some o ∧ edges o1 = edges o := by
  unfold updateCore at hrun
  split at hrun
  · exact absurd hrun (by simp)
  next dx hdx =>
  split at hrun
  · exact absurd hrun (by simp)
  split at hrun
  · exact absurd hrun (by simp)
  split at hrun
  · exact absurd hrun (by simp)
  next vd hvd =>
  have hd := getDet_eq_some.mp hdx
  have hv := getData_eq_some.mp hvd
  split at hrun
  · simp only [Option.some.injEq] at hrun
    subst hrun
    by_cases h2 : x = dx.vars
    · subst h2
      rw [read_write_eq _ (by simpa using read_lt hv)] at hx
      cases hx; exact ⟨_, hv, rfl⟩
    · rw [read_write_ne _ h2] at hx
      by_cases h1 : x = d
      · subst h1
        rw [read_write_eq _ (read_lt hd)] at hx
        cases hx; exact ⟨_, hd, rfl⟩
      · rw [read_write_ne _ h1] at hx
        exact ⟨_, hx, rfl⟩
  · next m _ =>
    split at hrun
    · exact absurd hrun (by simp)
    next p hp =>
    have hm := getData_eq_some.mp hp
    simp only [Option.some.injEq] at hrun
    subst hrun
    by_cases h3 : x = m
    · subst h3
      rw [read_write_eq _ (by simpa using read_lt hm)] at hx
      cases hx; exact ⟨_, hm, rfl⟩
    · rw [read_write_ne _ h3] at hx
      by_cases h2 : x = dx.vars
      · subst h2
        rw [read_write_eq _ (by simpa using read_lt hv)] at hx
        cases hx; exact ⟨_, hv, rfl⟩
      · rw [read_write_ne _ h2] at hx
        by_cases h1 : x = d
        · subst h1
          rw [read_write_eq _ (read_lt hd)] at hx
          cases hx; exact ⟨_, hd, rfl⟩
        · rw [read_write_ne _ h1] at hx
          exact ⟨_, hx, rfl⟩

/-- `reset` AS WRITTEN stores one new reference only: the one to the freshly allocated model copy -/
theorem resetCore_edges {S : Sem D V R} {h h1 : Heap D} {d : Ref} (hrun : resetCore S h d = some h1)
    {x : Ref} {o1 : Obj D} (hx : read h1 x = some o1) {y : Ref} (hy : y ∈ edges o1) :
    (h.length ≤ y ∧ y < h1.length) ∨ ∃ o, read h x = some o ∧ y ∈ edges o := by
  unfold resetCore resetCoreG at hrun
  split at hrun
  · exact absurd hrun (by simp)
  next dx hdx =>
  split at hrun
  · exact absurd hrun (by simp)
  split at hrun
  · exact absurd hrun (by simp)
  next sc cm _ =>
  split at hrun
  · exact absurd hrun (by simp)
  next vd hvd =>
  split at hrun
  · exact absurd hrun (by simp)
  next model h0 hcm =>
  have hd := getDet_eq_some.mp hdx
  have hv := getData_eq_some.mp hvd
  simp only [Option.some.injEq] at hrun
  subst hrun
  -- the store after the copy
  have h0spec : h.length ≤ h0.length ∧ (∀ r, r < h.length → read h0 r = read h r) ∧
      (∀ r o, h.length ≤ r → read h0 r = some o → edges o = []) ∧
      (∀ m, model = some m → h.length ≤ m ∧ m < h0.length) := by
    rcases copyModel_spec hcm with ⟨_, e, rfl⟩ | ⟨_, _, hc, _⟩ | ⟨m, p, _, _, _, e, rfl⟩
    · refine ⟨Nat.le_refl _, fun _ _ => rfl, fun r o hr hro => ?_, fun m hm => ?_⟩
      · rw [read_ge hr] at hro; cases hro
      · rw [e] at hm; cases hm
    · cases hc
    · refine ⟨by simp, fun r hr => read_append_lt _ hr, fun r o hr hro => ?_, fun m' hm' => ?_⟩
      · have : r = h.length := by
          have := read_lt hro
          simp only [List.length_append, List.length_cons, List.length_nil] at this
          romega
        subst this
        rw [read_append_length] at hro; cases hro; rfl
      · rw [e] at hm'; cases hm'; simp
  obtain ⟨hle, hold, hnew, hmod⟩ := h0spec
  by_cases h2 : x = dx.vars
  · subst h2
    rw [read_write_eq _ (by simpa using Nat.lt_of_lt_of_le (read_lt hv) hle)] at hx
    cases hx; cases hy
  · rw [read_write_ne _ h2] at hx
    by_cases h1 : x = d
    · subst h1
      rw [read_write_eq _ (Nat.lt_of_lt_of_le (read_lt hd) hle)] at hx
      cases hx
      simp only [edges, List.mem_append] at hy
      rcases hy with ((hy | hy) | hy) | hy
      · exact Or.inr ⟨_, hd, List.mem_append_left _ (List.mem_append_left _ (List.mem_append_left _ hy))⟩
      · exact Or.inr ⟨_, hd, List.mem_append_left _ (List.mem_append_left _ (List.mem_append_right _ hy))⟩
      · left
        cases model with
        | none => cases hy
        | some m =>
          have := hmod m rfl
          simp only [Option.toList, List.mem_singleton] at hy
          subst hy
          simpa using this
      · exact Or.inr ⟨_, hd, List.mem_append_right _ hy⟩
    · rw [read_write_ne _ h1] at hx
      by_cases hlt : x < h.length
      · rw [hold x hlt] at hx
        exact Or.inr ⟨_, hx, hy⟩
      · rw [hnew x o1 (Nat.le_of_not_lt hlt) hx] at hy; cases hy


end Frouros.Heap
