/-
  C07t — SCALE EQUIVARIANCE of the CUSUM family (CUSUM / Page-Hinkley / geometric moving average).

  Model: `CUSUMFam` (`FrourosModel/Change.lean`), `Mean` (`FrourosModel/Stats.lean`).  Companion of `Props/C07.lean`
  (recurrence `specG`, `runL`, histories) and `Props/C07r.lean` / `C07s.lean` (rounding transfer).

  WHY.  The differential harness sends problems of magnitude `1e-10` or `1e9` to the model MULTIPLIED BY A POWER OF
  TWO (values, `delta`, `lambda_` all multiplied by `2^k`; `alpha`, `min_num_instances` unchanged) and divides the
  model's float outputs by `2^k` again, arguing "the statistics are linear in (values, delta, lambda_) and binary
  floating point is exactly invariant under multiplication by a power of two".  This file proves the part of that
  argument that is logic.

  WHAT IS PROVED.
  1. (every carrier `{α} [Num α]`, no assumption on the operations other than the hypothesis structure)
     `ScaleHom φ`: one clause per operation the model uses —
       `φ 0 = 0`, `φ (a + b) = φ a + φ b`, `φ (a - b) = φ a - φ b`, `φ (a / ofNat (n+1)) = φ a / ofNat (n+1)`,
       `lt (φ a) (φ b) = lt a b`   (these five are `ScaleHomCore`)   and   `φ (k * a) = k * φ a` for all `k`.
     No clause for `Num.le` (the model never calls it: `Num.max0` and the threshold test `Num.gt` are both `Num.lt`),
     none for division by `ofNat 0` (the counter is incremented before the division).
     `run_scale_equivariant(_take)`, `run_scale_equivariant_history(_take)`, `run_scale_equivariant_fields`:
     the run of the model with `scaleCfg φ c` on the `φ`-image of a stream / of a history with resets is, after every
     operation, `scaleState φ` of the unscaled run: `sum` and `mean.mean` mapped by `φ`, the counters `n`, `mean.n` and
     the flag `drift` IDENTICAL.  `drift_scale_invariant`: the verdict sequences are identical.
     The `…_consts` variants need the multiplicative clause only for the constants the kind multiplies by
     (`KindMul`: nothing for cusum, `alpha` for Page-Hinkley, `alpha` and the carrier value `1 - alpha` for gma).
     `scaleHom_id`, `ScaleHom.comp`, `ScaleHom.iterate`: closure properties (×2 iterated gives ×2^k).
  2. (a) `scaleHom_real`: over ℝ, `x ↦ k·x` is a `ScaleHom` for every `k > 0` (`scaleHom_real_iff`: iff `k > 0`);
         `run_scale_real`, `drift_scale_invariant_real`: the corollaries; `specG_scale` (for `k ≥ 0`): the textbook
         recurrence `C07.specG` of the rescaled problem is `k · specG`; `specG_verdict_scale` (for `k > 0`).
     (b) `scale_needs_pos_witness`: with `k = -1` and with `k = 0` the verdict changes.
     (c) `scaleHom_dyadic`: on the binary floating-point carrier `Dy ρ p` of `Lemmas/DyadicFloat.lean` (`p`-bit
         mantissa, UNBOUNDED exponent, arbitrary mantissa rounding `ρ`), exact multiplication by `2^k`, `k : ℤ`, is a
         `ScaleHom`; hence `run_scale_dyadic`, `run_unscale_dyadic`, `drift_scale_invariant_dyadic`.  This is the exact statement "binary
         floating point without overflow/underflow is invariant under powers of two"; the only arithmetic fact
         used is `DyadicFloat.rnd_zpow_mul : rnd (2^k · q) = 2^k · rnd q`.
         `scaleHom_dyadic_mul`: for round-to-nearest and `p ≥ 1` that exact scaling is the carrier's own rounded
         product by the representable constant `2^k` (`DyadicFloat.rnd_round_idem`, `Dy.scale2_eq_mul_round`).
         `DyadicFloat.rnd_round_error`: the carrier really rounds, with relative error `≤ 2^-p`.
  3. Non-vacuity: a 6-value stream at ℝ with `k = 1/1024` through `run_scale_equivariant`, drift raised at `t = 6`.
  4. Limits: `grid_double_not_scaleHom_overflow`, `grid_double_not_scaleHom_quantum`: on the FINITE fixed-point
     carrier `Grid K s` doubling is NOT a `ScaleHom` — at the top of the range (overflow to NaN) and at the bottom
     (absolute rounding quantum, the analogue of underflow).  `scale_le_real`, `scale_le_dyadic`: the `le` clause
     (not needed by this family) holds in both instances too.

  WHAT THIS DOES NOT SAY.
    * Nothing here is a theorem about Lean's `Float` or NumPy doubles; no `ScaleHom` instance on `Float` is claimed.
      For IEEE binary64, `φ = (2^k · ·)` satisfies the clauses of `ScaleHom` ONLY on operands for which neither the
      scaled nor the unscaled operation overflows or underflows (produces/consumes a subnormal) — `Dy ρ p` has an
      unbounded exponent precisely to express that proviso.  Problems close to `1e±308` are outside the argument.
      (NaN operands are harmless for the `lt` clause — all comparisons are false on both sides — but `Dy` has none.)
    * `alpha` must NOT be rescaled, and the argument needs `lambda` AND `delta` rescaled together with the values.
    * ADWIN IS NOT SCALE-EQUIVARIANT (nothing is proved about it here).  Its cut threshold
      (`ADWIN.threshold` in `FrourosModel/Window.lean`) is `sqrt(2·m·(variance/width)·δ') + (2/3)·δ'·m` with
      `δ' = log(2·log(width)/delta)` and `m = 1/(n0−mws) + 1/(n1−mws)`: the first summand scales with the data
      (`sqrt(variance)`), the second is an absolute number that does not, and it is compared with a difference of
      window means that does scale.  DO NOT extend the harness's power-of-two rescaling to ADWIN, nor to any other
      detector without a theorem of this kind for it.
-/
import Mathlib.Tactic.Ring
import Mathlib.Tactic.FieldSimp
import Mathlib.Tactic.Linarith
import Mathlib.Tactic.NormNum
import FrourosProofs.RealNum
import FrourosProofs.Machines
import FrourosProofs.Props.C07
import FrourosProofs.Lemmas.DyadicFloat
import FrourosProofs.Lemmas.StdModelIEEE

namespace Frouros.C07t
open Frouros CUSUMFam C07

/-! ## 1. Abstract equivariance (every carrier) -/

section AnyCarrier
variable {α : Type} [Num α]

/-- The clauses about `φ` ("multiply by the scale factor") that EVERY kind needs; each is a statement about one
operation of the carrier.  `divNat` is only required for the divisors `Num.ofNat (n+1)` (the sample counter after the
increment, never `0`), and no clause about `Num.le` is required: the model only uses `Num.lt` (inside `Num.max0` and,
with swapped arguments, as `Num.gt` in the threshold test). -/
structure ScaleHomCore (φ : α → α) : Prop where
  zero : φ (Num.ofNat 0) = Num.ofNat 0
  add : ∀ a b : α, φ (a + b) = φ a + φ b
  sub : ∀ a b : α, φ (a - b) = φ a - φ b
  divNat : ∀ (a : α) (n : Nat), φ (a / Num.ofNat (n + 1)) = φ a / Num.ofNat (n + 1)
  lt : ∀ a b : α, Num.lt (φ a) (φ b) = Num.lt a b

/-- `φ` commutes with multiplication BY the (unscaled) constant `k` on the left -/
def MulCompat (φ : α → α) (k : α) : Prop := ∀ a : α, φ (k * a) = k * φ a

/-- the multiplicative clauses a configuration needs: none for cusum, `alpha` for Page-Hinkley, `alpha` and
`1 - alpha` (the value `Num.one - c.alpha` computed in the carrier) for the geometric moving average -/
def KindMul (φ : α → α) (c : Cfg α) : Prop :=
  match c.kind with
  | .cusum => True
  | .pageHinkley => MulCompat φ c.alpha
  | .gma => MulCompat φ c.alpha ∧ MulCompat φ (Num.one - c.alpha)

/-- **ScaleHom.**  The full hypothesis: the core clauses plus `φ (k * a) = k * φ a` for EVERY constant `k`
(choice made: quantified over all `k`; the sharper theorems `…_consts` below only ask for the constants of the
configuration, `KindMul`). -/
structure ScaleHom (φ : α → α) : Prop extends ScaleHomCore φ where
  mul : ∀ k a : α, φ (k * a) = k * φ a

theorem ScaleHom.kindMul {φ : α → α} (h : ScaleHom φ) (c : Cfg α) : KindMul φ c := by
  unfold KindMul
  cases c.kind with
  | cusum => trivial
  | pageHinkley => exact fun a => h.mul _ a
  | gma => exact ⟨fun a => h.mul _ a, fun a => h.mul _ a⟩

/-- the identity is a scale homomorphism (every carrier) -/
theorem scaleHom_id : ScaleHom (id : α → α) :=
  { zero := rfl, add := fun _ _ => rfl, sub := fun _ _ => rfl, divNat := fun _ _ => rfl, lt := fun _ _ => rfl,
    mul := fun _ _ => rfl }

/-- scale homomorphisms compose (so `φ` = "multiply by 2" gives "multiply by `2^k`" by iteration) -/
theorem ScaleHom.comp {φ ψ : α → α} (hφ : ScaleHom φ) (hψ : ScaleHom ψ) : ScaleHom (φ ∘ ψ) :=
  { zero := by simp only [Function.comp]; rw [hψ.zero, hφ.zero]
    add := fun a b => by simp only [Function.comp]; rw [hψ.add, hφ.add]
    sub := fun a b => by simp only [Function.comp]; rw [hψ.sub, hφ.sub]
    divNat := fun a n => by simp only [Function.comp]; rw [hψ.divNat, hφ.divNat]
    lt := fun a b => by simp only [Function.comp]; rw [hφ.lt, hψ.lt]
    mul := fun k a => by simp only [Function.comp]; rw [hψ.mul, hφ.mul] }

theorem ScaleHom.iterate {φ : α → α} (hφ : ScaleHom φ) (k : Nat) : ScaleHom (φ^[k]) := by
  induction k with
  | zero => exact scaleHom_id
  | succ k ih => rw [Function.iterate_succ]; exact ih.comp hφ

/-- the rescaled configuration: `lambda`, `delta` mapped by `φ`; `kind`, `alpha`, `min_num_instances` unchanged -/
def scaleCfg (φ : α → α) (c : Cfg α) : Cfg α := { c with lambda := φ c.lambda, delta := φ c.delta }

/-- the rescaled running mean: value mapped by `φ`, counter unchanged -/
def scaleMean (φ : α → α) (m : Mean α) : Mean α := ⟨φ m.mean, m.n⟩

/-- the rescaled state: the two float fields (`sum`, `mean.mean`) mapped by `φ`; the counters `n`, `mean.n` and the
flag `drift` unchanged -/
def scaleState (φ : α → α) (s : State α) : State α :=
  { n := s.n, drift := s.drift, mean := scaleMean φ s.mean, sum := φ s.sum }

/-- a history mapped through a value map -/
def mapOp {V W : Type} (f : V → W) : Op V → Op W
  | .update v => .update (f v)
  | .reset => .reset

theorem max0_scale {φ : α → α} (h : ScaleHomCore φ) (x : α) : φ (Num.max0 x) = Num.max0 (φ x) := by
  have hz : φ (Num.zero : α) = Num.zero := h.zero
  have hlt : Num.lt (φ x) (Num.zero : α) = Num.lt x (Num.zero : α) := by
    conv_lhs => rw [← hz]
    exact h.lt x Num.zero
  unfold Num.max0
  rw [hlt]
  split
  · exact hz
  · rfl

theorem mean_update_scale {φ : α → α} (h : ScaleHomCore φ) (m : Mean α) (v : α) :
    (scaleMean φ m).update (φ v) = scaleMean φ (m.update v) := by
  simp only [Mean.update, scaleMean]
  rw [h.add, h.divNat, h.sub]

theorem updateSum_scale {φ : α → α} (h : ScaleHomCore φ) (c : Cfg α) (hm : KindMul φ c) (g m v : α) :
    updateSum (scaleCfg φ c) (φ g) (φ m) (φ v) = φ (updateSum c g m v) := by
  unfold KindMul at hm
  unfold updateSum
  simp only [scaleCfg]
  cases hk : c.kind with
  | cusum =>
    simp only []
    rw [max0_scale h, h.sub, h.sub, h.add]
  | pageHinkley =>
    rw [hk] at hm
    simp only []
    rw [h.add, hm g, h.sub, h.sub]
  | gma =>
    rw [hk] at hm
    simp only []
    rw [h.add, hm.1 g, hm.2, h.sub]

theorem step_scale {φ : α → α} (h : ScaleHomCore φ) (c : Cfg α) (hm : KindMul φ c) (s : State α) (v : α) :
    step (scaleCfg φ c) (scaleState φ s) (φ v) = scaleState φ (step c s v) := by
  have hmean : (scaleMean φ s.mean).update (φ v) = scaleMean φ (s.mean.update v) := mean_update_scale h _ _
  have hmm : (scaleMean φ (s.mean.update v)).mean = φ (s.mean.update v).mean := rfl
  simp only [step, scaleState, hmean, hmm, updateSum_scale h c hm]
  have hgt : ∀ x : α, Num.gt (φ x) (scaleCfg φ c).lambda = Num.gt x c.lambda := fun x => h.lt c.lambda x
  rw [hgt]
  rfl

theorem init_scale {φ : α → α} (h : ScaleHomCore φ) : scaleState φ (init : State α) = init := by
  have hz : φ (Num.zero : α) = Num.zero := h.zero
  simp only [scaleState, init, scaleMean, Mean.init, hz]

theorem reset_scale {φ : α → α} (h : ScaleHomCore φ) (s : State α) :
    reset (scaleState φ s) = scaleState φ (reset s) := by
  have hz : φ (Num.zero : α) = Num.zero := h.zero
  simp only [scaleState, reset, scaleMean, Mean.init, hz]

/-- sharper form of `run_scale_equivariant`: only the multiplicative clauses for the constants of `c` -/
theorem run_scale_equivariant_consts {φ : α → α} (h : ScaleHomCore φ) (c : Cfg α) (hm : KindMul φ c)
    (xs : List α) : runL (scaleCfg φ c) (xs.map φ) = scaleState φ (runL c xs) := by
  induction xs using List.reverseRecOn with
  | nil => exact (init_scale h).symm
  | append_singleton xs x ih =>
    rw [List.map_append, List.map_singleton, runL_snoc, runL_snoc, ih, step_scale h c hm]

/-- sharper form of `run_scale_equivariant_history` -/
theorem run_scale_equivariant_history_consts {φ : α → α} (h : ScaleHomCore φ) (c : Cfg α) (hm : KindMul φ c)
    (ops : List (Op α)) :
    (CUSUMFam.machine (scaleCfg φ c)).run (ops.map (mapOp φ)) = scaleState φ ((CUSUMFam.machine c).run ops) := by
  induction ops using List.reverseRecOn with
  | nil => exact (init_scale h).symm
  | append_singleton ops op ih =>
    have hrun : ∀ (c' : Cfg α) (l : List (Op α)) (o : Op α),
        (CUSUMFam.machine c').run (l ++ [o]) = (CUSUMFam.machine c').apply ((CUSUMFam.machine c').run l) o := by
      intro c' l o
      simp [Machine.run, Machine.runFrom, List.foldl_append]
    rw [List.map_append, List.map_singleton, hrun, hrun, ih]
    cases op with
    | update v => exact step_scale h c hm _ v
    | reset => exact reset_scale h ((CUSUMFam.machine c).run ops)

/-- **run_scale_equivariant.**  For every carrier, every `φ` with `ScaleHom φ`, every configuration (all three
kinds) and every stream: the run of the rescaled problem (`delta`, `lambda` and every value mapped by `φ`) ends in
the state whose float fields are `φ` of the float fields of the unscaled run, with the same counters and the same
`drift` flag.  (Equality of whole states; apply it to `xs.take t` for "after every update", see `_take`.) -/
theorem run_scale_equivariant {φ : α → α} (h : ScaleHom φ) (c : Cfg α) (xs : List α) :
    runL (scaleCfg φ c) (xs.map φ) = scaleState φ (runL c xs) :=
  run_scale_equivariant_consts h.toScaleHomCore c (h.kindMul c) xs

theorem run_scale_equivariant_take {φ : α → α} (h : ScaleHom φ) (c : Cfg α) (xs : List α) (t : Nat) :
    runL (scaleCfg φ c) ((xs.map φ).take t) = scaleState φ (runL c (xs.take t)) := by
  rw [← List.map_take]; exact run_scale_equivariant h c _

/-- **run_scale_equivariant_history.**  The same after ANY history of updates and resets. -/
theorem run_scale_equivariant_history {φ : α → α} (h : ScaleHom φ) (c : Cfg α) (ops : List (Op α)) :
    (CUSUMFam.machine (scaleCfg φ c)).run (ops.map (mapOp φ)) = scaleState φ ((CUSUMFam.machine c).run ops) :=
  run_scale_equivariant_history_consts h.toScaleHomCore c (h.kindMul c) ops

/-- … and after every operation of the history (every prefix) -/
theorem run_scale_equivariant_history_take {φ : α → α} (h : ScaleHom φ) (c : Cfg α) (ops : List (Op α))
    (k : Nat) :
    (CUSUMFam.machine (scaleCfg φ c)).run ((ops.map (mapOp φ)).take k)
      = scaleState φ ((CUSUMFam.machine c).run (ops.take k)) := by
  rw [← List.map_take]; exact run_scale_equivariant_history h c _

/-- the field-by-field reading of `run_scale_equivariant_history` -/
theorem run_scale_equivariant_fields {φ : α → α} (h : ScaleHom φ) (c : Cfg α) (ops : List (Op α)) :
    let s' := (CUSUMFam.machine (scaleCfg φ c)).run (ops.map (mapOp φ))
    let s := (CUSUMFam.machine c).run ops
    s'.n = s.n ∧ s'.drift = s.drift ∧ s'.sum = φ s.sum ∧ s'.mean.mean = φ s.mean.mean ∧ s'.mean.n = s.mean.n := by
  simp only [run_scale_equivariant_history h c ops]
  exact ⟨rfl, rfl, rfl, rfl, rfl⟩

/-- the verdict sequence of a history: the `drift` flag after each prefix (`k = 0 … ops.length`) -/
def verdicts (c : Cfg α) (ops : List (Op α)) : List Bool :=
  (List.range (ops.length + 1)).map (fun k => ((CUSUMFam.machine c).run (ops.take k)).drift)

/-- **drift_scale_invariant.**  The verdict sequences of the rescaled and of the unscaled problem are identical
(every carrier, all kinds, any history with resets). -/
theorem drift_scale_invariant {φ : α → α} (h : ScaleHom φ) (c : Cfg α) (ops : List (Op α)) :
    verdicts (scaleCfg φ c) (ops.map (mapOp φ)) = verdicts c ops := by
  unfold verdicts
  rw [List.length_map]
  apply List.map_congr_left
  intro k _
  rw [run_scale_equivariant_history_take h c ops k]
  rfl

/-- pointwise form, streams without reset -/
theorem drift_scale_invariant_take {φ : α → α} (h : ScaleHom φ) (c : Cfg α) (xs : List α) (t : Nat) :
    (runL (scaleCfg φ c) ((xs.map φ).take t)).drift = (runL c (xs.take t)).drift := by
  rw [run_scale_equivariant_take h c xs t]; rfl

end AnyCarrier

/-! ## 2. The instance on ℝ: multiplication by any positive constant -/

/-- **scaleHom_real.**  Over ℝ, `x ↦ k * x` satisfies every clause of `ScaleHom` as soon as `k > 0`. -/
theorem scaleHom_real (k : ℝ) (hk : 0 < k) : ScaleHom (fun x : ℝ => k * x) :=
  { zero := by simp
    add := fun a b => mul_add k a b
    sub := fun a b => mul_sub k a b
    divNat := fun a n => (mul_div_assoc k a _).symm
    lt := fun a b => by
      rw [Bool.eq_iff_iff, RealNum.lt_iff, RealNum.lt_iff]
      exact mul_lt_mul_iff_of_pos_left hk
    mul := fun c a => mul_left_comm k c a }

/-- `k > 0` is exactly what is needed: for `k ≤ 0` the comparison clause fails (order reversed or collapsed) -/
theorem scaleHom_real_iff (k : ℝ) : ScaleHom (fun x : ℝ => k * x) ↔ 0 < k := by
  constructor
  · intro h
    have h01 := h.lt 0 1
    rw [Bool.eq_iff_iff, RealNum.lt_iff, RealNum.lt_iff] at h01
    have := h01.mpr one_pos
    simpa using this
  · exact scaleHom_real k

/-- the `le` comparison (not used by the CUSUM family, recorded for reuse) is preserved as well -/
theorem scale_le_real (k : ℝ) (hk : 0 < k) (a b : ℝ) : Num.le (k * a) (k * b) = Num.le a b := by
  rw [Bool.eq_iff_iff, RealNum.le_iff, RealNum.le_iff]
  exact mul_le_mul_iff_of_pos_left hk

/-! ### the textbook recurrence scales -/

/-- the arithmetic mean is homogeneous.  (`xs ≠ []` is assumed so that the statement never rests on `0 / 0 = 0`.) -/
theorem amean_scale (k : ℝ) (xs : List ℝ) (_hne : xs ≠ []) : amean (xs.map (fun x => k * x)) = k * amean xs := by
  have hsum : ∀ l : List ℝ, (l.map (fun x => k * x)).sum = k * l.sum := by
    intro l
    induction l with
    | nil => simp
    | cons a l ih => simp only [List.map_cons, List.sum_cons, ih]; ring
  unfold amean
  rw [hsum, List.length_map, mul_div_assoc]

/-- one step of the recurrence is positively homogeneous in `(g, m, x, delta)`; `k ≥ 0` is used by cusum's
`max 0 ·` only -/
theorem specStep_scale (k : ℝ) (hk : 0 ≤ k) (c : Cfg ℝ) (g m x : ℝ) :
    specStep (scaleCfg (fun x => k * x) c) (k * g) (k * m) (k * x) = k * specStep c g m x := by
  unfold specStep
  simp only [scaleCfg]
  cases c.kind with
  | cusum =>
    simp only []
    rw [mul_max_of_nonneg _ _ hk, mul_zero]
    congr 1; ring
  | pageHinkley => simp only []; ring
  | gma => simp only []; ring

/-- **specG_scale.**  The textbook statistic of the rescaled problem is `k` times the statistic of the original
problem, for every `k ≥ 0` (all kinds, all streams). -/
theorem specG_scale (k : ℝ) (hk : 0 ≤ k) (c : Cfg ℝ) (xs : List ℝ) :
    specG (scaleCfg (fun x => k * x) c) (xs.map (fun x => k * x)) = k * specG c xs := by
  induction xs using List.reverseRecOn with
  | nil => simp
  | append_singleton xs x ih =>
    have h := amean_scale k (xs ++ [x]) (by simp)
    simp only [List.map_append, List.map_cons, List.map_nil] at h ⊢
    rw [specG_snoc, specG_snoc, ih, h, specStep_scale k hk]

/-- the textbook verdict `minN ≤ t ∧ lambda < g_t` is invariant under rescaling by `k > 0` -/
theorem specG_verdict_scale (k : ℝ) (hk : 0 < k) (c : Cfg ℝ) (xs : List ℝ) :
    ((scaleCfg (fun x => k * x) c).minN ≤ (xs.map (fun x => k * x)).length ∧
      (scaleCfg (fun x => k * x) c).lambda < specG (scaleCfg (fun x => k * x) c) (xs.map (fun x => k * x)))
    ↔ (c.minN ≤ xs.length ∧ c.lambda < specG c xs) := by
  rw [specG_scale k hk.le, List.length_map]
  simp only [scaleCfg]
  rw [mul_lt_mul_iff_of_pos_left hk]

/-- **Corollary over ℝ** (model form): rescaling the whole problem (values, `delta`, `lambda`) by any `k > 0`
multiplies `sum` and the running mean by `k` and leaves counters and the verdict unchanged, after any history. -/
theorem run_scale_real (k : ℝ) (hk : 0 < k) (c : Cfg ℝ) (ops : List (Op ℝ)) :
    let s' := (CUSUMFam.machine (scaleCfg (fun x => k * x) c)).run (ops.map (mapOp (fun x => k * x)))
    let s := (CUSUMFam.machine c).run ops
    s'.n = s.n ∧ s'.drift = s.drift ∧ s'.sum = k * s.sum ∧ s'.mean.mean = k * s.mean.mean ∧ s'.mean.n = s.mean.n :=
  run_scale_equivariant_fields (scaleHom_real k hk) c ops

/-- … and the verdict sequences coincide -/
theorem drift_scale_invariant_real (k : ℝ) (hk : 0 < k) (c : Cfg ℝ) (ops : List (Op ℝ)) :
    verdicts (scaleCfg (fun x => k * x) c) (ops.map (mapOp (fun x => k * x))) = verdicts c ops :=
  drift_scale_invariant (scaleHom_real k hk) c ops

/-! ### `k > 0` is needed -/

/-- **scale_needs_pos_witness.**  cusum, `lambda = 1`, `delta = 0`, `minN = 1`.
* `k = -1`: after the single value `0` the statistic is `0`; unscaled `0 > 1` is false (no drift), rescaled
  `-0 > -1` is true (drift).
* `k = 0`: on the stream `0, 3` the unscaled detector alarms (`g_2 = 3/2 > 1`), the rescaled problem is identically
  `0` and never alarms. -/
theorem scale_needs_pos_witness :
    let c : Cfg ℝ := ⟨.cusum, 1, 0, 0, 1⟩
    ((runL c [0]).drift = false ∧
      (runL (scaleCfg (fun x => (-1) * x) c) ([0].map (fun x => (-1) * x))).drift = true) ∧
    ((runL c [0, 3]).drift = true ∧
      (runL (scaleCfg (fun x => 0 * x) c) ([0, 3].map (fun x => 0 * x))).drift = false) := by
  intro c
  refine ⟨⟨?_, ?_⟩, ⟨?_, ?_⟩⟩
  · rw [run_drift]; norm_num [c, specG, specFrom, specStep, amean]
  · rw [run_drift]; norm_num [c, scaleCfg, specG, specFrom, specStep, amean]
  · rw [run_drift]; norm_num [c, specG, specFrom, specStep, amean]
    exact List.cons_ne_nil _ _
  · rw [run_drift]; norm_num [c, scaleCfg, specG, specFrom, specStep, amean]

/-! ## 3. Non-vacuity: a concrete 6-value stream through `run_scale_equivariant` at ℝ, `k = 1/1024` -/

/-- cusum, `lambda = 1`, `delta = 1/4`, `minN = 2`, stream `1, 2, 1, 2, 1, 8`: `g = 0, 1/4, 0, 1/4, 0, 21/4`, so the
unscaled detector alarms at `t = 6`; the problem rescaled by `1/1024` alarms too and its statistic is `21/4096`. -/
example :
    let c : Cfg ℝ := ⟨.cusum, 1, 1/4, 0, 2⟩
    let xs : List ℝ := [1, 2, 1, 2, 1, 8]
    let φ : ℝ → ℝ := fun x => (1 / 1024) * x
    (runL (scaleCfg φ c) (xs.map φ)).drift = true ∧ (runL (scaleCfg φ c) (xs.map φ)).sum = 21 / 4096 ∧
    (runL (scaleCfg φ c) ((xs.map φ).take 5)).drift = false := by
  intro c xs φ
  have hφ : ScaleHom φ := scaleHom_real (1 / 1024) (by norm_num)
  refine ⟨?_, ?_, ?_⟩
  · rw [run_scale_equivariant hφ]
    show (runL c xs).drift = true
    rw [run_drift]; norm_num [c, xs, specG, specFrom, specStep, amean]
    exact List.cons_ne_nil _ _
  · rw [run_scale_equivariant hφ]
    show φ (runL c xs).sum = 21 / 4096
    rw [run_sum]; norm_num [c, xs, φ, specG, specFrom, specStep, amean]
  · rw [run_scale_equivariant_take hφ]
    show (runL c (xs.take 5)).drift = false
    rw [run_drift]; norm_num [c, xs, specG, specFrom, specStep, amean]

/-! ## 2c. The instance on a binary floating-point carrier without overflow/underflow: multiplication by `2^k` -/

section Dyadic
open DyadicFloat

/-- **scaleHom_dyadic.**  On the `p`-bit binary floating-point carrier with unbounded exponent `Dy ρ p`
(`Lemmas/DyadicFloat.lean`; every operation is the exact operation followed by rounding of the mantissa with ANY
integer rounding `ρ`), exact multiplication by `2^k` (`k : ℤ`, so division by powers of two as well) satisfies
every clause of `ScaleHom`.  Every clause reduces to `rnd (2^k · q) = 2^k · rnd q` (`rnd_zpow_mul`). -/
theorem scaleHom_dyadic (ρ : ℚ → ℤ) (p : ℕ) (k : ℤ) : ScaleHom (Dy.scale2 (ρ := ρ) (p := p) k) :=
  { zero := by
      apply Dy.ext'
      rw [Dy.scale2_val, Dy.ofNat_val]
      simp
    add := fun a b => by
      apply Dy.ext'
      rw [Dy.scale2_val, Dy.add_val, Dy.add_val, Dy.scale2_val, Dy.scale2_val, ← mul_add, rnd_zpow_mul]
    sub := fun a b => by
      apply Dy.ext'
      rw [Dy.scale2_val, Dy.sub_val, Dy.sub_val, Dy.scale2_val, Dy.scale2_val, ← mul_sub, rnd_zpow_mul]
    divNat := fun a n => by
      apply Dy.ext'
      rw [Dy.scale2_val, Dy.div_val, Dy.div_val, Dy.scale2_val, ← rnd_zpow_mul, mul_div_assoc]
    lt := fun a b => by
      rw [Dy.lt_def, Dy.lt_def, Dy.scale2_val, Dy.scale2_val, decide_eq_decide]
      exact mul_lt_mul_iff_of_pos_left (two_zpow_pos k)
    mul := fun c a => by
      apply Dy.ext'
      rw [Dy.scale2_val, Dy.mul_val, Dy.mul_val, Dy.scale2_val, ← rnd_zpow_mul, mul_left_comm] }

/-- **Corollary (the harness's claim, minus overflow/underflow).**  On `Dy ρ p` the whole run of the problem
rescaled by `2^k` is the rescaled run, and the verdict sequences coincide — all kinds, any history with resets,
any precision `p`, any mantissa rounding `ρ`, any `k : ℤ`. -/
theorem run_scale_dyadic (ρ : ℚ → ℤ) (p : ℕ) (k : ℤ) (c : Cfg (Dy ρ p)) (ops : List (Op (Dy ρ p))) :
    (CUSUMFam.machine (scaleCfg (Dy.scale2 k) c)).run (ops.map (mapOp (Dy.scale2 k)))
      = scaleState (Dy.scale2 k) ((CUSUMFam.machine c).run ops) :=
  run_scale_equivariant_history (scaleHom_dyadic ρ p k) c ops

/-- the harness's read-back: dividing the float outputs of the rescaled run by `2^k` (exactly) returns the float
outputs of the unscaled run; counters and verdict need no read-back -/
theorem run_unscale_dyadic (ρ : ℚ → ℤ) (p : ℕ) (k : ℤ) (c : Cfg (Dy ρ p)) (ops : List (Op (Dy ρ p))) :
    let s' := (CUSUMFam.machine (scaleCfg (Dy.scale2 k) c)).run (ops.map (mapOp (Dy.scale2 k)))
    let s := (CUSUMFam.machine c).run ops
    Dy.scale2 (-k) s'.sum = s.sum ∧ Dy.scale2 (-k) s'.mean.mean = s.mean.mean ∧
    s'.n = s.n ∧ s'.mean.n = s.mean.n ∧ s'.drift = s.drift := by
  simp only [run_scale_dyadic]
  exact ⟨Dy.scale2_neg_scale2 k _, Dy.scale2_neg_scale2 k _, rfl, rfl, rfl⟩

theorem drift_scale_invariant_dyadic (ρ : ℚ → ℤ) (p : ℕ) (k : ℤ) (c : Cfg (Dy ρ p)) (ops : List (Op (Dy ρ p))) :
    verdicts (scaleCfg (Dy.scale2 k) c) (ops.map (mapOp (Dy.scale2 k))) = verdicts c ops :=
  drift_scale_invariant (scaleHom_dyadic ρ p k) c ops

/-- with round-to-nearest and `p ≥ 1` the exact scaling is the carrier's OWN rounded multiplication by the
representable constant `2^k` (`Dy.scale2_eq_mul_round`, `Dy.two_zpow_val_round`), so "multiply every input by `2^k`
in floating point" is a `ScaleHom` -/
theorem scaleHom_dyadic_mul (p : ℕ) (hp : 1 ≤ p) (k : ℤ) :
    ScaleHom (fun a : Dy round p => (Dy.mk' ((2 : ℚ) ^ k) : Dy round p) * a) := by
  have h : (fun a : Dy round p => (Dy.mk' ((2 : ℚ) ^ k) : Dy round p) * a) = Dy.scale2 k :=
    funext fun a => (Dy.scale2_eq_mul_round hp k a).symm
  rw [h]
  exact scaleHom_dyadic _ _ _

/-- the `le` comparison (not used by the CUSUM family, recorded for reuse) is preserved as well -/
theorem scale_le_dyadic (ρ : ℚ → ℤ) (p : ℕ) (k : ℤ) (a b : Dy ρ p) :
    Num.le (Dy.scale2 k a) (Dy.scale2 k b) = Num.le a b := by
  rw [Dy.le_def, Dy.le_def, Dy.scale2_val, Dy.scale2_val, decide_eq_decide]
  exact mul_le_mul_iff_of_pos_left (two_zpow_pos k)

/-- non-vacuity: binary64-like precision, round to nearest, scaling by `2^40` and by `2^-33` -/
example : ScaleHom (Dy.scale2 (ρ := round) (p := 53) 40) ∧ ScaleHom (Dy.scale2 (ρ := round) (p := 53) (-33)) :=
  ⟨scaleHom_dyadic _ _ _, scaleHom_dyadic _ _ _⟩

end Dyadic

/-! ## 4. Limits: a bounded exponent range breaks the invariance (witnesses on the finite carrier `Grid K s`) -/

section GridLimit
open Grid

/-- OVERFLOW: on the finite fixed-point carrier `Grid K s` (`Lemmas/StdModelIEEE.lean`: values `k/s`, `|k| ≤ K`,
NaN on overflow) doubling `x ↦ x + x` is NOT a `ScaleHom`: the comparison clause fails at the largest element,
whose double is NaN. -/
theorem grid_double_not_scaleHom_overflow (K s : ℕ) (hK : 1 ≤ K) : ¬ ScaleHom (fun x : Grid K s => x + x) := by
  intro h
  have h0 : |(0 : ℤ)| ≤ (K : ℤ) := by simp
  have hKK : |(K : ℤ)| ≤ (K : ℤ) := by rw [abs_of_nonneg (by positivity)]
  have hlt := h.lt (num 0 h0) (num K hKK)
  have hnan : (num K hKK : Grid K s) + num K hKK = nan := by
    rw [add_num]
    unfold pack
    rw [dif_neg]
    rw [abs_of_nonneg (by positivity)]
    have : (1 : ℤ) ≤ (K : ℤ) := by exact_mod_cast hK
    omega
  simp only [hnan, lt_nan, lt_num] at hlt
  simp at hlt
  omega

/-- ABSOLUTE QUANTUM (the fixed-point analogue of underflow): on `Grid 100 1` (the integers of magnitude `≤ 100`)
doubling does not commute with the division by the sample counter: `(1 / 3)` rounds to `0`, doubled `0`; but
`(1 + 1) / 3 = 2/3` rounds to `1`.  No overflow is involved. -/
theorem grid_double_not_scaleHom_quantum : ¬ ScaleHomCore (fun x : Grid 100 1 => x + x) := by
  intro h
  have h1 : |(1 : ℤ)| ≤ ((100 : ℕ) : ℤ) := by norm_num
  have hd := h.divNat (num 1 h1) 2
  have h3 : (Num.ofNat (2 + 1) : Grid 100 1) = num 3 (by norm_num) := by
    rw [ofNat_def]; exact pack_of_le (by norm_num)
  have r1 : round ((1 : ℤ) * ((1 : ℕ) : ℝ) / ((3 : ℤ) : ℝ) : ℝ) = 0 := by
    rw [round_eq, Int.floor_eq_iff]; norm_num
  have r2 : round (((1 + 1 : ℤ) : ℝ) * ((1 : ℕ) : ℝ) / ((3 : ℤ) : ℝ) : ℝ) = 1 := by
    rw [round_eq, Int.floor_eq_iff]; norm_num
  have e11 : (num 1 h1 : Grid 100 1) + num 1 h1 = num (1 + 1) (by norm_num) := by
    rw [add_num]; exact pack_of_le (by norm_num)
  have q1 : (num 1 h1 : Grid 100 1) / num 3 (by norm_num) = num 0 (by norm_num) := by
    rw [div_num, if_neg (by norm_num), r1]; exact pack_of_le (by norm_num)
  have q2 : (num (1 + 1) (by norm_num) : Grid 100 1) / num 3 (by norm_num) = num 1 h1 := by
    rw [div_num, if_neg (by norm_num), r2]; exact pack_of_le (by norm_num)
  have e00 : (num 0 (by norm_num) : Grid 100 1) + num 0 (by norm_num) = num 0 (by norm_num) := by
    rw [add_num]; exact pack_of_le (by norm_num)
  simp only [h3, q1, e11, q2, e00] at hd
  cases hd

/- UNPROVED (full statement): the RELATIVISED form for a format with a BOUNDED exponent range (IEEE binary64 itself).
   Let `F` be a `p`-bit binary format with exponents in `[emin, emax]`, gradual underflow, NaN/±∞, and let
   `φ = (2^k · ·)`.  Then for every configuration, every history `ops` such that NO intermediate result of the
   unscaled run and of the rescaled run overflows or is subnormal (a `Safe`-style predicate in the manner of
   `C07s.Safe`, on both runs), the conclusion of `run_scale_equivariant_history` holds.
   This needs a guarded variant of `ScaleHom` (each clause only for operands/results in the normal range) threaded
   through the run together with a range invariant; neither the guarded structure nor a bounded-exponent carrier is
   defined here.  What IS proved is the unbounded-exponent case (`scaleHom_dyadic`) and that the guard cannot be
   dropped on a finite carrier (`grid_double_not_scaleHom_overflow`, `grid_double_not_scaleHom_quantum`). -/

end GridLimit

end Frouros.C07t

#print axioms Frouros.C07t.ScaleHom.kindMul
#print axioms Frouros.C07t.scaleHom_id
#print axioms Frouros.C07t.ScaleHom.comp
#print axioms Frouros.C07t.ScaleHom.iterate
#print axioms Frouros.C07t.run_scale_equivariant_consts
#print axioms Frouros.C07t.run_scale_equivariant_history_consts
#print axioms Frouros.C07t.run_scale_equivariant
#print axioms Frouros.C07t.run_scale_equivariant_take
#print axioms Frouros.C07t.run_scale_equivariant_history
#print axioms Frouros.C07t.run_scale_equivariant_history_take
#print axioms Frouros.C07t.run_scale_equivariant_fields
#print axioms Frouros.C07t.drift_scale_invariant
#print axioms Frouros.C07t.drift_scale_invariant_take
#print axioms Frouros.C07t.scaleHom_real
#print axioms Frouros.C07t.scaleHom_real_iff
#print axioms Frouros.C07t.specG_scale
#print axioms Frouros.C07t.specG_verdict_scale
#print axioms Frouros.C07t.run_scale_real
#print axioms Frouros.C07t.drift_scale_invariant_real
#print axioms Frouros.C07t.scale_needs_pos_witness
#print axioms Frouros.C07t.scaleHom_dyadic
#print axioms Frouros.C07t.run_scale_dyadic
#print axioms Frouros.C07t.drift_scale_invariant_dyadic
#print axioms Frouros.C07t.run_unscale_dyadic
#print axioms Frouros.C07t.scaleHom_dyadic_mul
#print axioms Frouros.DyadicFloat.rnd_round_idem
#print axioms Frouros.DyadicFloat.Dy.scale2_eq_mul_round
#print axioms Frouros.C07t.grid_double_not_scaleHom_overflow
#print axioms Frouros.C07t.grid_double_not_scaleHom_quantum
#print axioms Frouros.DyadicFloat.rnd_zpow_mul
#print axioms Frouros.DyadicFloat.rnd_two_mul
#print axioms Frouros.DyadicFloat.rnd_round_error
